#!/bin/bash
# Regression suite for the machinery itself: every seeded change under /verif/seeded must be
# confirmed (applies, builds, pinned suite passes, demonstration fails with / passes without it)
# and must make its property's check report a VIOLATION, except the ones listed in
# seeded/EXPECTED_UNDETECTED (changes that do not break the property as the checks read it).
# Also: the unchanged tree must be silent. Usage: tools/selftest.sh [id-prefix]
cd /verif
rc=0
for d in seeded/${1}*/; do
  id=$(basename $d)
  [ -f $d/meta.json ] || continue
  props=$(python3 -c "import json;m=json.load(open('$d/meta.json'));print(','.join((m.get('detections') or {m['property']:0}).keys()))")
  out=$(python3 tools/mutant.py $d --props $props 2>&1)
  st=$(echo "$out" | python3 -c "import json,sys; d=json.load(sys.stdin); print(('confirmed' if d['confirmed'] else 'NOT-CONFIRMED'), ('DETECTED' if d.get('detected') else 'missed'))" 2>/dev/null || echo "ERROR")
  expect=DETECTED
  grep -qx "$id" seeded/EXPECTED_UNDETECTED 2>/dev/null && expect=missed
  echo "$id $st (expected $expect)"
  case "$st" in
    "confirmed $expect") ;;
    *) rc=1;;
  esac
done
exit $rc
