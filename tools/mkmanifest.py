#!/usr/bin/env python3
"""Regenerate /verif/MANIFEST.json from props.json (claimed checks) and na.json (not-applicable list)."""
import json, os, subprocess
V = os.path.dirname(os.path.dirname(os.path.abspath(__file__)))
props = json.load(open(os.path.join(V, "props.json")))
na = json.load(open(os.path.join(V, "na.json"))) if os.path.exists(os.path.join(V, "na.json")) else []
allids = [json.loads(l)["id"] for l in open(os.path.join(V, "properties.jsonl"))]
props = [p for p in props if p.get("functions") or p.get("lemmas") or p.get("static")]  # claim only where contract obligations exist
claimed = {p["id"] for p in props}
checks = []
for p in sorted(props, key=lambda p: p["id"]):
    checks.append({
        "property_id": p["id"],
        "quick_cmd": "./check %s --tier quick" % p["id"],
        "thorough_cmd": "./check %s --tier thorough" % p["id"],
        "evidence_file": "/verif/evidence/%s.json" % p["id"],
        "replay_cmd_template": "./check --replay {path}",
        "engine": "govc",
        "level_claimed": {"category": p["level"], "text": p.get("level_text", p.get("explanation", "")), "design_ref": p.get("design_ref", "DESIGN.md section 4, " + p["id"])},
        "level_note": p.get("level_note", "; ".join(p.get("assumptions", []))),
        "technique": p.get("technique", "contract-based deductive verification: VCs generated from go/ssa of the real functions, discharged by z3/cvc5; bounded stand-ins labelled"),
    })
nalist = [x for x in na if x["property_id"] not in claimed]
for i in allids:
    if i not in claimed and i not in {x["property_id"] for x in nalist}:
        nalist.append({"property_id": i, "reason": "check not built yet in this session (planned in DESIGN.md section 4); not claimed until its obligations discharge on the pinned tree"})
try:
    hooks = subprocess.check_output(["git", "-C", "/repo", "log", "--format=%H", "--grep=^verif hook"], text=True).split()
except Exception:
    hooks = []
m = {
    "version": 1,
    "setup_cmd": "cd /verif/govc && GOFLAGS=-mod=mod GOPROXY=off GOSUMDB=off GOTOOLCHAIN=local go build -o ../bin/govc .",
    "hooks": {
        "guard": "verif",
        "enable": "go build tag: -tags verif (only adds comment-only contract files <pkg>/verif_contracts.go; bounded tests are injected with go test -overlay and never written into the repository)",
        "baseline_off_cmd": "cd /repo && GOFLAGS=-mod=mod GOPROXY=off GOSUMDB=off go test -vet=off -count=1 -timeout 25m ./...",
        "source_commits": hooks,
        "add_only": True,
    },
    "engines": [{"name": "govc", "path": "/verif/govc", "serves_properties": sorted(claimed),
                 "kind_free_text": "purpose-built verification-condition generator for Go: symbolic execution of go/ssa (naive form) of the real functions against //@ contracts, loop invariants and variants, finite tables read from code literals, lemmas over spec functions; obligations raced on z3 4.8.12 / z3 5.1.0 / cvc5 1.0; bounded back end executes contract clauses on the real code via go test -overlay"}],
    "checks": checks,
    "not_applicable": nalist,
    "notes": "See DESIGN.md. Evidence files are rewritten by every run; known findings live in known_findings.json.",
}
json.dump(m, open(os.path.join(V, "MANIFEST.json"), "w"), indent=1)
print("claimed", len(checks), "not_applicable", len(nalist))
