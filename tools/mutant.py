#!/usr/bin/env python3
"""Confirm a candidate property-breaking change and run the checks against it.

usage: mutant.py <mutant-dir> [--keep <seeded-id>] [--tier quick|thorough] [--props C01,C03]

<mutant-dir> holds patch.diff, demo_test.go (first line names its package dir), meta.json.
Steps (scratch worktree outside /repo and /verif, removed afterwards):
  1. patch applies to HEAD; go build; existing suite passes with it
  2. demonstration fails with the change, passes without it
  3. apply to /repo, run ./check <prop> for the property (or the listed ones), undo
With --keep the confirmed mutant is stored as /verif/seeded/<id>/ with what was run.
"""
import json, os, re, shutil, subprocess, sys, tempfile

ENV = dict(os.environ, GOFLAGS="-mod=mod", GOPROXY="off", GOSUMDB="off", GOTOOLCHAIN="local")


def run(cmd, cwd=None, timeout=1800):
    p = subprocess.run(cmd, cwd=cwd, env=ENV, shell=isinstance(cmd, str), capture_output=True, text=True, timeout=timeout)
    return p.returncode, p.stdout + p.stderr


def demo_pkg_dir(demo_path, patch_path):
    first = open(demo_path).readline()
    m = re.search(r"([A-Za-z0-9_./-]*[A-Za-z0-9_]+)/?\s*(\)|$|\.|,|;| )", first.replace("`", " "))
    cands = re.findall(r"(?:^|[\s`'\"(])((?:io|transform|clone|primers|seqhash|random|checks|cmd)(?:/[A-Za-z0-9_]+)*)", first)
    if cands:
        return cands[0].rstrip("/")
    if re.search(r"\broot\b|package poly\b|repository root|module root", first):
        return "."
    # fall back: package clause + patch paths
    pkg = None
    for ln in open(demo_path):
        if ln.startswith("package "):
            pkg = ln.split()[1].replace("_test", "")
            break
    paths = re.findall(r"^\+\+\+ b/(.*)$", open(patch_path).read(), re.M)
    for p in paths:
        d = os.path.dirname(p) or "."
        if os.path.basename(d) == pkg or (d == "." and pkg == "poly"):
            return d
    return os.path.dirname(paths[0]) or "." if paths else "."


def main():
    args = sys.argv[1:]
    mdir = os.path.abspath(args[0])
    keep = args[args.index("--keep") + 1] if "--keep" in args else None
    tier = args[args.index("--tier") + 1] if "--tier" in args else "quick"
    meta = json.load(open(os.path.join(mdir, "meta.json")))
    meta["property"] = re.search(r"C\d+", str(meta["property"])).group(0)
    props = args[args.index("--props") + 1].split(",") if "--props" in args else [meta["property"]]
    patch = os.path.join(mdir, "patch.diff")
    demo = os.path.join(mdir, "demo_test.go")
    out = {"mutant": mdir, "property": meta["property"], "ran": []}
    wt = tempfile.mkdtemp(prefix="mutcheck_", dir="/tmp")
    os.rmdir(wt)
    try:
        rc, o = run(["git", "-C", "/repo", "worktree", "add", "--detach", "-q", wt, "HEAD"])
        assert rc == 0, o
        rc, o = run(["git", "apply", "--check", patch], cwd=wt)
        out["applies"] = rc == 0
        if rc != 0:
            out["error"] = o[-500:]
            print(json.dumps(out, indent=1)); return 1
        run(["git", "apply", patch], cwd=wt)
        rc, o = run("go build ./... && go test -vet=off -count=1 ./...", cwd=wt)
        out["suite_passes_with_change"] = rc == 0
        out["ran"].append("go build ./... && go test -vet=off -count=1 ./...  (with change): rc=%d" % rc)
        if rc != 0:
            out["suite_output"] = o[-1500:]
        pkg = demo_pkg_dir(demo, patch)
        out["demo_pkg"] = pkg
        dst = os.path.join(wt, pkg, "zz_demo_test.go")
        shutil.copy(demo, dst)
        rc1, o1 = run("go test -vet=off -count=1 -timeout 300s ./%s" % pkg, cwd=wt)
        out["demo_fails_with_change"] = rc1 != 0
        out["ran"].append("go test ./%s with demo + change: rc=%d" % (pkg, rc1))
        os.remove(dst)
        run(["git", "checkout", "--", "."], cwd=wt)
        run(["git", "clean", "-fdq"], cwd=wt)  # a change may add new files
        shutil.copy(demo, dst)
        rc2, o2 = run("go test -vet=off -count=1 -timeout 300s ./%s" % pkg, cwd=wt)
        out["demo_passes_without_change"] = rc2 == 0
        out["ran"].append("go test ./%s with demo, no change: rc=%d" % (pkg, rc2))
        if rc2 != 0:
            out["demo_output_clean"] = o2[-1200:]
        if rc1 == 0:
            out["demo_output_changed"] = o1[-800:]
        # run the checks against the change (applied in the scratch worktree; /repo itself stays untouched)
        os.remove(dst)
        detections = {}
        rc, o = run(["git", "apply", patch], cwd=wt)
        assert rc == 0, o
        for pid in props:
            rc, o = run(["/verif/check", pid, "--tier", tier, "-no-evidence", "-repo", wt], cwd="/verif", timeout=3600)
            viol = [l for l in o.splitlines() if l.startswith("VIOLATION") or l.startswith("  obligation")]
            detections[pid] = {"exit": rc, "lines": viol[:12]}
            if rc not in (0, 1):
                detections[pid]["engine_output_tail"] = o[-1500:]
            out["ran"].append("patch applied in scratch worktree; ./check %s --tier %s -repo <worktree>: rc=%d" % (pid, tier, rc))
        out["detections"] = detections
        out["detected"] = any(d["exit"] == 1 for d in detections.values())
    finally:
        run(["git", "-C", "/repo", "worktree", "remove", "--force", wt])
        shutil.rmtree(wt, ignore_errors=True)
    out["confirmed"] = bool(out.get("suite_passes_with_change") and out.get("demo_fails_with_change") and out.get("demo_passes_without_change"))
    if keep and out["confirmed"]:
        sd = os.path.join("/verif/seeded", keep)
        os.makedirs(sd, exist_ok=True)
        shutil.copy(patch, os.path.join(sd, "patch.diff"))
        shutil.copy(demo, os.path.join(sd, "demo_test.go"))
        m = dict(meta)
        m.update({"demo_package_dir": out["demo_pkg"], "confirmed_by": out["ran"], "detected_by_checks": out.get("detected"),
                  "detections": out.get("detections")})
        json.dump(m, open(os.path.join(sd, "meta.json"), "w"), indent=1)
    print(json.dumps(out, indent=1))
    return 0


if __name__ == "__main__":
    sys.exit(main())
