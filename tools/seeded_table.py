#!/usr/bin/env python3
"""Regenerate the seeded-corpus table of DESIGN.md (section 7) from /verif/seeded/*/meta.json.

The table sits between the markers <!-- seeded-table:begin --> and <!-- seeded-table:end -->.
"""
import glob, json, os, re

V = "/verif"


def is_contract(name):
    # bounded clauses are named <pkg>.<Func>/post/<label> with a [class]; SMT/static/attach obligations have no class
    return True


def main():
    rows = []
    n = det = bycon = bybnd = both = 0
    missed = []
    other_prop = []
    for d in sorted(glob.glob(os.path.join(V, "seeded", "C*"))):
        mp = os.path.join(d, "meta.json")
        if not os.path.exists(mp):
            continue
        m = json.load(open(mp))
        sid = os.path.basename(d)
        n += 1
        con, bnd = [], []
        for pid, dd in (m.get("detections") or {}).items():
            for ln in dd.get("lines", []):
                mm = re.match(r"\s+obligation (\S+) \[(.*?)\]", ln)
                if not mm:
                    continue
                name, cls = mm.group(1), mm.group(2)
                # SMT / static / attach / engine obligations carry no class or a solver status
                if cls in ("", "timeout", "unknown", "sat", "failed", "error") or name.startswith("static/") or name.startswith("lemma/") or "/witness/" in name:
                    if name not in con:
                        con.append(name)
                else:
                    s = "%s [%s]" % (name, cls)
                    if s not in bnd:
                        bnd.append(s)
            if dd.get("exit") == 1 and pid != sid.split("_")[0]:
                other_prop.append((sid, pid))
        if m.get("detected_by_checks"):
            det += 1
        else:
            missed.append(sid)
        if con:
            bycon += 1
        if bnd:
            bybnd += 1
        if con and bnd:
            both += 1
        summ = (m.get("summary") or m.get("change") or m.get("description") or "")
        summ = re.sub(r"\s+", " ", str(summ)).replace("|", "/")[:150]
        fmt = lambda xs: "<br>".join("`%s`" % x for x in xs[:2]) if xs else "—"
        rows.append("| %s | %s | %s | %s |" % (sid, summ, fmt(con), fmt(bnd)))
    head = ("%d changes confirmed; %d raise a VIOLATION in the quick tier of the checks run for them. "
            "%d are caught by a contract obligation (SMT / static / witness run), %d by a bounded clause, %d by both. Not caught: %s.\n\n"
            % (n, det, bycon, bybnd, both, ", ".join(missed) or "none"))
    table = head + "| id | change | contract obligations that fail (first two) | bounded clauses that fail (first two) |\n|---|---|---|---|\n" + "\n".join(rows) + "\n"
    p = os.path.join(V, "DESIGN.md")
    s = open(p).read()
    b, e = "<!-- seeded-table:begin -->\n", "<!-- seeded-table:end -->\n"
    if b in s:
        i, j = s.index(b) + len(b), s.index(e)
        s = s[:i] + table + s[j:]
    else:
        # first use: replace the old hand-inserted table
        i = s.index(re.search(r"^\d+ changes confirmed;", s, re.M).group(0))
        j = s.index("Notes on the corpus.")
        s = s[:i] + b + table + e + "\n" + s[j:]
    open(p, "w").write(s)
    print(head)


if __name__ == "__main__":
    main()
