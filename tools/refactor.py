#!/usr/bin/env python3
"""Run the checks against a behaviour-preserving refactoring (false-alarm measurement).

usage: refactor.py <dir with patch.diff, meta.json> [--keep <id>] [--props C01,C02]

The patch is applied in a scratch worktree outside /repo and /verif; the pinned suite must
pass with it; then the quick check of every property whose functions under contract are
touched (by name) is run with -repo <worktree>. Any VIOLATION is a false alarm.
With --keep the refactoring is stored as /verif/seeded/refactors/<id>/ with the outcome.
"""
import json, os, re, shutil, subprocess, sys, tempfile

ENV = dict(os.environ, GOFLAGS="-mod=mod", GOPROXY="off", GOSUMDB="off", GOTOOLCHAIN="local")


def run(cmd, cwd=None, timeout=1800):
    p = subprocess.run(cmd, cwd=cwd, env=ENV, shell=isinstance(cmd, str), capture_output=True, text=True, timeout=timeout)
    return p.returncode, p.stdout + p.stderr


def props_for(patch_text, meta):
    props = json.load(open("/verif/props.json"))
    L = props if isinstance(props, list) else list(props.values())
    files = set(re.findall(r"^\+\+\+ b/(.*)$", patch_text, re.M))
    dirs = set(os.path.dirname(f) or "." for f in files)
    out = []
    for c in L:
        pk = set()
        for f in c.get("functions", []) + [s.split(":", 1)[1].split(";")[0] for s in c.get("static", [])]:
            if f.startswith("poly."):
                pk.add(".")
            else:
                pk.add(f.rsplit(".", 1)[0] if "/" in f or "." in f else f)
                # "io/genbank.Build" -> "io/genbank"; "transform/codon.Table.chooser" -> "transform/codon"
                m = re.match(r"([a-z/]+)\.", f)
                if m:
                    pk.add(m.group(1))
        for b in c.get("bounded", []):
            pk.add(b["pkg"])
        if pk & dirs:
            out.append(c["id"])
    return out


def main():
    args = sys.argv[1:]
    mdir = os.path.abspath(args[0])
    keep = args[args.index("--keep") + 1] if "--keep" in args else None
    patch = os.path.join(mdir, "patch.diff")
    meta = json.load(open(os.path.join(mdir, "meta.json")))
    ptxt = open(patch).read()
    props = args[args.index("--props") + 1].split(",") if "--props" in args else props_for(ptxt, meta)
    out = {"refactoring": mdir, "props": props, "ran": []}
    wt = tempfile.mkdtemp(prefix="refcheck_", dir="/tmp")
    os.rmdir(wt)
    try:
        rc, o = run(["git", "-C", "/repo", "worktree", "add", "--detach", "-q", wt, "HEAD"])
        assert rc == 0, o
        rc, o = run(["git", "apply", patch], cwd=wt)
        out["applies"] = rc == 0
        if rc != 0:
            out["error"] = o[-500:]
            print(json.dumps(out, indent=1)); return 1
        rc, o = run("go build ./... && go test -vet=off -count=1 ./...", cwd=wt)
        out["suite_passes"] = rc == 0
        out["ran"].append("go build ./... && go test -vet=off -count=1 ./...  (with the refactoring): rc=%d" % rc)
        alarms = {}
        for pid in props:
            rc, o = run(["/verif/check", pid, "-no-evidence", "-repo", wt], cwd="/verif", timeout=3600)
            viol = [l for l in o.splitlines() if l.startswith("VIOLATION") or l.startswith("  obligation")]
            alarms[pid] = {"exit": rc, "lines": viol[:12]}
            if rc not in (0, 1):
                alarms[pid]["engine_output_tail"] = o[-1500:]
            out["ran"].append("./check %s -no-evidence -repo <worktree>: rc=%d" % (pid, rc))
        out["alarms"] = alarms
        out["false_alarm"] = any(a["exit"] != 0 for a in alarms.values())
    finally:
        run(["git", "-C", "/repo", "worktree", "remove", "--force", wt])
        shutil.rmtree(wt, ignore_errors=True)
    if keep and out.get("suite_passes"):
        sd = os.path.join("/verif/seeded/refactors", keep)
        os.makedirs(sd, exist_ok=True)
        shutil.copy(patch, os.path.join(sd, "patch.diff"))
        m = dict(meta)
        m.update({"checked_with": out["ran"], "false_alarm": out["false_alarm"], "alarms": out["alarms"]})
        json.dump(m, open(os.path.join(sd, "meta.json"), "w"), indent=1)
    print(json.dumps(out, indent=1))
    return 0


if __name__ == "__main__":
    sys.exit(main())
