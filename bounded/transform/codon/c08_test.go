package codon

// Bounded back end for C08: codon usage tables count exactly and never leak
// between calls.
//
// Oracles: in-frame triplet counting written here over a 64-entry array; a
// value-semantics model of tables (letter and weight per codon index, start and
// stop sets) on which the history operations are evaluated independently of the
// library; the pristine default tables from NCBI gc.prt written as differences
// from the standard code.
//
// The history clause runs last. Before every history the weights of the default
// tables are put back to 1 *through a table handed out by GetCodonTable* (which
// works exactly when the defect is present and is a no-op otherwise), so each
// reported history is a reproduction from a pristine process state.
//
// Because every history that re-weights a table handed out by GetCodonTable
// stops at that known defect, the machine can also load a register with a
// private deep copy of a default table (made by the harness, c08Copy). The
// directed family of histories built on such copies re-weights the result of
// add/compromise (in either operand order, including operands whose weights
// are all 0) and looks at the operand kept in the other register: classes
// sum-aliases-operand / compromise-aliases-operand.

import (
	"fmt"
	"math"
	"path/filepath"
	"strings"
	"sync"
	"testing"
)

// ---- NCBI oracle (differences from the standard code) -----------------------

var c08Standard = map[string]string{
	"F": "TTT TTC", "L": "TTA TTG CTT CTC CTA CTG", "I": "ATT ATC ATA", "M": "ATG",
	"V": "GTT GTC GTA GTG", "S": "TCT TCC TCA TCG AGT AGC", "P": "CCT CCC CCA CCG",
	"T": "ACT ACC ACA ACG", "A": "GCT GCC GCA GCG", "Y": "TAT TAC", "*": "TAA TAG TGA",
	"H": "CAT CAC", "Q": "CAA CAG", "N": "AAT AAC", "K": "AAA AAG", "D": "GAT GAC",
	"E": "GAA GAG", "C": "TGT TGC", "W": "TGG", "R": "CGT CGC CGA CGG AGA AGG",
	"G": "GGT GGC GGA GGG",
}

type c08Code struct {
	id                  int
	diff, starts, stops string
}

var c08Codes = []c08Code{
	{1, "", "TTG CTG ATG", "TAA TAG TGA"},
	{2, "AGA=* AGG=* ATA=M TGA=W", "ATT ATC ATA ATG GTG", "TAA TAG AGA AGG"},
	{3, "ATA=M CTT=T CTC=T CTA=T CTG=T TGA=W", "ATA ATG GTG", "TAA TAG"},
	{4, "TGA=W", "TTA TTG CTG ATT ATC ATA ATG GTG", "TAA TAG"},
	{5, "AGA=S AGG=S ATA=M TGA=W", "TTG ATT ATC ATA ATG GTG", "TAA TAG"},
	{6, "TAA=Q TAG=Q", "ATG", "TGA"},
	{9, "AAA=N AGA=S AGG=S TGA=W", "ATG GTG", "TAA TAG"},
	{10, "TGA=C", "ATG", "TAA TAG"},
	{11, "", "TTG CTG ATT ATC ATA ATG GTG", "TAA TAG TGA"},
	{12, "CTG=S", "CTG ATG", "TAA TAG TGA"},
	{13, "AGA=G AGG=G ATA=M TGA=W", "TTG ATA ATG GTG", "TAA TAG"},
	{14, "AAA=N AGA=S AGG=S TAA=Y TGA=W", "ATG", "TAG"},
	{16, "TAG=L", "ATG", "TAA TGA"},
	{21, "TGA=W ATA=M AGA=S AGG=S AAA=N", "ATG GTG", "TAA TAG"},
	{22, "TCA=* TAG=L", "ATG", "TCA TAA TGA"},
	{23, "TTA=*", "ATT ATG GTG", "TTA TAA TAG TGA"},
	{24, "AGA=S AGG=K TGA=W", "TTG CTG ATG GTG", "TAA TAG"},
	{25, "TGA=G", "TTG ATG GTG", "TAA TAG"},
	{26, "CTG=A", "CTG ATG", "TAA TAG TGA"},
	{27, "TAA=Q TAG=Q TGA=W", "ATG", "TGA"},
	{28, "TAA=Q TAG=Q TGA=W", "ATG", "TAA TAG TGA"},
	{29, "TAA=Y TAG=Y", "ATG", "TGA"},
	{30, "TAA=E TAG=E", "ATG", "TGA"},
	{31, "TGA=W TAA=E TAG=E", "ATG", "TAA TAG"},
	{33, "TAA=Y TGA=W AGA=S AGG=K", "TTG CTG ATG GTG", "TAG"},
}

// ---- value-semantics model --------------------------------------------------

func c08Base(b byte) int {
	switch b {
	case 'T', 't':
		return 0
	case 'C', 'c':
		return 1
	case 'A', 'a':
		return 2
	case 'G', 'g':
		return 3
	}
	return -1
}

// c08Index maps three bytes to 0..63 (TCAG order) or -1.
func c08Index(a, b, c byte) int {
	x, y, z := c08Base(a), c08Base(b), c08Base(c)
	if x < 0 || y < 0 || z < 0 {
		return -1
	}
	return 16*x + 4*y + z
}

func c08Triplet(i int) string {
	return string([]byte{"TCAG"[i/16], "TCAG"[i/4%4], "TCAG"[i%4]})
}

// c08M is a table as a value: empty, or a complete code with weights.
type c08M struct {
	empty  bool
	letter [64]byte
	w      [64]int
	starts uint64
	stops  uint64
}

func c08Set(list string) uint64 {
	var m uint64
	for _, c := range strings.Fields(list) {
		m |= 1 << uint(c08Index(c[0], c[1], c[2]))
	}
	return m
}

func c08Pristine(id int) c08M {
	for _, code := range c08Codes {
		if code.id != id {
			continue
		}
		var m c08M
		for aa, list := range c08Standard {
			for _, c := range strings.Fields(list) {
				m.letter[c08Index(c[0], c[1], c[2])] = aa[0]
			}
		}
		for _, d := range strings.Fields(code.diff) {
			m.letter[c08Index(d[0], d[1], d[2])] = d[4]
		}
		for i := range m.w {
			m.w[i] = 1
		}
		m.starts, m.stops = c08Set(code.starts), c08Set(code.stops)
		return m
	}
	panic("no such table in the oracle")
}

// c08Norm reads a real Table into the model form; problem != "" if the table
// is not a complete code over the 64 codons.
func c08Norm(t Table) (m c08M, problem string) {
	if len(t.AminoAcids) == 0 {
		m.empty = true
		return m, ""
	}
	seen := 0
	for _, aa := range t.AminoAcids {
		if len(aa.Letter) != 1 {
			return m, fmt.Sprintf("letter %q", aa.Letter)
		}
		for _, c := range aa.Codons {
			i := -1
			if len(c.Triplet) == 3 && strings.ToUpper(c.Triplet) == c.Triplet {
				i = c08Index(c.Triplet[0], c.Triplet[1], c.Triplet[2])
			}
			if i < 0 {
				return m, fmt.Sprintf("triplet %q", c.Triplet)
			}
			if m.letter[i] != 0 {
				return m, fmt.Sprintf("triplet %s listed twice", c.Triplet)
			}
			m.letter[i] = aa.Letter[0]
			m.w[i] = c.Weight
			seen++
		}
	}
	if seen != 64 {
		return m, fmt.Sprintf("%d codons listed", seen)
	}
	for _, lst := range []struct {
		l []string
		m *uint64
	}{{t.StartCodons, &m.starts}, {t.StopCodons, &m.stops}} {
		for _, c := range lst.l {
			i := -1
			if len(c) == 3 {
				i = c08Index(c[0], c[1], c[2])
			}
			if i < 0 {
				return m, fmt.Sprintf("start/stop codon %q", c)
			}
			*lst.m |= 1 << uint(i)
		}
	}
	return m, ""
}

// c08Diff describes the first difference between two model values.
func c08Diff(got, want c08M) string {
	if got.empty != want.empty {
		return fmt.Sprintf("empty: got %v want %v", got.empty, want.empty)
	}
	for i := 0; i < 64; i++ {
		if got.letter[i] != want.letter[i] {
			return fmt.Sprintf("codon %s assigned to %q, expected %q", c08Triplet(i), got.letter[i], want.letter[i])
		}
	}
	n, first := 0, ""
	for i := 0; i < 64; i++ {
		if got.w[i] != want.w[i] {
			if n == 0 {
				first = fmt.Sprintf("weight of %s is %d, expected %d", c08Triplet(i), got.w[i], want.w[i])
			}
			n++
		}
	}
	if n > 0 {
		return fmt.Sprintf("%s (%d of 64 weights differ)", first, n)
	}
	if got.starts != want.starts {
		return fmt.Sprintf("start codons %s, expected %s", c08Mask(got.starts), c08Mask(want.starts))
	}
	if got.stops != want.stops {
		return fmt.Sprintf("stop codons %s, expected %s", c08Mask(got.stops), c08Mask(want.stops))
	}
	return ""
}

func c08Mask(m uint64) string {
	var out []string
	for i := 0; i < 64; i++ {
		if m&(1<<uint(i)) != 0 {
			out = append(out, c08Triplet(i))
		}
	}
	return "[" + strings.Join(out, " ") + "]"
}

// c08Count is the counting oracle: in-frame occurrences per codon,
// case-insensitively; triplets with another letter count for no codon.
func c08Count(s string) (w [64]int) {
	for k := 0; k+3 <= len(s); k += 3 {
		if i := c08Index(s[k], s[k+1], s[k+2]); i >= 0 {
			w[i]++
		}
	}
	return w
}

func c08Copy(t Table) Table {
	var c Table
	c.StartCodons = append([]string(nil), t.StartCodons...)
	c.StopCodons = append([]string(nil), t.StopCodons...)
	for _, aa := range t.AminoAcids {
		c.AminoAcids = append(c.AminoAcids, AminoAcid{aa.Letter, append([]Codon(nil), aa.Codons...)})
	}
	return c
}

type c08Rand struct{ x uint64 }

func newC08Rand(seed int64) *c08Rand { return &c08Rand{uint64(seed)*0x9E3779B97F4A7C15 + 8} }
func (r *c08Rand) next() uint64 {
	r.x += 0x9E3779B97F4A7C15
	z := r.x
	z = (z ^ (z >> 30)) * 0xBF58476D1CE4E5B9
	z = (z ^ (z >> 27)) * 0x94D049BB133111EB
	return z ^ (z >> 31)
}
func (r *c08Rand) Intn(n int) int { return int(r.next() % uint64(n)) }

func c08RandomSeq(rng *c08Rand, n int, alphabet string) string {
	b := make([]byte, n)
	for i := range b {
		b[i] = alphabet[rng.Intn(len(alphabet))]
	}
	return string(b)
}

func c08Clip(s string) string {
	if len(s) > 60 {
		return s[:60] + fmt.Sprintf("...(%d)", len(s))
	}
	return s
}

var c08Ids = []int{1, 2, 3, 4, 5, 6, 9, 10, 11, 12, 13, 14, 16, 21, 22, 23, 24, 25, 26, 27, 28, 29, 30, 31, 33}

// c08ResetDefaults puts weight 1 back into the default tables through the
// tables GetCodonTable hands out (harness hygiene; see file comment).
func c08ResetDefaults(ids []int) {
	for _, id := range ids {
		t := GetCodonTable(id)
		for a := range t.AminoAcids {
			for c := range t.AminoAcids[a].Codons {
				t.AminoAcids[a].Codons[c].Weight = 1
			}
		}
	}
}

// ---- history machine --------------------------------------------------------

const (
	c08Get = iota
	c08Rw
	c08Add
	c08Comp
	c08Ser
	c08GetPriv // the register receives a private deep copy (made by the harness) of GetCodonTable(id)
)

type c08Op struct {
	kind int
	reg  int // target register 0 (A) or 1 (B); the other one is the second operand
	id   int
	seq  int
	cut  float64
	swap bool // add/compromise: the other register is the FIRST operand (the result still goes to reg)
}

func (o c08Op) String(seqs []string) string {
	r, other := "A", "B"
	if o.reg == 1 {
		r, other = "B", "A"
	}
	first, second := r, other
	if o.swap {
		first, second = other, r
	}
	switch o.kind {
	case c08Get:
		return fmt.Sprintf("%s=GetCodonTable(%d)", r, o.id)
	case c08GetPriv:
		return fmt.Sprintf("%s=deepcopy(GetCodonTable(%d))", r, o.id)
	case c08Rw:
		return fmt.Sprintf("%s=%s.OptimizeTable(%q)", r, r, c08Clip(seqs[o.seq]))
	case c08Add:
		return fmt.Sprintf("%s=AddCodonTable(%s,%s)", r, first, second)
	case c08Comp:
		return fmt.Sprintf("%s=CompromiseCodonTable(%s,%s,%g)", r, first, second, o.cut)
	}
	return fmt.Sprintf("%s=ReadCodonJSON(WriteCodonJSON(%s))", r, r)
}

func c08Totals(m c08M) (tot [256]int) {
	for i := 0; i < 64; i++ {
		tot[m.letter[i]] += m.w[i]
	}
	return tot
}

func c08AllPositive(m c08M) bool {
	tot := c08Totals(m)
	for i := 0; i < 64; i++ {
		if tot[m.letter[i]] <= 0 {
			return false
		}
	}
	return true
}

// c08CompromiseOK checks a real compromise result against the statement:
// mean of the two per-amino-acid shares scaled to 10000 (+-1 on an integer
// rounding of the mean), or zero if either share is below the cut-off (the
// decision being free when a share is within 1 of the cut-off on that scale).
func c08CompromiseOK(a, b, got c08M, cut float64) string {
	if got.empty || got.letter != a.letter {
		return "result does not keep the first table's assignment"
	}
	if got.starts != a.starts || got.stops != a.stops {
		return "result does not keep the first table's start/stop codons"
	}
	ta, tb := c08Totals(a), c08Totals(b)
	c := 10000 * cut
	for i := 0; i < 64; i++ {
		l := a.letter[i]
		s1 := 10000 * float64(a.w[i]) / float64(ta[l])
		s2 := 10000 * float64(b.w[i]) / float64(tb[l])
		m := (s1 + s2) / 2
		meanOK := float64(got.w[i]) >= math.Floor(m-1e-9)-1 && float64(got.w[i]) <= math.Ceil(m+1e-9)+1
		zeroOK := got.w[i] == 0
		below := s1 < c-1.000001 || s2 < c-1.000001
		above := s1 >= c+1.000001 && s2 >= c+1.000001
		switch {
		case below && !zeroOK:
			return fmt.Sprintf("%s: shares %.2f / %.2f, cut-off %.2f: weight %d, expected 0", c08Triplet(i), s1, s2, c, got.w[i])
		case above && !meanOK:
			return fmt.Sprintf("%s: shares %.2f / %.2f: weight %d, expected the mean %.2f", c08Triplet(i), s1, s2, got.w[i], m)
		case !below && !above && !zeroOK && !meanOK:
			return fmt.Sprintf("%s: shares %.2f / %.2f: weight %d is neither 0 nor the mean %.2f", c08Triplet(i), s1, s2, got.w[i], m)
		}
	}
	return ""
}

type c08Machine struct {
	v      *verifRun
	seqs   []string
	counts [][64]int
	fresh  []int // ids whose freshly requested table is inspected after every step
	prist  map[int]c08M
	tmp    string
}

// run executes one history from a pristine state and checks after every step.
// It stops at the first violation.
func (mc *c08Machine) run(hist []c08Op) {
	v := mc.v
	c08ResetDefaults(mc.fresh)
	var real [2]Table
	var model [2]c08M
	model[0].empty, model[1].empty = true, true
	origin := [2]int{-1, -1} // id of the default table a register was last fetched from (-1: computed value or private copy)
	madeBy := [2]int{-1, -1} // kind of the operation that produced the table a register holds (re-weighting keeps it)
	describe := func(upto int) string {
		var parts []string
		for _, o := range hist[:upto+1] {
			parts = append(parts, o.String(mc.seqs))
		}
		return strings.Join(parts, "; ")
	}
	nontrivial := false
	defer func() { v.Case(describe(len(hist)-1), nontrivial) }()
	for step, op := range hist {
		r, o := op.reg, 1-op.reg
		first, second := r, o // operand order of add/compromise
		if op.swap {
			first, second = o, r
		}
		skip := false
		var want c08M
		switch op.kind {
		case c08Get, c08GetPriv:
			want = mc.prist[op.id]
		case c08Rw:
			if model[r].empty {
				skip = true
				break
			}
			want = model[r]
			want.w = mc.counts[op.seq]
			nontrivial = true
		case c08Add:
			if model[r].empty || model[o].empty || model[r].letter != model[o].letter {
				skip = true
				break
			}
			want = model[first]
			for i := range want.w {
				want.w[i] += model[second].w[i]
			}
		case c08Comp:
			if model[r].empty || model[o].empty || model[r].letter != model[o].letter || !c08AllPositive(model[r]) || !c08AllPositive(model[o]) {
				skip = true
			}
		case c08Ser:
			want = model[r]
		}
		if skip {
			continue
		}
		ok := v.Guard("panic", describe(step), func() {
			switch op.kind {
			case c08Get:
				real[r] = GetCodonTable(op.id)
				origin[r] = op.id
			case c08GetPriv:
				real[r] = c08Copy(GetCodonTable(op.id))
				origin[r] = -1
			case c08Rw:
				real[r] = real[r].OptimizeTable(mc.seqs[op.seq])
			case c08Add:
				real[r] = AddCodonTable(real[first], real[second])
				origin[r] = -1
			case c08Comp:
				res, err := CompromiseCodonTable(real[first], real[second], op.cut)
				if err != nil {
					panic("unexpected error: " + err.Error())
				}
				real[r] = res
				origin[r] = -1
			case c08Ser:
				p := filepath.Join(mc.tmp, "t.json")
				WriteCodonJSON(real[r], p)
				real[r] = ReadCodonJSON(p)
				origin[r] = -1
			}
		})
		if !ok {
			return
		}
		if op.kind != c08Rw {
			madeBy[r] = op.kind
		}
		got, problem := c08Norm(real[r])
		if problem != "" {
			v.Fail("result-not-a-code", describe(step), problem)
			return
		}
		if op.kind == c08Comp {
			if msg := c08CompromiseOK(model[first], model[second], got, op.cut); msg != "" {
				v.Fail("result-depends-on-history", describe(step), "compromise of the model values of A and B: "+msg)
				return
			}
			want = got // the statement leaves +-1 open; continue from the value returned
		} else if got != want {
			class := "result-depends-on-history"
			if op.kind == c08Get || op.kind == c08GetPriv {
				class = "default-table-mutated-by-reweighting"
			}
			v.Fail(class, describe(step), "result of the last call: "+c08Diff(got, want))
			return
		}
		model[r] = want
		// a freshly requested default table is pristine
		// (the default table a re-weighted register was fetched from is looked at last, so that a change
		// of any other default table is reported as what it is)
		order := make([]int, 0, len(mc.fresh))
		for _, id := range mc.fresh {
			if id != origin[r] {
				order = append(order, id)
			}
		}
		for _, id := range mc.fresh {
			if id == origin[r] {
				order = append(order, id)
			}
		}
		for _, id := range order {
			f, problem := c08Norm(GetCodonTable(id))
			if problem != "" || f != mc.prist[id] {
				if problem == "" {
					problem = c08Diff(f, mc.prist[id])
				}
				class := "default-table-changed"
				if op.kind == c08Rw {
					class = "default-table-mutated-by-reweighting"
					if id != origin[r] {
						class = "other-default-table-mutated-by-reweighting"
					}
				}
				v.Fail(class, describe(step)+fmt.Sprintf("; then GetCodonTable(%d)", id), fmt.Sprintf("fresh table %d: %s", id, problem))
				return
			}
		}
		// the table held in the other register is unchanged
		if h, problem := c08Norm(real[o]); problem != "" || h != model[o] {
			if problem == "" {
				problem = c08Diff(h, model[o])
			}
			class := "earlier-result-changed-by-later-call"
			if op.kind == c08Rw && madeBy[r] == c08Add {
				class = "sum-aliases-operand" // re-weighting a table returned by AddCodonTable changed the other table
			} else if op.kind == c08Rw && madeBy[r] == c08Comp {
				class = "compromise-aliases-operand"
			}
			v.Fail(class, describe(step), "the other register: "+problem)
			return
		}
	}
}

// c08DirectedCount: number of directed histories (3 id pairs, sA and sB absent
// or one of nSeq, add/compromise, 2 target registers, 2 operand orders, nSeq sR).
func c08DirectedCount(nSeq int) int { return 3 * (nSeq + 1) * (nSeq + 1) * 2 * 2 * 2 * nSeq }

func TestVerifC08(t *testing.T) {
	thorough := verifThorough()
	rng := newC08Rand(verifSeed())
	prist := map[int]c08M{}
	for _, id := range c08Ids {
		prist[id] = c08Pristine(id)
	}
	defer c08ResetDefaults(c08Ids)
	c08ResetDefaults(c08Ids) // in case an earlier test of this process re-weighted a default table

	// ---- clause: exact counts ------------------------------------------------
	nSeq := 10
	if thorough {
		nSeq = 150
	}
	vC := newVerifRun("C08", "transform/codon.OptimizeTable/post/counts",
		fmt.Sprintf("deep copies of all 25 default tables x coding sequences: every length 0..9, lengths 99998, 99999, 100000 and %d random lengths in 0..100000, over four alphabets (ACGT; acgtACGT; ACGT with U, N and IUPAC letters in both cases; all ASCII letters); also re-weighting an already re-weighted table; expected weight of a codon = number of k with upper(seq[3k:3k+3]) = codon; letters per codon, the set of 64 triplets and the start/stop lists unchanged; non-trivial = length >= 3", nSeq))
	vC.Sampled()
	alphabets := []string{"ACGT", "acgtACGT", "ACGTacgtUuNnRYKMSWryBDHV", "ABCDEFGHIJKLMNOPQRSTUVWXYZabcdefghijklmnopqrstuvwxyz"}
	for ti, id := range c08Ids {
		var lens []int
		for n := 0; n <= 9; n++ {
			lens = append(lens, n)
		}
		lens = append(lens, 99998, 99999, 100000)
		for i := 0; i < nSeq; i++ {
			lens = append(lens, rng.Intn(100001))
		}
		table := c08Copy(GetCodonTable(id))
		before, problem := c08Norm(table)
		if problem != "" {
			t.Fatalf("harness: default table %d: %s", id, problem)
		}
		for li, n := range lens {
			s := c08RandomSeq(rng, n, alphabets[(li+ti)%len(alphabets)])
			in := fmt.Sprintf("table %d, sequence %s", id, c08Clip(s))
			vC.Case(in, n >= 3)
			var res Table
			arg := table // re-weight the previous result every other time
			if li%2 == 0 {
				arg = c08Copy(GetCodonTable(id))
			}
			if !vC.Guard("panic", in, func() { res = arg.OptimizeTable(s) }) {
				continue
			}
			got, problem := c08Norm(res)
			if problem != "" {
				vC.Fail("skeleton-changed", in, problem)
				continue
			}
			want := before
			want.w = c08Count(s)
			if got.letter != want.letter || got.starts != want.starts || got.stops != want.stops {
				vC.Fail("skeleton-changed", in, c08Diff(got, want))
			} else if got.w != want.w {
				class := "wrong-count"
				if strings.ToUpper(s) != s {
					class = "wrong-count-mixed-case"
				}
				vC.Fail(class, in, c08Diff(got, want))
			}
			table = res
		}
	}
	vC.Done()

	// ---- clause: concurrent re-weighting of tables with different ids --------
	rounds, seqLen := 20, 3000
	if thorough {
		rounds, seqLen = 300, 30000
	}
	vX := newVerifRun("C08", "transform/codon.OptimizeTable/post/no-cross-talk",
		fmt.Sprintf("25 goroutines, one per table id, released together; each %d times: GetCodonTable(id).OptimizeTable(random sequence of up to %d letters) and compares the result with the sequential result (the counting oracle) at once and once more a little later (while the other goroutines keep re-weighting their tables); tables come straight from GetCodonTable (no copies); schedules are whatever the Go scheduler produces on this machine (not enumerated; the race detector takes part only if the driver passes -race, which this test supports); non-trivial = every call", rounds, seqLen))
	vX.Sampled()
	{
		var wg sync.WaitGroup
		start := make(chan struct{})
		for gi, id := range c08Ids {
			wg.Add(1)
			go func(gi, id int) {
				defer wg.Done()
				r := newC08Rand(verifSeed()*100 + int64(gi))
				<-start
				for k := 0; k < rounds; k++ {
					s := c08RandomSeq(r, 1+r.Intn(seqLen), "ACGTacgt")
					in := fmt.Sprintf("goroutine for table %d, round %d, sequence %s", id, k, c08Clip(s))
					vX.Case(in, true)
					var res Table
					if !vX.Guard("panic", in, func() { res = GetCodonTable(id).OptimizeTable(s) }) {
						continue
					}
					want := prist[id]
					want.w = c08Count(s)
					for pass := 0; pass < 2; pass++ {
						got, problem := c08Norm(res)
						if problem != "" {
							vX.Fail("result-not-a-code", in, problem)
							break
						}
						if got != want {
							vX.Fail("concurrent-result-differs", in, c08Diff(got, want))
							break
						}
						for y := 0; y < 50; y++ {
							_ = c08Count(s[:len(s)/2]) // let the others run
						}
					}
				}
			}(gi, id)
		}
		close(start)
		wg.Wait()
	}
	vX.Done()
	c08ResetDefaults(c08Ids)

	// ---- clause: histories against the value-semantics model ------------------
	// a coding sequence in which every codon occurs (1 to 4 times), so that every
	// amino acid of every code has positive usage
	var full strings.Builder
	for i := 0; i < 64; i++ {
		full.WriteString(strings.Repeat(c08Triplet(i), 1+(i*7)%4))
	}
	var skewed strings.Builder
	for i := 0; i < 64; i++ {
		tr := c08Triplet(i)
		n := 1
		if i%5 == 0 {
			n = 23
		}
		if i%3 == 0 {
			tr = strings.ToLower(tr)
		}
		skewed.WriteString(strings.Repeat(tr, n))
	}
	seqs := []string{"ATGATGATG", full.String(), skewed.String() + "NNAC", "atgGCCnnnTAAg", "", "AT"}
	counts := make([][64]int, len(seqs))
	for i, s := range seqs {
		counts[i] = c08Count(s)
	}
	small := []c08Op{
		{kind: c08Get, reg: 0, id: 1}, {kind: c08Get, reg: 0, id: 11},
		{kind: c08Get, reg: 1, id: 1}, {kind: c08Get, reg: 1, id: 11},
		{kind: c08Rw, reg: 0, seq: 0}, {kind: c08Rw, reg: 0, seq: 1},
		{kind: c08Rw, reg: 1, seq: 0}, {kind: c08Rw, reg: 1, seq: 1},
		{kind: c08Add, reg: 0}, {kind: c08Comp, reg: 0, cut: 0.1}, {kind: c08Ser, reg: 0},
	}
	var large []c08Op
	for reg := 0; reg < 2; reg++ {
		for _, id := range []int{1, 2, 4, 11, 12, 33} {
			large = append(large, c08Op{kind: c08Get, reg: reg, id: id})
		}
		for _, id := range []int{1, 2, 4, 11, 12, 33} {
			large = append(large, c08Op{kind: c08GetPriv, reg: reg, id: id})
		}
		for s := range seqs {
			large = append(large, c08Op{kind: c08Rw, reg: reg, seq: s})
		}
		large = append(large, c08Op{kind: c08Add, reg: reg}, c08Op{kind: c08Add, reg: reg, swap: true}, c08Op{kind: c08Ser, reg: reg})
		for _, cut := range []float64{0, 0.1, 0.3} {
			large = append(large, c08Op{kind: c08Comp, reg: reg, cut: cut}, c08Op{kind: c08Comp, reg: reg, cut: cut, swap: true})
		}
	}
	exhaustTo, sampled := 4, 4000
	if thorough {
		exhaustTo, sampled = 5, 250000
	}
	vH := newVerifRun("C08", "transform/codon.GetCodonTable/post/pristine-after-history",
		fmt.Sprintf("two table registers A, B (initially empty); exhaustive: every operation sequence of length 1..%d over %d operations {A|B=GetCodonTable(1|11), A|B re-weighted with ATGATGATG | a sequence with every codon, A=AddCodonTable(A,B), A=CompromiseCodonTable(A,B,0.1), A=ReadCodonJSON(WriteCodonJSON(A))}; directed, exhaustive: %d histories of the shape A=deepcopy(GetCodonTable(i)) [; A re-weighted with sA]; B=deepcopy(GetCodonTable(j)) [; B re-weighted with sB]; R=AddCodonTable|CompromiseCodonTable(.,.,0.1) of A and B in either operand order, R stored in A or in B; R re-weighted with sR -- (i,j) in {(1,1),(11,11),(1,11)}, sA, sB each absent or one of the 6 sequences below, sR one of the 6 sequences (so the operands of add include tables whose weights are all 0: re-weighted with the empty sequence or with AT, shorter than one codon), deepcopy = a copy made by the harness so that the registers share no storage with the default tables or with one another; sampled: %d sequences of length 5..8 over %d operations (ids 1,2,4,11,12,33, as handed out or as private deep copies; 6 sequences incl. lower case, non-ACGT, length not divisible by 3, empty, shorter than one codon; add/compromise in either operand order and serialise on either register; cut-offs 0, 0.1, 0.3); an operation whose precondition fails in the model (empty operand, different codes, an amino acid with total weight 0 for compromise) is left out; after every step: the result equals the model's result computed from the model's argument values, a freshly requested table for each of ids 1, 11, 3 (sampled: all six + 3) equals NCBI's code with weight 1 everywhere (ids other than the one the re-weighted register was fetched from are looked at first), the other register still equals its model value (class sum-aliases-operand / compromise-aliases-operand when it is changed by re-weighting a table that add / compromise returned); each history starts from default weights put back to 1; a history stops at its first violation; non-trivial = at least one re-weighting executed", exhaustTo, len(small), c08DirectedCount(len(seqs)), sampled, len(large)))
	mc := &c08Machine{v: vH, seqs: seqs, counts: counts, fresh: []int{1, 11, 3}, prist: prist, tmp: t.TempDir()}
	hist := make([]c08Op, 0, 8)
	var rec func(n int)
	rec = func(n int) {
		if len(hist) == n {
			mc.run(hist)
			return
		}
		for _, op := range small {
			hist = append(hist, op)
			rec(n)
			hist = hist[:len(hist)-1]
		}
	}
	for n := 1; n <= exhaustTo; n++ {
		rec(n)
	}
	// directed: re-weighting the result of add/compromise of two private tables
	nDirected := 0
	for _, ids := range [][2]int{{1, 1}, {11, 11}, {1, 11}} {
		for sA := -1; sA < len(seqs); sA++ {
			for sB := -1; sB < len(seqs); sB++ {
				for _, comb := range []c08Op{{kind: c08Add}, {kind: c08Comp, cut: 0.1}} {
					for reg := 0; reg < 2; reg++ {
						for _, swap := range []bool{false, true} {
							for sR := range seqs {
								hist = hist[:0]
								hist = append(hist, c08Op{kind: c08GetPriv, reg: 0, id: ids[0]})
								if sA >= 0 {
									hist = append(hist, c08Op{kind: c08Rw, reg: 0, seq: sA})
								}
								hist = append(hist, c08Op{kind: c08GetPriv, reg: 1, id: ids[1]})
								if sB >= 0 {
									hist = append(hist, c08Op{kind: c08Rw, reg: 1, seq: sB})
								}
								comb.reg, comb.swap = reg, swap
								hist = append(hist, comb, c08Op{kind: c08Rw, reg: reg, seq: sR})
								mc.run(hist)
								nDirected++
							}
						}
					}
				}
			}
		}
	}
	if nDirected != c08DirectedCount(len(seqs)) {
		t.Fatalf("harness: %d directed histories, domain text says %d", nDirected, c08DirectedCount(len(seqs)))
	}
	hist = hist[:0]
	vH.Sampled() // lengths above exhaustTo are sampled
	mc.fresh = []int{1, 2, 4, 11, 12, 33, 3}
	for i := 0; i < sampled; i++ {
		n := 5 + rng.Intn(4)
		hist = hist[:0]
		for k := 0; k < n; k++ {
			hist = append(hist, large[rng.Intn(len(large))])
		}
		mc.run(hist)
	}
	vH.Done()
}
