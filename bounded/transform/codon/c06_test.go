package codon

// Bounded back end for C06: translation implements the NCBI genetic codes
// codon by codon.
//
// Oracle (independent of the 64-character strings in codon.go): the standard
// code written out by amino acid, every other NCBI table (gc.prt, version 4.6)
// as its list of differences from the standard code, and explicit start- and
// stop-codon lists in NCBI's TCAG order. Stop lists are those of gc.prt's
// "Starts" line (sncbieaa), which for tables 27, 28 and 31 names codons that
// the amino-acid line (ncbieaa) assigns to an amino acid.

import (
	"fmt"
	"sort"
	"strings"
	"sync"
	"testing"
)

// standard genetic code (NCBI transl_table=1), by amino acid.
var c06Standard = map[string]string{
	"F": "TTT TTC",
	"L": "TTA TTG CTT CTC CTA CTG",
	"I": "ATT ATC ATA",
	"M": "ATG",
	"V": "GTT GTC GTA GTG",
	"S": "TCT TCC TCA TCG AGT AGC",
	"P": "CCT CCC CCA CCG",
	"T": "ACT ACC ACA ACG",
	"A": "GCT GCC GCA GCG",
	"Y": "TAT TAC",
	"*": "TAA TAG TGA",
	"H": "CAT CAC",
	"Q": "CAA CAG",
	"N": "AAT AAC",
	"K": "AAA AAG",
	"D": "GAT GAC",
	"E": "GAA GAG",
	"C": "TGT TGC",
	"W": "TGG",
	"R": "CGT CGC CGA CGG AGA AGG",
	"G": "GGT GGC GGA GGG",
}

type c06Code struct {
	id     int
	name   string
	diff   string // "CODON=X ..." relative to the standard code
	starts string // NCBI order (TCAG)
	stops  string
}

var c06Codes = []c06Code{
	{1, "Standard", "", "TTG CTG ATG", "TAA TAG TGA"},
	{2, "Vertebrate Mitochondrial", "AGA=* AGG=* ATA=M TGA=W", "ATT ATC ATA ATG GTG", "TAA TAG AGA AGG"},
	{3, "Yeast Mitochondrial", "ATA=M CTT=T CTC=T CTA=T CTG=T TGA=W", "ATA ATG GTG", "TAA TAG"},
	{4, "Mold, Protozoan, Coelenterate Mitochondrial; Mycoplasma; Spiroplasma", "TGA=W", "TTA TTG CTG ATT ATC ATA ATG GTG", "TAA TAG"},
	{5, "Invertebrate Mitochondrial", "AGA=S AGG=S ATA=M TGA=W", "TTG ATT ATC ATA ATG GTG", "TAA TAG"},
	{6, "Ciliate, Dasycladacean and Hexamita Nuclear", "TAA=Q TAG=Q", "ATG", "TGA"},
	{9, "Echinoderm and Flatworm Mitochondrial", "AAA=N AGA=S AGG=S TGA=W", "ATG GTG", "TAA TAG"},
	{10, "Euplotid Nuclear", "TGA=C", "ATG", "TAA TAG"},
	{11, "Bacterial, Archaeal and Plant Plastid", "", "TTG CTG ATT ATC ATA ATG GTG", "TAA TAG TGA"},
	{12, "Alternative Yeast Nuclear", "CTG=S", "CTG ATG", "TAA TAG TGA"},
	{13, "Ascidian Mitochondrial", "AGA=G AGG=G ATA=M TGA=W", "TTG ATA ATG GTG", "TAA TAG"},
	{14, "Alternative Flatworm Mitochondrial", "AAA=N AGA=S AGG=S TAA=Y TGA=W", "ATG", "TAG"},
	{16, "Chlorophycean Mitochondrial", "TAG=L", "ATG", "TAA TGA"},
	{21, "Trematode Mitochondrial", "TGA=W ATA=M AGA=S AGG=S AAA=N", "ATG GTG", "TAA TAG"},
	{22, "Scenedesmus obliquus Mitochondrial", "TCA=* TAG=L", "ATG", "TCA TAA TGA"},
	{23, "Thraustochytrium Mitochondrial", "TTA=*", "ATT ATG GTG", "TTA TAA TAG TGA"},
	{24, "Rhabdopleuridae Mitochondrial", "AGA=S AGG=K TGA=W", "TTG CTG ATG GTG", "TAA TAG"},
	{25, "Candidate Division SR1 and Gracilibacteria", "TGA=G", "TTG ATG GTG", "TAA TAG"},
	{26, "Pachysolen tannophilus Nuclear", "CTG=A", "CTG ATG", "TAA TAG TGA"},
	{27, "Karyorelict Nuclear", "TAA=Q TAG=Q TGA=W", "ATG", "TGA"},
	{28, "Condylostoma Nuclear", "TAA=Q TAG=Q TGA=W", "ATG", "TAA TAG TGA"},
	{29, "Mesodinium Nuclear", "TAA=Y TAG=Y", "ATG", "TGA"},
	{30, "Peritrich Nuclear", "TAA=E TAG=E", "ATG", "TGA"},
	{31, "Blastocrithidia Nuclear", "TGA=W TAA=E TAG=E", "ATG", "TAA TAG"},
	{33, "Cephalodiscidae Mitochondrial UAA-Tyr", "TAA=Y TGA=W AGA=S AGG=K", "TTG CTG ATG GTG", "TAG"},
}

// c06AllCodons lists the 64 codons in NCBI (TCAG) order.
func c06AllCodons() []string {
	var out []string
	for _, a := range "TCAG" {
		for _, b := range "TCAG" {
			for _, c := range "TCAG" {
				out = append(out, string([]rune{a, b, c}))
			}
		}
	}
	return out
}

// c06Assignment builds codon -> letter for one table from the oracle.
func c06Assignment(code c06Code) (map[string]string, error) {
	m := map[string]string{}
	for aa, list := range c06Standard {
		for _, c := range strings.Fields(list) {
			if _, dup := m[c]; dup {
				return nil, fmt.Errorf("oracle: codon %s listed twice in the standard code", c)
			}
			m[c] = aa
		}
	}
	if len(m) != 64 {
		return nil, fmt.Errorf("oracle: standard code has %d codons", len(m))
	}
	for _, d := range strings.Fields(code.diff) {
		p := strings.SplitN(d, "=", 2)
		if len(p) != 2 || len(p[0]) != 3 || len(p[1]) != 1 {
			return nil, fmt.Errorf("oracle: bad difference %q in table %d", d, code.id)
		}
		if m[p[0]] == p[1] {
			return nil, fmt.Errorf("oracle: difference %q in table %d is no difference", d, code.id)
		}
		m[p[0]] = p[1]
	}
	return m, nil
}

func c06SortedCopy(s []string) []string {
	c := append([]string(nil), s...)
	sort.Strings(c)
	return c
}

func c06SameList(a, b []string) bool {
	if len(a) != len(b) {
		return false
	}
	for i := range a {
		if a[i] != b[i] {
			return false
		}
	}
	return true
}

func c06RandomDNA(rng interface{ Intn(int) int }, n int) string {
	b := make([]byte, n)
	for i := range b {
		b[i] = "ACGTacgt"[rng.Intn(8)]
	}
	return string(b)
}

func c06Expected(assign map[string]string, s string) string {
	var sb strings.Builder
	up := strings.ToUpper(s)
	for k := 0; k+3 <= len(up); k += 3 {
		sb.WriteString(assign[up[k:k+3]])
	}
	return sb.String()
}

func c06Clip(s string) string {
	if len(s) > 90 {
		return s[:90] + fmt.Sprintf("...(%d)", len(s))
	}
	return s
}

// c06FirstDiff describes the first differing residue.
func c06FirstDiff(got, want string) string {
	n := len(got)
	if len(want) < n {
		n = len(want)
	}
	for i := 0; i < n; i++ {
		if got[i] != want[i] {
			return fmt.Sprintf("first difference at residue %d: got %q want %q (lengths %d/%d)", i, got[i], want[i], len(got), len(want))
		}
	}
	return fmt.Sprintf("lengths differ: got %d want %d", len(got), len(want))
}

func TestVerifC06(t *testing.T) {
	codons := c06AllCodons()
	assign := map[int]map[string]string{}
	for _, code := range c06Codes {
		m, err := c06Assignment(code)
		if err != nil {
			t.Fatal(err)
		}
		assign[code.id] = m
	}
	if len(c06Codes) != 25 {
		t.Fatalf("oracle has %d tables", len(c06Codes))
	}

	// ---- clause: every codon of every table -------------------------------
	vAA := newVerifRun("C06", "transform/codon.GetCodonTable/table/aa",
		"exhaustive and complete: the 25 table ids the library offers x all 64 codons, each translated alone with Translate and compared with NCBI gc.prt (oracle: standard code by amino acid + per-table differences); non-trivial = every case; cases where the table differs from the standard code are the reassigned codons")
	vStarts := newVerifRun("C06", "transform/codon.GetCodonTable/table/starts",
		"exhaustive: StartCodons of all 25 tables compared with NCBI's start lists as sets (class start-set-differs) and, separately, as lists in NCBI's TCAG order (class start-order-differs)")
	vStops := newVerifRun("C06", "transform/codon.GetCodonTable/table/stops",
		"exhaustive: StopCodons of all 25 tables compared with the '*' positions of NCBI's Starts line as sets (class stop-set-differs) and, separately, as lists in TCAG order (class stop-order-differs)")
	for _, code := range c06Codes {
		var table Table
		if !vAA.Guard("panic", fmt.Sprint("GetCodonTable ", code.id), func() { table = GetCodonTable(code.id) }) {
			continue
		}
		if len(table.AminoAcids) == 0 {
			vAA.Fail("table-missing", fmt.Sprint("table ", code.id), "GetCodonTable returned a table without amino acids")
			continue
		}
		for _, c := range codons {
			want := assign[code.id][c]
			vAA.Case(fmt.Sprintf("%d/%s", code.id, c), true)
			var got string
			var err error
			in := fmt.Sprintf("table %d (%s) codon %s", code.id, code.name, c)
			if !vAA.Guard("panic", in, func() { got, err = Translate(c, table) }) {
				continue
			}
			if err != nil {
				vAA.Fail("error-on-valid-input", in, "Translate returned error "+err.Error())
				continue
			}
			if got != want {
				vAA.Fail("wrong-amino-acid", in, fmt.Sprintf("Translate gives %q, NCBI assigns %q", got, want))
			}
		}
		// the table must hold each of the 64 codons exactly once
		seen := map[string]int{}
		for _, aa := range table.AminoAcids {
			for _, cd := range aa.Codons {
				seen[cd.Triplet]++
			}
		}
		for _, c := range codons {
			if seen[c] != 1 {
				vAA.Fail("codon-not-listed-once", fmt.Sprintf("table %d codon %s", code.id, c), fmt.Sprintf("listed %d times in the table", seen[c]))
			}
		}
		if len(seen) != 64 {
			vAA.Fail("extra-codons", fmt.Sprint("table ", code.id), fmt.Sprintf("%d distinct triplets", len(seen)))
		}

		wantStarts := strings.Fields(code.starts)
		vStarts.Case(fmt.Sprint(code.id), true)
		if !c06SameList(c06SortedCopy(table.StartCodons), c06SortedCopy(wantStarts)) {
			vStarts.Fail("start-set-differs", fmt.Sprintf("table %d (%s)", code.id, code.name), fmt.Sprintf("StartCodons %v, NCBI %v", table.StartCodons, wantStarts))
		} else if !c06SameList(table.StartCodons, wantStarts) {
			vStarts.Fail("start-order-differs", fmt.Sprintf("table %d (%s)", code.id, code.name), fmt.Sprintf("StartCodons %v, NCBI order %v", table.StartCodons, wantStarts))
		}
		wantStops := strings.Fields(code.stops)
		vStops.Case(fmt.Sprint(code.id), true)
		if !c06SameList(c06SortedCopy(table.StopCodons), c06SortedCopy(wantStops)) {
			vStops.Fail("stop-set-differs", fmt.Sprintf("table %d (%s)", code.id, code.name), fmt.Sprintf("StopCodons %v, NCBI %v", table.StopCodons, wantStops))
		} else if !c06SameList(table.StopCodons, wantStops) {
			vStops.Fail("stop-order-differs", fmt.Sprintf("table %d (%s)", code.id, code.name), fmt.Sprintf("StopCodons %v, NCBI order %v", table.StopCodons, wantStops))
		}
	}
	vAA.Done()
	vStarts.Done()
	vStops.Done()

	// ---- clauses: codon-wise translation and concatenation -----------------
	nRandom, nLongConcat, nShortConcat := 60, 1, 12
	if verifThorough() {
		nRandom, nLongConcat, nShortConcat = 1500, 40, 400
	}
	vCW := newVerifRun("C06", "transform/codon.Translate/post/codonwise",
		fmt.Sprintf("all 25 table ids x (every length 1..12 and %d seeded random lengths in 1..3000, always including 2998, 2999 and 3000) of random A/C/G/T strings in random case; expected = one NCBI letter per complete in-frame codon of the upper-cased string, in order, trailing 1 or 2 bases ignored; each string is also translated in all-upper and all-lower case and must give the same result; non-trivial = length >= 3", nRandom))
	vCW.Sampled()
	vCC := newVerifRun("C06", "transform/codon.Translate/post/concat",
		fmt.Sprintf("all 25 table ids x (%d random strings of length 2000..3000 and %d of length 1..300, random case, lengths of every residue mod 3) x EVERY split point that is a multiple of 3 (0 and the full length included): Translate(a+b) = Translate(a)+Translate(b), the translation of an empty part being empty (Translate itself reports an error for the empty string; that call is not made); non-trivial = both parts non-empty", nLongConcat, nShortConcat))
	vCC.Sampled()

	type job struct {
		code c06Code
		seed int64
	}
	jobs := make(chan job)
	var wg sync.WaitGroup
	base := verifSeed()
	for w := 0; w < 16; w++ {
		wg.Add(1)
		go func() {
			defer wg.Done()
			for j := range jobs {
				c06RunTable(vCW, vCC, j.code, assign[j.code.id], j.seed, nRandom, nLongConcat, nShortConcat)
			}
		}()
	}
	for i, code := range c06Codes {
		jobs <- job{code, base*1000 + int64(i)}
	}
	close(jobs)
	wg.Wait()
	vCW.Done()
	vCC.Done()
}

func c06Translate(v *verifRun, s string, table Table, in string) (string, bool) {
	var got string
	var err error
	if !v.Guard("panic", in, func() { got, err = Translate(s, table) }) {
		return "", false
	}
	if err != nil {
		v.Fail("error-on-valid-input", in, "Translate returned error "+err.Error())
		return "", false
	}
	return got, true
}

func c06RunTable(vCW, vCC *verifRun, code c06Code, assign map[string]string, seed int64, nRandom, nLong, nShort int) {
	rng := newC06Rand(seed)
	table := GetCodonTable(code.id)
	var lengths []int
	for n := 1; n <= 12; n++ {
		lengths = append(lengths, n)
	}
	lengths = append(lengths, 2998, 2999, 3000)
	for i := 0; i < nRandom; i++ {
		lengths = append(lengths, 1+rng.Intn(3000))
	}
	for li, n := range lengths {
		s := c06RandomDNA(rng, n)
		want := c06Expected(assign, s)
		in := fmt.Sprintf("table %d, %s", code.id, c06Clip(s))
		vCW.Case(fmt.Sprintf("table %d, #%d: %s", code.id, li, c06Clip(s)), n >= 3)
		got, ok := c06Translate(vCW, s, table, in)
		if !ok {
			continue
		}
		if got != want {
			class := "wrong-residues"
			if len(got) != len(want) {
				class = "wrong-residue-count"
			}
			vCW.Fail(class, in, c06FirstDiff(got, want))
			continue
		}
		for _, variant := range []string{strings.ToUpper(s), strings.ToLower(s)} {
			g2, ok := c06Translate(vCW, variant, table, in)
			if ok && g2 != want {
				vCW.Fail("case-sensitive", fmt.Sprintf("table %d, %s", code.id, c06Clip(variant)), c06FirstDiff(g2, want))
			}
		}
	}

	var clens []int
	for i := 0; i < nLong; i++ {
		clens = append(clens, 2000+rng.Intn(1001))
	}
	for i := 0; i < nShort; i++ {
		clens = append(clens, 1+rng.Intn(300))
	}
	// make sure every residue mod 3 occurs among the long ones
	clens = append(clens, 2997, 2998, 2999)
	for si, n := range clens {
		s := c06RandomDNA(rng, n)
		in := fmt.Sprintf("table %d, %s", code.id, c06Clip(s))
		whole, ok := c06Translate(vCC, s, table, in)
		if !ok {
			continue
		}
		for k := 0; k <= n; k += 3 {
			a, b := s[:k], s[k:]
			vCC.Case(fmt.Sprintf("table %d, string #%d (length %d, %s), split at %d", code.id, si, n, c06Clip(s), k), k > 0 && k < n)
			ta, tb := "", ""
			if len(a) > 0 {
				if ta, ok = c06Translate(vCC, a, table, in+fmt.Sprintf(" prefix %d", k)); !ok {
					continue
				}
			}
			if len(b) > 0 {
				if tb, ok = c06Translate(vCC, b, table, in+fmt.Sprintf(" suffix from %d", k)); !ok {
					continue
				}
			}
			if ta+tb != whole {
				vCC.Fail("concat-differs", fmt.Sprintf("%s split at %d", in, k), c06FirstDiff(ta+tb, whole))
			}
		}
	}
}

// c06Rand is a small private generator (splitmix64) so that worker goroutines
// do not share math/rand state.
type c06Rand struct{ x uint64 }

func newC06Rand(seed int64) *c06Rand { return &c06Rand{uint64(seed)*0x9E3779B97F4A7C15 + 1} }

func (r *c06Rand) next() uint64 {
	r.x += 0x9E3779B97F4A7C15
	z := r.x
	z = (z ^ (z >> 30)) * 0xBF58476D1CE4E5B9
	z = (z ^ (z >> 27)) * 0x94D049BB133111EB
	return z ^ (z >> 31)
}

func (r *c06Rand) Intn(n int) int { return int(r.next() % uint64(n)) }
