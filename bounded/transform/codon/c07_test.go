package codon

// Bounded back end for C07: optimized coding sequences translate back to the
// requested protein, respect the 10 % rule, choose in proportion to weight and
// reject unencodable residues.
//
// Oracles: the decoding map and the usage shares are read by this file from
// the table value that is passed in (exact integer arithmetic: a codon is
// eligible iff 10*w > sum of its synonyms' weights); expected frequencies are
// w / (sum of eligible weights). Every table is a deep copy, so that the
// backing arrays shared between GetCodonTable results (C08) play no role here.
//
// The proportionality clause (transform/codon.Optimize/post/proportional) takes
// its draws along three axes, all judged by the same Pearson chi-square against
// w / (sum of eligible w):
//   (a) one Optimize call on a long protein of one residue (classes
//       not-proportional-to-weight, eligible-codon-never-drawn,
//       ineligible-codon-drawn);
//   (b) many separate Optimize calls on one short protein, made one after the
//       other (class many-short-calls);
//   (c) a history over two packages: the pair "protein :=
//       random.ProteinSequence(n, seed); Optimize(protein, table)" repeated many
//       times with the SAME n and seed. The generator seeds the process-wide
//       math/rand source from its argument, the property still wants every
//       codon of every repetition to be a fresh draw in proportion to its
//       weight, so the picks pooled per amino acid over the repetitions (and
//       over its positions in the protein) must fit the proportions (class
//       draws-repeat-after-generator-seed). A few fixed seeds, default tables
//       and re-weighted tables. The cases of (c) take their lengths from a
//       random stream of their own (c07RepeatStream), so that (a), (b) and all
//       other cases are the same with and without (c).

import (
	"fmt"
	"math"
	"sort"
	"strings"
	"testing"

	polyrandom "github.com/TimothyStiles/poly/random"
)

var c07Ids = []int{1, 2, 3, 4, 5, 6, 9, 10, 11, 12, 13, 14, 16, 21, 22, 23, 24, 25, 26, 27, 28, 29, 30, 31, 33}

func c07Copy(t Table) Table {
	var c Table
	c.StartCodons = append([]string(nil), t.StartCodons...)
	c.StopCodons = append([]string(nil), t.StopCodons...)
	for _, aa := range t.AminoAcids {
		c.AminoAcids = append(c.AminoAcids, AminoAcid{aa.Letter, append([]Codon(nil), aa.Codons...)})
	}
	return c
}

// c07Default returns a private copy of default table id with uniform weight 1
// (what the property calls a default table). If an earlier test in the same
// process re-weighted the shared default (C08), the weights are put back here
// and the fact is logged; C07 does not report on that.
func c07Default(t *testing.T, id int) Table {
	c := c07Copy(GetCodonTable(id))
	for a := range c.AminoAcids {
		for k := range c.AminoAcids[a].Codons {
			if c.AminoAcids[a].Codons[k].Weight != 1 {
				t.Logf("note: default table %d arrived with non-uniform weights (C08); reset on the private copy", id)
				c.AminoAcids[a].Codons[k].Weight = 1
			}
		}
	}
	sort.Slice(c.AminoAcids, func(i, j int) bool { return c.AminoAcids[i].Letter < c.AminoAcids[j].Letter })
	return c
}

type c07Info struct {
	decode   map[string]string // triplet -> letter
	weight   map[string]int    // triplet -> weight
	sum      map[string]int    // letter -> total weight
	eligible map[string][]Codon
	letters  []string // letters with positive total weight, sorted
	absent   []string // letters of the table with total weight 0
}

func c07Analyse(t Table) c07Info {
	in := c07Info{map[string]string{}, map[string]int{}, map[string]int{}, map[string][]Codon{}, nil, nil}
	for _, aa := range t.AminoAcids {
		s := 0
		for _, c := range aa.Codons {
			in.decode[c.Triplet] = aa.Letter
			in.weight[c.Triplet] = c.Weight
			s += c.Weight
		}
		in.sum[aa.Letter] = s
		for _, c := range aa.Codons {
			if c.Weight > 0 && 10*c.Weight > s {
				in.eligible[aa.Letter] = append(in.eligible[aa.Letter], c)
			}
		}
		if s > 0 {
			in.letters = append(in.letters, aa.Letter)
		} else {
			in.absent = append(in.absent, aa.Letter)
		}
	}
	sort.Strings(in.letters)
	sort.Strings(in.absent)
	return in
}

type c07Rand struct{ x uint64 }

func newC07Rand(seed int64) *c07Rand { return &c07Rand{uint64(seed)*0x9E3779B97F4A7C15 + 7} }
func (r *c07Rand) next() uint64 {
	r.x += 0x9E3779B97F4A7C15
	z := r.x
	z = (z ^ (z >> 30)) * 0xBF58476D1CE4E5B9
	z = (z ^ (z >> 27)) * 0x94D049BB133111EB
	return z ^ (z >> 31)
}
func (r *c07Rand) Intn(n int) int { return int(r.next() % uint64(n)) }

// c07RepeatStream is the random stream of the repeated (generator, optimizer)
// pairs of the proportionality clause; separate from the stream of all other
// cases, so that those are the same whether or not the pairs are run.
func c07RepeatStream(seed int64) *c07Rand {
	return &c07Rand{uint64(seed)*0xD1B54A32D192ED03 + 0xC07C33}
}

// Repeated pairs: an amino acid is tested when every eligible codon has at
// least this expected count, and rejected only below this chi-square tail
// probability (see the argument at the place of use).
const (
	c07RepeatMinExpected = 300
	c07RepeatP           = 1e-15
)

// c07CodingSequence writes a random coding sequence for table t in which every
// amino acid of the table (except those in omit) occurs, with a random codon
// bias per amino acid (some synonyms unused, some rare, some frequent).
func c07CodingSequence(rng *c07Rand, t Table, residues int, omit string) string {
	biasChoices := []int{0, 0, 1, 1, 2, 5, 10, 30}
	type pick struct {
		triplets []string
		cum      []int
	}
	picks := map[string]pick{}
	var letters []string
	for _, aa := range t.AminoAcids {
		if strings.Contains(omit, aa.Letter) && omit != "" {
			continue
		}
		letters = append(letters, aa.Letter)
		var p pick
		total := 0
		for _, c := range aa.Codons {
			total += biasChoices[rng.Intn(len(biasChoices))]
			p.triplets = append(p.triplets, c.Triplet)
			p.cum = append(p.cum, total)
		}
		if total == 0 {
			k := rng.Intn(len(p.cum))
			for j := k; j < len(p.cum); j++ {
				p.cum[j] = 1
			}
			total = 1
		}
		picks[aa.Letter] = p
	}
	sort.Strings(letters)
	var sb strings.Builder
	emit := func(l string) {
		p := picks[l]
		r := rng.Intn(p.cum[len(p.cum)-1])
		for j, c := range p.cum {
			if r < c {
				tr := p.triplets[j]
				if rng.Intn(4) == 0 {
					tr = strings.ToLower(tr)
				}
				sb.WriteString(tr)
				return
			}
		}
	}
	for _, l := range letters {
		emit(l)
	}
	for i := len(letters); i < residues; i++ {
		emit(letters[rng.Intn(len(letters))])
	}
	return sb.String()
}

// c07BoundarySequence writes a coding sequence with prescribed counts: for
// every amino acid with >= 2 synonyms the first synonym is used a times and the
// second b times (others unused); single-codon amino acids occur once.
func c07BoundarySequence(t Table, a, b int) string {
	var sb strings.Builder
	for _, aa := range t.AminoAcids {
		if len(aa.Codons) == 1 {
			sb.WriteString(aa.Codons[0].Triplet)
			continue
		}
		sb.WriteString(strings.Repeat(aa.Codons[0].Triplet, a))
		sb.WriteString(strings.Repeat(aa.Codons[1].Triplet, b))
	}
	return sb.String()
}

func c07Clip(s string) string {
	if len(s) > 80 {
		return s[:80] + fmt.Sprintf("...(%d)", len(s))
	}
	return s
}

type c07Named struct {
	name  string
	table Table
	info  c07Info
}

// chi-square upper tail probability for integer degrees of freedom.
func c07ChiSqTail(x float64, df int) float64 {
	if x <= 0 {
		return 1
	}
	h := x / 2
	var q, term float64
	var a float64
	if df%2 == 0 {
		q = math.Exp(-h) // Q(1,h)
		a = 1
	} else {
		q = math.Erfc(math.Sqrt(h)) // Q(1/2,h)
		a = 0.5
	}
	// Q(a+1,h) = Q(a,h) + h^a e^-h / Gamma(a+1)
	for a < float64(df)/2-1e-9 {
		lg, _ := math.Lgamma(a + 1)
		term = math.Exp(a*math.Log(h) - h - lg)
		q += term
		a++
	}
	return q
}

// c07CheckOutput checks one successful Optimize result against the round-trip
// and threshold clauses. It returns the per-codon counts.
func c07CheckOutput(vRT, vTH *verifRun, nt c07Named, protein, dna string) map[string]int {
	in := fmt.Sprintf("table %s, protein %s", nt.name, c07Clip(protein))
	counts := map[string]int{}
	if len(dna) != 3*len(protein) {
		vRT.Fail("wrong-length", in, fmt.Sprintf("result has %d bases for %d residues", len(dna), len(protein)))
		return counts
	}
	var back strings.Builder
	for i := 0; i < len(protein); i++ {
		tr := dna[3*i : 3*i+3]
		counts[tr]++
		back.WriteString(nt.info.decode[tr])
		letter := protein[i : i+1]
		w, s := nt.info.weight[tr], nt.info.sum[letter]
		if nt.info.decode[tr] != letter {
			continue // reported by the round-trip clause below
		}
		if w == 0 {
			vTH.Fail("zero-weight-codon-used", in, fmt.Sprintf("residue %d (%s) encoded by %s whose weight is 0", i, letter, tr))
		} else if !(10*w > s) {
			vTH.Fail("codon-at-or-below-ten-percent-used", in, fmt.Sprintf("residue %d (%s) encoded by %s with weight %d of %d", i, letter, tr, w, s))
		}
	}
	if back.String() != protein {
		vRT.Fail("decodes-to-other-protein", in, fmt.Sprintf("result %s decodes (table's own codon list) to %s", c07Clip(dna), c07Clip(back.String())))
	}
	var tr string
	var err error
	if vRT.Guard("translate-panic", in, func() { tr, err = Translate(dna, nt.table) }) {
		if err != nil || tr != protein {
			vRT.Fail("translate-differs", in, fmt.Sprintf("Translate(result) = %s, err=%v", c07Clip(tr), err))
		}
	}
	return counts
}

func c07Encodable(info c07Info, protein string) (bool, string) {
	for i := 0; i < len(protein); i++ {
		l := protein[i : i+1]
		if info.sum[l] <= 0 {
			return false, l
		}
	}
	return true, ""
}

func TestVerifC07(t *testing.T) {
	thorough := verifThorough()
	rng := newC07Rand(verifSeed())

	// ---- tables -------------------------------------------------------------
	var defaults, reweighted, boundary []c07Named
	for _, id := range c07Ids {
		d := c07Default(t, id)
		defaults = append(defaults, c07Named{fmt.Sprintf("default %d", id), d, c07Analyse(d)})
	}
	perCode := 1
	if thorough {
		perCode = 4
	}
	seqs := map[string]string{}
	for _, id := range c07Ids {
		for k := 0; k < perCode; k++ {
			base := c07Default(t, id)
			n := 200 + rng.Intn(3000)
			if k == 0 {
				n = 64 + rng.Intn(40) // short genome: many unused codons
			}
			cds := c07CodingSequence(rng, base, n, "")
			rw := c07Copy(base).OptimizeTable(cds)
			info := c07Analyse(rw)
			if len(info.absent) > 0 {
				t.Fatalf("harness: amino acids %v absent from generated coding sequence", info.absent)
			}
			name := fmt.Sprintf("%d re-weighted from CDS#%d (%d codons)", id, k, len(cds)/3)
			seqs[name] = cds
			reweighted = append(reweighted, c07Named{name, rw, info})
		}
	}
	for _, id := range []int{1, 2, 4, 11, 12, 22, 27, 33} {
		for _, ab := range [][2]int{{1, 9}, {2, 17}, {1, 10}, {10, 1}, {1000, 9001}, {1000, 8999}} {
			base := c07Default(t, id)
			cds := c07BoundarySequence(base, ab[0], ab[1])
			rw := c07Copy(base).OptimizeTable(cds)
			name := fmt.Sprintf("%d re-weighted with first synonym x%d, second x%d", id, ab[0], ab[1])
			boundary = append(boundary, c07Named{name, rw, c07Analyse(rw)})
		}
	}

	// ---- round trip + threshold ---------------------------------------------
	nProt := 6
	genSeeds := []int64{0, 1, 2, 42, verifSeed() + 1000}
	if thorough {
		nProt = 60
		genSeeds = append(genSeeds, 3, 4, 5, 6, 7, 8, 9, 10, 11, 12, 13, -1, 1<<40)
	}
	vRT := newVerifRun("C07", "transform/codon.Optimize/post/roundtrip",
		fmt.Sprintf("25 default tables (uniform weight 1), %d tables per code re-weighted with OptimizeTable from random coding sequences (64..3200 codons, every amino acid present, random codon bias incl. unused synonyms) and %d tables with prescribed synonym counts (1:9, 2:17, 1:10, 10:1, 1000:9001, 1000:8999); proteins: every single letter of the table, lengths 1, 2, 3, 1999, 2000 and %d random lengths in 1..2000 over the table's letters, and random.ProteinSequence(n, seed) for every n in 3..200 and %d seeds (those of its outputs that are over the table's letters); checked: len = 3*len(protein), decoding with the table's own codon list and Translate both give the protein; all deep copies; non-trivial = protein length >= 2", perCode, len(boundary), nProt, len(genSeeds)))
	vRT.Sampled()
	vTH := newVerifRun("C07", "transform/codon.Optimize/post/threshold",
		"every codon emitted in the round-trip and proportionality runs: its weight w and the sum s over its synonyms in the table passed in satisfy w > 0 and 10*w > s (exact integers); tables with synonyms exactly at 10 % (1:9, 1000:9000+-1) included; non-trivial = amino acid with an ineligible synonym requested")
	vTH.Sampled()
	vRJ := newVerifRun("C07", "transform/codon.Optimize/post/reject-not-crash",
		"all 25 default tables and re-weighted copies x proteins with one unencodable residue alone, first, last or in the middle: every upper-case letter A..Z and '*' absent from the table (J, B, O, U, X, Z; '*' for tables 27, 28, 31), lower-case forms of the table's letters, space, '-', '1', a two-byte rune; amino acids whose synonyms all have weight 0 (table re-weighted from ATGATGATG, from the empty string, from a random coding sequence that omits one amino acid); every random.ProteinSequence output (n 3..200) that holds such a residue; demanded: error returned, no panic; non-trivial = every case")
	vRJ.Sampled()

	// ---- rejection ----------------------------------------------------------
	rejTables := append([]c07Named{}, defaults...)
	rejTables = append(rejTables, reweighted[:perCode*2]...)
	for _, nt := range rejTables {
		present := map[string]bool{}
		for _, aa := range nt.table.AminoAcids {
			present[aa.Letter] = true
		}
		bad := []string{"J"}
		for c := 'A'; c <= 'Z'; c++ {
			if c == 'J' {
				continue
			}
			if !present[string(c)] {
				bad = append(bad, string(c))
			}
		}
		if !present["*"] {
			bad = append(bad, "*")
		}
		for _, l := range nt.info.letters {
			if low := strings.ToLower(l); low != l {
				bad = append(bad, low)
			}
		}
		bad = append(bad, " ", "-", "1", "é")
		for _, b := range bad {
			for _, p := range []string{"M" + b, b, b + "M", "MA" + b + "AM"} {
				c07Reject(vRJ, nt, p, b)
			}
		}
	}
	for _, id := range c07Ids {
		base := c07Default(t, id)
		onlyM := c07Copy(base).OptimizeTable("ATGATGATG")
		nt := c07Named{fmt.Sprintf("%d re-weighted from ATGATGATG", id), onlyM, c07Analyse(onlyM)}
		for _, p := range []string{"W", "MW", "WM", "MMMWMMM", "A"} {
			c07Reject(vRJ, nt, p, p[strings.IndexAny(p, "WA"):][:1])
		}
		empty := c07Copy(base).OptimizeTable("")
		nt = c07Named{fmt.Sprintf("%d re-weighted from the empty string", id), empty, c07Analyse(empty)}
		c07Reject(vRJ, nt, "M", "M")
		// a genome that lacks one amino acid
		info := c07Analyse(base)
		omit := info.letters[rng.Intn(len(info.letters))]
		cds := c07CodingSequence(rng, base, 300, omit)
		lacking := c07Copy(base).OptimizeTable(cds)
		nt = c07Named{fmt.Sprintf("%d re-weighted from a CDS without %s", id, omit), lacking, c07Analyse(lacking)}
		other := "M"
		if omit == "M" {
			other = "A"
		}
		for _, p := range []string{omit, other + omit, omit + other, other + other + omit + other} {
			c07Reject(vRJ, nt, p, omit)
		}
	}

	optimize := func(nt c07Named, protein string) {
		ok, bad := c07Encodable(nt.info, protein)
		if !ok {
			c07Reject(vRJ, nt, protein, bad)
			return
		}
		in := fmt.Sprintf("table %s, protein %s", nt.name, c07Clip(protein))
		vRT.Case(in, len(protein) >= 2)
		nontrivialTH := false
		for i := 0; i < len(protein) && !nontrivialTH; i++ {
			l := protein[i : i+1]
			for _, aa := range nt.table.AminoAcids {
				if aa.Letter == l && len(nt.info.eligible[l]) < len(aa.Codons) {
					nontrivialTH = true
				}
			}
		}
		vTH.Case(in, nontrivialTH)
		var dna string
		var err error
		if !vRT.Guard("panic-on-encodable-protein", in, func() { dna, err = Optimize(protein, nt.table) }) {
			return
		}
		if err != nil {
			vRT.Fail("error-on-encodable-protein", in, err.Error())
			return
		}
		c07CheckOutput(vRT, vTH, nt, protein, dna)
	}

	randomProtein := func(info c07Info, n int) string {
		b := make([]byte, n)
		for i := range b {
			b[i] = info.letters[rng.Intn(len(info.letters))][0]
		}
		return string(b)
	}
	var all []c07Named
	all = append(all, defaults...)
	all = append(all, reweighted...)
	all = append(all, boundary...)
	for _, nt := range all {
		for _, l := range nt.info.letters {
			optimize(nt, l)
		}
		lens := []int{1, 2, 3, 1999, 2000}
		for i := 0; i < nProt; i++ {
			lens = append(lens, 1+rng.Intn(2000))
		}
		for _, n := range lens {
			optimize(nt, randomProtein(nt.info, n))
		}
	}

	// the library's own random proteins
	genTables := append([]c07Named{}, defaults...)
	genTables = append(genTables, reweighted[:perCode*3]...)
	encodedByNone := map[string]bool{}
	for _, seed := range genSeeds {
		for n := 3; n <= 200; n++ {
			p, err := polyrandom.ProteinSequence(n, seed)
			if err != nil || len(p) != n {
				t.Fatalf("harness: random.ProteinSequence(%d,%d) = %q, %v", n, seed, p, err)
			}
			for i := 0; i < len(p); i++ {
				l := p[i : i+1]
				none := true
				for _, d := range defaults {
					if d.info.sum[l] > 0 {
						none = false
						break
					}
				}
				if none && !encodedByNone[l] {
					encodedByNone[l] = true
					vRT.Fail("random-protein-letter-no-table-encodes", fmt.Sprintf("random.ProteinSequence(%d, %d) = %s", n, seed, c07Clip(p)),
						fmt.Sprintf("the generator's output contains %q, which none of the 25 default tables encodes (its alphabet has J and lacks K); the property counts every generator output among the proteins that must round-trip", l))
				}
			}
			for _, nt := range genTables {
				optimize(nt, p)
			}
		}
	}

	vRJ.Done()

	// ---- proportionality ----------------------------------------------------
	draws := 100000
	var propTables []c07Named
	if thorough {
		draws = 1000000
		propTables = append(propTables, defaults...)
		propTables = append(propTables, boundary...)
		for i := 0; i < len(reweighted); i += 2 {
			propTables = append(propTables, reweighted[i])
		}
	} else {
		// quick: one default table per distinct shape of code, the
		// prescribed-count tables of two codes, every third re-weighted table
		for i, d := range defaults {
			switch c07Ids[i] {
			case 1, 2, 3, 12, 22, 23, 27:
				propTables = append(propTables, d)
			}
		}
		propTables = append(propTables, boundary[:12]...)
		for i := 0; i < len(reweighted); i += 3 {
			propTables = append(propTables, reweighted[i])
		}
	}
	// tables for the many-short-calls part
	shortCalls := 3000
	var shortTables []c07Named
	if thorough {
		shortCalls = 10000
		shortTables = propTables
	} else {
		shortTables = append(shortTables, defaults[0], defaults[1], boundary[1], boundary[5])
		for i := 0; i < len(reweighted) && len(shortTables) < 8; i += 6 {
			shortTables = append(shortTables, reweighted[i])
		}
	}
	// cases for the repeated (generator, optimizer) pairs, part (c); lengths
	// from their own stream, nothing here touches rng
	repeats := 1000
	repeatSeeds := []int64{7, 0, verifSeed() + 2000}
	var repeatTables []c07Named
	if thorough {
		repeats = 4000
		repeatSeeds = append(repeatSeeds, 1, 42, -1, 1<<40)
		repeatTables = append(repeatTables, defaults...)
		repeatTables = append(repeatTables, boundary[:12]...)
		for i := 0; i < len(reweighted); i += 8 {
			repeatTables = append(repeatTables, reweighted[i])
		}
	} else {
		for i, d := range defaults {
			switch c07Ids[i] {
			case 1, 11:
				repeatTables = append(repeatTables, d)
			}
		}
		repeatTables = append(repeatTables, boundary[1], reweighted[0])
	}
	type c07RepeatCase struct {
		nt   c07Named
		n    int
		seed int64
	}
	var repeatCases []c07RepeatCase
	rngRepeat := c07RepeatStream(verifSeed())
	for _, nt := range repeatTables {
		for _, seed := range repeatSeeds {
			repeatCases = append(repeatCases, c07RepeatCase{nt, 60 + rngRepeat.Intn(141), seed})
		}
	}
	vPR := newVerifRun("C07", "transform/codon.Optimize/post/proportional",
		fmt.Sprintf("(a) one long call: for each of %d tables (thorough: all 25 defaults, all prescribed-count tables, every second re-weighted table; quick: defaults 1, 2, 3, 12, 22, 23, 27, 12 prescribed-count tables, every third re-weighted table) and each amino acid with >= 2 eligible codons: one protein of %d copies of that residue; the counts of the emitted codons against w/(sum of eligible w) by Pearson chi-square, rejected only below p = 1e-9 (cannot flake: < 1e-5 over the whole run); an eligible codon never drawn or an ineligible one drawn also fails; amino acids with one eligible codon are checked to use only it (trivial); (b) many short calls: for each of %d tables (thorough: the tables of (a); quick: defaults 1 and 2, the prescribed-count tables 2:17 and 1000:8999 of code 1, re-weighted tables 0, 6, 12, 18) one protein of 5..10 residues over the amino acids with >= 2 eligible codons (every position another amino acid, or positions drawn independently) is optimised in %d separate Optimize calls made one after the other without pause (all within a fraction of a second); per amino acid the picks pooled over all calls and positions (%d x occurrences, expected count of every eligible codon > 300) against w/(sum of eligible w) by the same Pearson chi-square, rejected only below p = 1e-9, class many-short-calls", len(propTables), draws, len(shortTables), shortCalls, shortCalls)+
			fmt.Sprintf("; (c) history over the generator and the optimizer: for each of %d tables (thorough: all 25 defaults, the prescribed-count tables of codes 1 and 2, every eighth re-weighted table; quick: defaults 1 and 11, the prescribed-count table 2:17 of code 1, re-weighted table 0) x each of the %d fixed generator seeds %v x one length n in 60..200: the pair protein := random.ProteinSequence(n, seed); Optimize(protein, table) is executed %d times in a row with the same n and seed (the generator seeds the process-wide math/rand source from its argument and returns the same protein every time; tables that cannot encode that protein are left to the rejection clause); per amino acid with >= 2 eligible codons the picks pooled over all repetitions and over its positions in the protein (%d x occurrences; amino acids for which some eligible codon has an expected count < %d are skipped) against w/(sum of eligible w) by the same Pearson chi-square, rejected only below p = %.0e (%d cases x at most 20 amino acids: false alarm < 3e-10 over the whole run), class draws-repeat-after-generator-seed; non-trivial = at least one amino acid tested", len(repeatTables), len(repeatSeeds), repeatSeeds, repeats, repeats, c07RepeatMinExpected, c07RepeatP, len(repeatCases)))
	vPR.Sampled()
	for _, nt := range propTables {
		for _, l := range nt.info.letters {
			el := nt.info.eligible[l]
			if len(el) == 0 {
				continue
			}
			n := draws
			if len(el) == 1 {
				n = 1000
			}
			protein := strings.Repeat(l, n)
			in := fmt.Sprintf("table %s, residue %s x %d", nt.name, l, n)
			vPR.Case(in, len(el) >= 2)
			vTH.Case(in, true)
			var dna string
			var err error
			if !vPR.Guard("panic-on-encodable-protein", in, func() { dna, err = Optimize(protein, nt.table) }) {
				continue
			}
			if err != nil {
				vPR.Fail("error-on-encodable-protein", in, err.Error())
				continue
			}
			counts := c07CheckOutput(vRT, vTH, nt, protein, dna)
			totalW := 0
			for _, c := range el {
				totalW += c.Weight
			}
			isEl := map[string]int{}
			for _, c := range el {
				isEl[c.Triplet] = c.Weight
			}
			bad := false
			for tr, k := range counts {
				if _, ok := isEl[tr]; !ok {
					vPR.Fail("ineligible-codon-drawn", in, fmt.Sprintf("%s drawn %d times; eligible %v", tr, k, el))
					bad = true
				}
			}
			if bad {
				continue
			}
			chi := 0.0
			desc := ""
			for _, c := range el {
				exp := float64(n) * float64(c.Weight) / float64(totalW)
				obs := float64(counts[c.Triplet])
				chi += (obs - exp) * (obs - exp) / exp
				desc += fmt.Sprintf(" %s w=%d obs=%d exp=%.1f;", c.Triplet, c.Weight, counts[c.Triplet], exp)
				if counts[c.Triplet] == 0 {
					vPR.Fail("eligible-codon-never-drawn", in, desc)
				}
			}
			if len(el) >= 2 {
				if p := c07ChiSqTail(chi, len(el)-1); p < 1e-9 {
					vPR.Fail("not-proportional-to-weight", in, fmt.Sprintf("chi2=%.1f df=%d p=%.3g:%s", chi, len(el)-1, p, desc))
				}
			}
		}
	}

	// ---- proportionality across many separate short calls ---------------------
	// The same clause with the draws spread over many Optimize calls made one
	// after the other instead of one call on a long protein: the picks for one
	// amino acid are pooled over all the calls (and over its positions in the
	// protein) and tested against the same proportions with the same threshold.
	for ti, nt := range shortTables {
		// a protein of 5..10 residues over the amino acids with >= 2 eligible codons
		var multi []string
		for _, l := range nt.info.letters {
			if len(nt.info.eligible[l]) >= 2 {
				multi = append(multi, l)
			}
		}
		if len(multi) == 0 {
			continue
		}
		// even tables: every position another amino acid (as far as there are
		// enough of them); odd tables: positions drawn independently, so that
		// an amino acid may recur
		plen := 5 + rng.Intn(6)
		pb := make([]byte, plen)
		perm := append([]string(nil), multi...)
		for i := len(perm) - 1; i > 0; i-- {
			j := rng.Intn(i + 1)
			perm[i], perm[j] = perm[j], perm[i]
		}
		for i := range pb {
			if ti%2 == 0 {
				pb[i] = perm[i%len(perm)][0]
			} else {
				pb[i] = multi[rng.Intn(len(multi))][0]
			}
		}
		protein := string(pb)
		in := fmt.Sprintf("table %s, protein %s optimised in %d separate consecutive calls", nt.name, protein, shortCalls)
		vPR.Case(in, true)
		vTH.Case(in, true)
		pooled := map[string]map[string]int{} // letter -> triplet -> count
		for _, l := range multi {
			pooled[l] = map[string]int{}
		}
		failed := false
		for call := 0; call < shortCalls && !failed; call++ {
			var dna string
			var err error
			if !vPR.Guard("panic-on-encodable-protein", in, func() { dna, err = Optimize(protein, nt.table) }) {
				failed = true
				break
			}
			if err != nil {
				vPR.Fail("error-on-encodable-protein", in, err.Error())
				failed = true
				break
			}
			if call%100 == 0 {
				c07CheckOutput(vRT, vTH, nt, protein, dna)
			}
			if len(dna) != 3*plen {
				vRT.Fail("wrong-length", in, fmt.Sprintf("result has %d bases for %d residues", len(dna), plen))
				failed = true
				break
			}
			for i := 0; i < plen; i++ {
				pooled[protein[i:i+1]][dna[3*i:3*i+3]]++
			}
		}
		if failed {
			continue
		}
		for _, l := range multi {
			n := strings.Count(protein, l) * shortCalls
			if n == 0 {
				continue
			}
			el := nt.info.eligible[l]
			totalW := 0
			isEl := map[string]bool{}
			for _, c := range el {
				totalW += c.Weight
				isEl[c.Triplet] = true
			}
			bad := false
			for tr, k := range pooled[l] {
				if !isEl[tr] {
					// the threshold (or round-trip) clause, seen on this input
					if nt.info.decode[tr] == l {
						vTH.Fail("codon-at-or-below-ten-percent-used", in, fmt.Sprintf("residue %s encoded by %s (weight %d of %d) %d times", l, tr, nt.info.weight[tr], nt.info.sum[l], k))
					} else {
						vRT.Fail("decodes-to-other-protein", in, fmt.Sprintf("residue %s encoded by %s %d times", l, tr, k))
					}
					bad = true
				}
			}
			if bad {
				continue
			}
			chi := 0.0
			desc := fmt.Sprintf("residue %s, %d picks pooled over the calls:", l, n)
			for _, c := range el {
				exp := float64(n) * float64(c.Weight) / float64(totalW)
				obs := float64(pooled[l][c.Triplet])
				chi += (obs - exp) * (obs - exp) / exp
				desc += fmt.Sprintf(" %s w=%d obs=%d exp=%.1f;", c.Triplet, c.Weight, pooled[l][c.Triplet], exp)
			}
			if p := c07ChiSqTail(chi, len(el)-1); p < 1e-9 {
				vPR.Fail("many-short-calls", in, fmt.Sprintf("chi2=%.1f df=%d p=%.3g: %s", chi, len(el)-1, p, desc))
			}
		}
	}

	// ---- proportionality across repeated (generator, optimizer) pairs ---------
	// The same clause on a history over two packages: the protein comes from
	// the library's own generator, which seeds the process-wide math/rand source
	// from its argument, and Optimize is called right after it; that pair is
	// repeated with the same length and seed. The property says that every
	// codon is a draw in proportion to its weight, whatever was called before,
	// so the picks for one amino acid pooled over the repetitions (and over its
	// positions in the protein, which is the same in every repetition) are one
	// multinomial sample of size repetitions x occurrences with the proportions
	// w / (sum of eligible w). Nothing else is demanded (in particular not that
	// two results differ).
	//
	// Why this stays silent on the unchanged tree: Optimize seeds the source from
	// the clock (nanoseconds) on entry, so what the generator did to the source
	// before is overwritten, and one repetition takes tens of microseconds, so
	// consecutive repetitions get different seeds exactly as the consecutive
	// calls of part (b) do; the pooled picks are then the sample described above
	// and Pearson's statistic has its chi-square law. The rejection level is
	// 1e-15 per amino acid instead of the 1e-9 of (a) and (b): with every
	// expected count >= 300 the true tail of the statistic lies within a factor
	// of about 30 of the chi-square tail at that level (exact binomial tail for
	// share 0.1 at 8 sigma), i.e. <= 3e-14 per amino acid, and there are at most
	// 20 amino acids x (quick 12, thorough 350) cases, so the probability of a
	// false alarm from this part is < 1e-11 (quick) and < 3e-10 (thorough) per
	// run; most expected counts are far above 300, where the factor is smaller. The level costs no power: if the draws of the
	// repetitions coincide, the statistic grows linearly with the number of
	// repetitions (an amino acid occurring 3 times whose 2 equally weighted
	// codons come out 2:1 every time gives chi2 = repetitions/3).
	for _, rc := range repeatCases {
		nt := rc.nt
		protein, gerr := polyrandom.ProteinSequence(rc.n, rc.seed)
		if gerr != nil || len(protein) != rc.n {
			t.Fatalf("harness: random.ProteinSequence(%d,%d) = %q, %v", rc.n, rc.seed, protein, gerr)
		}
		if ok, _ := c07Encodable(nt.info, protein); !ok {
			continue // rejection clause (checked above for every generator output of n 3..200)
		}
		in := fmt.Sprintf("table %s, the pair random.ProteinSequence(%d, %d) = %s; Optimize(that protein) executed %d times in a row", nt.name, rc.n, rc.seed, c07Clip(protein), repeats)
		// amino acids tested: >= 2 eligible codons and every expected count >= c07RepeatMinExpected
		var tested []string
		for _, l := range nt.info.letters {
			el := nt.info.eligible[l]
			if len(el) < 2 {
				continue
			}
			totalW, minW := 0, el[0].Weight
			for _, c := range el {
				totalW += c.Weight
				if c.Weight < minW {
					minW = c.Weight
				}
			}
			if n := strings.Count(protein, l) * repeats; n*minW >= c07RepeatMinExpected*totalW {
				tested = append(tested, l)
			}
		}
		vPR.Case(in, len(tested) > 0)
		vTH.Case(in, true)
		pooled := map[string]map[string]int{} // letter -> triplet -> count
		for i := 0; i < len(protein); i++ {
			if pooled[protein[i:i+1]] == nil {
				pooled[protein[i:i+1]] = map[string]int{}
			}
		}
		distinct := map[string]bool{}
		failed := false
		for rep := 0; rep < repeats && !failed; rep++ {
			p, err := polyrandom.ProteinSequence(rc.n, rc.seed)
			if err != nil || p != protein {
				t.Fatalf("harness: random.ProteinSequence(%d,%d) = %q, %v on repetition %d, was %q", rc.n, rc.seed, p, err, rep, protein)
			}
			var dna string
			if !vPR.Guard("panic-on-encodable-protein", in, func() { dna, err = Optimize(p, nt.table) }) {
				failed = true
				break
			}
			if err != nil {
				vPR.Fail("error-on-encodable-protein", in, err.Error())
				failed = true
				break
			}
			if rep%100 == 0 {
				c07CheckOutput(vRT, vTH, nt, protein, dna)
			}
			if len(dna) != 3*len(protein) {
				vRT.Fail("wrong-length", in, fmt.Sprintf("result has %d bases for %d residues", len(dna), len(protein)))
				failed = true
				break
			}
			distinct[dna] = true
			for i := 0; i < len(protein); i++ {
				pooled[protein[i:i+1]][dna[3*i:3*i+3]]++
			}
		}
		if failed {
			continue
		}
		for _, l := range tested {
			n := strings.Count(protein, l) * repeats
			el := nt.info.eligible[l]
			totalW := 0
			isEl := map[string]bool{}
			for _, c := range el {
				totalW += c.Weight
				isEl[c.Triplet] = true
			}
			bad := false
			for tr, k := range pooled[l] {
				if !isEl[tr] {
					// the threshold (or round-trip) clause, seen on this input
					if nt.info.decode[tr] == l {
						vTH.Fail("codon-at-or-below-ten-percent-used", in, fmt.Sprintf("residue %s encoded by %s (weight %d of %d) %d times", l, tr, nt.info.weight[tr], nt.info.sum[l], k))
					} else {
						vRT.Fail("decodes-to-other-protein", in, fmt.Sprintf("residue %s encoded by %s %d times", l, tr, k))
					}
					bad = true
				}
			}
			if bad {
				continue
			}
			chi := 0.0
			desc := fmt.Sprintf("residue %s (%d in the protein), %d picks pooled over the repetitions:", l, strings.Count(protein, l), n)
			for _, c := range el {
				exp := float64(n) * float64(c.Weight) / float64(totalW)
				obs := float64(pooled[l][c.Triplet])
				chi += (obs - exp) * (obs - exp) / exp
				desc += fmt.Sprintf(" %s w=%d obs=%d exp=%.1f;", c.Triplet, c.Weight, pooled[l][c.Triplet], exp)
			}
			if p := c07ChiSqTail(chi, len(el)-1); p < c07RepeatP {
				vPR.Fail("draws-repeat-after-generator-seed", in, fmt.Sprintf("chi2=%.1f df=%d p=%.3g: %s (for information: the %d repetitions gave %d distinct DNA strings)", chi, len(el)-1, p, desc, repeats, len(distinct)))
			}
		}
	}
	vRT.Done()
	vTH.Done()
	vPR.Done()
}

// c07Reject demands an error, not a panic, for a protein that holds the
// unencodable residue bad.
func c07Reject(v *verifRun, nt c07Named, protein, bad string) {
	in := fmt.Sprintf("Optimize(%q, table %s)", c07Clip(protein), nt.name)
	v.Case(in, true)
	class := "residue-absent-from-table"
	present := false
	for _, aa := range nt.table.AminoAcids {
		if aa.Letter == bad {
			present = true
		}
	}
	switch {
	case present:
		class = "all-synonyms-zero-weight"
	case strings.ToUpper(bad) != bad && nt.info.decode != nil && c07HasLetter(nt.table, strings.ToUpper(bad)):
		class = "lower-case-residue"
	}
	var dna string
	var err error
	if !v.Guard(class, in, func() { dna, err = Optimize(protein, nt.table) }) {
		return
	}
	if err == nil {
		v.Fail(class+"-accepted", in, fmt.Sprintf("no error; result %q", c07Clip(dna)))
	}
}

func c07HasLetter(t Table, l string) bool {
	for _, aa := range t.AminoAcids {
		if aa.Letter == l {
			return true
		}
	}
	return false
}
