package codon

// Bounded back end for C18: adding and compromising codon tables.
//
// Oracle: tables are read into a per-codon form (letter and weight for each of
// the 64 codons, start and stop sets); sums, per-amino-acid usage shares and
// means are computed here from the argument values. The +-1 the property allows
// on the 10000-scale is applied (a) to an integer rounding of the mean and
// (b) to the cut-off decision when a share lies within 1 of the cut-off AND
// rounding can matter. Rounding cannot matter when both the share and the
// cut-off are exact whole numbers on the 10000-scale that any arithmetic
// computes exactly (c18Sharp, c18WholeCut): an unused codon (share exactly 0),
// the only used codon of its amino acid (share exactly 10000), or a share
// w/total that is a dyadic fraction with a whole 10000-fold; and a cut-off whose
// exact 10000-fold is a whole number (0, -0, 0.25, 0.5, 1, ...). For these the
// decision "below the cut-off" is taken exactly: share 0 is not below cut-off 0.
// All tables are deep copies re-weighted with OptimizeTable, so the backing
// arrays shared between GetCodonTable results (C08) play no role here.

import (
	"fmt"
	"math"
	"math/big"
	"sort"
	"strings"
	"testing"
)

var c18Ids = []int{1, 2, 3, 4, 5, 6, 9, 10, 11, 12, 13, 14, 16, 21, 22, 23, 24, 25, 26, 27, 28, 29, 30, 31, 33}

func c18Copy(t Table) Table {
	var c Table
	c.StartCodons = append([]string(nil), t.StartCodons...)
	c.StopCodons = append([]string(nil), t.StopCodons...)
	for _, aa := range t.AminoAcids {
		c.AminoAcids = append(c.AminoAcids, AminoAcid{aa.Letter, append([]Codon(nil), aa.Codons...)})
	}
	return c
}

type c18Rand struct{ x uint64 }

func newC18Rand(seed int64) *c18Rand { return &c18Rand{uint64(seed)*0x9E3779B97F4A7C15 + 18} }
func (r *c18Rand) next() uint64 {
	r.x += 0x9E3779B97F4A7C15
	z := r.x
	z = (z ^ (z >> 30)) * 0xBF58476D1CE4E5B9
	z = (z ^ (z >> 27)) * 0x94D049BB133111EB
	return z ^ (z >> 31)
}
func (r *c18Rand) Intn(n int) int { return int(r.next() % uint64(n)) }

// c18Shuffled returns a deep copy with amino acids and codons in random order
// (the same table as a value; the operations must not depend on the order).
func c18Shuffled(rng *c18Rand, t Table) Table {
	c := c18Copy(t)
	for i := len(c.AminoAcids) - 1; i > 0; i-- {
		j := rng.Intn(i + 1)
		c.AminoAcids[i], c.AminoAcids[j] = c.AminoAcids[j], c.AminoAcids[i]
	}
	for _, aa := range c.AminoAcids {
		for i := len(aa.Codons) - 1; i > 0; i-- {
			j := rng.Intn(i + 1)
			aa.Codons[i], aa.Codons[j] = aa.Codons[j], aa.Codons[i]
		}
	}
	return c
}

func c18Index(tr string) int {
	if len(tr) != 3 {
		return -1
	}
	n := 0
	for i := 0; i < 3; i++ {
		k := strings.IndexByte("TCAG", tr[i])
		if k < 0 {
			return -1
		}
		n = 4*n + k
	}
	return n
}

func c18Triplet(i int) string {
	return string([]byte{"TCAG"[i/16], "TCAG"[i/4%4], "TCAG"[i%4]})
}

type c18V struct {
	letter [64]byte
	w      [64]int
	starts string // sorted, space separated
	stops  string
}

func c18SortedJoin(l []string) string {
	c := append([]string(nil), l...)
	sort.Strings(c)
	return strings.Join(c, " ")
}

func c18Norm(t Table) (v c18V, problem string) {
	n := 0
	for _, aa := range t.AminoAcids {
		if len(aa.Letter) != 1 {
			return v, fmt.Sprintf("letter %q", aa.Letter)
		}
		for _, c := range aa.Codons {
			i := c18Index(c.Triplet)
			if i < 0 {
				return v, fmt.Sprintf("triplet %q", c.Triplet)
			}
			if v.letter[i] != 0 {
				return v, fmt.Sprintf("triplet %s listed twice", c.Triplet)
			}
			v.letter[i] = aa.Letter[0]
			v.w[i] = c.Weight
			n++
		}
	}
	if n != 64 {
		return v, fmt.Sprintf("%d codons listed, expected 64", n)
	}
	v.starts, v.stops = c18SortedJoin(t.StartCodons), c18SortedJoin(t.StopCodons)
	return v, ""
}

func (v c18V) totals() (tot [256]int) {
	for i := 0; i < 64; i++ {
		tot[v.letter[i]] += v.w[i]
	}
	return tot
}

// share of codon i among its synonyms, scaled to 10000 (real number).
func (v c18V) shares() (s [64]float64) {
	tot := v.totals()
	for i := 0; i < 64; i++ {
		s[i] = 10000 * float64(v.w[i]) / float64(tot[v.letter[i]])
	}
	return s
}

// c18Sharp: is the share of a codon with weight w among synonyms totalling tot
// an exact whole number on the 10000-scale whichever way it is computed
// (w/tot*10000, 10000*w/tot, in floating point or in integers)?
func c18Sharp(w, tot int) bool {
	if w == 0 || w == tot {
		return true
	}
	if w < 0 || tot <= 0 || (10000*w)%tot != 0 {
		return false
	}
	g, x := w, tot
	for x != 0 {
		g, x = x, g%x
	}
	den := tot / g
	return den&(den-1) == 0 // w/tot is a dyadic fraction: the division is exact in binary floating point
}

// c18WholeCut: is the exact product 10000 x cut (cut taken as the real number
// the float64 denotes) a whole number? Then no rounding of the cut-off occurs.
func c18WholeCut(cut float64) bool {
	p := new(big.Float).SetPrec(200).SetFloat64(cut)
	p.Mul(p, big.NewFloat(10000))
	return p.IsInt()
}

// c18Decide: what the property demands of a codon with shares s1, s2 (weights
// w1, w2 among totals t1, t2) at cut-off c on the 10000-scale:
// -1 = must be zero, +1 = must be the mean, 0 = either (rounding may decide).
func c18Decide(s1, s2 float64, w1, t1, w2, t2 int, c float64, wholeCut bool) int {
	// per share: -1 certainly below, +1 certainly not below, 0 undecided
	one := func(s float64, w, tot int) int {
		switch {
		case wholeCut && c18Sharp(w, tot):
			if s < c {
				return -1
			}
			return 1
		case s < c-1.000001:
			return -1
		case s >= c+1.000001:
			return 1
		}
		return 0
	}
	d1, d2 := one(s1, w1, t1), one(s2, w2, t2)
	switch {
	case d1 < 0 || d2 < 0:
		return -1
	case d1 > 0 && d2 > 0:
		return 1
	}
	return 0
}

// c18SplitSequence: like c18CodingSequence, but no codon of avoid is used and
// every codon of include is used at least once. With avoid and include swapped
// for the second table of a pair, the pair has codons unused in exactly one of
// its two tables. avoid never holds all the synonyms of an amino acid.
func c18SplitSequence(rng *c18Rand, t Table, residues int, avoid map[string]bool, include []string) string {
	bias := []int{0, 0, 1, 1, 2, 5, 10, 30}
	type pick struct {
		triplets []string
		cum      []int
	}
	inc := map[string]bool{}
	for _, x := range include {
		inc[x] = true
	}
	var picks []pick
	for _, aa := range t.AminoAcids {
		var p pick
		total := 0
		for _, c := range aa.Codons {
			b := bias[rng.Intn(len(bias))]
			if avoid[c.Triplet] {
				b = 0
			} else if inc[c.Triplet] && b == 0 {
				b = 1
			}
			total += b
			p.triplets = append(p.triplets, c.Triplet)
			p.cum = append(p.cum, total)
		}
		if total == 0 {
			// give all the weight to one codon that is not avoided
			var free []int
			for j, tr := range p.triplets {
				if !avoid[tr] {
					free = append(free, j)
				}
			}
			k := free[rng.Intn(len(free))]
			for j := k; j < len(p.cum); j++ {
				p.cum[j] = 1
			}
		}
		picks = append(picks, p)
	}
	var sb strings.Builder
	emit := func(p pick) {
		r := rng.Intn(p.cum[len(p.cum)-1])
		for j, c := range p.cum {
			if r < c {
				sb.WriteString(p.triplets[j])
				return
			}
		}
	}
	for _, x := range include {
		sb.WriteString(x)
	}
	for _, p := range picks {
		emit(p)
	}
	for i := len(picks) + len(include); i < residues; i++ {
		emit(picks[rng.Intn(len(picks))])
	}
	return sb.String()
}

// c18CodingSequence: random coding sequence for t with every amino acid
// present and a random codon bias (unused, rare and frequent synonyms).
func c18CodingSequence(rng *c18Rand, t Table, residues int) string {
	bias := []int{0, 0, 1, 1, 2, 5, 10, 30}
	type pick struct {
		triplets []string
		cum      []int
	}
	var picks []pick
	for _, aa := range t.AminoAcids {
		var p pick
		total := 0
		for _, c := range aa.Codons {
			total += bias[rng.Intn(len(bias))]
			p.triplets = append(p.triplets, c.Triplet)
			p.cum = append(p.cum, total)
		}
		if total == 0 {
			k := rng.Intn(len(p.cum))
			for j := k; j < len(p.cum); j++ {
				p.cum[j] = 1
			}
		}
		picks = append(picks, p)
	}
	var sb strings.Builder
	emit := func(p pick) {
		r := rng.Intn(p.cum[len(p.cum)-1])
		for j, c := range p.cum {
			if r < c {
				sb.WriteString(p.triplets[j])
				return
			}
		}
	}
	for _, p := range picks {
		emit(p)
	}
	for i := len(picks); i < residues; i++ {
		emit(picks[rng.Intn(len(picks))])
	}
	return sb.String()
}

func c18Describe(v c18V) string {
	var parts []string
	for i := 0; i < 64; i++ {
		parts = append(parts, fmt.Sprintf("%s%c%d", c18Triplet(i), v.letter[i], v.w[i]))
	}
	return strings.Join(parts, ",")
}

type c18Pair struct {
	name   string
	a, b   Table
	va, vb c18V
}

// oneSided: number of codons unused (weight 0) in exactly one of the two tables.
func (p *c18Pair) oneSided() (onlyA, onlyB int) {
	for i := 0; i < 64; i++ {
		switch {
		case p.va.w[i] == 0 && p.vb.w[i] > 0:
			onlyA++
		case p.vb.w[i] == 0 && p.va.w[i] > 0:
			onlyB++
		}
	}
	return
}

func TestVerifC18(t *testing.T) {
	thorough := verifThorough()
	rng := newC18Rand(verifSeed())

	reweight := func(id int, residues int) Table {
		base := c18Copy(GetCodonTable(id))
		sort.Slice(base.AminoAcids, func(i, j int) bool { return base.AminoAcids[i].Letter < base.AminoAcids[j].Letter })
		cds := c18CodingSequence(rng, base, residues)
		return base.OptimizeTable(cds)
	}
	pairsPerCode := 8
	if thorough {
		pairsPerCode = 200
	}
	var pairs []c18Pair
	add := func(name string, a, b Table) {
		va, pa := c18Norm(a)
		vb, pb := c18Norm(b)
		if pa != "" || pb != "" {
			t.Fatalf("harness: %s: %s %s", name, pa, pb)
		}
		for _, v := range []c18V{va, vb} {
			tot := v.totals()
			for i := 0; i < 64; i++ {
				if tot[v.letter[i]] <= 0 {
					t.Fatalf("harness: %s: amino acid %c has no usage", name, v.letter[i])
				}
			}
		}
		if va.letter != vb.letter {
			t.Fatalf("harness: %s: different codes", name)
		}
		pairs = append(pairs, c18Pair{name, a, b, va, vb})
	}
	sizes := []int{64, 70, 100, 300, 1000, 5000, 30000}
	for _, id := range c18Ids {
		for k := 0; k < pairsPerCode; k++ {
			a := reweight(id, sizes[rng.Intn(len(sizes))])
			b := reweight(id, sizes[rng.Intn(len(sizes))])
			if k%2 == 1 {
				b = c18Shuffled(rng, b)
			}
			add(fmt.Sprintf("code %d pair %d", id, k), a, b)
		}
	}
	// same assignment, different start/stop lists: the first table's must be kept
	for _, ids := range [][2]int{{1, 11}, {11, 1}, {27, 28}, {28, 27}, {4, 4}} {
		a := reweight(ids[0], 500)
		b := c18Shuffled(rng, reweight(ids[1], 500))
		add(fmt.Sprintf("codes %d and %d (same assignment, different start/stop lists)", ids[0], ids[1]), a, b)
	}
	// a table with itself
	{
		a := reweight(1, 400)
		add("code 1 with a copy of itself", a, c18Copy(a))
	}

	// pairs with codons unused in exactly one of the two tables, by construction:
	// for every amino acid with two or more codons, one synonym is left out of
	// the first table's coding sequence and used in the second's, and another
	// the other way round (every amino acid still occurs in both). Their own
	// random stream, so that the pairs above stay what they were.
	splitPerCode := 1
	if thorough {
		splitPerCode = 12
	}
	{
		rng2 := newC18Rand(verifSeed() ^ 0x1818)
		for _, id := range c18Ids {
			for k := 0; k < splitPerCode; k++ {
				base := c18Copy(GetCodonTable(id))
				sort.Slice(base.AminoAcids, func(i, j int) bool { return base.AminoAcids[i].Letter < base.AminoAcids[j].Letter })
				notInA, notInB := map[string]bool{}, map[string]bool{}
				var listA, listB []string
				for _, aa := range base.AminoAcids {
					if len(aa.Codons) < 2 || rng2.Intn(4) == 0 {
						continue
					}
					x := rng2.Intn(len(aa.Codons))
					y := (x + 1 + rng2.Intn(len(aa.Codons)-1)) % len(aa.Codons)
					notInA[aa.Codons[x].Triplet], notInB[aa.Codons[y].Triplet] = true, true
					listA, listB = append(listA, aa.Codons[x].Triplet), append(listB, aa.Codons[y].Triplet)
				}
				size := []int{100, 300, 1000, 5000}[rng2.Intn(4)]
				a := base.OptimizeTable(c18SplitSequence(rng2, base, size, notInA, listB))
				base2 := c18Copy(base)
				b := base2.OptimizeTable(c18SplitSequence(rng2, base2, size, notInB, listA))
				if k%2 == 1 {
					b = c18Shuffled(rng2, b)
				}
				add(fmt.Sprintf("code %d split pair %d", id, k), a, b)
				p := &pairs[len(pairs)-1]
				if onlyA, onlyB := p.oneSided(); onlyA < len(listA) || onlyB < len(listB) || onlyA == 0 || onlyB == 0 {
					t.Fatalf("harness: %s: %d/%d codons unused in one table only, wanted at least %d/%d", p.name, onlyA, onlyB, len(listA), len(listB))
				}
			}
		}
	}

	// pairs with DISJOINT preferences for one amino acid: the first organism
	// uses only one of its synonyms, the second only another one (every other
	// amino acid at random), so that at any cut-off above 0 every codon of that
	// amino acid is cut off in the compromise table. Their own random stream.
	disjointPerCode := 1
	if thorough {
		disjointPerCode = 8
	}
	{
		rng3 := newC18Rand(verifSeed() ^ 0xd15)
		for _, id := range c18Ids {
			for k := 0; k < disjointPerCode; k++ {
				base := c18Copy(GetCodonTable(id))
				sort.Slice(base.AminoAcids, func(i, j int) bool { return base.AminoAcids[i].Letter < base.AminoAcids[j].Letter })
				var multi []AminoAcid
				for _, aa := range base.AminoAcids {
					if len(aa.Codons) >= 2 {
						multi = append(multi, aa)
					}
				}
				aa := multi[rng3.Intn(len(multi))]
				x := rng3.Intn(len(aa.Codons))
				y := (x + 1 + rng3.Intn(len(aa.Codons)-1)) % len(aa.Codons)
				notInA, notInB := map[string]bool{}, map[string]bool{}
				for j, c := range aa.Codons {
					if j != x {
						notInA[c.Triplet] = true
					}
					if j != y {
						notInB[c.Triplet] = true
					}
				}
				size := []int{100, 300, 1000}[rng3.Intn(3)]
				a := base.OptimizeTable(c18SplitSequence(rng3, base, size, notInA, []string{aa.Codons[x].Triplet}))
				base2 := c18Copy(base)
				b := base2.OptimizeTable(c18SplitSequence(rng3, base2, size, notInB, []string{aa.Codons[y].Triplet}))
				if k%2 == 1 {
					b = c18Shuffled(rng3, b)
				}
				add(fmt.Sprintf("code %d disjoint pair %d (%s: only %s in the first table, only %s in the second)", id, k, aa.Letter, aa.Codons[x].Triplet, aa.Codons[y].Triplet), a, b)
				p := &pairs[len(pairs)-1]
				for j, c := range aa.Codons {
					i := c18Index(c.Triplet)
					if (p.va.w[i] > 0) != (j == x) || (p.vb.w[i] > 0) != (j == y) {
						t.Fatalf("harness: %s: codon %s has weights %d / %d", p.name, c.Triplet, p.va.w[i], p.vb.w[i])
					}
				}
			}
		}
	}
	rngDead := newC18Rand(verifSeed() ^ 0xdead)

	vSum := newVerifRun("C18", "transform/codon.AddCodonTable/post/sum",
		fmt.Sprintf("%d pairs of deep-copied tables per code (all 25 codes) re-weighted with OptimizeTable from random coding sequences of 64..30000 codons in which every amino acid occurs (random bias, unused synonyms), every second pair with the second table's amino acids and codons in another order, plus pairs 1/11, 11/1, 27/28, 28/27 (same assignment, different start/stop lists) and a table with itself, plus %d 'split' pair(s) per code in which, for most amino acids with two or more codons, one synonym is unused (weight 0) in the first table only and another in the second table only (every amino acid still occurs in both), plus %d 'disjoint' pair(s) per code in which one amino acid with two or more codons uses ONLY one synonym in the first table and ONLY another one in the second (so that any cut-off above 0 cuts off every one of its codons); both argument orders; each codon's weight = sum of its two weights; non-trivial = every case", pairsPerCode, splitPerCode, disjointPerCode))
	vSum.Sampled()
	vSkA := newVerifRun("C18", "transform/codon.AddCodonTable/post/skeleton",
		"same pairs, both argument orders: the sum lists each of the 64 codons once under the letter the FIRST table gives it, and its start and stop codon sets are the first table's; non-trivial = pairs whose start/stop lists differ")
	vSkA.Sampled()
	vSk := newVerifRun("C18", "transform/codon.CompromiseCodonTable/post/skeleton",
		"same pairs, both argument orders, every accepted cut-off: the compromise lists each of the 64 codons once under the letter the FIRST table gives it, and its start and stop codon sets are the first table's; non-trivial = pairs whose start/stop lists differ")
	vSk.Sampled()
	vMean := newVerifRun("C18", "transform/codon.CompromiseCodonTable/post/mean-share",
		"same pairs x cut-offs {0, -0 , 5e-324, 1e-4, 0.05, 0.1, 0.25, 1/3, 0.5, 0.9, nextbefore(1), 1} and, per pair, 12 realised usage shares of either table with their two float64 neighbours; with s1, s2 the codon's shares (w / total of its amino acid, x 10000, real numbers) and c = 10000 x cut-off: weight must be 0 if s1 < c-1 or s2 < c-1; within [floor(m)-1, ceil(m)+1] for m = (s1+s2)/2 if both >= c+1; either of the two when a share is within 1 of c AND rounding can matter. "+
			"Rounding cannot matter, and the share is compared with c exactly (below iff s < c), when 10000 x cut-off is a whole number (cut-offs 0, -0, 0.25, 0.5, 1, ...) and the share is an exact whole number however computed: weight 0 (share exactly 0), weight = the amino acid's total (share exactly 10000), or w/total a dyadic fraction with a whole 10000-fold. In particular at cut-off 0 or -0 a codon unused in ONE table (share 0, not below 0) with share s in the other must get the mean s/2 (+-1), not zero, in both argument orders, and at cut-off 1 the only codon of an amino acid keeps 10000; non-trivial = cut-off > 0, or the pair has a codon unused in exactly one table")
	vMean.Sampled()
	vSym := newVerifRun("C18", "transform/codon.CompromiseCodonTable/post/symmetric",
		"same pairs and cut-offs: Compromise(a,b,c) and Compromise(b,a,c) give every codon weights that differ by at most 1, except that when a share is within 1 of the cut-off (10000-scale) and rounding can matter (the either-case of the mean-share clause: not for exact shares such as 0 or 10000 against a whole cut-off such as 0 or 1) one may be 0 and the other the mean; non-trivial = the two tables differ")
	vSym.Sampled()
	vRej := newVerifRun("C18", "transform/codon.CompromiseCodonTable/post/reject-cutoff",
		"same pairs x cut-offs {-1, -0.5, -1e-9, -5e-324, -0, 0, 5e-324, 0.1, 0.5, nextbefore(1), 1, nextafter(1), 1.000001, 1.5, 2} plus the realised-share cut-offs: error iff cut-off < 0 or > 1; non-trivial = every case")
	vRej.Sampled()
	vRare := newVerifRun("C18", "transform/codon.Optimize/post/compromise-never-rare",
		"same pairs x cut-offs > 0: a random protein (200 residues, thorough 1000) over the amino acids that keep a positive weight in the compromise table is optimised with it; no emitted codon may have a share below the cut-off in either source table (shares within 1 of the cut-off on the 10000-scale count as not below); also each emitted codon must encode the residue; non-trivial = some synonym of a requested amino acid was zeroed by the cut-off. "+
			"PLUS, for every pair and cut-off > 0 whose compromise table leaves some amino acid WITHOUT any positive weight (all its synonyms cut off: the amino acid of a disjoint pair at every cut-off, most amino acids at cut-offs 0.9..1): a protein of 12 residues over all the table's amino acids holding at least one such amino acid (one in six consists of that amino acid only) is optimised with the compromise table; accepted outcomes are an error, or a gene of three bases per residue that encodes the protein and holds no codon that is certainly below the cut-off in either source table (the must-be-zero decision of the mean-share clause); a cut-off codon emitted for the amino acid without usable codons is classed all-synonyms-cut-off; non-trivial = every such case")
	vRare.Sampled()

	fixedCuts := []float64{-1, -0.5, -1e-9, -5e-324, math.Copysign(0, -1), 0, 5e-324, 1e-4, 0.05, 0.1, 0.25, 1.0 / 3, 0.5, 0.9,
		math.Nextafter(1, 0), 1, math.Nextafter(1, 2), 1.000001, 1.5, 2}
	protLen := 200
	if thorough {
		protLen = 1000
	}

	for _, p := range pairs {
		// ---- add ----
		for dir := 0; dir < 2; dir++ {
			a, b, va, vb := p.a, p.b, p.va, p.vb
			if dir == 1 {
				a, b, va, vb = p.b, p.a, p.vb, p.va
			}
			in := fmt.Sprintf("AddCodonTable, %s, order %d; first=%s; second=%s", p.name, dir, c18Describe(va), c18Describe(vb))
			vSum.Case(fmt.Sprintf("%s/%d", p.name, dir), true)
			vSkA.Case(fmt.Sprintf("add/%s/%d", p.name, dir), va.starts != vb.starts || va.stops != vb.stops)
			var res Table
			if !vSum.Guard("panic", in, func() { res = AddCodonTable(a, b) }) {
				continue
			}
			got, problem := c18Norm(res)
			if problem != "" {
				vSkA.Fail("add-result-not-the-code", in, problem)
				continue
			}
			if got.letter != va.letter {
				vSkA.Fail("add-assignment-changed", in, "letters differ from the first table's")
			}
			if got.starts != va.starts || got.stops != va.stops {
				vSkA.Fail("add-start-stop-changed", in, fmt.Sprintf("starts [%s] stops [%s], first table's [%s] / [%s]", got.starts, got.stops, va.starts, va.stops))
			}
			for i := 0; i < 64; i++ {
				if got.w[i] != va.w[i]+vb.w[i] {
					vSum.Fail("not-the-sum", in, fmt.Sprintf("%s: %d + %d gives %d", c18Triplet(i), va.w[i], vb.w[i], got.w[i]))
					break
				}
			}
			// arguments untouched
			if na, _ := c18Norm(a); na != va {
				vSum.Fail("argument-modified", in, "first table changed")
			}
			if nb, _ := c18Norm(b); nb != vb {
				vSum.Fail("argument-modified", in, "second table changed")
			}
		}

		// ---- compromise ----
		sa, sb := p.va.shares(), p.vb.shares()
		cuts := append([]float64(nil), fixedCuts...)
		for k := 0; k < 12; k++ {
			s := sa
			if k%2 == 1 {
				s = sb
			}
			x := s[rng.Intn(64)] / 10000
			cuts = append(cuts, x, math.Nextafter(x, -1), math.Nextafter(x, 2))
		}
		for _, cut := range cuts {
			wantErr := cut < 0 || cut > 1
			var res [2]Table
			var errs [2]error
			okBoth := true
			for dir := 0; dir < 2; dir++ {
				a, b := p.a, p.b
				if dir == 1 {
					a, b = p.b, p.a
				}
				in := fmt.Sprintf("CompromiseCodonTable, %s, order %d, cut-off %v", p.name, dir, cut)
				vRej.Case(in, true)
				if !vRej.Guard("panic", in, func() { res[dir], errs[dir] = CompromiseCodonTable(a, b, cut) }) {
					okBoth = false
					continue
				}
				if wantErr && errs[dir] == nil {
					vRej.Fail("cutoff-outside-accepted", in, "no error")
				}
				if !wantErr && errs[dir] != nil {
					vRej.Fail("cutoff-inside-rejected", in, errs[dir].Error())
				}
				if wantErr != (errs[dir] != nil) {
					okBoth = false
				}
			}
			if wantErr || !okBoth {
				continue
			}
			c := 10000 * cut
			wholeCut := c18WholeCut(cut)
			ta, tb := p.va.totals(), p.vb.totals()
			onlyA, onlyB := p.oneSided()
			var decide [64]int // the same for both argument orders
			for i := 0; i < 64; i++ {
				l := p.va.letter[i]
				decide[i] = c18Decide(sa[i], sb[i], p.va.w[i], ta[l], p.vb.w[i], tb[l], c, wholeCut)
			}
			var gots [2]c18V
			valid := true
			for dir := 0; dir < 2; dir++ {
				va, vb, s1, s2 := p.va, p.vb, sa, sb
				if dir == 1 {
					va, vb, s1, s2 = p.vb, p.va, sb, sa
				}
				in := fmt.Sprintf("CompromiseCodonTable, %s, order %d, cut-off %v; first=%s; second=%s", p.name, dir, cut, c18Describe(va), c18Describe(vb))
				vMean.Case(fmt.Sprintf("%s/%d/%v", p.name, dir, cut), cut > 0 || onlyA+onlyB > 0)
				vSk.Case(fmt.Sprintf("compromise/%s/%d/%v", p.name, dir, cut), va.starts != vb.starts || va.stops != vb.stops)
				got, problem := c18Norm(res[dir])
				if problem != "" {
					vSk.Fail("compromise-result-not-the-code", in, problem)
					valid = false
					continue
				}
				gots[dir] = got
				if got.letter != va.letter {
					vSk.Fail("compromise-assignment-changed", in, "letters differ from the first table's")
				}
				if got.starts != va.starts || got.stops != va.stops {
					vSk.Fail("compromise-start-stop-changed", in, fmt.Sprintf("starts [%s] stops [%s], first table's [%s] / [%s]", got.starts, got.stops, va.starts, va.stops))
				}
				for i := 0; i < 64; i++ {
					m := (s1[i] + s2[i]) / 2
					g := float64(got.w[i])
					meanOK := g >= math.Floor(m-1e-9)-1 && g <= math.Ceil(m+1e-9)+1
					zeroOK := got.w[i] == 0
					below, above := decide[i] < 0, decide[i] > 0
					detail := fmt.Sprintf("%s (%c): shares %.3f and %.3f, cut-off %.3f on the 10000-scale, weight %d", c18Triplet(i), va.letter[i], s1[i], s2[i], c, got.w[i])
					switch {
					case below && !zeroOK:
						vMean.Fail("not-zero-below-cutoff", in, detail)
					case above && !meanOK && got.w[i] == 0 && (va.w[i] == 0) != (vb.w[i] == 0) && c == 0:
						// cut-off 0: a codon unused in one table only is not below the cut-off
						vMean.Fail("zero-share-treated-as-below-zero-cutoff", in, detail+fmt.Sprintf(", mean %.3f", m))
					case above && !meanOK:
						vMean.Fail("not-the-mean", in, detail+fmt.Sprintf(", mean %.3f", m))
					case !below && !above && !zeroOK && !meanOK:
						vMean.Fail("neither-zero-nor-mean", in, detail+fmt.Sprintf(", mean %.3f", m))
					}
				}
			}
			if !valid {
				continue
			}
			// symmetry
			inS := fmt.Sprintf("CompromiseCodonTable, %s, cut-off %v; a=%s; b=%s", p.name, cut, c18Describe(p.va), c18Describe(p.vb))
			vSym.Case(fmt.Sprintf("%s/%v", p.name, cut), p.va.w != p.vb.w)
			for i := 0; i < 64; i++ {
				d := gots[0].w[i] - gots[1].w[i]
				if d < -1 || d > 1 {
					if decide[i] == 0 && (gots[0].w[i] == 0 || gots[1].w[i] == 0) {
						continue
					}
					vSym.Fail("asymmetric", inS, fmt.Sprintf("%s: %d one way, %d the other", c18Triplet(i), gots[0].w[i], gots[1].w[i]))
					break
				}
			}
			// a gene optimised with the compromise table
			if cut <= 0 {
				continue
			}
			got := gots[0]
			tot := got.totals()
			var letters []byte
			zeroed := false
			seen := map[byte]bool{}
			for i := 0; i < 64; i++ {
				l := got.letter[i]
				if tot[l] > 0 && !seen[l] {
					seen[l] = true
					letters = append(letters, l)
				}
			}
			for i := 0; i < 64; i++ {
				if seen[got.letter[i]] && got.w[i] == 0 && (p.va.w[i] > 0 || p.vb.w[i] > 0) {
					zeroed = true
				}
			}
			// amino acids of which every synonym was cut off: a protein holding one
			// must be rejected or encoded without any cut-off codon
			var dead, everyLetter []byte
			{
				seenAll := map[byte]bool{}
				for i := 0; i < 64; i++ {
					l := got.letter[i]
					if !seenAll[l] {
						seenAll[l] = true
						everyLetter = append(everyLetter, l)
						if tot[l] == 0 {
							dead = append(dead, l)
						}
					}
				}
			}
			if len(dead) > 0 {
				prot := make([]byte, 12)
				only := rngDead.Intn(6) == 0
				for i := range prot {
					if only {
						prot[i] = dead[0]
					} else {
						prot[i] = everyLetter[rngDead.Intn(len(everyLetter))]
					}
				}
				prot[rngDead.Intn(len(prot))] = dead[rngDead.Intn(len(dead))]
				isDead := map[byte]bool{}
				for _, l := range dead {
					isDead[l] = true
				}
				inD := fmt.Sprintf("Optimize(%s) with CompromiseCodonTable(%s, cut-off %v), in which every codon of %s has weight 0", prot, p.name, cut, dead)
				vRare.Case(inD, true)
				var dna string
				var err error
				if vRare.Guard("all-synonyms-cut-off-panic", inD, func() { dna, err = Optimize(string(prot), res[0]) }) && err == nil {
					// not rejected: then it must be a gene for the protein without cut-off codons
					full := inD + "; a=" + c18Describe(p.va) + "; b=" + c18Describe(p.vb)
					if len(dna) != 3*len(prot) {
						vRare.Fail("optimize-failed", full, fmt.Sprintf("no error, %d bases for %d residues", len(dna), len(prot)))
					} else {
						for k := 0; k < len(prot); k++ {
							i := c18Index(dna[3*k : 3*k+3])
							if i < 0 || p.va.letter[i] != prot[k] {
								vRare.Fail("wrong-codon", full, fmt.Sprintf("residue %d (%c) encoded by %s", k, prot[k], dna[3*k:3*k+3]))
								break
							}
							if decide[i] < 0 {
								class := "rare-codon-used"
								if isDead[prot[k]] {
									class = "all-synonyms-cut-off"
								}
								vRare.Fail(class, full, fmt.Sprintf("no error; gene %s: residue %d (%c) encoded by %s whose shares are %.2f and %.2f, cut-off %.2f (10000-scale), weight %d in the compromise table", dna, k, prot[k], c18Triplet(i), sa[i], sb[i], c, got.w[i]))
								break
							}
						}
					}
				}
			}
			inR := fmt.Sprintf("Optimize with CompromiseCodonTable(%s, cut-off %v)", p.name, cut)
			if len(letters) == 0 {
				vRare.Case(inR, false)
				continue
			}
			prot := make([]byte, protLen)
			for i := range prot {
				prot[i] = letters[rng.Intn(len(letters))]
			}
			vRare.Case(inR, zeroed)
			var dna string
			var err error
			if !vRare.Guard("panic", inR+" protein "+string(prot), func() { dna, err = Optimize(string(prot), res[0]) }) {
				continue
			}
			if err != nil || len(dna) != 3*len(prot) {
				vRare.Fail("optimize-failed", inR+" protein "+string(prot), fmt.Sprintf("err=%v, %d bases", err, len(dna)))
				continue
			}
			for k := 0; k < len(prot); k++ {
				i := c18Index(dna[3*k : 3*k+3])
				if i < 0 || p.va.letter[i] != prot[k] {
					vRare.Fail("wrong-codon", inR, fmt.Sprintf("residue %d (%c) encoded by %s", k, prot[k], dna[3*k:3*k+3]))
					break
				}
				if sa[i] < c-1.000001 || sb[i] < c-1.000001 {
					vRare.Fail("rare-codon-used", inR+"; a="+c18Describe(p.va)+"; b="+c18Describe(p.vb), fmt.Sprintf("residue %d (%c) encoded by %s whose shares are %.2f and %.2f, cut-off %.2f (10000-scale)", k, prot[k], c18Triplet(i), sa[i], sb[i], c))
					break
				}
			}
		}
	}
	vSum.Done()
	vSkA.Done()
	vSk.Done()
	vMean.Done()
	vSym.Done()
	vRej.Done()
	vRare.Done()
}
