package clone

// Bounded back end for C09: GoldenGate / CircularLigate return exactly the
// plasmids the overhangs allow.
//
// Clauses executed on the real code:
//   clone.CircularLigate/post/exact-rings
//   clone.GoldenGate/post/exact-rings
//   clone.CircularLigate/post/order-independence
//   clone.CircularLigate/terminates        (every case in a child process)
//
// Independent oracles in this file: c09Rings (enumerates the rings of a pool
// of sticky-ended fragments: cyclic chains in which every trailing overhang
// equals the next leading overhang, each fragment usable in either
// orientation, no junction passed twice) and c09Canon (brute-force least
// string over all rotations of both strands; seqhash is not used).
//
// Besides designs whose junction overhangs are unrelated, every clause runs
// designs in which one junction is the reverse complement of the next (AACG,
// CGTT): a fragment between them fits in both orientations and each orientation
// is a ring of its own (c09MakeDesignPairs, class fragment-fits-both-ways).
//
// LONG constructs (c09LongDesign, classes ending in -longer-than-4096). A
// plasmid has a few thousand base pairs; the designs above have interiors of
// 0..31 bases and so constructs of at most a few hundred. Both exact-rings
// clauses therefore also run a few assemblies whose constructs are LONGER
// THAN 4096 bp (4.7 kb from a 3 kb backbone and two inserts, with a run of 24 T
// or 24 A in one insert so that the least rotation lies once on the strand
// opposite to the one the fragments are supplied on and once on the supplied
// one; 9 kb with two alternatives; a single interior of 5 kb next to a short
// one; a single 4.7 kb fragment that closes on itself), as fragments and, for
// GoldenGate, cut out of carriers of that size. Nothing else changes: one
// construct per ring, none missing, none spurious, none repeated.
//
// CIRCULAR PARTS AT EVERY ROTATION (c09RotWhere, classes circular-part-rotated,
// circular-part-rotated-cut-spans-origin, circular-part-rotated-site-spans-origin).
// A circular part is a ring; which base its stored string starts at is an
// accident of the file it came from. The carriers above are stored from a random
// origin outside the sites, skips and overhangs. The GoldenGate clause therefore
// also runs small designs (1..3 junctions) in which every circular part in turn
// is supplied stored from EACH of its bases (all n rotations, exhaustive), the
// other parts as drawn: the stored origin then also falls inside each
// recognition site (forward and reverse), inside its skip and inside its
// overhang. The rings demanded are the same at every rotation. These designs
// come from a random stream of their own and are run after the other cases.

import (
	"context"
	"encoding/json"
	"fmt"
	"math/rand"
	"os"
	"os/exec"
	"runtime"
	"sort"
	"strings"
	"sync"
	"syscall"
	"testing"
	"time"
)

type c09Frag struct {
	Seq string `json:"s"`
	Fo  string `json:"f"`
	Ro  string `json:"r"`
}

func (f c09Frag) String() string { return f.Fo + "." + f.Seq + "." + f.Ro }

func c09RC(s string) string {
	b := make([]byte, len(s))
	for i := 0; i < len(s); i++ {
		var c byte
		switch s[len(s)-1-i] {
		case 'A':
			c = 'T'
		case 'C':
			c = 'G'
		case 'G':
			c = 'C'
		case 'T':
			c = 'A'
		default:
			c = 'N'
		}
		b[i] = c
	}
	return string(b)
}

// c09Flip turns the fragment around: the other strand read 5'->3'.
func c09Flip(f c09Frag) c09Frag { return c09Frag{c09RC(f.Seq), c09RC(f.Ro), c09RC(f.Fo)} }

// c09Canon is the least string among all rotations of s and of its reverse
// complement (brute force).
func c09Canon(s string) string {
	s = strings.ToUpper(s)
	n := len(s)
	if n == 0 {
		return s
	}
	best := s
	for _, t := range []string{s, c09RC(s)} {
		d := t + t
		for k := 0; k < n; k++ {
			if r := d[k : k+n]; r < best {
				best = r
			}
		}
	}
	return best
}

// c09Rings enumerates the rings of the pool and returns the canonical forms of
// their constructs (a set: identical molecules count once).
func c09Rings(pool []c09Frag) map[string]bool {
	out := map[string]bool{}
	m := len(pool)
	used := make([]bool, m)
	for a := 0; a < m; a++ {
		lead := pool[a].Fo
		var rec func(trail string, construct string, passed map[string]bool)
		rec = func(trail string, construct string, passed map[string]bool) {
			if trail == lead {
				out[c09Canon(construct)] = true
				return
			}
			for j := a + 1; j < m; j++ {
				if used[j] {
					continue
				}
				for _, g := range []c09Frag{pool[j], c09Flip(pool[j])} {
					if g.Fo != trail || passed[g.Ro] {
						continue
					}
					used[j] = true
					passed[g.Ro] = true
					rec(g.Ro, construct+g.Fo+g.Seq, passed)
					delete(passed, g.Ro)
					used[j] = false
				}
			}
		}
		used[a] = true
		rec(pool[a].Ro, pool[a].Fo+pool[a].Seq, map[string]bool{pool[a].Ro: true})
		used[a] = false
	}
	return out
}

// c09SeedFreeCycle says whether, for some fragment of the pool taken as it is
// supplied, the overhangs reachable from its trailing end close a cycle that
// does not pass through its own leading overhang (the pools of the
// termination clause).
func c09SeedFreeCycle(pool []c09Frag) bool {
	edges := map[string][]string{}
	for _, f := range pool {
		edges[f.Fo] = append(edges[f.Fo], f.Ro)
		g := c09Flip(f)
		edges[g.Fo] = append(edges[g.Fo], g.Ro)
	}
	for _, seed := range pool {
		if seed.Fo == seed.Ro {
			continue
		}
		state := map[string]int{} // 1 = on stack, 2 = done
		var cyc bool
		var dfs func(x string)
		dfs = func(x string) {
			state[x] = 1
			for _, y := range edges[x] {
				if y == seed.Fo || cyc {
					continue
				}
				if state[y] == 1 {
					cyc = true
					return
				}
				if state[y] == 0 {
					dfs(y)
				}
			}
			state[x] = 2
		}
		dfs(seed.Ro)
		if cyc {
			return true
		}
	}
	return false
}

func c09RandSeq(rng *rand.Rand, n int, avoid ...string) string {
	for {
		b := make([]byte, n)
		for i := range b {
			b[i] = "ACGT"[rng.Intn(4)]
		}
		s := string(b)
		ok := true
		for _, a := range avoid {
			if strings.Contains(s, a) {
				ok = false
			}
		}
		if ok {
			return s
		}
	}
}

// c09Overhangs draws cnt 4-base overhangs, none palindromic, no two equal and
// none the reverse complement of another.
func c09Overhangs(rng *rand.Rand, cnt int) []string {
	taken := map[string]bool{}
	var out []string
	for len(out) < cnt {
		o := c09RandSeq(rng, 4)
		if o == c09RC(o) || taken[o] || taken[c09RC(o)] {
			continue
		}
		taken[o] = true
		taken[c09RC(o)] = true
		out = append(out, o)
	}
	return out
}

type c09Design struct {
	pool   []c09Frag // as supplied (orientation and order randomised)
	alts   []int
	decoys int
	note   string
	pairs  int  // junction pairs that are reverse complements of each other (c09MakeDesignPairs)
	long   bool // every construct is longer than 4096 bp (c09LongDesign)
	fixed  bool // long design supplied as designed: design order, no fragment turned around
}

func (d c09Design) key() string {
	k := fmt.Sprintf("junctions=%d alternatives=%v decoys=%d fragments=%d %s", len(d.alts), d.alts, d.decoys, len(d.pool), d.note)
	if d.pairs > 0 {
		k += fmt.Sprintf(" reverse-complementary-junction-pairs=%d", d.pairs)
	}
	return k
}

func c09PoolText(pool []c09Frag) string {
	var xs []string
	for _, f := range pool {
		xs = append(xs, f.String())
	}
	return strings.Join(xs, " ")
}

// c09MakeDesign builds a designed assembly: k junctions, 1..maxAlt
// alternatives per slot, every fragment supplied in a random orientation, the
// pool shuffled, plus decoys chosen by kind.
//
//	decoy kinds: 0 both ends match nothing; 1 leading end matches a junction,
//	trailing end dead; 2 trailing end matches a junction, leading end dead
//	(each then supplied in a random orientation).
func c09MakeDesign(rng *rand.Rand, k, maxAlt, maxRings, nDecoy int, avoid []string) c09Design {
	return c09MakeDesignAlts(rng, k, maxAlt, maxRings, nDecoy, avoid, nil)
}

// c09MakeDesignAlts is c09MakeDesign with the number of alternatives per slot
// given (forced != nil: len(forced) = k, no deliberately repeated alternative).
func c09MakeDesignAlts(rng *rand.Rand, k, maxAlt, maxRings, nDecoy int, avoid []string, forced []int) c09Design {
	return c09MakeDesignPairs(rng, k, maxAlt, maxRings, nDecoy, avoid, forced, 0)
}

// c09MakeDesignPairs is c09MakeDesignAlts in which the first `pairs` pairs of
// consecutive junctions are reverse complements of each other: junction 1 =
// rc(junction 0), junction 3 = rc(junction 2). A fragment of slot 0 (and of
// slot 2) then has overhangs X and rc(X): turned around it has the same two
// overhangs, so it fits the same place in both orientations and the pool has a
// ring for each orientation (the same ring when its interior is its own
// reverse complement). With 2 junctions both slots are of that kind.
func c09MakeDesignPairs(rng *rand.Rand, k, maxAlt, maxRings, nDecoy int, avoid []string, forced []int, pairs int) c09Design {
	ov := c09Overhangs(rng, k+2*nDecoy+2)
	junction := append([]string{}, ov[:k]...)
	dead := ov[k:]
	var d c09Design
	for p := 0; p < pairs && 2*p+1 < k; p++ {
		junction[2*p+1] = c09RC(junction[2*p])
		d.pairs++
	}
	rings := 1
	seqLen := func() int {
		switch rng.Intn(8) {
		case 0:
			return 0
		case 1:
			return 1 + rng.Intn(3)
		default:
			return 4 + rng.Intn(28)
		}
	}
	for j := 0; j < k; j++ {
		a := 0
		if forced != nil {
			a = forced[j]
		} else {
			a = 1 + rng.Intn(maxAlt)
			for rings*a > maxRings && a > 1 {
				a--
			}
		}
		rings *= a
		d.alts = append(d.alts, a)
		var first c09Frag
		for i := 0; i < a; i++ {
			f := c09Frag{c09RandSeq(rng, seqLen(), avoid...), junction[j], junction[(j+1)%k]}
			if i == 0 {
				first = f
			} else if forced == nil && rng.Intn(12) == 0 {
				f = first // the same molecule offered twice: still one ring
				d.note = "duplicate-alternative"
			}
			d.pool = append(d.pool, f)
		}
	}
	for i := 0; i < nDecoy; i++ {
		var f c09Frag
		switch rng.Intn(3) {
		case 0:
			f = c09Frag{c09RandSeq(rng, seqLen(), avoid...), dead[2*i], dead[2*i+1]}
		case 1:
			f = c09Frag{c09RandSeq(rng, seqLen(), avoid...), junction[rng.Intn(k)], dead[2*i]}
		default:
			f = c09Frag{c09RandSeq(rng, seqLen(), avoid...), dead[2*i], junction[rng.Intn(k)]}
		}
		d.pool = append(d.pool, f)
		d.decoys++
	}
	for i := range d.pool {
		if rng.Intn(2) == 0 {
			d.pool[i] = c09Flip(d.pool[i])
		}
	}
	rng.Shuffle(len(d.pool), func(i, j int) { d.pool[i], d.pool[j] = d.pool[j], d.pool[i] })
	return d
}

// c09LargeAlts lists the combinatorial libraries with more than 128 rings
// (still 5..6 junctions, 2..3 alternatives per slot) that are run in addition
// to the random designs: fixed shapes first, then (thorough) random ones.
func c09LargeAlts(rng *rand.Rand, thorough bool, forGG bool) [][]int {
	out := [][]int{{3, 3, 3, 3, 3}}
	if !forGG {
		out = append(out, []int{3, 3, 3, 3, 2, 2})
	}
	if !thorough {
		return out
	}
	out = append(out, []int{3, 3, 3, 3, 3, 3}, []int{3, 3, 2, 3, 3}, []int{2, 3, 3, 2, 3, 3})
	if forGG {
		out = append(out, []int{3, 3, 3, 3, 3}, []int{3, 3, 3, 3, 2, 2}) // so that each enzyme gets a fixed shape
	}
	extra := 10
	if forGG {
		extra = 4
	}
	for n := len(out) + extra; len(out) < n; {
		k := 5 + rng.Intn(2)
		alts := make([]int, k)
		prod := 1
		for j := range alts {
			alts[j] = 2 + rng.Intn(2)
			prod *= alts[j]
		}
		if prod > 128 {
			out = append(out, alts)
		}
	}
	return out
}

// c09LargeDesign draws a design with the given alternatives per slot, 0..1
// decoys, no cycle that excludes a seed, and more than 128 distinct rings
// (alternatives of one slot that happen to be the same molecule, e.g. two
// empty interiors, give fewer rings; such a draw is repeated).
func c09LargeDesign(rng *rand.Rand, alts []int, avoid []string) (c09Design, map[string]bool, bool) {
	for try := 0; try < 40; try++ {
		d := c09MakeDesignAlts(rng, len(alts), 3, 0, rng.Intn(2), avoid, alts)
		d.note = "large-library"
		if c09SeedFreeCycle(d.pool) {
			continue
		}
		want := c09Rings(d.pool)
		if len(want) > 128 {
			return d, want, true
		}
	}
	return c09Design{}, nil, false
}

func c09ToFragments(pool []c09Frag) []Fragment {
	out := make([]Fragment, len(pool))
	for i, f := range pool {
		out[i] = Fragment{Sequence: f.Seq, ForwardOverhang: f.Fo, ReverseOverhang: f.Ro}
	}
	return out
}

// c09Compare checks a returned construct list against the expected set of
// canonical forms and reports through fail(class, detail).
func c09Compare(parts []Part, want map[string]bool, fail func(class, detail string)) {
	got := map[string]int{}
	for _, p := range parts {
		if !p.Circular {
			fail("construct-not-circular", "returned construct is not marked circular: "+c09Clip(p.Sequence))
		}
		got[c09Canon(p.Sequence)]++
	}
	var missing, spurious, dup []string
	for w := range want {
		if got[w] == 0 {
			missing = append(missing, c09Clip(w))
		}
	}
	for g, c := range got {
		if !want[g] {
			spurious = append(spurious, c09Clip(g))
		} else if c > 1 {
			dup = append(dup, fmt.Sprintf("%dx %s", c, c09Clip(g)))
		}
	}
	sort.Strings(missing)
	sort.Strings(spurious)
	sort.Strings(dup)
	head := fmt.Sprintf("returned %d constructs, %d rings expected; ", len(parts), len(want))
	if len(missing) > 0 {
		fail("ring-missing", head+"missing "+strings.Join(missing, ", "))
	}
	if len(spurious) > 0 {
		fail("construct-spurious", head+"not a ring of the pool: "+strings.Join(spurious, ", "))
	}
	if len(dup) > 0 {
		fail("construct-duplicated", head+"same molecule returned more than once: "+strings.Join(dup, ", "))
	}
}

// c09BothWaysDesign draws a design with reverse-complementary junction pairs
// (k junctions, 1..2 alternatives per slot, 0..1 decoys) in which the two
// orientations of a fragment that fits both ways give different molecules (at
// least two rings). inProcess: no supplied fragment may see a cycle that avoids
// its own leading overhang (always so with 2 junctions; with 3 junctions only
// for some orientations of the other fragments; never with 4 junctions and one
// pair); !inProcess: some fragment must (the pools of the termination clause).
func c09BothWaysDesign(rng *rand.Rand, k, pairs int, avoid []string, inProcess bool) (c09Design, map[string]bool, bool) {
	for try := 0; try < 400; try++ {
		d := c09MakeDesignPairs(rng, k, 2, 16, rng.Intn(2), avoid, nil, pairs)
		if c09SeedFreeCycle(d.pool) == inProcess {
			continue
		}
		want := c09Rings(d.pool)
		if len(want) < 2 {
			continue
		}
		return d, want, true
	}
	return c09Design{}, nil, false
}

// the (junctions, reverse-complementary pairs) of the both-ways designs that can be run in process
// (4 junctions in two such pairs are left out: a fragment of slot 1 turned
// around then also fits slot 3, the code returns rings that take the same
// fragment twice, once in each orientation, and whether such a ring counts is
// not settled by the property; the enumerator takes every fragment once)
var c09BothWaysInProcess = [][2]int{{2, 1}, {3, 1}}

const c09BothWaysClass = "fragment-fits-both-ways"

// c09BothClass: in a design with a fragment that fits both ways a missing ring
// is a shape of its own.
func c09BothClass(class string, d c09Design) string {
	if d.pairs == 0 {
		return class
	}
	if class == "ring-missing" {
		return c09BothWaysClass
	}
	return class + "-with-" + c09BothWaysClass
}

// c09LargeClass: a ring missing from a pool with more than 128 rings is a shape of its own.
func c09LargeClass(class string, want map[string]bool) string {
	if class == "ring-missing" && len(want) > 128 {
		return "ring-missing-in-large-library"
	}
	return class
}

func c09Clip(s string) string {
	if len(s) > 80 {
		return s[:60] + "..." + s[len(s)-12:] + fmt.Sprintf("(%d)", len(s))
	}
	return s
}

// ---- long constructs ----

const c09LongSuffix = "-longer-than-4096"

// c09LongSpec describes one assembly with constructs longer than 4096 bp:
// lens[j] are the interior lengths of the alternatives of slot j; run, when not
// empty, is put into the middle of the first alternative of slot len(lens)/2;
// fixed: fragments supplied in design order and orientation (else each in a
// random orientation, pool shuffled).
type c09LongSpec struct {
	lens  [][]int
	run   string
	fixed bool
	what  string
}

var c09LongQuickLig = []c09LongSpec{
	{[][]int{{3000}, {1000}, {677}}, strings.Repeat("T", 24), true, "3 kb backbone + 1 kb insert holding a run of 24 T + 0.7 kb insert, one ring of 4.7 kb, supplied as designed"},
	{[][]int{{3000}, {1000}, {677}}, strings.Repeat("A", 24), true, "3 kb backbone + 1 kb insert holding a run of 24 A + 0.7 kb insert, one ring of 4.7 kb, supplied as designed"},
	{[][]int{{4000}, {3000, 2500}, {2000}}, "", false, "4 kb + (3 kb or 2.5 kb) + 2 kb, two rings of 9 kb and 8.5 kb, random orientation and order"},
	{[][]int{{5000}, {30}}, "", false, "one interior of 5 kb and one of 30 bases, one ring of 5 kb, random orientation and order"},
	{[][]int{{4700}}, "", false, "a single 4.7 kb fragment whose two overhangs are equal, closing on itself, in a random orientation"},
}

var c09LongQuickGG = []c09LongSpec{c09LongQuickLig[0], c09LongQuickLig[1], c09LongQuickLig[2]}

// c09LongSpecs returns the fixed specs and, in the thorough tier, extra more
// drawn at random: 1..4 junctions, 1..2 alternatives per slot, interiors of
// 200..5000 bases, slot 0 lengthened where needed so that every ring has more
// than 4096 bp (rings of 4.1 kb .. 20 kb), random orientation and order.
func c09LongSpecs(rng *rand.Rand, fixedSpecs []c09LongSpec, extra int) []c09LongSpec {
	out := append([]c09LongSpec{}, fixedSpecs...)
	for i := 0; i < extra; i++ {
		k := 1 + rng.Intn(4)
		lens := make([][]int, k)
		least := 0
		for j := range lens {
			m := 0
			for a, n := 0, 1+rng.Intn(2); a < n; a++ {
				l := 200 + rng.Intn(4801)
				lens[j] = append(lens[j], l)
				if a == 0 || l < m {
					m = l
				}
			}
			least += m + 4
		}
		if least <= 4096 {
			add := 4097 - least + rng.Intn(500)
			for a := range lens[0] {
				lens[0][a] += add
			}
		}
		out = append(out, c09LongSpec{lens, "", false, fmt.Sprintf("drawn at random: interiors %v, random orientation and order", lens)})
	}
	return out
}

// c09LongDesign builds the assembly of a spec.
func c09LongDesign(rng *rand.Rand, sp c09LongSpec, avoid []string) c09Design {
	k := len(sp.lens)
	junction := c09Overhangs(rng, k)
	d := c09Design{note: "construct-longer-than-4096: " + sp.what, long: true, fixed: sp.fixed}
	for j := 0; j < k; j++ {
		d.alts = append(d.alts, len(sp.lens[j]))
		for i, n := range sp.lens[j] {
			seq := c09RandSeq(rng, n, avoid...)
			if sp.run != "" && j == k/2 && i == 0 {
				seq = seq[:n/2] + sp.run + seq[n/2:]
			}
			d.pool = append(d.pool, c09Frag{seq, junction[j], junction[(j+1)%k]})
		}
	}
	if !sp.fixed {
		for i := range d.pool {
			if rng.Intn(2) == 0 {
				d.pool[i] = c09Flip(d.pool[i])
			}
		}
		rng.Shuffle(len(d.pool), func(i, j int) { d.pool[i], d.pool[j] = d.pool[j], d.pool[i] })
	}
	return d
}

// c09LongClass: a failure on an assembly with constructs longer than 4096 bp
// is a shape of its own.
func c09LongClass(class string, d c09Design) string {
	if d.long {
		return class + c09LongSuffix
	}
	return class
}

// c09PoolTextFor is c09PoolText with the interiors of a long design clipped
// (the text of a failure holds 600 characters).
func c09PoolTextFor(d c09Design) string {
	if !d.long {
		return c09PoolText(d.pool)
	}
	var xs []string
	for _, f := range d.pool {
		xs = append(xs, f.Fo+"."+c09Clip(f.Seq)+"."+f.Ro)
	}
	return d.note + " (VERIF_SEED " + fmt.Sprint(verifSeed()) + "); " + strings.Join(xs, " ")
}

// c09AllLong says whether every ring has more than 4096 bp.
func c09AllLong(want map[string]bool) bool {
	for w := range want {
		if len(w) <= 4096 {
			return false
		}
	}
	return len(want) > 0
}

// ---- GoldenGate inputs: fragments wrapped in enzyme sites on carrier parts ----

type c09Enzyme struct {
	name, site string
	skip       int
}

var c09Enzymes = []c09Enzyme{{"BsaI", "GGTCTC", 1}, {"BbsI", "GAAGAC", 2}, {"BtgZI", "GCGATG", 10}}

func c09Occ(seq string, circular bool, pat string) []int {
	n, l := len(seq), len(pat)
	var out []int
	if n < l {
		return out
	}
	last := n - l
	if circular {
		last = n - 1
	}
	for s := 0; s <= last; s++ {
		ok := true
		for i := 0; i < l; i++ {
			if seq[(s+i)%n] != pat[i] {
				ok = false
				break
			}
		}
		if ok {
			out = append(out, s)
		}
	}
	return out
}

// c09Carrier puts the fragments (each as: site, skip bases, overhang+interior+
// overhang, skip bases, reverse-complemented site; optionally the whole
// cassette reverse-complemented) on one circular or linear part. A circular
// part is stored from a random origin that does not fall inside a recognition
// site, its skip or its overhang (fragment interiors and backbone are allowed).
func c09Carrier(rng *rand.Rand, e c09Enzyme, frags []c09Frag, flips []bool, circular bool) (Part, bool) {
	rcSite := c09RC(e.site)
	for try := 0; try < 50; try++ {
		var sb strings.Builder
		type span struct{ lo, hi int }
		var forbidden []span
		pad := func(lo, hi int) string { return c09RandSeq(rng, lo+rng.Intn(hi-lo+1), e.site, rcSite) }
		sb.WriteString(pad(0, 25))
		nF, nR := 0, 0
		for i, f := range frags {
			if i > 0 {
				sb.WriteString(pad(0, 12))
			}
			cas := e.site + c09RandSeq(rng, e.skip) + f.Fo + f.Seq + f.Ro + c09RandSeq(rng, e.skip) + rcSite
			if flips[i] {
				cas = c09RC(cas)
			}
			at := sb.Len()
			left := len(e.site) + e.skip + 4
			forbidden = append(forbidden, span{at - 1, at + left + 1}, span{at + len(cas) - left - 1, at + len(cas) + 1})
			sb.WriteString(cas)
			nF++
			nR++
		}
		sb.WriteString(pad(0, 25))
		if circular {
			sb.WriteString(pad(10, 60))
		}
		s := sb.String()
		if len(c09Occ(s, circular, e.site)) != nF || len(c09Occ(s, circular, rcSite)) != nR {
			continue
		}
		if circular {
			n := len(s)
			var allowed []int
			for p := 0; p < n; p++ {
				ok := true
				for _, sp := range forbidden {
					if p >= sp.lo && p <= sp.hi {
						ok = false
					}
				}
				if ok {
					allowed = append(allowed, p)
				}
			}
			if len(allowed) == 0 {
				continue
			}
			r := allowed[rng.Intn(len(allowed))]
			s = s[r:] + s[:r]
		}
		if rng.Intn(4) == 0 {
			s = strings.ToLower(s)
		}
		return Part{Sequence: s, Circular: circular}, true
	}
	return Part{}, false
}

// ---- circular parts at every rotation ----

const (
	c09RotPlain = "circular-part-rotated"
	c09RotCut   = "circular-part-rotated-cut-spans-origin"
	c09RotSite  = "circular-part-rotated-site-spans-origin"
)

// c09RotWhere says where the origin of the stored string of a circular part
// falls: c09RotSite when an occurrence of the recognition site, on either
// strand, runs over it (begins in the last len(site)-1 bases and ends in the
// first ones); else c09RotCut when the stretch from a site to the far end of
// its overhang (site, skip, overhang) runs over it; else c09RotPlain.
func c09RotWhere(stored string, e c09Enzyme) string {
	s := strings.ToUpper(stored)
	n, l := len(s), len(e.site)
	reach := l + e.skip + 4
	where := c09RotPlain
	for _, at := range c09Occ(s, true, e.site) { // site, then skip and overhang to its right
		if at+l > n {
			return c09RotSite
		}
		if at+reach > n {
			where = c09RotCut
		}
	}
	for _, at := range c09Occ(s, true, c09RC(e.site)) { // overhang and skip to its left, then the site
		if at+l > n {
			return c09RotSite
		}
		if at-(e.skip+4) < 0 {
			where = c09RotCut
		}
	}
	return where
}

// c09RotClass: a failure at a rotation of a circular part is a shape of its own
// (a missing ring takes the name of the place of the origin).
func c09RotClass(class, where string) string {
	if class == "ring-missing" {
		return where
	}
	return class + "-with-" + where
}

// ---- child process for anything that may not terminate ----

const c09ChildEnv = "VERIF_C09_CHILD_CASE"

type c09ChildCase struct {
	Frags []c09Frag `json:"frags"`
	Procs int       `json:"procs"`
}

type c09ChildOut struct {
	Seqs     []string `json:"seqs"`
	Circular []bool   `json:"circular"`
}

// c09MappedBytes is the address space the process has mapped already (VmSize).
// A binary built with -race maps terabytes of shadow memory at start, so an
// address-space limit cannot be applied to it.
func c09MappedBytes() uint64 {
	b, err := os.ReadFile("/proc/self/status")
	if err != nil {
		return 0
	}
	for _, ln := range strings.Split(string(b), "\n") {
		if strings.HasPrefix(ln, "VmSize:") {
			var kb uint64
			fmt.Sscanf(strings.TrimSpace(strings.TrimPrefix(ln, "VmSize:")), "%d", &kb)
			return kb << 10
		}
	}
	return 0
}

// TestVerifC09Child runs one CircularLigate call described in the environment;
// it is only meaningful when started by TestVerifC09.
func TestVerifC09Child(t *testing.T) {
	spec := os.Getenv(c09ChildEnv)
	if spec == "" {
		return
	}
	var c c09ChildCase
	if err := json.Unmarshal([]byte(spec), &c); err != nil {
		fmt.Println("C09-CHILD-ERROR bad case: " + err.Error())
		return
	}
	const limit = 2 << 30
	if c09MappedBytes() < limit/2 { // not under the race detector: its shadow memory alone exceeds any such limit
		lim := syscall.Rlimit{Cur: limit, Max: limit}
		if err := syscall.Setrlimit(syscall.RLIMIT_AS, &lim); err != nil {
			fmt.Println("C09-CHILD-ERROR setrlimit: " + err.Error())
			return
		}
	}
	go func() { // second line of defence: leave before memory runs away
		var ms runtime.MemStats
		for {
			time.Sleep(25 * time.Millisecond)
			runtime.ReadMemStats(&ms)
			if ms.Sys > limit/4 {
				fmt.Printf("C09-CHILD-MEMORY sys=%d goroutines=%d\n", ms.Sys, runtime.NumGoroutine())
				os.Exit(3)
			}
		}
	}()
	if c.Procs > 0 {
		runtime.GOMAXPROCS(c.Procs)
	}
	parts := CircularLigate(c09ToFragments(c.Frags))
	var out c09ChildOut
	for _, p := range parts {
		out.Seqs = append(out.Seqs, p.Sequence)
		out.Circular = append(out.Circular, p.Circular)
	}
	b, _ := json.Marshal(out)
	fmt.Println("C09-CHILD-RESULT " + string(b))
}

// c09CapWriter keeps the first max bytes written to it (a runaway child can
// print a traceback of a million goroutines).
type c09CapWriter struct {
	mu  sync.Mutex
	buf []byte
	max int
}

func (w *c09CapWriter) Write(p []byte) (int, error) {
	w.mu.Lock()
	defer w.mu.Unlock()
	if room := w.max - len(w.buf); room > 0 {
		if room > len(p) {
			room = len(p)
		}
		w.buf = append(w.buf, p[:room]...)
	}
	return len(p), nil
}

// c09RunChild re-executes the test binary for one case. status is "returned",
// "deadline" (killed after d), or "died" (crash, memory limit).
func c09RunChild(c c09ChildCase, d time.Duration) (status string, parts []Part, detail string) {
	spec, _ := json.Marshal(c)
	ctx, cancel := context.WithTimeout(context.Background(), d)
	defer cancel()
	cmd := exec.CommandContext(ctx, os.Args[0], "-test.run=^TestVerifC09Child$", "-test.count=1", "-test.timeout=60s")
	cmd.Env = append(os.Environ(), c09ChildEnv+"="+string(spec), "GOTRACEBACK=none")
	capped := &c09CapWriter{max: 1 << 20}
	cmd.Stdout = capped
	cmd.Stderr = capped
	cmd.WaitDelay = time.Second
	start := time.Now()
	err := cmd.Run()
	el := time.Since(start)
	out := string(capped.buf)
	for _, ln := range strings.Split(out, "\n") {
		if i := strings.Index(ln, "C09-CHILD-RESULT "); i >= 0 {
			var r c09ChildOut
			if json.Unmarshal([]byte(ln[i+len("C09-CHILD-RESULT "):]), &r) == nil && err == nil {
				for j, s := range r.Seqs {
					parts = append(parts, Part{Sequence: s, Circular: r.Circular[j]})
				}
				return "returned", parts, fmt.Sprintf("returned after %v", el.Round(time.Millisecond))
			}
		}
	}
	if ctx.Err() == context.DeadlineExceeded {
		return "deadline", nil, fmt.Sprintf("CircularLigate had not returned after %v; child process killed", d)
	}
	tail := out
	for _, mark := range []string{"C09-CHILD-MEMORY", "C09-CHILD-ERROR", "fatal error:", "panic:"} {
		if i := strings.Index(out, mark); i >= 0 {
			tail = out[i:]
			break
		}
	}
	if i := strings.IndexByte(tail, '\n'); i >= 0 {
		tail = tail[:i]
	}
	if len(tail) > 200 {
		tail = tail[:200]
	}
	return "died", nil, fmt.Sprintf("child process ended after %v without a result (%v): %s", el.Round(time.Millisecond), err, strings.TrimSpace(tail))
}

const (
	c09ClauseLigate = "clone.CircularLigate/post/exact-rings"
	c09ClauseGG     = "clone.GoldenGate/post/exact-rings"
	c09ClauseOrder  = "clone.CircularLigate/post/order-independence"
	c09ClauseTerm   = "clone.CircularLigate/terminates"
)

var c09Procs = []int{1, 2, 16}

func TestVerifC09(t *testing.T) {
	rng := verifRand()
	thorough := verifThorough()
	prev := runtime.GOMAXPROCS(0)
	defer runtime.GOMAXPROCS(prev)

	reps := 2
	nLigate, nGG, nOrder, nTerm := 150, 60, 40, 10
	perms := 4
	if thorough {
		reps = 20
		nLigate, nGG, nOrder, nTerm = 800, 300, 300, 60
		perms = 10
	}
	// large combinatorial libraries (more than 128 rings) come from their own
	// random stream so that the other cases do not depend on them
	lrng := rand.New(rand.NewSource(verifSeed() + 909))
	largeLig := c09LargeAlts(lrng, thorough, false)
	largeGG := c09LargeAlts(lrng, thorough, true)
	nLargeOrder := 1
	if thorough {
		nLargeOrder = 3
	}
	// designs with a fragment that fits both ways (reverse-complementary
	// junctions) come from a stream of their own as well
	brng := rand.New(rand.NewSource(verifSeed() + 1909))
	nBothLig, nBothGG, nBothOrder, nBothTerm := 12, 6, 4, 3
	if thorough {
		nBothLig, nBothGG, nBothOrder, nBothTerm = 80, 30, 24, 12
	}
	// assemblies with constructs longer than 4096 bp: a stream of their own too
	grng := rand.New(rand.NewSource(verifSeed() + 2909))
	nLongExtraLig, nLongExtraGG := 0, 0
	if thorough {
		nLongExtraLig, nLongExtraGG = 15, 6
	}
	longLig := c09LongSpecs(grng, c09LongQuickLig, nLongExtraLig)
	longGG := c09LongSpecs(grng, c09LongQuickGG, nLongExtraGG)
	longDom := func(specs []c09LongSpec, extra int) string {
		var xs []string
		for _, sp := range specs[:len(specs)-extra] {
			xs = append(xs, sp.what)
		}
		s := fmt.Sprintf("%d designed assemblies whose constructs are all LONGER THAN 4096 bp (checked on the enumerator's rings), interiors of random sequence: %s", len(specs), strings.Join(xs, "; "))
		if extra > 0 {
			s += fmt.Sprintf("; and %d drawn at random (1..4 junctions, 1..2 alternatives per slot, interiors of 200..5000 bases, slot 0 lengthened where needed, rings of 4.1..20 kb, random orientation and order)", extra)
		}
		return s + "; no decoys; same demands: exactly one construct per ring (classes ring-missing" + c09LongSuffix + ", construct-spurious" + c09LongSuffix + ", construct-duplicated" + c09LongSuffix + ")"
	}
	// circular parts supplied at every rotation: a stream of their own as well
	orng := rand.New(rand.NewSource(verifSeed() + 3909))
	nRot := 9
	if thorough {
		nRot = 90
	}
	rotDom := fmt.Sprintf("plus circular parts at EVERY rotation: %d designed assemblies (1..3 junctions, 1..2 alternatives, at most 4 rings, 0..1 decoys, same exclusion, BsaI, BbsI, BtgZI in turn) wrapped and carried as above, one cassette per part (one time in four two), on circular and linear parts (at least one circular; carriers of about 30..270 bases); every circular part in turn is supplied stored from each of its n bases (all n rotations of its stored string, exhaustive; the other parts as drawn), so that the stored origin also falls inside each recognition site, forward and reverse (5 rotations each), inside its skip and inside its overhang, and inside the fragment and the backbone; one GoldenGate call per rotation, at GOMAXPROCS 1, 2, 16 in turn; the rings demanded are those of the designed fragments at every rotation (class %s when a ring is missing at a rotation at which a recognition site of either strand runs over the stored origin, %s when none does but the stretch site-skip-overhang of a site does, %s at the other rotations; other failures <class>-with-<that>)", nRot, c09RotSite, c09RotCut, c09RotPlain)
	bothDom := "designs with a fragment that fits both ways: junction 1 is the reverse complement of junction 0 (e.g. AACG and CGTT), so that a fragment of slot 0 turned around has the same two overhangs and the pool has one ring with it in either orientation; 2 junctions (both slots of that kind) or 3 junctions (in the orientations in which no supplied fragment sees a cycle that avoids its own leading overhang; the others are pools (e) of the termination clause), 1..2 alternatives per slot, 0..1 decoys, random orientation and order, at least two distinct rings by the enumerator (class " + c09BothWaysClass + " when one is missing)"
	hung := false
	// guarded in-process call: these pools have no cycle that excludes a seed,
	// so the call is expected to return at once; a call that does not is
	// recorded and no further in-process case is started.
	call := func(f func()) bool {
		if hung {
			return false
		}
		if !verifWithin(60*time.Second, f) {
			hung = true
			return false
		}
		return true
	}

	vTerm := newVerifRun("C09", c09ClauseTerm, fmt.Sprintf("%d pools (sampled), each run once in a child process (address space limited to 2 GiB, killed 5 s after start) at GOMAXPROCS 1, 2 or 16: pools in which the overhangs reachable from the trailing end of some supplied fragment close a cycle that avoids that fragment's leading overhang: (a) the literal pool d(GGAG..TACT) x(TACT..AATG) y(AATG..TACT); (b) a designed assembly (2..4 junctions, 1..2 alternatives) plus a dead-end decoy whose live end trails as supplied; (c) the same plus a fragment that bridges two non-adjacent junctions; (d) the same plus a two-fragment side ring hanging on one junction; (e) %d designed assemblies with a fragment that fits both ways (junction 1 the reverse complement of junction 0, e.g. AACG and CGTT; 3 junctions, or 4 junctions with one such pair; 1..2 alternatives, 0..1 decoys, at least two distinct rings) in the orientations in which some supplied fragment sees such a cycle; plus, as controls, 3 designed pools without such a cycle; the call must return; when it does, (a)-(c) and (e) are also compared with the ring enumerator; non-trivial = the pool has such a cycle", nTerm+nBothTerm+3, nBothTerm))
	vTerm.Sampled()

	// ---- CircularLigate on fragments ----
	var vLig *verifRun
	{
		v := newVerifRun("C09", c09ClauseLigate, fmt.Sprintf("sampled, %d designed assemblies given directly as fragments: 1..6 junctions with distinct non-palindromic 4-base overhangs (none the reverse complement of another), 1..3 alternative fragments per slot (interiors of 0..31 bases, sometimes the same molecule twice), 0..3 decoys (both ends dead / only the leading end live / only the trailing end live), every fragment supplied in a random orientation, pool shuffled; these have at most %d rings with 5..6 junctions and at most 81 with fewer; plus %d large combinatorial libraries of the same kind with more than 128 distinct rings each (alternatives per slot %v, 0..1 decoys, no deliberately repeated molecule; 128 < rings <= 729); pools in which some supplied fragment sees a cycle that avoids its own leading overhang are left to the termination clause (this removes every pool with a decoy whose live end trails as supplied); each pool run %d times at each of GOMAXPROCS 1, 2, 16; the set of canonical forms (own brute-force least rotation over both strands) of the returned constructs must equal that of the independent ring enumerator, without repeats, every construct marked circular (class ring-missing-in-large-library when a ring of a pool with more than 128 rings is missing); non-trivial = at least 2 fragments in some ring or more than one ring; in addition the pools (a)-(c), (e) and the controls of the termination clause, whenever their child process returned, are compared in the same way (classes then end in -in-cyclic-pool); plus %d %s; plus, run in the same way, %s", nLigate, map[bool]int{false: 64, true: 729}[thorough], len(largeLig), largeLig, reps, nBothLig, bothDom, longDom(longLig, nLongExtraLig)))
		v.Sampled()
		vLig = v
		for i := 0; i < nLigate+len(largeLig)+nBothLig+len(longLig) && !hung; i++ {
			var d c09Design
			var want map[string]bool
			var k int
			if i >= nLigate+len(largeLig)+nBothLig {
				sp := longLig[i-nLigate-len(largeLig)-nBothLig]
				k = len(sp.lens)
				d = c09LongDesign(grng, sp, nil)
				want = c09Rings(d.pool)
				if c09SeedFreeCycle(d.pool) || !c09AllLong(want) {
					t.Fatalf("harness: long design %q has a cycle that avoids a seed, or a ring of 4096 bp or fewer", sp.what)
				}
			} else if i >= nLigate+len(largeLig) {
				kp := c09BothWaysInProcess[(i-nLigate-len(largeLig))%len(c09BothWaysInProcess)]
				var ok bool
				k = kp[0]
				if d, want, ok = c09BothWaysDesign(brng, kp[0], kp[1], nil, true); !ok {
					t.Fatalf("harness: no design with %d junctions and %d reverse-complementary pair(s)", kp[0], kp[1])
				}
			} else if i < nLigate {
				k = 1 + rng.Intn(6)
				maxRings := 729
				if !thorough && k >= 5 {
					maxRings = 64
				}
				d = c09MakeDesign(rng, k, 3, maxRings, rng.Intn(4), nil)
				if c09SeedFreeCycle(d.pool) {
					continue
				}
				want = c09Rings(d.pool)
			} else {
				var ok bool
				k = len(largeLig[i-nLigate])
				if d, want, ok = c09LargeDesign(lrng, largeLig[i-nLigate], nil); !ok {
					t.Fatalf("harness: no large library for alternatives %v", largeLig[i-nLigate])
				}
			}
			frs := c09ToFragments(d.pool)
			for _, p := range c09Procs {
				for r := 0; r < reps && !hung; r++ {
					v.Case(fmt.Sprintf("%s procs=%d rep=%d #%d", d.key(), p, r, i), k >= 2 || len(want) > 1)
					runtime.GOMAXPROCS(p)
					var parts []Part
					var perr interface{}
					ok := call(func() {
						defer func() { perr = recover() }()
						parts = CircularLigate(frs)
					})
					input := fmt.Sprintf("GOMAXPROCS=%d fragments(leading.interior.trailing)= %s", p, c09PoolTextFor(d))
					if !ok {
						vTerm.Fail("no-cycle-excluding-seed", input, "CircularLigate had not returned after 60 s although no cycle avoids a seed; in-process runs abandoned")
						break
					}
					if perr != nil {
						v.Fail("panic", input, fmt.Sprint("panic: ", perr))
						continue
					}
					c09Compare(parts, want, func(class, detail string) {
						v.Fail(c09LongClass(c09BothClass(c09LargeClass(class, want), d), d), input, detail)
					})
				}
			}
		}
	}

	// ---- GoldenGate on carrier parts ----
	{
		v := newVerifRun("C09", c09ClauseGG, fmt.Sprintf("sampled, %d designed assemblies (1..5 junctions, 1..3 alternatives, at most %d rings, 0..2 decoys, same exclusion as above) plus %d large combinatorial libraries with more than 128 distinct rings each (5..6 junctions, alternatives per slot %v, 0..1 decoys; class ring-missing-in-large-library) whose fragments are each wrapped in BsaI, BbsI or BtgZI sites and carried, one or two per part, on circular parts (stored from a random origin that does not fall inside a site, its skip or its overhang, so that C10's origin defect is not in play) and linear parts, cassettes in either orientation, a quarter of the parts in lower case, plus parts without any site or with a single site; parts shuffled; each run %d times at GOMAXPROCS 1, 2, 16; result compared as above with the rings of the designed fragments; non-trivial as above; plus, wrapped and carried in the same way, %d %s; plus, wrapped and carried in the same way (BsaI, BbsI, BtgZI in turn; the assemblies supplied as designed: one cassette per linear part, none turned around; the carriers are then longer than 4096 bp themselves), %s; "+rotDom, nGG, map[bool]int{false: 27, true: 81}[thorough], len(largeGG), largeGG, (reps+1)/2, nBothGG, bothDom, longDom(longGG, nLongExtraGG)))
		v.Sampled()
		largeRetry := 0
		for i := 0; i < nGG+len(largeGG)+nBothGG+len(longGG) && !hung; i++ {
			e := c09Enzymes[i%3]
			rng := rng
			var d c09Design
			var k int
			flipTries := 10
			if i >= nGG+len(largeGG)+nBothGG {
				rng = grng
				li := i - nGG - len(largeGG) - nBothGG
				e = c09Enzymes[li%3]
				k = len(longGG[li].lens)
				d = c09LongDesign(grng, longGG[li], []string{e.site, c09RC(e.site)})
				flipTries = 200
			} else if i >= nGG+len(largeGG) {
				rng = brng
				kp := c09BothWaysInProcess[(i-nGG-len(largeGG))%len(c09BothWaysInProcess)]
				var ok bool
				k = kp[0]
				if d, _, ok = c09BothWaysDesign(brng, kp[0], kp[1], []string{e.site, c09RC(e.site)}, true); !ok {
					t.Fatalf("harness: no design with %d junctions and %d reverse-complementary pair(s)", kp[0], kp[1])
				}
				flipTries = 200 // with 3 junctions only some orientations of the cut fragments are free of such a cycle
			} else if i < nGG {
				k = 1 + rng.Intn(5)
				maxRings := 81
				if !thorough {
					maxRings = 27
				}
				d = c09MakeDesign(rng, k, 3, maxRings, rng.Intn(3), []string{e.site, c09RC(e.site)})
			} else {
				rng = lrng
				k = len(largeGG[i-nGG])
				var ok bool
				if d, _, ok = c09LargeDesign(lrng, largeGG[i-nGG], []string{e.site, c09RC(e.site)}); !ok {
					t.Fatalf("harness: no large library for alternatives %v", largeGG[i-nGG])
				}
			}
			// a fragment of fewer than 2 overhang lengths cannot be cut out; all have 8+ bases by construction
			// a cassette may sit on its carrier in either orientation; the fragment then
			// comes off flipped, and the exclusion is applied to the fragments as cut
			flips := make([]bool, len(d.pool))
			asCut := make([]c09Frag, len(d.pool))
			safe := false
			for try := 0; try < flipTries && !safe; try++ {
				for j, f := range d.pool {
					flips[j] = rng.Intn(2) == 0
					if d.fixed {
						flips[j] = false
					}
					asCut[j] = f
					if flips[j] {
						asCut[j] = c09Flip(f)
					}
				}
				safe = !c09SeedFreeCycle(asCut)
			}
			if !safe && d.long {
				t.Fatalf("harness: long design %q: no orientation of the cassettes without a cycle that avoids a seed", d.note)
			}
			if !safe {
				if i >= nGG && i < nGG+len(largeGG) && largeRetry < 20 { // a large library is not given up: draw it again
					largeRetry++
					i--
				}
				continue
			}
			want := c09Rings(d.pool)
			if d.long && !c09AllLong(want) {
				t.Fatalf("harness: long design %q has a ring of 4096 bp or fewer", d.note)
			}
			var parts []Part
			okBuild := true
			for j := 0; j < len(d.pool); {
				take := 1
				if j+1 < len(d.pool) && rng.Intn(4) == 0 && !d.fixed {
					take = 2
				}
				circular := rng.Intn(2) == 0 && !d.fixed
				p, ok := c09Carrier(rng, e, d.pool[j:j+take], flips[j:j+take], circular)
				if !ok && d.long {
					t.Fatalf("harness: long design %q: no carrier for its fragments", d.note)
				}
				if !ok {
					okBuild = false
					break
				}
				parts = append(parts, p)
				j += take
			}
			if !okBuild {
				if i >= nGG && i < nGG+len(largeGG) && largeRetry < 20 {
					largeRetry++
					i--
				}
				continue
			}
			if rng.Intn(3) == 0 {
				parts = append(parts, Part{c09RandSeq(rng, 30+rng.Intn(50), e.site, c09RC(e.site)), rng.Intn(2) == 0})
			}
			if rng.Intn(3) == 0 {
				parts = append(parts, Part{c09RandSeq(rng, 20, e.site, c09RC(e.site)) + e.site + c09RandSeq(rng, 30, e.site, c09RC(e.site)), rng.Intn(2) == 0})
			}
			rng.Shuffle(len(parts), func(a, b int) { parts[a], parts[b] = parts[b], parts[a] })
			var ptxt []string
			for _, p := range parts {
				shape := "linear:"
				if p.Circular {
					shape = "circular:"
				}
				if d.long {
					ptxt = append(ptxt, shape+c09Clip(p.Sequence))
					continue
				}
				ptxt = append(ptxt, shape+p.Sequence)
			}
			for _, p := range c09Procs {
				for r := 0; r < (reps+1)/2 && !hung; r++ {
					v.Case(fmt.Sprintf("%s %s parts=%d procs=%d rep=%d #%d", e.name, d.key(), len(parts), p, r, i), k >= 2 || len(want) > 1)
					runtime.GOMAXPROCS(p)
					var got []Part
					var err error
					var perr interface{}
					ok := call(func() {
						defer func() { perr = recover() }()
						got, err = GoldenGate(parts, e.name)
					})
					input := fmt.Sprintf("GOMAXPROCS=%d enzyme=%s designed fragments= %s ; parts= %s", p, e.name, c09PoolTextFor(d), strings.Join(ptxt, " "))
					if !ok {
						vTerm.Fail("no-cycle-excluding-seed", input, "GoldenGate had not returned after 60 s although no cycle avoids a seed; in-process runs abandoned")
						break
					}
					if perr != nil {
						v.Fail("panic", input, fmt.Sprint("panic: ", perr))
						continue
					}
					if err != nil {
						v.Fail("error", input, "error: "+err.Error())
						continue
					}
					c09Compare(got, want, func(class, detail string) {
						v.Fail(c09LongClass(c09BothClass(c09LargeClass(class, want), d), d), input, detail)
					})
				}
			}
		}
		// circular parts at every rotation (own stream orng; run after the cases above)
		for i := 0; i < nRot && !hung; i++ {
			e := c09Enzymes[i%3]
			avoid := []string{e.site, c09RC(e.site)}
			k := 1 + orng.Intn(3)
			d := c09MakeDesign(orng, k, 2, 4, orng.Intn(2), avoid)
			flips := make([]bool, len(d.pool))
			asCut := make([]c09Frag, len(d.pool))
			safe := false
			for try := 0; try < 50 && !safe; try++ {
				for j, f := range d.pool {
					flips[j] = orng.Intn(2) == 0
					asCut[j] = f
					if flips[j] {
						asCut[j] = c09Flip(f)
					}
				}
				safe = !c09SeedFreeCycle(asCut)
			}
			if !safe {
				continue
			}
			want := c09Rings(d.pool)
			var parts []Part
			okBuild := true
			for j := 0; j < len(d.pool); {
				take := 1
				if j+1 < len(d.pool) && orng.Intn(4) == 0 {
					take = 2
				}
				circular := j == 0 || orng.Intn(3) > 0
				p, ok := c09Carrier(orng, e, d.pool[j:j+take], flips[j:j+take], circular)
				if !ok {
					okBuild = false
					break
				}
				parts = append(parts, p)
				j += take
			}
			if !okBuild {
				continue
			}
			orng.Shuffle(len(parts), func(a, b int) { parts[a], parts[b] = parts[b], parts[a] })
			for ci := range parts {
				if !parts[ci].Circular {
					continue
				}
				stored := parts[ci].Sequence
				n := len(stored)
				for r := 0; r < n && !hung; r++ {
					rot := append([]Part{}, parts...)
					rot[ci] = Part{Sequence: stored[r:] + stored[:r], Circular: true}
					where := c09RotWhere(rot[ci].Sequence, e)
					p := c09Procs[r%3]
					v.Case(fmt.Sprintf("%s %s parts=%d circular-part=%d rotation=%d/%d %s procs=%d #rot%d", e.name, d.key(), len(parts), ci, r, n, where, p, i), k >= 2 || len(want) > 1)
					runtime.GOMAXPROCS(p)
					var got []Part
					var err error
					var perr interface{}
					ok := call(func() {
						defer func() { perr = recover() }()
						got, err = GoldenGate(rot, e.name)
					})
					var ptxt []string
					for pi, q := range rot {
						shape := "linear:"
						if q.Circular {
							shape = "circular:"
						}
						if pi == ci {
							shape = fmt.Sprintf("circular(stored from base %d of the %d of the string first drawn):", r, n)
						}
						ptxt = append(ptxt, shape+q.Sequence)
					}
					input := fmt.Sprintf("GOMAXPROCS=%d enzyme=%s %s; parts= %s ; designed fragments= %s", p, e.name, where, strings.Join(ptxt, " "), c09PoolText(d.pool))
					if !ok {
						vTerm.Fail("no-cycle-excluding-seed", input, "GoldenGate had not returned after 60 s although no cycle avoids a seed; in-process runs abandoned")
						break
					}
					if perr != nil {
						v.Fail(c09RotClass("panic", where), input, fmt.Sprint("panic: ", perr))
						continue
					}
					if err != nil {
						v.Fail(c09RotClass("error", where), input, "error: "+err.Error())
						continue
					}
					c09Compare(got, want, func(class, detail string) {
						v.Fail(c09RotClass(c09LargeClass(class, want), where), input, detail)
					})
				}
			}
		}
		v.Done()
	}

	// ---- order independence ----
	{
		v := newVerifRun("C09", c09ClauseOrder, fmt.Sprintf("sampled, %d designed pools as in the CircularLigate clause (2..6 junctions, at most 81 rings) plus %d large combinatorial libraries as in that clause (5 junctions x 3 alternatives, more than 128 distinct rings; class permuted-input-large-library), each ligated in %d random orders of the same fragments (orientations kept) at a random GOMAXPROCS of 1, 2, 16; the sets of canonical forms must all equal that of the first order; non-trivial = at least 3 fragments; plus, ligated in the same way, %d %s (class permuted-input-with-%s)", nOrder, nLargeOrder, perms, nBothOrder, bothDom, c09BothWaysClass))
		v.Sampled()
		for i := 0; i < nOrder+nLargeOrder+nBothOrder && !hung; i++ {
			var d c09Design
			rng := rng
			if i >= nOrder+nLargeOrder {
				rng = brng
				kp := c09BothWaysInProcess[(i-nOrder-nLargeOrder)%len(c09BothWaysInProcess)]
				var ok bool
				if d, _, ok = c09BothWaysDesign(brng, kp[0], kp[1], nil, true); !ok {
					t.Fatalf("harness: no design with %d junctions and %d reverse-complementary pair(s)", kp[0], kp[1])
				}
			} else if i < nOrder {
				d = c09MakeDesign(rng, 2+rng.Intn(5), 3, 81, rng.Intn(4), nil)
				if c09SeedFreeCycle(d.pool) {
					continue
				}
			} else {
				rng = lrng
				var ok bool
				if d, _, ok = c09LargeDesign(lrng, []int{3, 3, 3, 3, 3}, nil); !ok {
					t.Fatalf("harness: no large library for the order clause")
				}
			}
			var ref map[string]int
			var refOrder string
			for pm := 0; pm < perms && !hung; pm++ {
				pool := append([]c09Frag{}, d.pool...)
				if pm > 0 {
					rng.Shuffle(len(pool), func(a, b int) { pool[a], pool[b] = pool[b], pool[a] })
				}
				p := c09Procs[rng.Intn(3)]
				runtime.GOMAXPROCS(p)
				v.Case(fmt.Sprintf("%s order=%d procs=%d #%d", d.key(), pm, p, i), len(pool) >= 3)
				var parts []Part
				var perr interface{}
				frs := c09ToFragments(pool)
				ok := call(func() {
					defer func() { perr = recover() }()
					parts = CircularLigate(frs)
				})
				input := fmt.Sprintf("GOMAXPROCS=%d first order= %s ; this order= %s", p, refOrder, c09PoolText(pool))
				if !ok {
					vTerm.Fail("no-cycle-excluding-seed", input, "CircularLigate had not returned after 60 s; in-process runs abandoned")
					break
				}
				if perr != nil {
					v.Fail("panic", input, fmt.Sprint("panic: ", perr))
					continue
				}
				got := map[string]int{}
				for _, q := range parts {
					got[c09Canon(q.Sequence)]++
				}
				if pm == 0 {
					ref, refOrder = got, c09PoolText(pool)
					continue
				}
				same := len(got) == len(ref)
				for g := range got {
					if ref[g] == 0 {
						same = false
					}
				}
				if !same {
					class := "permuted-input"
					if d.pairs > 0 {
						class = c09BothClass(class, d)
					} else if len(ref) > 128 || len(got) > 128 || i >= nOrder {
						class = "permuted-input-large-library"
					}
					v.Fail(class, input, fmt.Sprintf("%d distinct constructs for the first order, %d for this one", len(ref), len(got)))
				}
			}
		}
		v.Done()
	}
	runtime.GOMAXPROCS(prev)

	// ---- termination: every case in a child process ----
	{
		type tcase struct {
			kind   string
			pool   []c09Frag
			exact  bool
			cyclic bool
		}
		var cases []tcase
		cases = append(cases, tcase{"(a) literal", []c09Frag{{"AAAAAAAAAA", "GGAG", "TACT"}, {"CCCCCCCCCC", "TACT", "AATG"}, {"GGGGGGGGGG", "AATG", "TACT"}}, true, true})
		for i := 0; len(cases) < nTerm && i < 100*nTerm; i++ {
			k := 2 + rng.Intn(3)
			d := c09MakeDesign(rng, k, 2, 8, 0, nil)
			extra := c09Overhangs(rng, 8)
			junc := map[string]bool{}
			var js []string
			for _, f := range d.pool {
				for _, o := range []string{f.Fo, f.Ro} {
					if !junc[o] && !junc[c09RC(o)] {
						junc[o] = true
						js = append(js, o)
					}
				}
			}
			fresh := func() string {
				for _, o := range extra {
					if !junc[o] && !junc[c09RC(o)] {
						junc[o] = true
						return o
					}
				}
				return ""
			}
			tc := tcase{exact: true}
			switch i % 3 {
			case 0:
				tc.kind = "(b) decoy, live end trailing"
				f := c09Frag{c09RandSeq(rng, 5+rng.Intn(20)), fresh(), js[rng.Intn(len(js))]}
				if rng.Intn(2) == 0 {
					// the same decoy seen from its other strand, supplied so that its live end still trails
					f = c09Frag{f.Seq, f.Fo, c09RC(f.Ro)}
				}
				tc.pool = append(append([]c09Frag{}, d.pool...), f)
			case 1:
				tc.kind = "(c) bridging fragment"
				if len(js) < 3 {
					continue
				}
				a := rng.Intn(len(js))
				b := (a + 2 + rng.Intn(len(js)-2)) % len(js)
				if a == b {
					continue
				}
				tc.pool = append(append([]c09Frag{}, d.pool...), c09Frag{c09RandSeq(rng, 5+rng.Intn(20)), js[a], js[b]})
			default:
				tc.kind = "(d) side ring"
				tc.exact = false
				o, w := js[rng.Intn(len(js))], fresh()
				tc.pool = append(append([]c09Frag{}, d.pool...), c09Frag{c09RandSeq(rng, 5+rng.Intn(20)), o, w}, c09Frag{c09RandSeq(rng, 5+rng.Intn(20)), w, o})
			}
			rng.Shuffle(len(tc.pool), func(a, b int) { tc.pool[a], tc.pool[b] = tc.pool[b], tc.pool[a] })
			tc.cyclic = c09SeedFreeCycle(tc.pool)
			if !tc.cyclic {
				continue
			}
			cases = append(cases, tc)
		}
		for i := 0; i < nBothTerm; i++ {
			k := 3 + i%2 // 3 junctions, or 4 with one pair: always such a cycle
			d, _, ok := c09BothWaysDesign(brng, k, 1, nil, false)
			if !ok {
				t.Fatalf("harness: no cyclic design with %d junctions and a fragment that fits both ways", k)
			}
			cases = append(cases, tcase{"(e) fragment fits both ways", d.pool, true, true})
		}
		for i, nc := 0, 0; nc < 3 && i < 300; i++ { // controls: the child-process route itself must let a good pool through
			d := c09MakeDesign(rng, 2+rng.Intn(3), 2, 8, 1, nil)
			if c09SeedFreeCycle(d.pool) {
				continue
			}
			cases = append(cases, tcase{"control", d.pool, true, false})
			nc++
		}
		type tres struct {
			status, detail string
			parts          []Part
			procs          int
		}
		results := make([]tres, len(cases))
		sem := make(chan struct{}, 6)
		var wg sync.WaitGroup
		for i := range cases {
			procs := c09Procs[rng.Intn(3)]
			wg.Add(1)
			go func(i, procs int) {
				defer wg.Done()
				sem <- struct{}{}
				defer func() { <-sem }()
				st, parts, det := c09RunChild(c09ChildCase{cases[i].pool, procs}, 5*time.Second)
				results[i] = tres{st, det, parts, procs}
			}(i, procs)
		}
		wg.Wait()
		vEx := vLig
		nCyclic, nCyclicBad := 0, 0
		for i, tc := range cases {
			if tc.cyclic {
				nCyclic++
				if results[i].status != "returned" {
					nCyclicBad++
				}
			}
		}
		for i, tc := range cases {
			r := results[i]
			input := fmt.Sprintf("%s GOMAXPROCS=%d fragments(leading.interior.trailing)= %s", tc.kind, r.procs, c09PoolText(tc.pool))
			vTerm.Case(input, tc.cyclic)
			switch r.status {
			case "returned":
				if tc.exact {
					vEx.Case(input, true)
					c09Compare(r.parts, c09Rings(tc.pool), func(class, detail string) {
						if strings.HasPrefix(tc.kind, "(e)") && class == "ring-missing" {
							class = c09BothWaysClass
						}
						vEx.Fail(class+"-in-cyclic-pool", input, detail)
					})
				}
			default:
				class := "cycle-excluding-seed"
				if !tc.cyclic {
					class = "no-cycle-excluding-seed"
				}
				vTerm.Fail(class, input, fmt.Sprintf("%s (%d of the %d pools with such a cycle did not return)", r.detail, nCyclicBad, nCyclic))
			}
		}
		vTerm.Done()
		vLig.Done()
	}
	if hung {
		t.Log("an in-process call did not return; see the termination clause")
	}
}
