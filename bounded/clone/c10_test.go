package clone

// Bounded back end for C10: Type IIS digestion cuts at the enzyme geometry,
// independent of the plasmid origin.
//
// Clauses executed on the real CutWithEnzyme / CutWithEnzymeByName:
//   clone.getBaseRestrictionEnzymes/table
//   clone.CutWithEnzyme/post/fragments
//   clone.CutWithEnzyme/post/rotation-independence
//   clone.CutWithEnzyme/post/linear-in-bounds
//   clone.CutWithEnzyme/post/case
//
// The oracle (c10Oracle) is written from the property statement only: it scans
// the part for the recognition site and its reverse complement with its own
// naive matcher (on the ring with modular indices, never on a doubled
// string), computes the cut positions from (skip, overhang) and pairs every
// forward cut with the next cut if that one belongs to a backward-pointing
// site.
//
// Layouts in which a forward site is followed so closely by a backward site
// that their cuts cross (gap < 2*skip) have their own generator and
// precondition (c10MakeCrossing, c10PreCross) and their own random streams, so
// that the draws of the other blocks stay what they were.

import (
	"fmt"
	"math/rand"
	"regexp"
	"sort"
	"strings"
	"testing"
)

type c10Enz struct {
	name    string
	site    string
	skip    int
	ovh     int
	builtin bool
}

func (e c10Enz) String() string {
	return fmt.Sprintf("%s(%s,skip=%d,overhang=%d)", e.name, e.site, e.skip, e.ovh)
}

var c10Builtins = []c10Enz{
	{"BsaI", "GGTCTC", 1, 4, true},
	{"BbsI", "GAAGAC", 2, 4, true},
	{"BtgZI", "GCGATG", 10, 4, true},
}

type c10Site struct {
	start int
	fwd   bool
}

// c10RC is this file's own reverse complement (upper-case ACGT only).
func c10RC(s string) string {
	b := make([]byte, len(s))
	for i := 0; i < len(s); i++ {
		var c byte
		switch s[len(s)-1-i] {
		case 'A':
			c = 'T'
		case 'C':
			c = 'G'
		case 'G':
			c = 'C'
		case 'T':
			c = 'A'
		default:
			c = 'N'
		}
		b[i] = c
	}
	return string(b)
}

// c10Occ lists every start position at which pat occurs (overlapping
// occurrences included); on a ring the match may wrap around the origin.
func c10Occ(seq string, circular bool, pat string) []int {
	n, l := len(seq), len(pat)
	var out []int
	if l == 0 || n < l {
		return out
	}
	last := n - l
	if circular {
		last = n - 1
	}
	for s := 0; s <= last; s++ {
		ok := true
		for i := 0; i < l; i++ {
			if seq[(s+i)%n] != pat[i] {
				ok = false
				break
			}
		}
		if ok {
			out = append(out, s)
		}
	}
	return out
}

type c10Cut struct {
	pos int
	fwd bool
}

// c10Oracle returns the expected fragments "fo seq ro" (sorted) of the
// directional digestion of the upper-case sequence.
func c10Oracle(seq string, circular bool, e c10Enz) []string {
	n, l := len(seq), len(e.site)
	var cuts []c10Cut
	for _, s := range c10Occ(seq, circular, e.site) {
		c := s + l + e.skip
		if circular {
			cuts = append(cuts, c10Cut{c % n, true})
		} else if c+e.ovh <= n {
			cuts = append(cuts, c10Cut{c, true})
		}
	}
	for _, s := range c10Occ(seq, circular, c10RC(e.site)) {
		c := s - e.skip
		if circular {
			cuts = append(cuts, c10Cut{((c % n) + n) % n, false})
		} else if c-e.ovh >= 0 {
			cuts = append(cuts, c10Cut{c, false})
		}
	}
	sort.Slice(cuts, func(i, j int) bool { return cuts[i].pos < cuts[j].pos })
	var out []string
	emit := func(a, length int) {
		if length < 2*e.ovh {
			out = append(out, fmt.Sprintf("!short-fragment@%d+%d", a, length))
			return
		}
		b := make([]byte, length)
		for i := 0; i < length; i++ {
			b[i] = seq[(a+i)%n]
		}
		f := string(b)
		out = append(out, f[:e.ovh]+" "+f[e.ovh:length-e.ovh]+" "+f[length-e.ovh:])
	}
	k := len(cuts)
	for i := 0; i < k; i++ {
		j := i + 1
		if j == k {
			if !circular || k < 2 {
				break
			}
			j = 0
		}
		if cuts[i].fwd && !cuts[j].fwd {
			length := cuts[j].pos - cuts[i].pos
			if length <= 0 {
				length += n
			}
			emit(cuts[i].pos, length)
		}
	}
	sort.Strings(out)
	return out
}

// c10Pre is the property's layout precondition on the planted sites (sorted
// by start): occurrences do not overlap, the cuts come in the same order as
// the sites (a forward cut and the following backward cut do not cross) and
// paired cuts are at least two overhang lengths apart. inside additionally
// demands, for a linear part, that every cut and its overhang lie in the part.
func c10Pre(n int, circular bool, st []c10Site, e c10Enz, inside bool) bool {
	l, k := len(e.site), len(st)
	if n < l {
		return k == 0
	}
	cut := func(s c10Site) int {
		if s.fwd {
			return s.start + l + e.skip
		}
		return s.start - e.skip
	}
	for i := 0; i < k; i++ {
		if st[i].start < 0 || st[i].start >= n {
			return false
		}
		if !circular && st[i].start+l > n {
			return false
		}
		if !circular && inside {
			c := cut(st[i])
			if st[i].fwd && c+e.ovh > n {
				return false
			}
			if !st[i].fwd && c-e.ovh < 0 {
				return false
			}
		}
		if i+1 < k {
			if st[i+1].start-st[i].start < l {
				return false
			}
			a, b := cut(st[i]), cut(st[i+1])
			if a >= b {
				return false
			}
			if st[i].fwd && !st[i+1].fwd && b-a < 2*e.ovh {
				return false
			}
		}
	}
	if circular && k >= 2 {
		if st[0].start+n-st[k-1].start < l {
			return false
		}
		a, b := cut(st[k-1]), cut(st[0])+n
		if a >= b {
			return false
		}
		if st[k-1].fwd && !st[0].fwd && b-a < 2*e.ovh {
			return false
		}
	}
	if circular && k == 1 && n < l+e.skip+e.ovh {
		return false
	}
	return true
}

// c10PreCross is the layout precondition for parts on which a forward-pointing
// site is followed so closely by a backward-pointing site that the backward
// site cuts BEFORE the forward site does (gap between the two sites smaller
// than twice the skip). Such a layout is inside the property's quantifier as
// long as occurrences do not overlap and paired cuts are two overhang lengths
// apart: with the cuts taken in the order in which they fall on the part (on
// the ring for a circular part), every forward cut directly followed by a
// backward cut must be at least two overhang lengths before it, no two cuts
// fall on the same base, and on a linear part every cut and its overhang lie
// inside the part.
//
// The statement's "next backward-pointing site" can be read by site order or
// by cut order once cuts cross. With agree, only layouts on which both readings
// release the same stretches are admitted: the forward->backward neighbours in
// site order whose cuts do not cross must be exactly the forward->backward
// neighbours in cut order (so a crossing pair releases nothing and creates no
// new pair). crossing counts the site neighbours whose cuts cross.
func c10PreCross(n int, circular bool, st []c10Site, e c10Enz, agree bool) (ok bool, crossing int) {
	l, k := len(e.site), len(st)
	if n < l || k < 2 {
		return false, 0
	}
	cut := func(s c10Site) int {
		if s.fwd {
			return s.start + l + e.skip
		}
		return s.start - e.skip
	}
	for i := 0; i < k; i++ {
		if st[i].start < 0 || st[i].start >= n {
			return false, 0
		}
		if i+1 < k && st[i+1].start-st[i].start < l {
			return false, 0
		}
		if !circular {
			c := cut(st[i])
			if st[i].start+l > n || st[i].fwd && c+e.ovh > n || !st[i].fwd && c-e.ovh < 0 {
				return false, 0
			}
		}
	}
	if circular && st[0].start+n-st[k-1].start < l {
		return false, 0
	}
	// neighbours in site order
	sitePairs := map[[2]int]bool{}
	for i := 0; i < k; i++ {
		j, wrap := i+1, 0
		if j == k {
			if !circular {
				break
			}
			j, wrap = 0, n
		}
		if !st[i].fwd || st[j].fwd {
			continue
		}
		if a, b := cut(st[i]), cut(st[j])+wrap; a > b {
			crossing++
		} else {
			sitePairs[[2]int{i, j}] = true
		}
	}
	// neighbours in cut order
	type pc struct{ pos, idx int }
	var cs []pc
	for i, s := range st {
		c := cut(s)
		if circular {
			c = ((c % n) + n) % n
		}
		cs = append(cs, pc{c, i})
	}
	sort.Slice(cs, func(i, j int) bool { return cs[i].pos < cs[j].pos })
	cutPairs := 0
	for i := 0; i < k; i++ {
		j, wrap := i+1, 0
		if j == k {
			if !circular {
				break
			}
			j, wrap = 0, n
		}
		d := cs[j].pos + wrap - cs[i].pos
		if d == 0 {
			return false, 0
		}
		if st[cs[i].idx].fwd && !st[cs[j].idx].fwd {
			if d < 2*e.ovh {
				return false, 0
			}
			if agree && !sitePairs[[2]int{cs[i].idx, cs[j].idx}] {
				return false, 0
			}
			cutPairs++
		}
	}
	if agree && cutPairs != len(sitePairs) {
		return false, 0
	}
	return true, crossing
}

// c10MakeCrossing plants k >= 2 sites of which at least one forward->backward
// neighbour pair is so close that its cuts cross, and returns a case inside
// c10PreCross(agree), or ok=false when the draws did not fit.
func c10MakeCrossing(rng *rand.Rand, e c10Enz, n, k int, circular, agree bool) (c10Case, bool) {
	l := len(e.site)
	foot := e.skip + e.ovh
	if e.skip == 0 || k < 2 {
		return c10Case{}, false // the cuts of non-overlapping sites cannot cross
	}
	for attempt := 0; attempt < 200; attempt++ {
		var st []c10Site
		x := rng.Intn(k - 1) // neighbours x, x+1 are the (first) crossing pair
		pos := 0
		for i := 0; i < k; i++ {
			fwd := rng.Intn(2) == 0
			if i == x {
				fwd = true
			} else if i == x+1 {
				fwd = false
			}
			st = append(st, c10Site{pos, fwd})
			var g int
			switch {
			case i == x:
				g = rng.Intn(2 * e.skip) // 0 .. 2*skip-1: the cuts cross by 2*skip-g bases
			case rng.Intn(2) == 0:
				g = rng.Intn(2*foot + 6)
			default:
				g = rng.Intn(2*foot + 60)
			}
			pos += l + g
		}
		span := st[k-1].start + l - st[0].start
		if span > n {
			continue
		}
		d := rng.Intn(n)
		if !circular {
			d = rng.Intn(n - span + 1)
			switch rng.Intn(6) {
			case 0:
				d = rng.Intn(c10Min(n-span, foot+2) + 1)
			case 1:
				d = n - span - rng.Intn(c10Min(n-span, foot+2)+1)
			}
		}
		for i := range st {
			st[i].start = (st[i].start + d) % n
		}
		sort.Slice(st, func(i, j int) bool { return st[i].start < st[j].start })
		if ok, crossing := c10PreCross(n, circular, st, e, agree); !ok || crossing == 0 {
			continue
		}
		rc := c10RC(e.site)
		for try := 0; try < 40; try++ {
			b := c10Background(rng, n, e.site)
			var wantF, wantR []int
			for _, s := range st {
				w := e.site
				if !s.fwd {
					w = rc
				}
				for i := 0; i < l; i++ {
					b[(s.start+i)%n] = w[i]
				}
				if s.fwd {
					wantF = append(wantF, s.start)
				} else {
					wantR = append(wantR, s.start)
				}
			}
			seq := string(b)
			if c10IntsEqual(c10Occ(seq, circular, e.site), wantF) && c10IntsEqual(c10Occ(seq, circular, rc), wantR) {
				return c10Case{e, seq, circular, st}, true
			}
		}
	}
	return c10Case{}, false
}

// c10CrossingStraddles: does the origin of the plasmid stored from base r on
// fall strictly inside the footprint (first base of the forward site up to the
// last base of the backward site) of a neighbour pair whose cuts cross?
func c10CrossingStraddles(c c10Case, r int) bool {
	l, k, n := len(c.enz.site), len(c.sites), len(c.seq)
	for i := 0; i < k; i++ {
		j, wrap := i+1, 0
		if j == k {
			j, wrap = 0, n
		}
		if !c.sites[i].fwd || c.sites[j].fwd || c.sites[i].start+l+c.enz.skip <= c.sites[j].start+wrap-c.enz.skip {
			continue
		}
		lo, hi := c.sites[i].start, c.sites[j].start+wrap+l // footprint [lo, hi)
		if lo < r && r < hi || lo < r+n && r+n < hi {
			return true
		}
	}
	return false
}

// c10SitePairs is the second, site-order reading of the statement, used as a
// self-check on crossing layouts: the number of forward sites whose next site
// points backward and cuts after them.
func c10SitePairs(c c10Case) int {
	l, k, n := len(c.enz.site), len(c.sites), len(c.seq)
	p := 0
	for i := 0; i < k; i++ {
		j, wrap := i+1, 0
		if j == k {
			if !c.circular || k < 2 {
				break
			}
			j, wrap = 0, n
		}
		if c.sites[i].fwd && !c.sites[j].fwd && c.sites[i].start+l+c.enz.skip < c.sites[j].start-c.enz.skip+wrap {
			p++
		}
	}
	return p
}

// c10Background makes n random bases in which neither site nor its reverse
// complement occurs (linearly; the ring closure is checked by the caller).
func c10Background(rng *rand.Rand, n int, site string) []byte {
	rc := c10RC(site)
	l := len(site)
	b := make([]byte, n)
	for i := 0; i < n; i++ {
		for try := 0; ; try++ {
			b[i] = "ACGT"[rng.Intn(4)]
			if i+1 < l {
				break
			}
			tail := string(b[i+1-l : i+1])
			if tail != site && tail != rc {
				break
			}
			if try > 16 { // cannot happen for l >= 2: at most two letters are excluded
				break
			}
		}
	}
	return b
}

type c10Case struct {
	enz      c10Enz
	seq      string // upper case
	circular bool
	sites    []c10Site
}

func (c c10Case) layout() string {
	var sb strings.Builder
	for i, s := range c.sites {
		if i > 0 {
			sb.WriteByte(',')
		}
		if s.fwd {
			sb.WriteByte('F')
		} else {
			sb.WriteByte('R')
		}
		sb.WriteString(fmt.Sprint(s.start))
	}
	return sb.String()
}

func (c c10Case) key() string {
	shape := "linear"
	if c.circular {
		shape = "circular"
	}
	return fmt.Sprintf("%s %s n=%d sites=[%s]", c.enz, shape, len(c.seq), c.layout())
}

func c10Input(e c10Enz, seq string, circular bool) string {
	return fmt.Sprintf("enzyme=%s circular=%v len=%d seq=%s", e, circular, len(seq), seq)
}

// c10Make plants k sites at random spacing (small gaps favoured) and returns a
// case inside the precondition, or ok=false when the draw did not fit.
func c10Make(rng *rand.Rand, e c10Enz, n, k int, circular, inside bool) (c10Case, bool) {
	l := len(e.site)
	foot := e.skip + e.ovh
	for attempt := 0; attempt < 60; attempt++ {
		var st []c10Site
		if k > 0 {
			pos := rng.Intn(n)
			if !circular {
				pos = rng.Intn(n/2 + 1)
			}
			for i := 0; i < k; i++ {
				st = append(st, c10Site{pos, rng.Intn(2) == 0})
				var g int
				switch rng.Intn(10) {
				case 0, 1, 2, 3:
					g = rng.Intn(2*foot + 6)
				case 4, 5, 6:
					g = rng.Intn(2*foot + 50)
				default:
					g = rng.Intn(n/k + 1)
				}
				pos += l + g
			}
			span := st[k-1].start + l - st[0].start
			if span > n {
				continue
			}
			if circular {
				for i := range st {
					st[i].start %= n
				}
			} else {
				// shift the cluster to a random place in the part, ends included
				lo := -st[0].start
				hi := n - (st[k-1].start + l)
				if hi < lo {
					continue
				}
				d := lo + rng.Intn(hi-lo+1)
				switch rng.Intn(6) {
				case 0:
					d = lo + rng.Intn(c10Min(hi-lo, foot+2)+1)
				case 1:
					d = hi - rng.Intn(c10Min(hi-lo, foot+2)+1)
				}
				for i := range st {
					st[i].start += d
				}
			}
			sort.Slice(st, func(i, j int) bool { return st[i].start < st[j].start })
		}
		if !c10Pre(n, circular, st, e, inside) {
			continue
		}
		rc := c10RC(e.site)
		for try := 0; try < 40; try++ {
			b := c10Background(rng, n, e.site)
			for _, s := range st {
				w := e.site
				if !s.fwd {
					w = rc
				}
				for i := 0; i < l; i++ {
					b[(s.start+i)%n] = w[i]
				}
			}
			seq := string(b)
			var wantF, wantR []int
			for _, s := range st {
				if s.fwd {
					wantF = append(wantF, s.start)
				} else {
					wantR = append(wantR, s.start)
				}
			}
			if c10IntsEqual(c10Occ(seq, circular, e.site), wantF) && c10IntsEqual(c10Occ(seq, circular, rc), wantR) {
				return c10Case{e, seq, circular, st}, true
			}
		}
	}
	return c10Case{}, false
}

// c10MakeRepeated builds a part that carries the SAME site-flanked cassette
// (forward site, skip, overhang, interior, overhang, skip, backward site)
// copies times, separated by spacers of independent random background, plus
// optionally one different cassette; digestion must release the cassette's
// fragment once per copy, so the expected multiset holds identical fragments.
func c10MakeRepeated(rng *rand.Rand, e c10Enz, copies int, circular bool, maxLen int) (c10Case, bool) {
	l := len(e.site)
	rc := c10RC(e.site)
	for attempt := 0; attempt < 60; attempt++ {
		interior := rng.Intn(40)
		if rng.Intn(4) == 0 {
			interior = rng.Intn(400)
		}
		clen := 2*l + 2*e.skip + 2*e.ovh + interior
		type span struct{ start, length int }
		var cass []span
		pos := 0
		if !circular || rng.Intn(2) == 0 {
			pos = rng.Intn(30)
		}
		for i := 0; i < copies; i++ {
			cass = append(cass, span{pos, clen})
			pos += clen + rng.Intn(3)*rng.Intn(30)
		}
		if copies == 2 && rng.Intn(3) == 0 { // one different cassette (own random interior) after the copies: at most 6 sites
			ol := 2*l + 2*e.skip + 2*e.ovh + rng.Intn(40)
			pos += rng.Intn(20)
			cass = append(cass, span{pos, ol})
			pos += ol
		}
		n := pos + rng.Intn(30)
		if n < 20 {
			n = 20
		}
		if n > maxLen {
			continue
		}
		var st []c10Site
		for _, c := range cass {
			st = append(st, c10Site{c.start, true}, c10Site{c.start + c.length - l, false})
		}
		if !c10Pre(n, circular, st, e, true) {
			continue
		}
		for try := 0; try < 40; try++ {
			b := c10Background(rng, n, e.site)
			for _, s := range st {
				w := e.site
				if !s.fwd {
					w = rc
				}
				copy(b[s.start:], w)
			}
			for i := 1; i < copies; i++ {
				copy(b[cass[i].start:cass[i].start+clen], b[cass[0].start:cass[0].start+clen])
			}
			seq := string(b)
			var wantF, wantR []int
			for _, s := range st {
				if s.fwd {
					wantF = append(wantF, s.start)
				} else {
					wantR = append(wantR, s.start)
				}
			}
			if c10IntsEqual(c10Occ(seq, circular, e.site), wantF) && c10IntsEqual(c10Occ(seq, circular, rc), wantR) {
				return c10Case{e, seq, circular, st}, true
			}
		}
	}
	return c10Case{}, false
}

// c10HasDuplicate: does the sorted fragment list hold two identical fragments?
func c10HasDuplicate(sorted []string) bool {
	for i := 1; i < len(sorted); i++ {
		if sorted[i] == sorted[i-1] {
			return true
		}
	}
	return false
}

// c10SameSet: are the two sorted lists equal once repetitions are dropped?
func c10SameSet(a, b []string) bool {
	dedup := func(xs []string) []string {
		var out []string
		for i, x := range xs {
			if i == 0 || x != xs[i-1] {
				out = append(out, x)
			}
		}
		return out
	}
	return c10StrsEqual(dedup(a), dedup(b))
}

func c10IntsEqual(a, b []int) bool {
	if len(a) != len(b) {
		return false
	}
	for i := range a {
		if a[i] != b[i] {
			return false
		}
	}
	return true
}

func c10StrsEqual(a, b []string) bool {
	if len(a) != len(b) {
		return false
	}
	for i := range a {
		if a[i] != b[i] {
			return false
		}
	}
	return true
}

// c10RandomEnzyme draws a custom non-palindromic enzyme.
func c10RandomEnzyme(rng *rand.Rand, id int) c10Enz {
	for {
		l := 4 + rng.Intn(5) // 4..8
		b := make([]byte, l)
		for i := range b {
			b[i] = "ACGT"[rng.Intn(4)]
		}
		site := string(b)
		if site == c10RC(site) {
			continue
		}
		return c10Enz{fmt.Sprintf("custom%d", id), site, rng.Intn(15), 1 + rng.Intn(6), false}
	}
}

var c10Known = []c10Enz{ // published geometries of other Type IIS enzymes, given as custom enzymes
	{"BsmBI", "CGTCTC", 1, 4, false},
	{"SapI", "GCTCTTC", 1, 3, false},
	{"FokI", "GGATG", 9, 4, false},
	{"HgaI", "GACGC", 5, 5, false},
	{"PaqCI", "CACCTGC", 4, 4, false},
	{"BsaI-custom", "GGTCTC", 1, 4, false},
}

// c10Real runs the code under test and returns its fragments in the oracle's
// format; panic text is returned in perr.
func c10Real(seq string, circular bool, e c10Enz) (out []string, perr string) {
	defer func() {
		if r := recover(); r != nil {
			perr = fmt.Sprintf("panic: %v", r)
		}
	}()
	part := Part{Sequence: seq, Circular: circular}
	var fr []Fragment
	if e.builtin {
		var err error
		fr, err = CutWithEnzymeByName(part, true, e.name)
		if err != nil {
			return nil, "error: " + err.Error()
		}
	} else {
		fr = CutWithEnzyme(part, true, Enzyme{Name: e.name, RegexpFor: regexp.MustCompile(e.site), RegexpRev: regexp.MustCompile(c10RC(e.site)), Skip: e.skip, OverhangLen: e.ovh, RecognitionSite: e.site})
	}
	for _, f := range fr {
		out = append(out, f.ForwardOverhang+" "+f.Sequence+" "+f.ReverseOverhang)
	}
	sort.Strings(out)
	return out, ""
}

func c10Diff(got, want []string) string {
	cnt := map[string]int{}
	for _, w := range want {
		cnt[w]++
	}
	for _, g := range got {
		cnt[g]--
	}
	var miss, extra []string
	for k, c := range cnt {
		for ; c > 0; c-- {
			miss = append(miss, k)
		}
		for ; c < 0; c++ {
			extra = append(extra, k)
		}
	}
	sort.Strings(miss)
	sort.Strings(extra)
	short := func(xs []string) string {
		for i, x := range xs {
			if len(x) > 70 {
				xs[i] = x[:40] + "..." + x[len(x)-24:]
			}
		}
		return "[" + strings.Join(xs, "; ") + "]"
	}
	return fmt.Sprintf("got %d fragments, expected %d; missing %s; spurious %s", len(got), len(want), short(miss), short(extra))
}

// c10Shape names the shape of the stored sequence that distinguishes it from
// an unremarkable one: where the stored origin (or a linear end) falls with
// respect to the sites and their cuts.
func c10Shape(seq string, circular bool, e c10Enz) string {
	n, l := len(seq), len(e.site)
	fw := c10Occ(seq, circular, e.site)
	rv := c10Occ(seq, circular, c10RC(e.site))
	if circular {
		for _, s := range fw {
			if s+l > n {
				return "site-straddles-origin"
			}
		}
		for _, s := range fw {
			if s+l+e.skip > n {
				return "forward-cut-past-origin"
			}
		}
		for _, s := range rv {
			if s+l > n {
				return "reverse-site-straddles-origin"
			}
		}
		for _, s := range rv {
			if s-e.skip < 0 {
				return "reverse-cut-before-origin"
			}
		}
		for _, s := range fw {
			if c := s + l + e.skip; c <= n && c+e.ovh > n {
				return "overhang-straddles-origin"
			}
		}
		for _, s := range rv {
			if c := s - e.skip; c >= 0 && c-e.ovh < 0 {
				return "overhang-straddles-origin"
			}
		}
		if len(fw) > 0 && len(rv) > 0 {
			return "origin-outside-footprints"
		}
		return "no-pair"
	}
	for _, s := range rv {
		if s+e.ovh > n { // only possible when the overhang is longer than the site
			return "reverse-site-near-linear-end"
		}
	}
	for _, s := range fw {
		if s+l+e.skip+e.ovh > n {
			return "forward-cut-off-end"
		}
	}
	for _, s := range rv {
		if s-e.skip-e.ovh < 0 {
			return "reverse-cut-off-start"
		}
	}
	return "linear-interior"
}

// c10Collector keeps the smallest witnesses per (clause, class).
type c10Fail struct {
	clause, class, input, detail string
	size                         int
}

type c10Collector struct{ m map[string][]c10Fail }

func (c *c10Collector) add(clause, class, input, detail string, size int) {
	if !strings.HasPrefix(input, "enzyme=BsaI(") && !strings.HasPrefix(input, "enzyme=BbsI(") && !strings.HasPrefix(input, "enzyme=BtgZI(") {
		size += 100000 // witnesses with a built-in enzyme are listed first
	}
	if c.m == nil {
		c.m = map[string][]c10Fail{}
	}
	k := clause + "|" + class
	c.m[k] = append(c.m[k], c10Fail{clause, class, input, detail, size})
	if len(c.m[k]) > 64 {
		sort.SliceStable(c.m[k], func(i, j int) bool { return c.m[k][i].size < c.m[k][j].size })
		c.m[k] = c.m[k][:3]
	}
}

func (c *c10Collector) flush(v *verifRun) {
	var keys []string
	for k := range c.m {
		keys = append(keys, k)
	}
	sort.Strings(keys)
	for _, k := range keys {
		fs := c.m[k]
		sort.SliceStable(fs, func(i, j int) bool { return fs[i].size < fs[j].size })
		for i, f := range fs {
			if i >= 3 {
				break
			}
			v.FailClause(f.clause, f.class, f.input, f.detail)
		}
	}
}

func c10Rotate(s string, r int) string { return s[r:] + s[:r] }

func c10PickEnzyme(rng *rand.Rand, i int) c10Enz {
	switch i % 6 {
	case 0, 1, 2:
		return c10Builtins[i%3]
	case 3:
		return c10Known[rng.Intn(len(c10Known))]
	default:
		return c10RandomEnzyme(rng, i)
	}
}

func c10PickLen(rng *rand.Rand, lo, hi int) int {
	switch rng.Intn(4) {
	case 0:
		return lo + rng.Intn(c10Min(hi, 60)-lo+1)
	case 1:
		return lo + rng.Intn(c10Min(hi, 300)-lo+1)
	default:
		return lo + rng.Intn(hi-lo+1)
	}
}

func c10RandomCase(rng *rand.Rand, s string) string {
	b := []byte(s)
	mode := rng.Intn(3)
	for i := range b {
		if mode == 0 || (mode == 1 && rng.Intn(2) == 0) || (mode == 2 && rng.Intn(10) == 0) {
			b[i] = b[i] | 0x20
		}
	}
	return string(b)
}

const (
	c10ClauseTable    = "clone.getBaseRestrictionEnzymes/table"
	c10ClauseFrag     = "clone.CutWithEnzyme/post/fragments"
	c10ClauseRot      = "clone.CutWithEnzyme/post/rotation-independence"
	c10ClauseLinear   = "clone.CutWithEnzyme/post/linear-in-bounds"
	c10ClauseCaseFold = "clone.CutWithEnzyme/post/case"
)

func c10Table(t *testing.T) {
	v := newVerifRun("C10", c10ClauseTable, "exhaustive: the three built-in enzymes BsaI GGTCTC 1/4, BbsI GAAGAC 2/4, BtgZI GCGATG 10/4; name, site, skip, overhang length, forward regexp = site, reverse regexp = reverse complement of the site (own complement function), and both regexps match exactly those literals")
	m := getBaseRestrictionEnzymes()
	for _, e := range c10Builtins {
		v.Case(e.String(), true)
		got, ok := m[e.name]
		if !ok {
			v.Fail("missing-enzyme", e.name, "not in the table")
			continue
		}
		if got.Name != e.name || got.RecognitionSite != e.site || got.Skip != e.skip || got.OverhangLen != e.ovh {
			v.Fail("wrong-geometry", e.name, fmt.Sprintf("table has name=%s site=%s skip=%d overhang=%d, published %s", got.Name, got.RecognitionSite, got.Skip, got.OverhangLen, e))
		}
		if got.RegexpFor == nil || got.RegexpFor.String() != e.site {
			v.Fail("wrong-forward-regexp", e.name, fmt.Sprintf("forward regexp %v, site %s", got.RegexpFor, e.site))
		}
		if got.RegexpRev == nil || got.RegexpRev.String() != c10RC(e.site) {
			v.Fail("wrong-reverse-regexp", e.name, fmt.Sprintf("reverse regexp %v, reverse complement of the site is %s", got.RegexpRev, c10RC(e.site)))
		}
		if got.RegexpFor != nil && got.RegexpRev != nil {
			probe := "TT" + e.site + "AA" + c10RC(e.site) + "CC"
			f := got.RegexpFor.FindAllStringIndex(probe, -1)
			r := got.RegexpRev.FindAllStringIndex(probe, -1)
			if len(f) != 1 || f[0][0] != 2 || f[0][1] != 2+len(e.site) || len(r) != 1 || r[0][0] != 4+len(e.site) {
				v.Fail("regexp-does-not-match-site", e.name, fmt.Sprintf("on %s forward matches %v reverse matches %v", probe, f, r))
			}
		}
	}
	v.Done()
}

func TestVerifC10(t *testing.T) {
	rng := verifRand()
	thorough := verifThorough()

	c10Table(t)

	// ---- fragments: multiset equality with the ring/linear oracle ----
	nFrag := 15000
	nRotSmall, nRotBig := 2000, 200
	nLin := 8000
	nCase := 1500
	nRep, nRepRot := 600, 150
	nCross, nCrossRot := 3000, 150
	nCaseCross := 40
	if thorough {
		nCross, nCrossRot = 60000, 3000
		nCaseCross = 1200
		nFrag, nRotSmall, nRotBig, nLin, nCase = 300000, 40000, 4000, 150000, 20000
		nRep, nRepRot = 12000, 3000
	}
	var harness []string
	{
		v := newVerifRun("C10", c10ClauseFrag, fmt.Sprintf("sampled, %d draws: BsaI/BbsI/BtgZI through CutWithEnzymeByName, six published Type IIS geometries and random non-palindromic custom enzymes (site 4..8 bases, skip 0..14, overhang 1..6) through CutWithEnzyme; parts of 20..3000 bases, circular (stored at a random origin, sites may straddle it) and linear (every site's cut and overhang inside the part), 0..6 planted sites in either orientation at random spacing (gaps from 0 up) over a background verified to contain no other occurrence; only layouts inside the precondition (occurrences do not overlap, cuts in site order, paired cuts >= 2 overhang lengths apart); directional digestion; multiset equality (sorted lists with repetitions, never sets) with an independent modular-index digester; PLUS %d 'repeated-cassette' parts (3 of 4 circular, <= 3000 bases, same enzymes): the SAME cassette (forward site, skip, overhang, interior of 0..399 bases, overhang, skip, backward site) planted 2 or 3 times with spacers of 0..58 unrelated bases, a third of the two-copy parts with one further different cassette (4 or 6 sites in all), so that two or three IDENTICAL fragments are expected; circular ones digested at every rotation of the stored sequence (<= 120 bases) or at rotation 0 and 6 random rotations, each compared with the oracle on the rotated ring; a result that differs from the expectation only in how often a fragment occurs is classed repeated-cassette; PLUS %d 'crossing-cuts' draws (two of three linear with every cut and overhang inside the part, one of three circular at the stored origin; 20..3000 bases, same enzymes except skip 0, 2..6 sites): at least one forward site is followed by a backward site after a gap of 0..2*skip-1 bases, so that the backward site cuts before the forward site does (the sites themselves do not overlap, no two cuts on the same base, every forward cut directly followed by a backward cut is >= 2 overhang lengths before it); only layouts on which pairing by site order and pairing by cut order release the same stretches (the crossing pair releases nothing and creates no other pair), classes crossing-cuts / crossing-cuts-panic; non-trivial = at least one fragment expected, or a crossing pair present", nFrag, nRep, nCross))
		v.Sampled()
		var col c10Collector
		for i := 0; i < nFrag; i++ {
			e := c10PickEnzyme(rng, i)
			n := c10PickLen(rng, 20, 3000)
			k := rng.Intn(7)
			circular := rng.Intn(3) != 0
			c, ok := c10Make(rng, e, n, k, circular, true)
			if !ok {
				continue
			}
			want := c10Oracle(c.seq, circular, e)
			if pairs := c10PlantedPairs(c); pairs != len(want) {
				harness = append(harness, fmt.Sprintf("oracle gives %d fragments, planted layout has %d forward->backward pairs: %s", len(want), pairs, c.key()))
				continue
			}
			v.Case(c.key(), len(want) > 0)
			got, perr := c10Real(c.seq, circular, e)
			shape := c10Shape(c.seq, circular, e)
			if perr != "" {
				col.add(c10ClauseFrag, shape+"-panic", c10Input(e, c.seq, circular), perr, len(c.seq))
				continue
			}
			if !c10StrsEqual(got, want) {
				col.add(c10ClauseFrag, shape, c10Input(e, c.seq, circular), "sites ["+c.layout()+"]: "+c10Diff(got, want), len(c.seq))
			}
		}
		// parts carrying the same cassette two or three times: the expected
		// multiset holds identical fragments (own random stream, so that the
		// draws above and below stay what they were)
		rngRep := rand.New(rand.NewSource(verifSeed() ^ 0x10c10))
		for i := 0; i < nRep; i++ {
			e := c10PickEnzyme(rngRep, i)
			circular := i%4 != 3
			c, ok := c10MakeRepeated(rngRep, e, 2+rngRep.Intn(2), circular, 3000)
			if !ok {
				continue
			}
			n := len(c.seq)
			rots := []int{0}
			if circular {
				if n <= 120 {
					rots = rots[:0]
					for r := 0; r < n; r++ {
						rots = append(rots, r)
					}
				} else {
					for j := 0; j < 6; j++ {
						rots = append(rots, rngRep.Intn(n))
					}
				}
			}
			for _, r := range rots {
				seq := c10Rotate(c.seq, r)
				want := c10Oracle(seq, circular, e)
				if pairs := c10PlantedPairs(c); pairs != len(want) || !c10HasDuplicate(want) {
					harness = append(harness, fmt.Sprintf("repeated cassette: oracle gives %d fragments (identical ones: %v), planted layout has %d forward->backward pairs: %s rot=%d", len(want), c10HasDuplicate(want), pairs, c.key(), r))
					break
				}
				v.Case(fmt.Sprintf("repeated-cassette #%d %s rot=%d", i, c.key(), r), true)
				got, perr := c10Real(seq, circular, e)
				shape := c10Shape(seq, circular, e)
				if perr != "" {
					col.add(c10ClauseFrag, shape+"-panic", c10Input(e, seq, circular), perr, n)
					continue
				}
				if !c10StrsEqual(got, want) {
					if c10SameSet(got, want) {
						// the same fragments, but not as many of each: the repetition is what matters
						shape = "repeated-cassette"
					}
					col.add(c10ClauseFrag, shape, c10Input(e, seq, circular), fmt.Sprintf("sites [%s] rotated by %d: %s", c.layout(), r, c10Diff(got, want)), n)
				}
			}
		}
		// parts on which a forward site is followed so closely by a backward site
		// that their cuts cross (own random stream)
		rngX := rand.New(rand.NewSource(verifSeed() ^ 0x30c10))
		for i := 0; i < nCross; i++ {
			e := c10PickEnzyme(rngX, i)
			n := c10PickLen(rngX, 20, 3000)
			circular := i%3 == 2
			c, ok := c10MakeCrossing(rngX, e, n, 2+rngX.Intn(5), circular, true)
			if !ok {
				continue
			}
			want := c10Oracle(c.seq, circular, e)
			if pairs := c10SitePairs(c); pairs != len(want) {
				harness = append(harness, fmt.Sprintf("crossing cuts: oracle gives %d fragments, by site order %d forward->backward pairs cut in order: %s", len(want), pairs, c.key()))
				continue
			}
			v.Case("crossing-cuts "+c.key(), true)
			got, perr := c10Real(c.seq, circular, e)
			if perr != "" {
				col.add(c10ClauseFrag, "crossing-cuts-panic", c10Input(e, c.seq, circular), "sites ["+c.layout()+"]: "+perr, len(c.seq))
				continue
			}
			if !c10StrsEqual(got, want) {
				col.add(c10ClauseFrag, "crossing-cuts", c10Input(e, c.seq, circular), "sites ["+c.layout()+"]: "+c10Diff(got, want), len(c.seq))
			}
		}
		col.flush(v)
		v.Done()
	}

	// ---- rotation independence ----
	{
		v := newVerifRun("C10", c10ClauseRot, fmt.Sprintf("circular parts inside the same precondition, 1..6 planted sites, same enzymes; %d sampled plasmids of 20..300 bases each digested at EVERY rotation of the stored sequence, and %d sampled plasmids of 301..3000 bases at every rotation whose origin falls within 2 bases of a site, its skip or its overhang plus 24 random rotations; and %d sampled plasmids of up to 300 bases carrying the same cassette 2 or 3 times (4 or 6 sites, identical fragments in the multiset) at every rotation; and %d sampled plasmids of 120..300 bases with 2..6 sites of which at least one forward site is followed by a backward site after a gap of 0..2*skip-1 bases so that their cuts cross (sites do not overlap, no two cuts on the same base, every forward cut directly followed on the ring by a backward cut is >= 2 overhang lengths before it; the crossing forward cut may pair with a backward cut almost a full turn later) at every rotation, classes crossing-pair-straddles-origin (the stored origin lies inside the footprint of the two crossing sites) / crossing-cuts / crossing-cuts-panic; the fragment multisets (sorted lists with repetitions) of all rotations of one plasmid must be identical (a rotation fails when it differs from the most common result); non-trivial = the plasmid yields at least one fragment", nRotSmall, nRotBig, nRepRot, nCrossRot))
		v.Sampled()
		var col c10Collector
		crossing := false // the plasmid being run has a forward/backward pair whose cuts cross
		run := func(c c10Case, rots []int, idx int) {
			e := c.enz
			n := len(c.seq)
			type res struct {
				r    int
				got  []string
				perr string
			}
			var all []res
			count := map[string]int{}
			nontrivial := len(c10Oracle(c.seq, true, e)) > 0
			for _, r := range rots {
				s := c10Rotate(c.seq, r)
				got, perr := c10Real(s, true, e)
				all = append(all, res{r, got, perr})
				v.Case(fmt.Sprintf("#%d %s rot=%d", idx, c.key(), r), nontrivial)
				if perr == "" {
					count[strings.Join(got, "|")]++
				}
			}
			mode, best := "", -1
			for k, c := range count {
				if c > best || (c == best && k > mode) {
					mode, best = k, c
				}
			}
			var modal []string
			if mode != "" {
				modal = strings.Split(mode, "|")
			}
			nbad := 0
			for _, a := range all {
				if a.perr == "" && strings.Join(a.got, "|") == mode {
					continue
				}
				nbad++
			}
			for _, a := range all {
				if a.perr == "" && strings.Join(a.got, "|") == mode {
					continue
				}
				s := c10Rotate(c.seq, a.r)
				shape := c10Shape(s, true, e)
				if crossing {
					shape = "crossing-cuts"
					if a.perr == "" && c10CrossingStraddles(c, a.r) {
						shape = "crossing-pair-straddles-origin"
					}
				}
				if a.perr != "" {
					col.add(c10ClauseRot, shape+"-panic", c10Input(e, s, true), a.perr, n)
					continue
				}
				col.add(c10ClauseRot, shape, c10Input(e, s, true), fmt.Sprintf("rotation by %d of plasmid with sites [%s] differs from the result of %d of the %d rotations tried (%d differ): %s", a.r, c.layout(), best, len(all), nbad, c10Diff(a.got, modal)), n)
			}
		}
		for i := 0; i < nRotSmall; i++ {
			e := c10PickEnzyme(rng, i)
			n := 20 + rng.Intn(281)
			if rng.Intn(3) == 0 {
				n = 20 + rng.Intn(100)
			}
			c, ok := c10Make(rng, e, n, 1+rng.Intn(6), true, true)
			if !ok {
				continue
			}
			rots := make([]int, n)
			for r := range rots {
				rots[r] = r
			}
			run(c, rots, i)
		}
		for i := 0; i < nRotBig; i++ {
			e := c10PickEnzyme(rng, i)
			n := 301 + rng.Intn(2700)
			c, ok := c10Make(rng, e, n, 1+rng.Intn(6), true, true)
			if !ok {
				continue
			}
			seen := map[int]bool{}
			var rots []int
			add := func(r int) {
				r = ((r % n) + n) % n
				if !seen[r] {
					seen[r] = true
					rots = append(rots, r)
				}
			}
			add(0)
			reach := len(e.site) + e.skip + e.ovh + 2
			for _, s := range c.sites {
				for d := -reach; d <= reach+len(e.site); d++ {
					add(s.start + d)
				}
			}
			for j := 0; j < 24; j++ {
				add(rng.Intn(n))
			}
			sort.Ints(rots)
			run(c, rots, nRotSmall+i)
		}
		// plasmids with the same cassette two or three times (identical fragments)
		rngRep := rand.New(rand.NewSource(verifSeed() ^ 0x20c10))
		for i := 0; i < nRepRot; i++ {
			e := c10PickEnzyme(rngRep, i)
			c, ok := c10MakeRepeated(rngRep, e, 2+rngRep.Intn(2), true, 300)
			if !ok {
				continue
			}
			rots := make([]int, len(c.seq))
			for r := range rots {
				rots[r] = r
			}
			run(c, rots, nRotSmall+nRotBig+i)
		}
		// plasmids with a crossing forward/backward pair
		rngX := rand.New(rand.NewSource(verifSeed() ^ 0x40c10))
		for i := 0; i < nCrossRot; i++ {
			e := c10PickEnzyme(rngX, i)
			n := 120 + rngX.Intn(181)
			c, ok := c10MakeCrossing(rngX, e, n, 2+rngX.Intn(5), true, false)
			if !ok {
				continue
			}
			rots := make([]int, n)
			for r := range rots {
				rots[r] = r
			}
			crossing = true
			run(c, rots, nRotSmall+nRotBig+nRepRot+i)
			crossing = false
		}
		col.flush(v)
		v.Done()
	}

	// ---- linear parts: sites anywhere, also where the cut falls off an end ----
	{
		v := newVerifRun("C10", c10ClauseLinear, fmt.Sprintf("sampled, %d draws: linear parts of 20..3000 bases, 1..6 planted sites in either orientation anywhere in the part including flush with either end, so that the cut or its overhang may fall beyond the part; same enzymes and precondition; the call must not panic and every returned fragment must be one an independent digester finds using only cuts whose overhang lies inside the part (overhangs of the stated length, bases taken from the part); non-trivial = some site's cut or overhang falls outside the part", nLin))
		v.Sampled()
		var col c10Collector
		for i := 0; i < nLin; i++ {
			e := c10PickEnzyme(rng, i)
			n := c10PickLen(rng, 20, 3000)
			c, ok := c10Make(rng, e, n, 1+rng.Intn(6), false, false)
			if !ok {
				continue
			}
			off := false
			l := len(e.site)
			for _, s := range c.sites {
				if s.fwd && s.start+l+e.skip+e.ovh > n || !s.fwd && s.start-e.skip-e.ovh < 0 {
					off = true
				}
			}
			v.Case(c.key(), off)
			want := c10Oracle(c.seq, false, e)
			got, perr := c10Real(c.seq, false, e)
			shape := c10Shape(c.seq, false, e)
			if perr != "" {
				col.add(c10ClauseLinear, shape+"-panic", c10Input(e, c.seq, false), perr, n)
				continue
			}
			allowed := map[string]int{}
			for _, w := range want {
				allowed[w]++
			}
			bad := false
			for _, g := range got {
				if allowed[g] == 0 {
					bad = true
				}
				allowed[g]--
			}
			if bad {
				col.add(c10ClauseLinear, shape, c10Input(e, c.seq, false), "sites ["+c.layout()+"]: "+c10Diff(got, want), n)
			} else if len(got) != len(want) {
				// a fragment whose two cuts lie inside the part is missing: that is the
				// fragments clause, seen on a part that also has a site near an end
				col.add(c10ClauseFrag, shape, c10Input(e, c.seq, false), "sites ["+c.layout()+"]: "+c10Diff(got, want), n)
			}
		}
		col.flush(v)
		v.Done()
	}

	// ---- letter case ----
	{
		v := newVerifRun("C10", c10ClauseCaseFold, fmt.Sprintf("sampled, %d draws from the domain of the fragments clause (circular and linear, 1..6 sites), each stored in lower case, in random mixed case and with a tenth of the letters lowered; the fragments (compared without regard to case) must equal those of the upper-case part; PLUS %d sampled circular 'crossing-cuts' plasmids of 40..300 bases as in the rotation clause (2..6 sites, at least one forward site followed by a backward site after a gap of 0..2*skip-1 bases so that their cuts cross; same restrictions) at EVERY rotation of the stored sequence, each rotation stored in lower case and in random mixed case (all / half / a tenth of the letters lowered) and compared with the upper-case spelling of the same rotation, classes case-changes-crossing-cuts / case-changes-crossing-cuts-panic; non-trivial = at least one fragment expected (crossing plasmids: the upper-case spelling of that rotation yields at least one fragment)", nCase, nCaseCross))
		v.Sampled()
		var col c10Collector
		for i := 0; i < nCase; i++ {
			e := c10PickEnzyme(rng, i)
			n := c10PickLen(rng, 20, 3000)
			circular := rng.Intn(2) == 0
			c, ok := c10Make(rng, e, n, 1+rng.Intn(6), circular, true)
			if !ok {
				continue
			}
			up, perrUp := c10Real(c.seq, circular, e)
			nontrivial := len(c10Oracle(c.seq, circular, e)) > 0
			for _, variant := range []string{strings.ToLower(c.seq), c10RandomCase(rng, c.seq)} {
				v.Case(c.key()+" "+variant[:c10Min(len(variant), 24)], nontrivial && variant != c.seq)
				got, perr := c10Real(variant, circular, e)
				for j := range got {
					got[j] = strings.ToUpper(got[j])
				}
				sort.Strings(got)
				if perr != perrUp {
					col.add(c10ClauseCaseFold, "lower-case-panic", c10Input(e, variant, circular), fmt.Sprintf("upper case: %q, this case: %q", perrUp, perr), n)
					continue
				}
				if !c10StrsEqual(got, up) {
					col.add(c10ClauseCaseFold, "lower-case", c10Input(e, variant, circular), "against the upper-case part: "+c10Diff(got, up), n)
				}
			}
		}
		// crossing-cuts plasmids, every rotation, lower and mixed case
		rngXC := rand.New(rand.NewSource(verifSeed() ^ 0x80c10))
		for i := 0; i < nCaseCross; i++ {
			e := c10PickEnzyme(rngXC, i)
			n := 40 + rngXC.Intn(261)
			if i%3 == 0 {
				n = 40 + rngXC.Intn(81)
			}
			c, ok := c10MakeCrossing(rngXC, e, n, 2+rngXC.Intn(5), true, false)
			if !ok {
				continue
			}
			for r := 0; r < n; r++ {
				s := c10Rotate(c.seq, r)
				up, perrUp := c10Real(s, true, e)
				for vi, variant := range []string{strings.ToLower(s), c10RandomCase(rngXC, s)} {
					v.Case(fmt.Sprintf("crossing #%d %s rot=%d variant=%d", i, c.key(), r, vi), len(up) > 0 && variant != s)
					got, perr := c10Real(variant, true, e)
					for j := range got {
						got[j] = strings.ToUpper(got[j])
					}
					sort.Strings(got)
					if perr != perrUp {
						col.add(c10ClauseCaseFold, "case-changes-crossing-cuts-panic", c10Input(e, variant, true), fmt.Sprintf("rotation by %d of plasmid with sites [%s]; upper case: %q, this case: %q", r, c.layout(), perrUp, perr), n)
						continue
					}
					if !c10StrsEqual(got, up) {
						col.add(c10ClauseCaseFold, "case-changes-crossing-cuts", c10Input(e, variant, true), fmt.Sprintf("rotation by %d of plasmid with sites [%s]; against the upper-case spelling of the same rotation: %s", r, c.layout(), c10Diff(got, up)), n)
					}
				}
			}
		}
		col.flush(v)
		v.Done()
	}

	for i, h := range harness {
		if i < 5 {
			t.Errorf("harness: %s", h)
		}
	}
}

// c10PlantedPairs counts forward->backward neighbours in the planted layout
// (cyclically for a ring); used as a self-check of the oracle.
func c10PlantedPairs(c c10Case) int {
	k := len(c.sites)
	p := 0
	for i := 0; i < k; i++ {
		j := i + 1
		if j == k {
			if !c.circular || k < 2 {
				break
			}
			j = 0
		}
		if c.sites[i].fwd && !c.sites[j].fwd {
			p++
		}
	}
	return p
}

func c10Min(a, b int) int {
	if a < b {
		return a
	}
	return b
}
