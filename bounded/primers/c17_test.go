package primers

// Bounded back end for C17, executed on the real NucleobaseDeBruijnSequence,
// CreateBarcodesWithBannedSequences and CreateBarcodes.
//
//   primers.NucleobaseDeBruijnSequence/post/debruijn                 length 4^n+n-1, every n-letter word over ATGC exactly once
//   primers.CreateBarcodesWithBannedSequences/post/substrings        every barcode is a substring of that sequence, of exactly the requested length
//   primers.CreateBarcodesWithBannedSequences/post/no-shared-nmer    no two barcodes share an n-letter word
//   primers.CreateBarcodesWithBannedSequences/post/ban-free          no barcode contains a banned sequence or the reverse complement of one
//   primers.CreateBarcodesWithBannedSequences/post/filters-accept    every barcode is accepted by every filter
//
// The reverse complement of a ban is computed here (A<->T, C<->G, reversed).

import (
	"runtime"
	"sort"
	"strconv"
	"strings"
	"sync"
	"testing"
)

func c17RC(s string) string {
	n := len(s)
	out := make([]byte, n)
	for i := 0; i < n; i++ {
		var c byte
		switch s[i] {
		case 'A':
			c = 'T'
		case 'T':
			c = 'A'
		case 'C':
			c = 'G'
		case 'G':
			c = 'C'
		default:
			panic("c17RC: not A/C/G/T")
		}
		out[n-1-i] = c
	}
	return string(out)
}

func c17Digit(c byte) int {
	switch c {
	case 'A':
		return 0
	case 'C':
		return 1
	case 'G':
		return 2
	case 'T':
		return 3
	}
	return -1
}

func c17Pow4(n int) int { return 1 << uint(2*n) }

func c17Par(total int, f func(i int)) {
	workers := runtime.NumCPU()
	if workers > total {
		workers = total
	}
	var wg sync.WaitGroup
	var mu sync.Mutex
	next := 0
	const chunk = 64
	for w := 0; w < workers; w++ {
		wg.Add(1)
		go func() {
			defer wg.Done()
			for {
				mu.Lock()
				lo := next
				next += chunk
				mu.Unlock()
				if lo >= total {
					return
				}
				hi := lo + chunk
				if hi > total {
					hi = total
				}
				for i := lo; i < hi; i++ {
					f(i)
				}
			}
		}()
	}
	wg.Wait()
}

// ---- the sequence itself ----
// c17DeBruijn checks one order and returns the result of the call (ok = the
// function returned).
func c17DeBruijn(v *verifRun, n int) (s string, ok bool) {
	v.Case("order "+strconv.Itoa(n), true)
	in := "NucleobaseDeBruijnSequence(" + strconv.Itoa(n) + ")"
	if !v.Guard("panic", in, func() { s = NucleobaseDeBruijnSequence(n) }) {
		return "", false
	}
	ok = true
	want := c17Pow4(n) + n - 1
	if len(s) != want {
		v.Fail("wrong-length", in, "length "+strconv.Itoa(len(s))+", want 4^n+n-1 = "+strconv.Itoa(want))
		return
	}
	count := make([]uint8, c17Pow4(n))
	mask := c17Pow4(n) - 1
	w := 0
	for i := 0; i < len(s); i++ {
		d := c17Digit(s[i])
		if d < 0 {
			v.Fail("foreign-letter", in, "letter "+strconv.Quote(s[i:i+1])+" at "+strconv.Itoa(i))
			return
		}
		w = (w<<2 | d) & mask
		if i >= n-1 {
			if count[w] < 255 {
				count[w]++
			}
		}
	}
	for w, c := range count {
		if c != 1 {
			word := make([]byte, n)
			for p := n - 1; p >= 0; p-- {
				word[p] = "ACGT"[w&3]
				w >>= 2
			}
			class := "word-repeated"
			if c == 0 {
				class = "word-missing"
			}
			v.Fail(class, in, "the word "+string(word)+" occurs "+strconv.Itoa(int(c))+" times")
			return
		}
	}
	return
}

// c17InterleavedOrders: max-2, 1, max-1, 2, max, 3 and then the orders in
// between alternately from the top and from the bottom (9,1,10,2,11,3,8,4,7,5,6
// for max = 11).
func c17InterleavedOrders(max int) []int {
	if max < 6 {
		var out []int
		for lo, hi := 1, max; lo <= hi; lo, hi = lo+1, hi-1 {
			out = append(out, hi)
			if lo < hi {
				out = append(out, lo)
			}
		}
		return out
	}
	out := []int{max - 2, 1, max - 1, 2, max, 3}
	for lo, hi := 4, max-3; lo <= hi; lo, hi = lo+1, hi-1 {
		out = append(out, hi)
		if lo < hi {
			out = append(out, lo)
		}
	}
	return out
}

// c17FirstDiff describes where two strings differ.
func c17FirstDiff(a, b string) string {
	i := 0
	for i < len(a) && i < len(b) && a[i] == b[i] {
		i++
	}
	return "lengths " + strconv.Itoa(len(a)) + " and " + strconv.Itoa(len(b)) + ", first difference at letter " + strconv.Itoa(i)
}

// c17Again calls the function once more for order n, after the calls named in
// history, and demands the byte-identical result.
func c17Again(v *verifRun, n int, first map[int]string, pass, history string) {
	want, ok := first[n]
	if !ok {
		return // the first call did not return; reported there
	}
	v.Case("order "+strconv.Itoa(n)+", called again ("+pass+")", true)
	in := "NucleobaseDeBruijnSequence(" + strconv.Itoa(n) + ") called again after the orders " + history
	var s string
	if !v.Guard("panic", in, func() { s = NucleobaseDeBruijnSequence(n) }) {
		return
	}
	if s != want {
		v.Fail("result-depends-on-call-history", in, "differs from the result of the first call for this order: "+c17FirstDiff(s, want))
	}
}

// ---- barcodes ----
type c17Filter struct {
	name string
	f    func(string) bool
}

var c17Filters = []c17Filter{
	{"not-starting-with-A", func(s string) bool { return len(s) == 0 || s[0] != 'A' }},
	{"not-ending-with-T", func(s string) bool { return len(s) == 0 || s[len(s)-1] != 'T' }},
	{"gc-at-most-60%", func(s string) bool { return 10*(strings.Count(s, "G")+strings.Count(s, "C")) <= 6*len(s) }},
	{"gc-at-least-30%", func(s string) bool { return 10*(strings.Count(s, "G")+strings.Count(s, "C")) >= 3*len(s) }},
	{"no-run-of-3", func(s string) bool {
		for i := 0; i+2 < len(s); i++ {
			if s[i] == s[i+1] && s[i] == s[i+2] {
				return false
			}
		}
		return true
	}},
	{"even-number-of-C", func(s string) bool { return strings.Count(s, "C")%2 == 0 }},
	{"first-and-last-differ", func(s string) bool { return len(s) < 2 || s[0] != s[len(s)-1] }},
}

type c17Case struct {
	length, order int
	bans          []string
	filters       []int // indices into c17Filters
	keep          bool  // keep the barcodes for the second-call comparison
}

func (c c17Case) String() string {
	var fs []string
	for _, i := range c.filters {
		fs = append(fs, c17Filters[i].name)
	}
	return "length " + strconv.Itoa(c.length) + ", order " + strconv.Itoa(c.order) + ", bans [" + strings.Join(c.bans, " ") + "], filters [" + strings.Join(fs, " ") + "]"
}

type c17Fail struct {
	clause        int // index into the four barcode clauses
	class, detail string
}

type c17Out struct {
	fails             []c17Fail
	barcodes          int
	nontrivialBanFree bool
	panicked          bool
	kept              []string // the barcodes, for cases with keep
}

// reference data per order: the generated sequence and the position of every n-letter word in it
type c17Ref struct {
	seq string
	pos []int32
}

var c17Refs sync.Map

func c17GetRef(order int) *c17Ref {
	if r, ok := c17Refs.Load(order); ok {
		return r.(*c17Ref)
	}
	r := &c17Ref{seq: NucleobaseDeBruijnSequence(order)}
	r.pos = make([]int32, c17Pow4(order))
	for i := range r.pos {
		r.pos[i] = -1
	}
	for i := 0; i+order <= len(r.seq); i++ {
		if w := c17Word(r.seq[i : i+order]); w >= 0 && r.pos[w] < 0 {
			r.pos[w] = int32(i)
		}
	}
	c17Refs.Store(order, r)
	return r
}

func c17Word(s string) int {
	w := 0
	for i := 0; i < len(s); i++ {
		d := c17Digit(s[i])
		if d < 0 {
			return -1
		}
		w = w<<2 | d
	}
	return w
}

const (
	c17Substr = iota
	c17Shared
	c17BanFree
	c17FilterOK
	c17Panic
)

// c17Call calls the barcode function of the case under recover.
func c17Call(c c17Case) (barcodes []string, panicked string) {
	fs := make([]func(string) bool, len(c.filters))
	for i, k := range c.filters {
		fs[i] = c17Filters[k].f
	}
	func() {
		defer func() {
			if r := recover(); r != nil {
				panicked = "panic"
				if e, ok := r.(error); ok {
					panicked = "panic: " + e.Error()
				} else if s, ok := r.(string); ok {
					panicked = "panic: " + s
				}
			}
		}()
		if len(c.bans) == 0 && len(c.filters) == 0 {
			barcodes = CreateBarcodes(c.length, c.order)
		} else {
			barcodes = CreateBarcodesWithBannedSequences(c.length, c.order, append([]string(nil), c.bans...), fs)
		}
	}()
	return
}

func c17Eval(c c17Case) (out c17Out) {
	ref := c17GetRef(c.order)
	barcodes, panicked := c17Call(c)
	if panicked != "" {
		out.fails = append(out.fails, c17Fail{c17Panic, "panic", panicked})
		out.panicked = true
		return
	}
	out.barcodes = len(barcodes)
	if c.keep {
		out.kept = barcodes
	}
	n := c.order
	// substrings of exactly the requested length
	for i, b := range barcodes {
		if len(b) != c.length {
			out.fails = append(out.fails, c17Fail{c17Substr, "wrong-barcode-length", "barcode " + strconv.Itoa(i) + " " + strconv.Quote(b) + " has length " + strconv.Itoa(len(b))})
			break
		}
		ok := false
		if w := c17Word(b[:n]); w >= 0 && ref.pos[w] >= 0 {
			p := int(ref.pos[w])
			ok = p+len(b) <= len(ref.seq) && ref.seq[p:p+len(b)] == b
		}
		if !ok && !strings.Contains(ref.seq, b) {
			out.fails = append(out.fails, c17Fail{c17Substr, "not-a-substring", "barcode " + strconv.Itoa(i) + " " + strconv.Quote(b) + " does not occur in NucleobaseDeBruijnSequence(" + strconv.Itoa(n) + ")"})
			break
		}
	}
	// no two barcodes share an n-letter word
	if len(barcodes) > 1 {
		owner := make([]int32, c17Pow4(n))
	shared:
		for i, b := range barcodes {
			for k := 0; k+n <= len(b); k++ {
				w := c17Word(b[k : k+n])
				if w < 0 {
					continue
				}
				if o := owner[w]; o != 0 && int(o-1) != i {
					out.fails = append(out.fails, c17Fail{c17Shared, "word-shared-by-two-barcodes", "barcodes " + strconv.Itoa(int(o-1)) + " " + strconv.Quote(barcodes[o-1]) + " and " + strconv.Itoa(i) + " " + strconv.Quote(b) + " both contain " + b[k:k+n]})
					break shared
				}
				owner[w] = int32(i + 1)
			}
		}
	}
	// ban-free
	if len(c.bans) > 0 {
		shifted := false
		for _, ban := range c.bans {
			if strings.Contains(ref.seq, ban) || strings.Contains(ref.seq, c17RC(ban)) {
				shifted = true
			}
		}
		out.nontrivialBanFree = shifted && len(barcodes) > 0
	banfree:
		for i, b := range barcodes {
			for _, ban := range c.bans {
				rc := c17RC(ban)
				if strings.Contains(b, ban) {
					out.fails = append(out.fails, c17Fail{c17BanFree, "ban-reintroduced-by-later-shift", "barcode " + strconv.Itoa(i) + " " + strconv.Quote(b) + " contains the banned sequence " + ban})
					break banfree
				}
				if strings.Contains(b, rc) {
					out.fails = append(out.fails, c17Fail{c17BanFree, "ban-reintroduced-by-later-shift", "barcode " + strconv.Itoa(i) + " " + strconv.Quote(b) + " contains " + rc + ", the reverse complement of the banned sequence " + ban})
					break banfree
				}
			}
		}
	}
	// filters
filters:
	for i, b := range barcodes {
		for _, k := range c.filters {
			if !c17Filters[k].f(b) {
				out.fails = append(out.fails, c17Fail{c17FilterOK, "filter-rejection-reintroduced-by-later-shift", "barcode " + strconv.Itoa(i) + " " + strconv.Quote(b) + " is rejected by the filter " + c17Filters[k].name})
				break filters
			}
		}
	}
	return
}

type c17Kept struct {
	c        c17Case
	barcodes []string
}

type c17Runs struct {
	v    [4]*verifRun
	kept []c17Kept // first results of the cases marked keep
}

// run evaluates the cases in parallel and reports in case order, so that the
// first witnesses of a class are the earliest (smallest) cases.
func (r *c17Runs) run(cases []c17Case) {
	outs := make([]c17Out, len(cases))
	c17Par(len(cases), func(i int) { outs[i] = c17Eval(cases[i]) })
	for i, c := range cases {
		o := outs[i]
		key := c.String()
		r.v[c17Substr].Case(key, o.barcodes > 0)
		r.v[c17Shared].Case(key, o.barcodes > 1)
		if len(c.bans) > 0 {
			r.v[c17BanFree].Case(key, o.nontrivialBanFree)
		}
		if len(c.filters) > 0 {
			r.v[c17FilterOK].Case(key, o.barcodes > 0)
		}
		if c.keep && !o.panicked {
			r.kept = append(r.kept, c17Kept{c, o.kept})
		}
		for _, f := range o.fails {
			if f.clause == c17Panic {
				r.v[c17Substr].Fail("panic", key, f.detail)
				continue
			}
			r.v[f.clause].Fail(f.class, key, f.detail)
		}
	}
}

func c17Words(alpha string, lo, hi int) []string {
	var out []string
	var rec func(cur string, n int)
	rec = func(cur string, n int) {
		if len(cur) == n {
			out = append(out, cur)
			return
		}
		for i := 0; i < len(alpha); i++ {
			rec(cur+alpha[i:i+1], n)
		}
	}
	for n := lo; n <= hi; n++ {
		rec("", n)
	}
	return out
}

func c17OrdersText(orders []int) string {
	var out []string
	for _, n := range orders {
		out = append(out, strconv.Itoa(n))
	}
	return strings.Join(out, ",")
}

func TestVerifC17(t *testing.T) {
	it := strconv.Itoa
	maxOrderSeq, maxOrder := 9, 5
	nRandom, nTriples := 4000, 150000
	if verifThorough() {
		maxOrderSeq, maxOrder = 11, 8
		nRandom, nTriples = 40000, 0 // 0 = all triples
	}

	// ---- the De Bruijn sequence ----
	v := newVerifRun("C17", "primers.NucleobaseDeBruijnSequence/post/debruijn",
		"exhaustive: orders 1.."+it(maxOrderSeq)+" (the property's quantifier is orders 1..11); length = 4^n+n-1, only the letters A, T, G, C, and a count of every one of the 4^n words over the whole sequence; "+
			"the function is a function of its argument: after the first pass (orders increasing) every order is called again in a descending pass ("+it(maxOrderSeq)+"..1) and in an interleaved pass ("+c17OrdersText(c17InterleavedOrders(maxOrderSeq))+"), and each result must be byte-identical to the first pass's result for that order; non-trivial = every order")
	first := map[int]string{}
	var history []string
	for n := 1; n <= maxOrderSeq; n++ {
		if s, ok := c17DeBruijn(v, n); ok {
			first[n] = s
		}
		history = append(history, it(n))
	}
	for n := maxOrderSeq; n >= 1; n-- {
		c17Again(v, n, first, "descending pass", strings.Join(history, ","))
		history = append(history, it(n))
	}
	for _, n := range c17InterleavedOrders(maxOrderSeq) {
		c17Again(v, n, first, "interleaved pass", strings.Join(history, ","))
		history = append(history, it(n))
	}
	v.Done()

	// ---- barcodes ----
	triplesText := "all ordered triples"
	if nTriples > 0 {
		triplesText = it(nTriples) + " seeded random ordered triples"
	}
	dom := "(a) adversarial, exhaustive: orders 2..3, barcode lengths n..10, bans of length 2..3 over ACGT (80 words): no ban, every single ban, every ordered pair (6400), " + triplesText + " (of 512000), no filter; and 0..1 ban with every ordered pair of 7 filters; " +
		"(b) every order 2.." + it(maxOrder) + " with every length n..60, no ban and no filter (CreateBarcodes); " +
		"(c) seeded random: " + it(nRandom) + " cases, order 2.." + it(maxOrder) + ", length n..60, 0..5 bans of length 2..8, 0..3 of 7 filters; half of the cases take their bans from neighbouring windows of the De Bruijn sequence or their reverse complements so that avoiding one ban moves the window onto another; " +
		"the reverse complement of a ban is computed by the test; reference sequence = NucleobaseDeBruijnSequence(order) (checked by the debruijn clause)"
	againText := "; the barcode functions are functions of their arguments: every case of (b) and every 10th case of (c) is called a second time after all the other cases (so after every other order was used), in reverse case order, and must return the identical list (class result-depends-on-call-history)"
	r := &c17Runs{}
	r.v[c17Substr] = newVerifRun("C17", "primers.CreateBarcodesWithBannedSequences/post/substrings", dom+againText+"; non-trivial = at least one barcode returned; a panic of the function is reported here (class panic)")
	r.v[c17Shared] = newVerifRun("C17", "primers.CreateBarcodesWithBannedSequences/post/no-shared-nmer", dom+"; non-trivial = at least two barcodes returned")
	r.v[c17BanFree] = newVerifRun("C17", "primers.CreateBarcodesWithBannedSequences/post/ban-free", dom+"; cases with at least one ban; non-trivial = some ban or its reverse complement occurs in the De Bruijn sequence and at least one barcode is returned")
	r.v[c17FilterOK] = newVerifRun("C17", "primers.CreateBarcodesWithBannedSequences/post/filters-accept", dom+"; cases with at least one filter; non-trivial = at least one barcode returned")

	bans := c17Words("ACGT", 2, 3)
	rng := verifRand()
	// (a)
	for order := 2; order <= 3; order++ {
		for length := order; length <= 10; length++ {
			var cases []c17Case
			cases = append(cases, c17Case{length, order, nil, nil, false})
			for _, a := range bans {
				cases = append(cases, c17Case{length, order, []string{a}, nil, false})
			}
			for _, a := range bans {
				for _, b := range bans {
					cases = append(cases, c17Case{length, order, []string{a, b}, nil, false})
				}
			}
			r.run(cases)
			cases = cases[:0]
			if nTriples == 0 {
				for _, a := range bans {
					for _, b := range bans {
						for _, c := range bans {
							cases = append(cases, c17Case{length, order, []string{a, b, c}, nil, false})
						}
					}
				}
			} else {
				for i := 0; i < nTriples/17; i++ {
					cases = append(cases, c17Case{length, order, []string{bans[rng.Intn(len(bans))], bans[rng.Intn(len(bans))], bans[rng.Intn(len(bans))]}, nil, false})
				}
			}
			r.run(cases)
			cases = cases[:0]
			for f1 := range c17Filters {
				for f2 := range c17Filters {
					cases = append(cases, c17Case{length, order, nil, []int{f1, f2}, false})
					for _, a := range bans {
						cases = append(cases, c17Case{length, order, []string{a}, []int{f1, f2}, false})
					}
				}
			}
			r.run(cases)
		}
	}
	// (b)
	{
		var cases []c17Case
		for order := 2; order <= maxOrder; order++ {
			for length := order; length <= 60; length++ {
				cases = append(cases, c17Case{length, order, nil, nil, true})
			}
		}
		r.run(cases)
	}
	// (c)
	{
		var cases []c17Case
		for i := 0; i < nRandom; i++ {
			order := 2 + rng.Intn(maxOrder-1)
			length := order + rng.Intn(61-order)
			nb := rng.Intn(6)
			nf := rng.Intn(4)
			c := c17Case{length: length, order: order, keep: i%10 == 0}
			ref := c17GetRef(order)
			anchor := rng.Intn(len(ref.seq))
			for j := 0; j < nb; j++ {
				k := 2 + rng.Intn(7)
				var ban string
				if i%2 == 0 && k <= len(ref.seq) {
					// a window of the sequence close to the anchor, or its reverse complement
					p := anchor + rng.Intn(2*length+1) - length
					if p < 0 {
						p = 0
					}
					if p+k > len(ref.seq) {
						p = len(ref.seq) - k
					}
					ban = ref.seq[p : p+k]
					if rng.Intn(2) == 0 {
						ban = c17RC(ban)
					}
				} else {
					b := make([]byte, k)
					for x := range b {
						b[x] = "ACGT"[rng.Intn(4)]
					}
					ban = string(b)
				}
				c.bans = append(c.bans, ban)
			}
			perm := rng.Perm(len(c17Filters))
			c.filters = append(c.filters, perm[:nf]...)
			cases = append(cases, c)
		}
		sort.SliceStable(cases, func(i, j int) bool {
			if cases[i].order != cases[j].order {
				return cases[i].order < cases[j].order
			}
			return cases[i].length < cases[j].length
		})
		r.run(cases)
	}
	// second call of the kept cases, in reverse order, after everything else
	{
		again := make([][]string, len(r.kept))
		panics := make([]string, len(r.kept))
		c17Par(len(r.kept), func(i int) {
			k := len(r.kept) - 1 - i
			again[k], panics[k] = c17Call(r.kept[k].c)
		})
		for k := len(r.kept) - 1; k >= 0; k-- {
			key := r.kept[k].c.String() + ", called a second time"
			r.v[c17Substr].Case(key, len(r.kept[k].barcodes) > 0)
			if panics[k] != "" {
				r.v[c17Substr].Fail("panic", key, panics[k])
				continue
			}
			a, b := again[k], r.kept[k].barcodes
			same := len(a) == len(b)
			for i := 0; same && i < len(a); i++ {
				same = a[i] == b[i]
			}
			if !same {
				d := it(len(a)) + " barcodes, " + it(len(b)) + " at the first call"
				for i := 0; i < len(a) && i < len(b); i++ {
					if a[i] != b[i] {
						d += "; barcode " + it(i) + " is " + strconv.Quote(a[i]) + ", was " + strconv.Quote(b[i])
						break
					}
				}
				r.v[c17Substr].Fail("result-depends-on-call-history", key, d)
			}
		}
	}
	for _, v := range r.v {
		v.Sampled()
		v.Done()
	}
}
