package primers

// Bounded back end for C19, executed on the real SantaLucia, MeltingTemp and
// MarmurDoty against an independent float64 evaluation of the nearest-neighbour
// formula in the property statement.
//
//   primers.SantaLucia/post/formula                            dH, dS, Tm = the formula (relative tolerance 1e-9)
//   primers.SantaLucia/post/case-independent                   identical results for any letter case
//   primers.SantaLucia/post/dH-independent-of-concentrations   dH identical for all concentrations
//   primers.SantaLucia/post/monotone                           Tm strictly increases with oligo, sodium and magnesium concentration
//   primers.MeltingTemp/post/defaults                          = SantaLucia at 500 nM, 50 mM, 0
//   primers.MarmurDoty/post/formula                            2(A+T)+4(G+C)-7
//   primers.nearestNeighborsThermodynamics/table/strand-symmetry   a pair and its reverse-complement pair carry the same values
//
// Parameter set of the oracle: the unified SantaLucia/Allawi parameters as
// reproduced on the page the source cites (transcribed here, ten values, the
// other six by strand symmetry). The property speaks of "the terminal-A/T
// term" without naming the end(s); the oracle follows the code's reading: one
// term if the 3' (last) letter is A or T.

import (
	"math"
	"runtime"
	"strconv"
	"sync"
	"testing"
)

type c19HS struct{ h, s float64 }

// ten published pairs (kcal/mol, cal/mol/K); the partner on the other strand gets the same values
var c19Published = map[string]c19HS{
	"AA": {-7.6, -21.3}, // = TT
	"AT": {-7.2, -20.4},
	"TA": {-7.2, -21.3},
	"CA": {-8.5, -22.7}, // = TG
	"GT": {-8.4, -22.4}, // = AC
	"CT": {-7.8, -21.0}, // = AG
	"GA": {-8.2, -22.2}, // = TC
	"CG": {-10.6, -27.2},
	"GC": {-9.8, -24.4},
	"GG": {-8.0, -19.9}, // = CC
}

func c19RC(s string) string {
	n := len(s)
	out := make([]byte, n)
	for i := 0; i < n; i++ {
		var c byte
		switch s[i] {
		case 'A':
			c = 'T'
		case 'T':
			c = 'A'
		case 'C':
			c = 'G'
		case 'G':
			c = 'C'
		default:
			panic("c19RC: not A/C/G/T")
		}
		out[n-1-i] = c
	}
	return string(out)
}

var c19NN = func() map[string]c19HS {
	m := map[string]c19HS{}
	for k, v := range c19Published {
		m[k] = v
		m[c19RC(k)] = v
	}
	if len(m) != 16 {
		panic("c19: parameter table incomplete")
	}
	return m
}()

func c19Upper(s string) string {
	b := []byte(s)
	for i := range b {
		if b[i] >= 'a' && b[i] <= 'z' {
			b[i] -= 32
		}
	}
	return string(b)
}

// c19Oracle evaluates the property's formula. selfComp is returned for the regime test.
func c19Oracle(seq string, c, na, mg float64) (tm, dH, dS float64, f float64) {
	s := c19Upper(seq)
	n := len(s)
	dH, dS = 0.2, -5.7 // initiation
	f = 4
	if s == c19RC(s) { // self-complementary
		dH += 0
		dS += -1.4
		f = 1
	}
	if s[n-1] == 'A' || s[n-1] == 'T' { // terminal A/T (3' end, see above)
		dH += 2.2
		dS += 6.9
	}
	var sh, ss float64
	for i := 0; i+1 < n; i++ {
		p := c19NN[s[i:i+2]]
		sh += p.h
		ss += p.s
	}
	dH += sh
	dS += ss
	dS += 0.368 * float64(n-1) * math.Log(na+140*mg) // salt
	tm = dH*1000/(dS+1.9872*math.Log(c/f)) - 273.15
	return
}

func c19Close(a, b, floor float64) bool {
	if a == b {
		return true
	}
	if math.IsNaN(a) || math.IsNaN(b) || math.IsInf(a, 0) || math.IsInf(b, 0) {
		return false
	}
	scale := math.Max(math.Max(math.Abs(a), math.Abs(b)), floor)
	return math.Abs(a-b) <= 1e-9*scale
}

func c19F(x float64) string { return strconv.FormatFloat(x, 'g', 17, 64) }

func c19In(s string, c, na, mg float64) string {
	if len(s) > 80 {
		s = s[:80] + "...(" + strconv.Itoa(len(s)) + " letters)"
	}
	return "SantaLucia(" + strconv.Quote(s) + ", " + c19F(c) + ", " + c19F(na) + ", " + c19F(mg) + ")"
}

func c19Par(total int, f func(i int)) {
	workers := runtime.NumCPU()
	if workers > total {
		workers = total
	}
	var wg sync.WaitGroup
	var mu sync.Mutex
	next := 0
	const chunk = 32
	for w := 0; w < workers; w++ {
		wg.Add(1)
		go func() {
			defer wg.Done()
			for {
				mu.Lock()
				lo := next
				next += chunk
				mu.Unlock()
				if lo >= total {
					return
				}
				hi := lo + chunk
				if hi > total {
					hi = total
				}
				for i := lo; i < hi; i++ {
					f(i)
				}
			}
		}()
	}
	wg.Wait()
}

func c19Seqs(minLen, maxLen int) []string {
	var out []string
	for n := minLen; n <= maxLen; n++ {
		total := 1 << uint(2*n)
		for idx := 0; idx < total; idx++ {
			buf := make([]byte, n)
			j := idx
			for p := n - 1; p >= 0; p-- {
				buf[p] = "ACGT"[j&3]
				j >>= 2
			}
			out = append(out, string(buf))
		}
	}
	return out
}

type c19Runs struct {
	formula, caseInd, dHInd, mono, defaults, marmur *verifRun
}

var (
	c19GridC  = []float64{1e-9, 1e-8, 1e-7, 5e-7, 1e-6, 1e-5, 1e-4, 1e-3}
	c19GridNa = []float64{1e-3, 1e-2, 5e-2, 0.1, 0.5, 1}
	c19GridMg = []float64{0, 1e-4, 1e-3, 1e-2, 0.1}
)

type c19Res struct {
	tm, dH, dS float64
	ok         bool
}

func c19Call(v *verifRun, s string, c, na, mg float64) (r c19Res) {
	r.ok = v.Guard("panic", c19In(s, c, na, mg), func() { r.tm, r.dH, r.dS = SantaLucia(s, c, na, mg) })
	return
}

// formula at one point
func c19CheckFormula(v *verifRun, s string, c, na, mg float64, r c19Res) {
	tm, dH, dS, _ := c19Oracle(s, c, na, mg)
	if !c19Close(r.dH, dH, 0) {
		v.Fail("dH-differs", c19In(s, c, na, mg), "dH = "+c19F(r.dH)+", formula gives "+c19F(dH))
	}
	if !c19Close(r.dS, dS, 0) {
		v.Fail("dS-differs", c19In(s, c, na, mg), "dS = "+c19F(r.dS)+", formula gives "+c19F(dS))
	}
	if !c19Close(r.tm, tm, 273.15) {
		v.Fail("Tm-differs", c19In(s, c, na, mg), "Tm = "+c19F(r.tm)+", formula gives "+c19F(tm))
	}
}

// is (dH, dS, c, f) in the duplex-forming regime?
func c19Regime(r c19Res, c, f float64) bool {
	return r.dH < 0 && r.dS+1.9872*math.Log(c/f) < 0
}

func c19Symmetry(s string) float64 {
	u := c19Upper(s)
	if u == c19RC(u) {
		return 1
	}
	return 4
}

// everything on the concentration grid for one sequence
func (rs *c19Runs) grid(s string) {
	f := c19Symmetry(s)
	nc, nn, nm := len(c19GridC), len(c19GridNa), len(c19GridMg)
	res := make([]c19Res, nc*nn*nm)
	at := func(i, j, k int) *c19Res { return &res[(i*nn+j)*nm+k] }
	rs.formula.Case(s, true)
	for i, c := range c19GridC {
		for j, na := range c19GridNa {
			for k, mg := range c19GridMg {
				r := c19Call(rs.formula, s, c, na, mg)
				*at(i, j, k) = r
				if r.ok {
					c19CheckFormula(rs.formula, s, c, na, mg, r)
				}
			}
		}
	}
	// dH the same everywhere
	rs.dHInd.Case(s, true)
	first := at(0, 0, 0)
	for idx := range res {
		if res[idx].ok && first.ok && math.Float64bits(res[idx].dH) != math.Float64bits(first.dH) {
			k := idx % nm
			j := idx / nm % nn
			i := idx / nm / nn
			rs.dHInd.Fail("dH-depends-on-concentration", c19In(s, c19GridC[i], c19GridNa[j], c19GridMg[k]), "dH = "+c19F(res[idx].dH)+" but "+c19F(first.dH)+" at "+c19In(s, c19GridC[0], c19GridNa[0], c19GridMg[0]))
			break
		}
	}
	// monotone along each axis
	inRegime := true
	step := func(a, b *c19Res, ca, cb float64, axis, ina, inb string) {
		if !a.ok || !b.ok {
			return
		}
		if !c19Regime(*a, ca, f) || !c19Regime(*b, cb, f) {
			inRegime = false
			return
		}
		if !(b.tm > a.tm) {
			rs.mono.Fail("Tm-not-increasing-in-"+axis, ina+" -> "+inb, "Tm "+c19F(a.tm)+" -> "+c19F(b.tm))
		}
	}
	for i := 0; i < nc; i++ {
		for j := 0; j < nn; j++ {
			for k := 0; k < nm; k++ {
				c, na, mg := c19GridC[i], c19GridNa[j], c19GridMg[k]
				here := c19In(s, c, na, mg)
				if i+1 < nc {
					step(at(i, j, k), at(i+1, j, k), c, c19GridC[i+1], "oligo", here, c19In(s, c19GridC[i+1], na, mg))
				}
				if j+1 < nn {
					step(at(i, j, k), at(i, j+1, k), c, c, "sodium", here, c19In(s, c, c19GridNa[j+1], mg))
				}
				if k+1 < nm {
					step(at(i, j, k), at(i, j, k+1), c, c, "magnesium", here, c19In(s, c, na, c19GridMg[k+1]))
				}
			}
		}
	}
	rs.mono.Case(s, inRegime)
}

func c19ApplyCase(s string, pattern uint64) string {
	b := []byte(s)
	for i := range b {
		if pattern>>(uint(i)%64)&1 == 1 && b[i] >= 'A' && b[i] <= 'Z' {
			b[i] += 32
		}
	}
	return string(b)
}

func c19MarmurWant(s string) float64 {
	at, gc := 0, 0
	for i := 0; i < len(s); i++ {
		switch s[i] {
		case 'A', 'a', 'T', 't':
			at++
		case 'G', 'g', 'C', 'c':
			gc++
		}
	}
	return float64(2*at + 4*gc - 7)
}

// case independence, the defaults helper and Marmur-Doty for one (upper-case) sequence
func (rs *c19Runs) perSequence(s string, patterns []uint64, c, na, mg float64) {
	// case
	rs.caseInd.Case(s, true)
	base := c19Call(rs.caseInd, s, c, na, mg)
	for _, p := range patterns {
		t := c19ApplyCase(s, p)
		if t == s {
			continue
		}
		r := c19Call(rs.caseInd, t, c, na, mg)
		if base.ok && r.ok && (math.Float64bits(r.tm) != math.Float64bits(base.tm) || math.Float64bits(r.dH) != math.Float64bits(base.dH) || math.Float64bits(r.dS) != math.Float64bits(base.dS)) {
			rs.caseInd.Fail("case-changes-result", c19In(t, c, na, mg), "(Tm, dH, dS) = ("+c19F(r.tm)+", "+c19F(r.dH)+", "+c19F(r.dS)+"), upper case gives ("+c19F(base.tm)+", "+c19F(base.dH)+", "+c19F(base.dS)+")")
		}
		var mt, md, mtU, mdU float64
		in := strconv.Quote(t)
		if rs.caseInd.Guard("panic", in, func() { mt, md, mtU, mdU = MeltingTemp(t), MarmurDoty(t), MeltingTemp(s), MarmurDoty(s) }) {
			if math.Float64bits(mt) != math.Float64bits(mtU) {
				rs.caseInd.FailClause("primers.MeltingTemp/post/case-independent", "case-changes-result", in, "MeltingTemp = "+c19F(mt)+", upper case gives "+c19F(mtU))
			}
			if math.Float64bits(md) != math.Float64bits(mdU) {
				rs.caseInd.FailClause("primers.MarmurDoty/post/case-independent", "case-changes-result", in, "MarmurDoty = "+c19F(md)+", upper case gives "+c19F(mdU))
			}
		}
	}
	// defaults
	t := s
	if len(patterns) > 0 {
		t = c19ApplyCase(s, patterns[len(patterns)-1])
	}
	rs.defaults.Case(t, true)
	var mt float64
	if rs.defaults.Guard("panic", "MeltingTemp("+strconv.Quote(t)+")", func() { mt = MeltingTemp(t) }) {
		r := c19Call(rs.defaults, t, 500e-9, 50e-3, 0)
		if r.ok && math.Float64bits(r.tm) != math.Float64bits(mt) {
			rs.defaults.Fail("differs-from-general-function", "MeltingTemp("+strconv.Quote(t)+")", c19F(mt)+", SantaLucia at 500 nM, 50 mM, 0 gives "+c19F(r.tm))
		}
		want, _, _, _ := c19Oracle(t, 500e-9, 50e-3, 0)
		if !c19Close(mt, want, 273.15) {
			rs.defaults.Fail("differs-from-formula-at-defaults", "MeltingTemp("+strconv.Quote(t)+")", c19F(mt)+", the formula at 500 nM, 50 mM, 0 gives "+c19F(want))
		}
	}
	// Marmur-Doty
	rs.marmur.Case(t, true)
	var md float64
	if rs.marmur.Guard("panic", "MarmurDoty("+strconv.Quote(t)+")", func() { md = MarmurDoty(t) }) {
		if want := c19MarmurWant(t); md != want {
			rs.marmur.Fail("wrong-estimate", "MarmurDoty("+strconv.Quote(t)+")", c19F(md)+", 2(A+T)+4(G+C)-7 = "+c19F(want))
		}
	}
}

func c19LogUniform(rng interface{ Float64() float64 }, lo, hi float64) float64 {
	return math.Exp(math.Log(lo) + rng.Float64()*(math.Log(hi)-math.Log(lo)))
}

func TestVerifC19(t *testing.T) {
	it := strconv.Itoa
	maxLen, nRand := 7, 3000
	if verifThorough() {
		maxLen, nRand = 8, 60000
	}
	nGrid := len(c19GridC) * len(c19GridNa) * len(c19GridMg)
	domSeq := "exhaustive: every A/C/G/T sequence of length 2.." + it(maxLen)
	domGrid := "grid: oligo {1 nM, 10 nM, 100 nM, 500 nM, 1 uM, 10 uM, 100 uM, 1 mM} x sodium {1, 10, 50, 100, 500 mM, 1 M} x magnesium {0, 0.1, 1, 10, 100 mM} = " + it(nGrid) + " points"
	domRand := "seeded random: " + it(nRand) + " sequences of length 2..200 in random case with oligo 1 nM..1 mM and sodium 1 mM..1 M log-uniform, magnesium 0 (one case in four), log-uniform 1 uM..100 mM or uniform 0..100 mM"
	rs := &c19Runs{
		formula: newVerifRun("C19", "primers.SantaLucia/post/formula", domSeq+" at every grid point; "+domGrid+"; "+domRand+
			"; oracle = float64 evaluation of the statement's formula with the cited parameter set, terminal A/T term for the 3' letter only (the property does not name the end; the code's reading is taken), self-complementary = equal to own reverse complement; tolerance 1e-9 relative (Tm relative to the absolute temperature); one case = one sequence at all its points; non-trivial = every case"),
		caseInd: newVerifRun("C19", "primers.SantaLucia/post/case-independent", domSeq+" in lower case, alternating case and one more pattern at 500 nM / 50 mM / 0 and at 1 uM / 100 mM / 10 mM; "+domRand+"; results compared bit for bit with the upper-case spelling (also MeltingTemp and MarmurDoty); non-trivial = every case"),
		dHInd:   newVerifRun("C19", "primers.SantaLucia/post/dH-independent-of-concentrations", domSeq+" over the whole grid; "+domGrid+"; "+domRand+" at 6 random conditions each; dH compared bit for bit; non-trivial = every case"),
		mono: newVerifRun("C19", "primers.SantaLucia/post/monotone", domSeq+"; "+domGrid+", every pair of neighbouring grid points along each of the three axes with the other two held; "+domRand+
			", each with one random increase (factor >= 1.001 in the concentration, for magnesium in sodium + 140 x magnesium) along each axis; demanded only where both points have dH < 0 and dS + R ln(C/f) < 0; non-trivial = all points of the case lie in that regime"),
		defaults: newVerifRun("C19", "primers.MeltingTemp/post/defaults", domSeq+" (upper case and mixed case); "+domRand+"; MeltingTemp compared bit for bit with SantaLucia(seq, 500e-9, 50e-3, 0) and within 1e-9 with the oracle formula at those conditions; non-trivial = every case"),
		marmur:   newVerifRun("C19", "primers.MarmurDoty/post/formula", domSeq+" (upper case and mixed case); "+domRand+"; exact comparison with 2(A+T)+4(G+C)-7; non-trivial = every case"),
	}

	// ---- table ----
	v := newVerifRun("C19", "primers.nearestNeighborsThermodynamics/table/strand-symmetry",
		"exhaustive: the 16 ordered pairs over A/C/G/T read from the package's table; each must be present and carry the same (dH, dS) as its reverse-complement pair; non-trivial = the pair is not its own reverse complement (12 pairs)")
	for _, a := range "ACGT" {
		for _, b := range "ACGT" {
			p := string(a) + string(b)
			q := c19RC(p)
			v.Case(p, p != q)
			x, okx := nearestNeighborsThermodynamics[p]
			y, oky := nearestNeighborsThermodynamics[q]
			if !okx {
				v.Fail("pair-missing", p, "no entry")
				continue
			}
			if oky && (x.H != y.H || x.S != y.S) {
				v.Fail("strand-asymmetric", p+" / "+q, "("+c19F(x.H)+", "+c19F(x.S)+") vs ("+c19F(y.H)+", "+c19F(y.S)+")")
			}
		}
	}
	if len(nearestNeighborsThermodynamics) != 16 {
		v.Fail("extra-entries", "table", it(len(nearestNeighborsThermodynamics))+" entries")
	}
	v.Done()

	// ---- exhaustive sequences ----
	seqs := c19Seqs(2, maxLen)
	c19Par(len(seqs), func(i int) {
		s := seqs[i]
		rs.grid(s)
		pats := []uint64{^uint64(0), 0xAAAAAAAAAAAAAAAA, uint64(i)*0x9E3779B97F4A7C15 | 1}
		rs.perSequence(s, pats, 500e-9, 50e-3, 0)
		rs.perSequence(s, pats[2:], 1e-6, 0.1, 0.01)
	})

	// ---- random ----
	rng := verifRand()
	type rcase struct {
		s            string
		pat          uint64
		conds        [6][3]float64
		c2, na2, mg2 float64
	}
	cases := make([]rcase, nRand)
	drawMg := func(k int) float64 {
		switch k % 4 {
		case 0:
			return 0
		case 1:
			return rng.Float64() * 0.1
		}
		return c19LogUniform(rng, 1e-6, 0.1)
	}
	for i := range cases {
		n := 2 + rng.Intn(199)
		if i%3 == 0 {
			n = 2 + rng.Intn(30)
		}
		b := make([]byte, n)
		for j := range b {
			b[j] = "ACGT"[rng.Intn(4)]
		}
		if i%5 == 0 { // make it self-complementary
			h := string(b[:n/2])
			b = []byte(h + c19RC(h))
			if len(b) < 2 {
				b = []byte("AT")
			}
		}
		c := &cases[i]
		c.s = string(b)
		c.pat = uint64(rng.Int63())<<1 | uint64(rng.Intn(2))
		for k := range c.conds {
			c.conds[k] = [3]float64{c19LogUniform(rng, 1e-9, 1e-3), c19LogUniform(rng, 1e-3, 1), drawMg(i + k)}
		}
		c0 := c.conds[0]
		c.c2 = math.Min(1e-3, c0[0]*(1.001+rng.Float64()*math.Pow(10, float64(rng.Intn(4)))))
		c.na2 = math.Min(1, c0[1]*(1.001+rng.Float64()*math.Pow(10, float64(rng.Intn(3)))))
		c.mg2 = math.Min(0.1, c0[2]+(c0[1]+140*c0[2])*(0.001+rng.Float64()*math.Pow(10, float64(rng.Intn(3))))/140)
	}
	c19Par(len(cases), func(i int) {
		c := cases[i]
		mixed := c19ApplyCase(c.s, c.pat)
		f := c19Symmetry(c.s)
		// formula, dH
		rs.formula.Case(mixed, true)
		rs.dHInd.Case(mixed, true)
		var first c19Res
		for k, cd := range c.conds {
			r := c19Call(rs.formula, mixed, cd[0], cd[1], cd[2])
			if !r.ok {
				continue
			}
			c19CheckFormula(rs.formula, mixed, cd[0], cd[1], cd[2], r)
			if k == 0 {
				first = r
			} else if first.ok && math.Float64bits(r.dH) != math.Float64bits(first.dH) {
				rs.dHInd.Fail("dH-depends-on-concentration", c19In(mixed, cd[0], cd[1], cd[2]), "dH = "+c19F(r.dH)+" but "+c19F(first.dH)+" at "+c19In(mixed, c.conds[0][0], c.conds[0][1], c.conds[0][2]))
			}
		}
		// monotone
		c0 := c.conds[0]
		inRegime := true
		try := func(axis string, c2, na2, mg2 float64) {
			if c2 == c0[0] && na2 == c0[1] && mg2 == c0[2] {
				return // already at the upper end of the range
			}
			b := c19Call(rs.mono, mixed, c2, na2, mg2)
			if !first.ok || !b.ok {
				return
			}
			if !c19Regime(first, c0[0], f) || !c19Regime(b, c2, f) {
				inRegime = false
				return
			}
			if !(b.tm > first.tm) {
				rs.mono.Fail("Tm-not-increasing-in-"+axis, c19In(mixed, c0[0], c0[1], c0[2])+" -> "+c19In(mixed, c2, na2, mg2), "Tm "+c19F(first.tm)+" -> "+c19F(b.tm))
			}
		}
		if c.c2 >= c0[0]*1.001 {
			try("oligo", c.c2, c0[1], c0[2])
		}
		if c.na2 >= c0[1]*1.001 {
			try("sodium", c0[0], c.na2, c0[2])
		}
		if (c0[1] + 140*c.mg2) >= (c0[1]+140*c0[2])*1.001 {
			try("magnesium", c0[0], c0[1], c.mg2)
		}
		rs.mono.Case(mixed, inRegime)
		// case, defaults, Marmur-Doty
		rs.perSequence(c.s, []uint64{^uint64(0), c.pat}, c0[0], c0[1], c0[2])
	})
	for _, v := range []*verifRun{rs.formula, rs.caseInd, rs.dHInd, rs.mono, rs.defaults, rs.marmur} {
		v.Sampled()
		v.Done()
	}
}
