package seqhash

// Bounded back end for C04: seqhash invariances executed on the real
// seqhash.Hash. Four clauses:
//
//   seqhash.Hash/post/rotation-invariant  every rotation, hashed as circular, gives the identical seqhash
//   seqhash.Hash/post/strand-invariant    the reverse complement, hashed as double-stranded, gives the identical seqhash
//   seqhash.Hash/post/case-invariant      changing letter case gives the identical seqhash
//   seqhash.Hash/post/rna-dna             RNA spelling vs DNA spelling (U->T) differ only in the molecule-type letter
//
// The reverse complement used here is written from the NC-IUB (1984) code
// definitions (base sets), not from the table in package transform.

import (
	"runtime"
	"strconv"
	"strings"
	"sync"
	"testing"
)

// NC-IUB base sets: bit 1 = A, 2 = C, 4 = G, 8 = T.
var c04Mask = map[byte]int{
	'A': 1, 'C': 2, 'G': 4, 'T': 8,
	'R': 1 | 4,     // puRine: A or G
	'Y': 2 | 8,     // pYrimidine: C or T
	'S': 2 | 4,     // Strong: C or G
	'W': 1 | 8,     // Weak: A or T
	'K': 4 | 8,     // Keto: G or T
	'M': 1 | 2,     // aMino: A or C
	'B': 2 | 4 | 8, // not A
	'D': 1 | 4 | 8, // not C
	'H': 1 | 2 | 8, // not G
	'V': 1 | 2 | 4, // not T
	'N': 15,
}

var c04Code = func() map[int]byte {
	m := map[int]byte{}
	for c, k := range c04Mask {
		m[k] = c
	}
	return m
}()

// c04CompByte: the code for the set of bases pairing with the set of c
// (A<->T, C<->G). U (RNA) pairs with A; under rna the partner of A is spelled U.
// Case is kept. ok=false for a letter that is no nucleotide code.
func c04CompByte(c byte, rna bool) (byte, bool) {
	lower := c >= 'a' && c <= 'z'
	u := c
	if lower {
		u = c - 32
	}
	var r byte
	if u == 'U' {
		r = 'A'
	} else {
		m, ok := c04Mask[u]
		if !ok {
			return 0, false
		}
		sw := 0
		if m&1 != 0 {
			sw |= 8
		}
		if m&8 != 0 {
			sw |= 1
		}
		if m&2 != 0 {
			sw |= 4
		}
		if m&4 != 0 {
			sw |= 2
		}
		r = c04Code[sw]
		if rna && r == 'T' {
			r = 'U'
		}
	}
	if lower {
		r += 32
	}
	return r, true
}

func c04RC(s string, rna bool) string {
	n := len(s)
	out := make([]byte, n)
	for i := 0; i < n; i++ {
		c, ok := c04CompByte(s[i], rna)
		if !ok {
			panic("c04RC: not a nucleotide code: " + s)
		}
		out[n-1-i] = c
	}
	return string(out)
}

func c04Itoa(i int) string { return strconv.Itoa(i) }

func c04Clip(s string) string {
	if len(s) > 80 {
		return s[:80] + "...(" + c04Itoa(len(s)) + " letters)"
	}
	return s
}

// c04Par runs f(i) for i in [0,total) on all cores.
func c04Par(total int, f func(i int)) {
	workers := runtime.NumCPU()
	if workers > total {
		workers = total
	}
	if workers < 1 {
		workers = 1
	}
	var wg sync.WaitGroup
	const chunk = 512
	var mu sync.Mutex
	next := 0
	for w := 0; w < workers; w++ {
		wg.Add(1)
		go func() {
			defer wg.Done()
			for {
				mu.Lock()
				lo := next
				next += chunk
				mu.Unlock()
				if lo >= total {
					return
				}
				hi := lo + chunk
				if hi > total {
					hi = total
				}
				for i := lo; i < hi; i++ {
					f(i)
				}
			}
		}()
	}
	wg.Wait()
}

// c04All calls f on every string over alpha of length 0..maxLen, in parallel.
func c04All(alpha string, maxLen int, f func(s string)) {
	for n := 0; n <= maxLen; n++ {
		total := 1
		for i := 0; i < n; i++ {
			total *= len(alpha)
		}
		n := n
		c04Par(total, func(idx int) {
			buf := make([]byte, n)
			for p := n - 1; p >= 0; p-- {
				buf[p] = alpha[idx%len(alpha)]
				idx /= len(alpha)
			}
			f(string(buf))
		})
	}
}

func c04FlagStr(typ string, circ, ds bool) string {
	return typ + "," + strconv.FormatBool(circ) + "," + strconv.FormatBool(ds)
}

// c04Hash calls the real Hash; a panic or an error on an in-domain input is a failure.
func c04Hash(v *verifRun, s, typ string, circ, ds bool) (h string, ok bool) {
	var err error
	in := "Hash(" + strconv.Quote(c04Clip(s)) + "," + c04FlagStr(typ, circ, ds) + ")"
	if !v.Guard("panic", in, func() { h, err = Hash(s, typ, circ, ds) }) {
		return "", false
	}
	if err != nil {
		v.Fail("accepted-alphabet-rejected", in, "error: "+err.Error())
		return "", false
	}
	return h, true
}

// c04Accepts reports whether the function accepts the input at all (used only
// for letters beyond the 15 IUPAC codes, where acceptance is not demanded).
func c04Accepts(s, typ string, circ, ds bool) (ok bool) {
	defer func() {
		if recover() != nil {
			ok = true // let the caller run into the panic under Guard
		}
	}()
	_, err := Hash(s, typ, circ, ds)
	return err == nil
}

func c04Uniform(s string) bool {
	for i := 1; i < len(s); i++ {
		if s[i] != s[0] {
			return false
		}
	}
	return true
}

// rotation clause for one sequence under one type/strandedness: all offsets.
func c04Rotation(v *verifRun, s, typ string, ds bool, offsets []int) {
	v.Case(typ+","+strconv.FormatBool(ds)+":"+c04Clip(s), len(s) >= 2 && !c04Uniform(s))
	h0, ok := c04Hash(v, s, typ, true, ds)
	if !ok {
		return
	}
	check := func(k int) {
		r := s[k:] + s[:k]
		h, ok := c04Hash(v, r, typ, true, ds)
		if ok && h != h0 {
			v.Fail("rotation-changes-hash", "Hash("+strconv.Quote(c04Clip(s))+","+c04FlagStr(typ, true, ds)+") vs rotation by "+c04Itoa(k)+" "+strconv.Quote(c04Clip(r)), h0+" != "+h)
		}
	}
	if offsets != nil {
		for _, k := range offsets {
			check(k)
		}
		return
	}
	for k := 1; k < len(s); k++ {
		check(k)
	}
}

// strand clause for one sequence under one type: both topologies.
func c04Strand(v *verifRun, s, typ string) {
	rna := typ == "RNA"
	rcs := []string{c04RC(s, rna)}
	if rna {
		// the other strand may equally be written with T
		rcs = append(rcs, c04RC(s, false))
	}
	for _, circ := range []bool{false, true} {
		v.Case(typ+","+strconv.FormatBool(circ)+":"+c04Clip(s), rcs[0] != s)
		h0, ok := c04Hash(v, s, typ, circ, true)
		if !ok {
			continue
		}
		for _, rc := range rcs {
			h, ok := c04Hash(v, rc, typ, circ, true)
			if ok && h != h0 {
				v.Fail("reverse-complement-changes-hash", "Hash("+strconv.Quote(c04Clip(s))+","+c04FlagStr(typ, circ, true)+") vs reverse complement "+strconv.Quote(c04Clip(rc)), h0+" != "+h)
			}
		}
	}
}

func c04ApplyCase(s string, pattern uint64) string {
	b := []byte(s)
	for i := range b {
		if pattern>>(uint(i)%64)&1 == 1 && b[i] >= 'A' && b[i] <= 'Z' {
			b[i] += 32
		}
	}
	return string(b)
}

func c04HasLetter(s string) bool {
	for i := 0; i < len(s); i++ {
		if s[i] >= 'A' && s[i] <= 'Z' {
			return true
		}
	}
	return false
}

// case clause: s is upper case; patterns = which positions are lowered.
func c04Case(v *verifRun, s, typ string, allPatterns bool, extra uint64) {
	for _, circ := range []bool{false, true} {
		for _, ds := range []bool{false, true} {
			if typ == "PROTEIN" && ds {
				continue
			}
			v.Case(c04FlagStr(typ, circ, ds)+":"+c04Clip(s), c04HasLetter(s))
			h0, ok := c04Hash(v, s, typ, circ, ds)
			if !ok {
				continue
			}
			try := func(p uint64) {
				t := c04ApplyCase(s, p)
				h, ok := c04Hash(v, t, typ, circ, ds)
				if ok && h != h0 {
					v.Fail("case-changes-hash", "Hash("+strconv.Quote(c04Clip(s))+","+c04FlagStr(typ, circ, ds)+") vs "+strconv.Quote(c04Clip(t)), h0+" != "+h)
				}
			}
			if allPatterns {
				for p := uint64(1); p < uint64(1)<<uint(len(s)); p++ {
					try(p)
				}
			} else {
				try(^uint64(0))                // all lower
				try(0xAAAAAAAAAAAAAAAA)        // alternating
				try(extra | 1<<uint(len(s)%7)) // one more pattern
			}
		}
	}
}

// rna-dna clause: s is an RNA spelling (may contain U/u).
func c04RnaDna(v *verifRun, s string) {
	d := strings.NewReplacer("U", "T", "u", "t").Replace(s)
	for _, circ := range []bool{false, true} {
		for _, ds := range []bool{false, true} {
			v.Case(strconv.FormatBool(circ)+","+strconv.FormatBool(ds)+":"+c04Clip(s), strings.ContainsAny(s, "Uu"))
			hr, ok1 := c04Hash(v, s, "RNA", circ, ds)
			hd, ok2 := c04Hash(v, d, "DNA", circ, ds)
			if !ok1 || !ok2 {
				continue
			}
			good := len(hr) == len(hd) && len(hr) > 4 && hr[3] == 'R' && hd[3] == 'D' && hr[:3] == hd[:3] && hr[4:] == hd[4:]
			if !good {
				v.Fail("rna-dna-differ-elsewhere", "Hash("+strconv.Quote(c04Clip(s))+",RNA,"+strconv.FormatBool(circ)+","+strconv.FormatBool(ds)+") vs Hash("+strconv.Quote(c04Clip(d))+",DNA,...)", hr+" vs "+hd)
			}
		}
	}
}

func c04Random(rng interface{ Intn(int) int }, alpha string, n int) string {
	b := make([]byte, n)
	for i := range b {
		b[i] = alpha[rng.Intn(len(alpha))]
	}
	return string(b)
}

func TestVerifC04(t *testing.T) {
	const iupac15 = "ACGTRYSWKMBDHVN"
	const iupac16 = iupac15 + "U"
	const accepted17 = "ATUGCYRSWKMBDHVNZ"         // the letters the seqhash description allows for DNA/RNA
	const protein26 = "ACDEFGHIKLMNPQRSTVWYUO*BXZ" // and for proteins
	l4, l15, lAcc, lProt, lCaseAll := 7, 3, 2, 2, 5
	nRand, maxRand := 6, 100000
	if verifThorough() {
		l4, l15, lAcc, lProt, lCaseAll = 9, 4, 3, 3, 7
		nRand = 40
	}
	rng := verifRand()
	type rnd struct {
		s    string
		offs []int
	}
	var rands []rnd
	for i := 0; i < nRand; i++ {
		n := 2 + rng.Intn(maxRand-1)
		if i == 0 {
			n = maxRand
		}
		if i == 1 {
			n = maxRand - 1 // an odd length at the upper end
		}
		if i == 4 {
			n = 1<<16 + 1 // just past a power-of-two size, odd
		}
		if i%3 == 2 {
			n = 2 + rng.Intn(300)
		}
		alpha := "ACGT"
		if i%2 == 1 {
			alpha = iupac15
		}
		r := rnd{s: c04Random(rng, alpha, n)}
		r.offs = []int{1, n - 1, rng.Intn(n), rng.Intn(n)}
		rands = append(rands, r)
	}
	toRNA := func(s string) string { return strings.ReplaceAll(s, "T", "U") }
	dom := func(extra string) string {
		return "exhaustive: ACGT (DNA) and ACGU (RNA) to length " + c04Itoa(l4) + ", the 15 IUPAC codes (DNA) and the 15 codes + U (RNA) to length " + c04Itoa(l15) + extra +
			"; seeded random: " + c04Itoa(nRand) + " sequences over ACGT / the 15 codes, lengths 2.." + c04Itoa(maxRand) + " (one each of exactly " + c04Itoa(maxRand) + ", " + c04Itoa(maxRand-1) + " and 65537)"
	}

	// ---- rotation ----
	v := newVerifRun("C04", "seqhash.Hash/post/rotation-invariant",
		dom(", all strings over the 17 letters ATUGCYRSWKMBDHVNZ that the function accepts as DNA/RNA to length "+c04Itoa(lAcc)+" and the 26 protein letters to length "+c04Itoa(lProt)+" (proteins single-stranded only)")+
			"; every rotation offset 1..n-1 in the exhaustive part, offsets 1, n-1 and two random ones in the random part; circular, single- and double-stranded; one case = one (sequence, type, strandedness) with all its offsets; non-trivial = length >= 2 and not a single repeated letter")
	for _, ds := range []bool{false, true} {
		ds := ds
		c04All("ACGT", l4, func(s string) { c04Rotation(v, s, "DNA", ds, nil) })
		c04All("ACGU", l4, func(s string) { c04Rotation(v, s, "RNA", ds, nil) })
		c04All(iupac15, l15, func(s string) { c04Rotation(v, s, "DNA", ds, nil) })
		c04All(iupac16, l15, func(s string) { c04Rotation(v, s, "RNA", ds, nil) })
		c04All(accepted17, lAcc, func(s string) {
			for _, typ := range []string{"DNA", "RNA"} {
				if c04Accepts(s, typ, true, ds) { // beyond the 15 codes: only what the function accepts
					c04Rotation(v, s, typ, ds, nil)
				}
			}
		})
		c04Par(len(rands), func(i int) {
			c04Rotation(v, rands[i].s, "DNA", ds, rands[i].offs)
			c04Rotation(v, toRNA(rands[i].s), "RNA", ds, rands[i].offs)
		})
	}
	c04All(protein26, lProt, func(s string) { c04Rotation(v, s, "PROTEIN", false, nil) })
	v.Sampled() // the random part
	v.Done()

	// ---- strand ----
	v = newVerifRun("C04", "seqhash.Hash/post/strand-invariant",
		dom("")+"; double-stranded, linear and circular; reverse complement from the NC-IUB base sets (for RNA written both with U and with T); non-trivial = the reverse complement differs from the sequence")
	c04All("ACGT", l4, func(s string) { c04Strand(v, s, "DNA") })
	c04All("ACGU", l4, func(s string) { c04Strand(v, s, "RNA") })
	c04All(iupac15, l15, func(s string) { c04Strand(v, s, "DNA") })
	c04All(iupac16, l15, func(s string) { c04Strand(v, s, "RNA") })
	c04Par(len(rands), func(i int) {
		c04Strand(v, rands[i].s, "DNA")
		c04Strand(v, toRNA(rands[i].s), "RNA")
		// a rotation of the other strand of a circular molecule
		s := rands[i].s
		k := rands[i].offs[2]
		rc := c04RC(s, false)
		rc = rc[k:] + rc[:k]
		h0, ok1 := c04Hash(v, s, "DNA", true, true)
		h1, ok2 := c04Hash(v, rc, "DNA", true, true)
		v.Case("rotated-rc:"+c04Clip(s), true)
		if ok1 && ok2 && h0 != h1 {
			v.Fail("rotated-reverse-complement-changes-hash", "Hash("+strconv.Quote(c04Clip(s))+",DNA,true,true) vs rotated reverse complement (offset "+c04Itoa(k)+")", h0+" != "+h1)
		}
	})
	v.Sampled()
	v.Done()

	// ---- case ----
	v = newVerifRun("C04", "seqhash.Hash/post/case-invariant",
		dom(", all strings over the 17 letters ATUGCYRSWKMBDHVNZ that the function accepts as DNA/RNA to length "+c04Itoa(lAcc)+" and the 26 protein letters to length "+c04Itoa(lProt))+
			"; all four topology/strandedness combinations (proteins single-stranded); every one of the 2^n case patterns for ACGT/ACGU to length "+c04Itoa(lCaseAll)+" and for the other short alphabets, otherwise all-lower, alternating and one further pattern; non-trivial = the sequence has a letter")
	c04All("ACGT", l4, func(s string) { c04Case(v, s, "DNA", len(s) <= lCaseAll, uint64(len(s))*0x9E3779B97F4A7C15) })
	c04All("ACGU", l4, func(s string) { c04Case(v, s, "RNA", len(s) <= lCaseAll, uint64(len(s))*0x9E3779B97F4A7C15) })
	c04All(iupac15, l15, func(s string) { c04Case(v, s, "DNA", true, 0) })
	c04All(iupac16, l15, func(s string) { c04Case(v, s, "RNA", true, 0) })
	c04All(accepted17, lAcc, func(s string) {
		for _, typ := range []string{"DNA", "RNA"} {
			if c04Accepts(s, typ, false, false) { // beyond the 15 codes: only what the function accepts
				c04Case(v, s, typ, true, 0)
			}
		}
	})
	c04All(protein26, lProt, func(s string) { c04Case(v, s, "PROTEIN", true, 0) })
	seeds := make([]uint64, len(rands))
	for i := range seeds {
		seeds[i] = uint64(rng.Intn(1<<30))<<31 | uint64(rng.Intn(1<<30))
	}
	c04Par(len(rands), func(i int) {
		c04Case(v, rands[i].s, "DNA", false, seeds[i])
		c04Case(v, toRNA(rands[i].s), "RNA", false, seeds[i])
	})
	v.Sampled()
	v.Done()

	// ---- RNA vs DNA spelling ----
	v = newVerifRun("C04", "seqhash.Hash/post/rna-dna",
		"exhaustive: ACGU to length "+c04Itoa(l4)+", the 15 IUPAC codes + U to length "+c04Itoa(l15)+" (upper and lower case); seeded random: "+c04Itoa(nRand)+" sequences up to "+c04Itoa(maxRand)+" letters in random case; all four topology/strandedness combinations; DNA spelling = U->T, u->t; non-trivial = the RNA spelling contains U")
	c04All("ACGU", l4, func(s string) { c04RnaDna(v, s) })
	c04All(iupac16, l15, func(s string) {
		c04RnaDna(v, s)
		c04RnaDna(v, strings.ToLower(s))
	})
	c04Par(len(rands), func(i int) {
		c04RnaDna(v, c04ApplyCase(toRNA(rands[i].s), seeds[i]))
	})
	v.Sampled()
	v.Done()
}
