package seqhash

// Bounded back end for C12: the clause `boothLeastRotation/post/least`
// (isLeastRot(sequence, res)) and RotateSequence's postconditions executed on
// the real functions over the property's own exhaustive domains, against a
// brute-force minimum.

import (
	"strings"
	"testing"
)

func bruteLeast(s string) string {
	if len(s) == 0 {
		return s
	}
	d := s + s
	best := s
	for k := 1; k < len(s); k++ {
		if r := d[k : k+len(s)]; r < best {
			best = r
		}
	}
	return best
}

func c12Check(v *verifRun, s string) {
	periodic := len(s) > 1 && strings.Contains((s + s)[1:2*len(s)-1], s)
	v.Case(s, len(s) >= 2 && !periodic || len(s) >= 2)
	var k int
	if !v.Guard("panic", s, func() { k = boothLeastRotation(s) }) {
		return
	}
	n := len(s)
	if !(0 <= k && (k < n || (k == 0 && n == 0))) {
		v.Fail("index-out-of-range", s, "boothLeastRotation returned "+itoa(k)+" for length "+itoa(n))
		return
	}
	want := bruteLeast(s)
	if n > 0 {
		if got := (s + s)[k : k+n]; got != want {
			v.Fail("not-least", s, "rotation at "+itoa(k)+" is "+clip(got)+", least is "+clip(want))
		}
	}
	var r string
	if !v.Guard("rotate-panic", s, func() { r = RotateSequence(s) }) {
		return
	}
	if r != want {
		v.FailClause("seqhash.RotateSequence/post/least", "not-least", s, "RotateSequence gave "+clip(r)+", least rotation is "+clip(want))
	}
}

func itoa(i int) string {
	if i == 0 {
		return "0"
	}
	neg := i < 0
	if neg {
		i = -i
	}
	var b []byte
	for i > 0 {
		b = append([]byte{byte('0' + i%10)}, b...)
		i /= 10
	}
	if neg {
		return "-" + string(b)
	}
	return string(b)
}

func clip(s string) string {
	if len(s) > 60 {
		return s[:60] + "..."
	}
	return s
}

func enumStrings(alpha string, maxLen int, f func(string)) {
	buf := make([]byte, maxLen)
	var rec func(n, i int)
	rec = func(n, i int) {
		if i == n {
			f(string(buf[:n]))
			return
		}
		for j := 0; j < len(alpha); j++ {
			buf[i] = alpha[j]
			rec(n, i+1)
		}
	}
	for n := 0; n <= maxLen; n++ {
		rec(n, 0)
	}
}

func TestVerifC12(t *testing.T) {
	l2, l3, l4 := 14, 9, 7
	big := 100000
	if verifThorough() {
		l2, l3, l4, big = 20, 13, 11, 1000000
	}
	v := newVerifRun("C12", "seqhash.boothLeastRotation/post/least",
		"exhaustive: alphabet {a,b} to length "+itoa(l2)+", {a,b,c} to "+itoa(l3)+", {A,C,G,T} to "+itoa(l4)+
			"; plus powers, powers with one letter changed, Fibonacci words and seeded random strings up to "+itoa(big)+" characters and all 256 single bytes; non-trivial = length >= 2")
	enumStrings("ab", l2, func(s string) { c12Check(v, s) })
	enumStrings("abc", l3, func(s string) { c12Check(v, s) })
	enumStrings("ACGT", l4, func(s string) { c12Check(v, s) })
	for b := 0; b < 256; b++ {
		c12Check(v, string([]byte{byte(b)}))
		c12Check(v, string([]byte{byte(b), byte(255 - b), byte(b)}))
	}
	// periodic and near-periodic
	rng := verifRand()
	for _, unit := range []string{"a", "ab", "aab", "abaab", "ACGT", "GATTACA", "\x00\xff"} {
		for _, n := range []int{2, 3, 7, 50, 1000} {
			s := strings.Repeat(unit, n)
			if len(s) > big {
				continue
			}
			c12Check(v, s)
			for i := 0; i < 3; i++ {
				bs := []byte(s)
				bs[rng.Intn(len(bs))] ^= 1
				c12Check(v, string(bs))
			}
		}
	}
	fa, fb := "b", "a"
	for len(fb) < big {
		fa, fb = fb, fb+fa
		c12Check(v, fb)
	}
	for i := 0; i < 20; i++ {
		n := 1 + rng.Intn(big)
		bs := make([]byte, n)
		for j := range bs {
			bs[j] = "ACGT"[rng.Intn(4)]
		}
		c12Check(v, string(bs))
	}
	v.Done()
}
