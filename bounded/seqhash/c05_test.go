package seqhash

// Bounded back end for C05, executed on the real seqhash.Hash:
//
//   seqhash.Hash/post/separates  equal seqhash only for the same molecule
//   seqhash.Hash/post/v1-format  "v1_" + tag + "_" + hex(BLAKE3-256(canonical representative))
//   seqhash.Hash/post/rejects    unknown type, letter outside the alphabet, double-stranded protein -> error
//
// What "the same molecule" means here (written from the property, not from
// the code). An input is (sequence, type, circular, doubleStranded).
//   * letters are compared in upper case; under type RNA, U and T are the same
//     letter (C04: an RNA sequence and its DNA spelling share the digest);
//   * a single-stranded input denotes its strand, up to rotation if circular;
//   * a double-stranded input denotes the duplex made of the given strand and
//     its Watson-Crick partner strand, i.e. the unordered pair
//     {strand, partner(strand)}, both up to rotation if circular. partner() is
//     the reverse complement by the NC-IUB base sets; U pairs with A. Two
//     double-stranded inputs denote the same molecule iff these pairs are
//     equal. On the 15 IUPAC codes partner() is an involution and this is the
//     usual "equal up to strand". For DNA inputs that contain U (which the
//     code accepts) partner(partner(s)) != s, and the pair is still well
//     defined: the duplex of "ACGU" is {ACGU, ACGT} (it contains one dU:dA
//     pair), the duplex of "ACGT" is {ACGT, ACGT}. Those are different
//     molecules, and the code itself agrees that U and T are different letters
//     of DNA: the single-stranded seqhashes of "ACGU" and "ACGT" differ.
//   * Z has no partner base in the NC-IUB nomenclature. A double-stranded
//     input containing Z is identified by its given strand alone (no Z-free
//     strand can be its partner), and its "lesser strand" is undefined; for
//     such inputs the format clause only demands that the digest is that of
//     SOME sequence over the accepted letters of the same length.

import (
	"encoding/hex"
	"runtime"
	"strconv"
	"strings"
	"sync"
	"testing"

	"lukechampine.com/blake3"
)

// NC-IUB base sets: bit 1 = A, 2 = C, 4 = G, 8 = T.
var c05Mask = map[byte]int{
	'A': 1, 'C': 2, 'G': 4, 'T': 8,
	'R': 1 | 4, 'Y': 2 | 8, 'S': 2 | 4, 'W': 1 | 8, 'K': 4 | 8, 'M': 1 | 2,
	'B': 2 | 4 | 8, 'D': 1 | 4 | 8, 'H': 1 | 2 | 8, 'V': 1 | 2 | 4, 'N': 15,
}

var c05Code = func() map[int]byte {
	m := map[int]byte{}
	for c, k := range c05Mask {
		m[k] = c
	}
	return m
}()

// c05Partner: reverse complement of an upper-case nucleotide strand; ok=false
// if some letter has no partner (Z).
func c05Partner(s string) (string, bool) {
	n := len(s)
	out := make([]byte, n)
	for i := 0; i < n; i++ {
		var r byte
		if s[i] == 'U' {
			r = 'A'
		} else {
			m, ok := c05Mask[s[i]]
			if !ok {
				return "", false
			}
			sw := 0
			if m&1 != 0 {
				sw |= 8
			}
			if m&8 != 0 {
				sw |= 1
			}
			if m&2 != 0 {
				sw |= 4
			}
			if m&4 != 0 {
				sw |= 2
			}
			r = c05Code[sw]
		}
		out[n-1-i] = r
	}
	return string(out), true
}

func c05Upper(s string) string {
	b := []byte(s)
	for i := range b {
		if b[i] >= 'a' && b[i] <= 'z' {
			b[i] -= 32
		}
	}
	return string(b)
}

func c05LeastRot(s string) string {
	n := len(s)
	if n < 2 {
		return s
	}
	d := s + s
	best := s
	for k := 1; k < n; k++ {
		if r := d[k : k+n]; r < best {
			best = r
		}
	}
	return best
}

func c05Tag(typ string, circ, ds bool) string {
	t := typ[:1]
	if circ {
		t += "C"
	} else {
		t += "L"
	}
	if ds {
		t += "D"
	} else {
		t += "S"
	}
	return t
}

type c05In struct {
	s, typ   string
	circ, ds bool
}

func (in c05In) String() string {
	return "Hash(" + strconv.Quote(c05Clip(in.s)) + "," + in.typ + "," + strconv.FormatBool(in.circ) + "," + strconv.FormatBool(in.ds) + ")"
}

// c05Denote returns the identity of the molecule the input denotes and, where
// it is defined, the canonical representative whose digest the format demands.
func c05Denote(in c05In) (identity, canon string, canonDefined bool) {
	x := c05Upper(in.s)
	if in.typ == "RNA" {
		x = strings.ReplaceAll(x, "U", "T")
	}
	rep := func(y string) string {
		if in.circ {
			return c05LeastRot(y)
		}
		return y
	}
	tag := c05Tag(in.typ, in.circ, in.ds)
	a := rep(x)
	if !in.ds {
		return tag + "|" + a, a, true
	}
	p, ok := c05Partner(x)
	if !ok {
		return tag + "|" + a + "|partner undefined", "", false
	}
	b := rep(p)
	if b < a {
		a, b = b, a
	}
	return tag + "|" + a + "|" + b, a, true
}

func c05Clip(s string) string {
	if len(s) > 80 {
		return s[:80] + "...(" + strconv.Itoa(len(s)) + " letters)"
	}
	return s
}

func c05Par(total int, f func(i int)) {
	workers := runtime.NumCPU()
	if workers > total {
		workers = total
	}
	var wg sync.WaitGroup
	var mu sync.Mutex
	next := 0
	const chunk = 256
	for w := 0; w < workers; w++ {
		wg.Add(1)
		go func() {
			defer wg.Done()
			for {
				mu.Lock()
				lo := next
				next += chunk
				mu.Unlock()
				if lo >= total {
					return
				}
				hi := lo + chunk
				if hi > total {
					hi = total
				}
				for i := lo; i < hi; i++ {
					f(i)
				}
			}
		}()
	}
	wg.Wait()
}

// c05Strings lists every string over alpha of length exactly n.
func c05Strings(alpha string, n int) []string {
	total := 1
	for i := 0; i < n; i++ {
		total *= len(alpha)
	}
	out := make([]string, total)
	c05Par(total, func(idx int) {
		buf := make([]byte, n)
		j := idx
		for p := n - 1; p >= 0; p-- {
			buf[p] = alpha[j%len(alpha)]
			j /= len(alpha)
		}
		out[idx] = string(buf)
	})
	return out
}

type c05State struct {
	sep, fmtv *verifRun
	byHash    map[string]c05In  // seqhash -> first input that produced it
	idOf      map[string]string // seqhash -> identity of that input
	byMol     map[string]string // identity -> seqhash (only where the split direction is demanded)
	byMolIn   map[string]c05In
	shortSeqs map[[32]byte]bool // digests of all sequences over the accepted nucleotide letters, short lengths
	shortLen  int
}

type c05Res struct {
	h         string
	err       error
	panicked  string
	id, canon string
	canonOK   bool
}

func c05ClassOf(a, b c05In) string {
	for _, in := range []c05In{a, b} {
		if in.typ == "DNA" && strings.ContainsAny(in.s, "Uu") {
			return "u-accepted-as-dna"
		}
	}
	for _, in := range []c05In{a, b} {
		if in.typ != "PROTEIN" && strings.ContainsAny(in.s, "Zz") {
			return "z-has-no-complement"
		}
	}
	return "distinct-molecules-collide"
}

// c05Feed evaluates the inputs on the real code (in parallel) and then checks
// the separation and format clauses (sequentially, in input order, so the first
// witness of a class is the earliest = smallest input).
func (st *c05State) feed(ins []c05In, checkSplit bool, skipUnaccepted bool) {
	res := make([]c05Res, len(ins))
	c05Par(len(ins), func(i int) {
		r := &res[i]
		func() {
			defer func() {
				if p := recover(); p != nil {
					r.panicked = "panic: " + strconv.Quote(strings.TrimSpace(strings.SplitN(c05ToStr(p), "\n", 2)[0]))
				}
			}()
			r.h, r.err = Hash(ins[i].s, ins[i].typ, ins[i].circ, ins[i].ds)
		}()
		r.id, r.canon, r.canonOK = c05Denote(ins[i])
	})
	for i, in := range ins {
		r := res[i]
		if r.panicked != "" {
			st.sep.Fail("panic", in.String(), r.panicked)
			continue
		}
		if r.err != nil {
			if !skipUnaccepted {
				st.sep.FailClause("seqhash.Hash/post/rejects", "valid-input-rejected", in.String(), "error: "+r.err.Error())
			}
			continue
		}
		nontrivial := len(in.s) >= 2
		key := c05Tag(in.typ, in.circ, in.ds) + ":" + c05Clip(in.s)
		st.sep.Case(key, nontrivial)
		st.fmtv.Case(key, nontrivial)

		// ---- format ----
		tag := c05Tag(in.typ, in.circ, in.ds)
		h := r.h
		shape := len(h) == 3+3+1+64 && h[:3] == "v1_" && h[6] == '_' && h[3:6] == tag
		var digest [32]byte
		if shape {
			d, err := hex.DecodeString(h[7:])
			if err != nil || len(d) != 32 || strings.ToLower(h[7:]) != h[7:] {
				shape = false
			} else {
				copy(digest[:], d)
			}
		}
		if !shape {
			st.fmtv.Fail("malformed", in.String(), "got "+strconv.Quote(h)+", want v1_"+tag+"_<64 lower-case hex digits>")
		} else if r.canonOK {
			want := blake3.Sum256([]byte(r.canon))
			if want != digest {
				st.fmtv.Fail(c05FormatClass(in), in.String(), "got "+h+", want digest "+hex.EncodeToString(want[:])+" = BLAKE3-256("+strconv.Quote(c05Clip(r.canon))+")")
			}
		} else if len(in.s) <= st.shortLen {
			// Z, double-stranded: no partner strand is defined; the digest must
			// at least be that of a sequence over the accepted letters.
			if !st.shortSeqs[digest] {
				st.fmtv.Fail("z-has-no-complement", in.String(), "got "+h+": the digest is not that of any sequence of "+strconv.Itoa(len(in.s))+" letters over ATUGCYRSWKMBDHVNZ, so what was hashed is not a strand of the molecule (Z has no complementary code; the code maps it to the NUL character)")
			}
		}

		// ---- separation ----
		if prev, ok := st.byHash[h]; ok {
			if pid := st.idOf[h]; pid != r.id {
				detail := "both give " + h + "; molecules: " + c05Clip(pid) + " vs " + c05Clip(r.id)
				class := c05ClassOf(prev, in)
				if class == "u-accepted-as-dna" {
					// is U merely a spelling of T for DNA? ask the code itself
					h1, e1 := Hash(prev.s, prev.typ, prev.circ, false)
					h2, e2 := Hash(in.s, in.typ, in.circ, false)
					if e1 == nil && e2 == nil && h1 != h2 {
						detail += "; the same two sequences hashed single-stranded get different seqhashes, so the code does not treat them as one sequence"
					}
				}
				st.sep.Fail(class, prev.String()+" vs "+in.String(), detail)
			}
		} else {
			st.byHash[h] = in
			st.idOf[h] = r.id
		}
		if checkSplit {
			if ph, ok := st.byMol[r.id]; ok {
				if ph != h {
					st.sep.Fail("same-molecule-split", st.byMolIn[r.id].String()+" vs "+in.String(), ph+" != "+h+" for molecule "+c05Clip(r.id))
				}
			} else {
				st.byMol[r.id] = h
				st.byMolIn[r.id] = in
			}
		}
	}
}

func c05FormatClass(in c05In) string {
	if in.typ == "DNA" && strings.ContainsAny(in.s, "Uu") {
		return "u-accepted-as-dna"
	}
	return "wrong-digest"
}

func c05ToStr(p interface{}) string {
	switch x := p.(type) {
	case error:
		return x.Error()
	case string:
		return x
	}
	return "non-string panic value"
}

func c05RandCase(rng interface{ Intn(int) int }, s string) string {
	b := []byte(s)
	for i := range b {
		if b[i] >= 'A' && b[i] <= 'Z' && rng.Intn(2) == 0 {
			b[i] += 32
		}
	}
	return string(b)
}

// Long inputs for the rejection clause.
var c05LongLens = []int{65537, 70000, 98303, 100001}

func c05LongLensText() string {
	var parts []string
	for _, n := range c05LongLens {
		parts = append(parts, strconv.Itoa(n))
	}
	return strings.Join(parts, ", ")
}

// c05LongBody: a fixed pseudo-random string of n letters over alpha (a plain
// linear congruential generator, so the domain is the same on every run).
func c05LongBody(alpha string, n int, seed uint32) string {
	b := make([]byte, n)
	x := seed*2654435761 + 12345
	for i := range b {
		x = x*1664525 + 1013904223
		b[i] = alpha[int(x>>16)%len(alpha)]
	}
	return string(b)
}

func c05LongPositions(n int) []int {
	tail := (n - 1) / 32768 * 32768 // last multiple of 32768 below n
	cand := []int{0, 1, 4095, 4096, 32767, 32768, 65535, 65536, n / 2, tail - 1, tail, tail + 1, n - 2, n - 1}
	seen := map[int]bool{}
	var out []int
	for _, p := range cand {
		if p >= 0 && p < n && !seen[p] {
			seen[p] = true
			out = append(out, p)
		}
	}
	return out
}

func TestVerifC05(t *testing.T) {
	const accepted17 = "ATUGCYRSWKMBDHVNZ"         // letters the seqhash description allows for DNA/RNA
	const protein26 = "ACDEFGHIKLMNPQRSTVWYUO*BXZ" // and for proteins
	const iupac15 = "ACGTRYSWKMBDHVN"
	lDNA, lAcc, lProt := 7, 3, 3
	nRand, maxRand, nPeriodic := 12, 100000, 20
	if verifThorough() {
		lDNA, lAcc = 9, 4
		nRand, nPeriodic = 60, 200
	}
	// sanity of the digest library (assumed contract, sampled): BLAKE3 of the empty input
	if e := blake3.Sum256(nil); hex.EncodeToString(e[:]) != "af1349b9f5f9a1a6a0404dea36dcc9499bcb25c9adc112b7cc9a93cae41f3262" {
		t.Fatalf("harness: blake3 library does not reproduce the published digest of the empty input")
	}
	combos := [][2]bool{{false, false}, {false, true}, {true, false}, {true, true}}
	it := strconv.Itoa

	st := &c05State{
		byHash: map[string]c05In{}, idOf: map[string]string{}, byMol: map[string]string{}, byMolIn: map[string]c05In{},
		shortSeqs: map[[32]byte]bool{}, shortLen: lAcc,
	}
	for n := 0; n <= lAcc; n++ {
		for _, s := range c05Strings(accepted17, n) {
			st.shortSeqs[blake3.Sum256([]byte(s))] = true
		}
	}
	domCommon := "(a) exhaustive: all 4^n DNA strings over ACGT, n = 0.." + it(lDNA) + ", under each of the four topology/strandedness combinations; " +
		"(b) exhaustive: every string over the 17 letters the seqhash description allows for nucleic acids (ATUGCYRSWKMBDHVNZ) to length " + it(lAcc) + " as DNA and as RNA under the four combinations, keeping the inputs the code accepts; " +
		"(c) exhaustive: every string over the 26 protein letters to length " + it(lProt) + ", single-stranded, linear and circular; " +
		"(d) seeded random: " + it(nRand) + " sequences over ACGT / the 15 IUPAC codes of up to " + it(maxRand) + " letters and " + it(nPeriodic) + " periodic or nearly periodic ones of up to 3000 letters, DNA and RNA, random case, four combinations; " +
		"all inputs of all parts share one table keyed by seqhash; non-trivial = length >= 2"
	st.sep = newVerifRun("C05", "seqhash.Hash/post/separates",
		domCommon+". Demanded: equal seqhash => same molecule (type, topology, strandedness, strand up to rotation if circular; double-stranded: the unordered pair {strand, NC-IUB reverse complement} equal); for part (a) also the converse, so that the partition by seqhash coincides with the brute-force orbit partition")
	st.fmtv = newVerifRun("C05", "seqhash.Hash/post/v1-format",
		domCommon+". Demanded: value = 'v1_' + D/R/P + C/L + D/S + '_' + 64 lower-case hex digits = BLAKE3-256 of the canonical representative (upper case, RNA in DNA spelling, least rotation by brute force if circular, lesser of the strand and its NC-IUB reverse complement if double-stranded); for double-stranded inputs containing Z (no complement defined) only that the digest is that of some sequence over the 17 letters")

	// (a)
	for _, cd := range combos {
		for n := 0; n <= lDNA; n++ {
			ss := c05Strings("ACGT", n)
			ins := make([]c05In, len(ss))
			for i, s := range ss {
				ins[i] = c05In{s, "DNA", cd[0], cd[1]}
			}
			st.feed(ins, true, false)
		}
	}
	st.byMol, st.byMolIn = nil, nil
	// (b) the probe over everything the code accepts for nucleic acids
	for _, typ := range []string{"DNA", "RNA"} {
		for _, cd := range combos {
			for n := 0; n <= lAcc; n++ {
				ss := c05Strings(accepted17, n)
				ins := make([]c05In, len(ss))
				for i, s := range ss {
					ins[i] = c05In{s, typ, cd[0], cd[1]}
				}
				st.feed(ins, false, true)
			}
		}
	}
	// (c)
	for _, circ := range []bool{false, true} {
		for n := 0; n <= lProt; n++ {
			ss := c05Strings(protein26, n)
			ins := make([]c05In, len(ss))
			for i, s := range ss {
				ins[i] = c05In{s, "PROTEIN", circ, false}
			}
			st.feed(ins, false, false)
		}
	}
	// (d)
	rng := verifRand()
	var ins []c05In
	add := func(s string) {
		for _, cd := range combos {
			ins = append(ins, c05In{c05RandCase(rng, s), "DNA", cd[0], cd[1]})
			ins = append(ins, c05In{c05RandCase(rng, strings.ReplaceAll(s, "T", "U")), "RNA", cd[0], cd[1]})
		}
	}
	for i := 0; i < nRand; i++ {
		n := 10 + rng.Intn(maxRand-9)
		if i == 0 {
			n = maxRand
		}
		if i%3 == 2 {
			n = 10 + rng.Intn(500)
		}
		alpha := "ACGT"
		if i%2 == 1 {
			alpha = iupac15
		}
		b := make([]byte, n)
		for j := range b {
			b[j] = alpha[rng.Intn(len(alpha))]
		}
		add(string(b))
	}
	for i := 0; i < nPeriodic; i++ {
		ul := 1 + rng.Intn(12)
		unit := make([]byte, ul)
		for j := range unit {
			unit[j] = "ACGT"[rng.Intn(4)]
		}
		reps := 2 + rng.Intn(3000/ul-1)
		b := []byte(strings.Repeat(string(unit), reps))
		if i%2 == 1 {
			b[rng.Intn(len(b))] = "ACGT"[rng.Intn(4)]
		}
		k := rng.Intn(len(b))
		add(string(b[k:]) + string(b[:k]))
	}
	st.feed(ins, false, false)
	st.sep.Sampled()
	st.fmtv.Sampled()
	st.sep.Done()
	st.fmtv.Done()
	st.byHash, st.idOf = nil, nil

	// ---- rejects ----
	v := newVerifRun("C05", "seqhash.Hash/post/rejects",
		"unknown molecule types (26 spellings near DNA/RNA/PROTEIN) with valid sequences; every single letter outside the type's alphabet (DNA/RNA: ATUGCYRSWKMBDHVNZ, protein: ACDEFGHIKLMNPQRSTVWYUO*BXZ, either case): all 128 ASCII characters, all 128 bytes >= 0x80 (not UTF-8) and 14 non-ASCII characters, each alone, first, last and in the middle of an otherwise valid sequence, four flag combinations; long sequences: lengths "+c05LongLensText()+" (none a multiple of 4096) over ACGT / ACGU / the 26 protein letters in mixed case (fixed pseudo-random body) with exactly ONE letter outside the alphabet (J or !) at position 0, 1, 4095, 4096, 32767, 32768, 65535, 65536, n/2, the last multiple of 32768 below n and its neighbours, n-2 and n-1 (the last letter), each under one of the four flag combinations in rotation (all four occur for every type); every protein string to length "+it(lProt)+" declared double-stranded; expectation: error. Conversely every protein string to length "+it(lProt)+" single-stranded, and every string over the 15 IUPAC codes (plus U under RNA) to length "+it(lAcc)+", must be accepted (checked in the runs above and here); non-trivial = every case")
	expectErr := func(class string, in c05In, why string) {
		key := in.String()
		if len(in.s) > 80 {
			key += " [" + why + "]" // the clipped sequence does not identify a long case
		}
		v.Case(key, true)
		var err error
		var h string
		if !v.Guard("panic", in.String(), func() { h, err = Hash(in.s, in.typ, in.circ, in.ds) }) {
			return
		}
		if err == nil {
			v.Fail(class, in.String(), "no error ("+why+"), got "+h)
		}
	}
	for _, typ := range []string{"", "dna", "rna", "protein", "Dna", "Rna", "Protein", "DNA ", " DNA", "DNA\n", "DNA\x00", "TNA", "XNA", "PNA", "cDNA", "mRNA", "ssDNA", "dsDNA", "PEPTIDE", "AA", "NA", "D", "R", "P", "DNARNA", "PROTEINS"} {
		for _, cd := range combos {
			for _, s := range []string{"", "ACGT", "MKV", "A"} {
				expectErr("unknown-type-accepted", c05In{s, typ, cd[0], cd[1]}, "type "+strconv.Quote(typ)+" is not DNA, RNA or PROTEIN")
			}
		}
	}
	var letters []string
	for b := 0; b < 256; b++ {
		letters = append(letters, string([]byte{byte(b)}))
	}
	// non-ASCII characters without an upper-case form inside ASCII
	letters = append(letters, "\u00e9", "\u03a9", "\u042f", "\u4e2d", "\u00a0", "\ufffd", "\U0001F600", "\u00df", "\u212a" /* Kelvin sign */, "\uff21" /* full-width A */, "\u03b1", "\u200b", "\u0391" /* Greek Alpha */, "\u0410" /* Cyrillic A */)
	for _, typ := range []string{"DNA", "RNA", "PROTEIN"} {
		alpha, ctx := accepted17, "ACGT"
		if typ == "PROTEIN" {
			alpha, ctx = protein26, "MKVL"
		}
		for _, l := range letters {
			if len(l) == 1 && strings.Contains(alpha, c05Upper(l)) {
				continue
			}
			for _, s := range []string{l, l + ctx, ctx + l, ctx[:2] + l + ctx[2:]} {
				for _, cd := range combos {
					expectErr("letter-outside-alphabet-accepted", c05In{s, typ, cd[0], cd[1]}, "letter "+strconv.QuoteToASCII(l)+" is outside the "+typ+" alphabet")
				}
			}
		}
	}
	// long sequences with one letter outside the alphabet
	{
		k := 0
		for _, typ := range []string{"DNA", "RNA", "PROTEIN"} {
			alpha := "ACGTacgt"
			if typ == "RNA" {
				alpha = "ACGUacgu"
			} else if typ == "PROTEIN" {
				alpha = protein26 + strings.ToLower(protein26)
			}
			for li, n := range c05LongLens {
				body := c05LongBody(alpha, n, uint32(li+1))
				bad := "J!"[li%2 : li%2+1]
				for _, pos := range c05LongPositions(n) {
					cd := combos[k%4]
					if typ == "PROTEIN" {
						cd = [2]bool{k%2 == 1, false}
					}
					k++
					s := body[:pos] + bad + body[pos+1:]
					expectErr("letter-outside-alphabet-in-long-sequence-accepted", c05In{s, typ, cd[0], cd[1]},
						"letter "+strconv.Quote(bad)+" at position "+it(pos)+" of "+it(n)+" is outside the "+typ+" alphabet")
				}
			}
		}
	}
	for n := 0; n <= lProt; n++ {
		for _, s := range c05Strings(protein26, n) {
			for _, circ := range []bool{false, true} {
				expectErr("double-stranded-protein-accepted", c05In{s, "PROTEIN", circ, true}, "proteins cannot be double-stranded")
				in := c05In{s, "PROTEIN", circ, false}
				v.Case(in.String(), true)
				v.Guard("panic", in.String(), func() {
					if _, err := Hash(in.s, in.typ, in.circ, in.ds); err != nil {
						v.Fail("valid-input-rejected", in.String(), "error: "+err.Error())
					}
				})
			}
		}
	}
	for n := 0; n <= lAcc; n++ {
		for _, typ := range []string{"DNA", "RNA"} {
			alpha := iupac15
			if typ == "RNA" {
				alpha += "U"
			}
			for _, s := range c05Strings(alpha, n) {
				for _, cd := range combos {
					for _, x := range []string{s, strings.ToLower(s)} {
						in := c05In{x, typ, cd[0], cd[1]}
						v.Case(in.String(), true)
						v.Guard("panic", in.String(), func() {
							if _, err := Hash(in.s, in.typ, in.circ, in.ds); err != nil {
								v.Fail("valid-input-rejected", in.String(), "error: "+err.Error())
							}
						})
					}
				}
			}
		}
	}
	v.Done()
}
