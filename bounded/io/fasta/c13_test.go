package fasta

// Bounded back end for C13: FASTA write/read, re-wrapping and streaming.
//
// Clauses executed on the real Build / Write / Parse / Read / ReadGz /
// ReadGzConcurrent / ParseConcurrent:
//
//   io/fasta.Build-Parse/post/roundtrip       Parse(Build(xs)) == xs
//   io/fasta.Parse/post/layout-invariance     Parse(layout(xs)) == xs for every
//                                             layout of the same records
//   io/fasta.ParseConcurrent/post/stream      the channel carries xs in order and
//                                             is then closed exactly once
//
// The oracle is the record list the text was generated from; the text of the
// second and third clause is laid out by an independent writer (c13Layout) that
// follows the FASTA conventions the property names (a '>' header line, sequence
// lines of any width, blank lines, ';' comment lines, LF or CRLF, gzip; a gzip
// file may consist of several members).

import (
	"bytes"
	"compress/gzip"
	"fmt"
	"io/ioutil"
	"math/rand"
	"path/filepath"
	"sort"
	"strconv"
	"sync"
	"testing"
	"time"
)

const c13Letters = "ACGTUNRYKMSWBDHVacgtunrykmswbdhvEFILPQZXJOefilpqzxjo"
const c13ScannerLimit = 64 * 1024

// c13Name draws a name of printable characters (no newline, no control
// characters), 0..60 characters, mostly ASCII, sometimes other printable runes.
func c13Name(rng *rand.Rand) string {
	n := rng.Intn(61)
	if rng.Intn(10) == 0 {
		n = rng.Intn(3)
	}
	var b bytes.Buffer
	extra := []rune("éßΩ名前µ→")
	for i := 0; i < n; i++ {
		if rng.Intn(25) == 0 {
			b.WriteRune(extra[rng.Intn(len(extra))])
		} else {
			b.WriteByte(byte(0x20 + rng.Intn(0x7f-0x20)))
		}
	}
	return b.String()
}

func c13Seq(rng *rand.Rand, n int) string {
	b := make([]byte, n)
	k := 4
	if rng.Intn(3) == 0 {
		k = len(c13Letters)
	}
	for i := range b {
		b[i] = c13Letters[rng.Intn(k)]
	}
	return string(b)
}

func c13Short(s string) string {
	if len(s) <= 24 {
		return strconv.Quote(s)
	}
	return strconv.Quote(s[:10]) + "..<" + strconv.Itoa(len(s)) + " letters>"
}

func c13Describe(xs []Fasta) string {
	var b bytes.Buffer
	fmt.Fprintf(&b, "%d record(s):", len(xs))
	for i, x := range xs {
		if i >= 4 {
			b.WriteString(" ...")
			break
		}
		fmt.Fprintf(&b, " {name %s seq %s}", strconv.Quote(x.Name), c13Short(x.Sequence))
	}
	return b.String()
}

func c13Key(xs []Fasta, extra string) string {
	total := 0
	h := uint32(2166136261)
	for _, x := range xs {
		total += len(x.Sequence)
		for i := 0; i < len(x.Name); i++ {
			h = (h ^ uint32(x.Name[i])) * 16777619
		}
		for i := 0; i < len(x.Sequence) && i < 64; i++ {
			h = (h ^ uint32(x.Sequence[i])) * 16777619
		}
		h = (h ^ uint32(len(x.Sequence))) * 16777619
	}
	return fmt.Sprintf("n=%d letters=%d h=%08x %s", len(xs), total, h, extra)
}

// c13Diff returns "" when got equals want, otherwise the first difference.
func c13Diff(got, want []Fasta) string {
	for i := 0; i < len(got) && i < len(want); i++ {
		if got[i].Name != want[i].Name {
			return fmt.Sprintf("got %d record(s), want %d; record %d: name %s, want %s", len(got), len(want), i, strconv.Quote(got[i].Name), strconv.Quote(want[i].Name))
		}
		if got[i].Sequence != want[i].Sequence {
			return fmt.Sprintf("got %d record(s), want %d; record %d (%s): sequence %s, want %s", len(got), len(want), i, strconv.Quote(want[i].Name), c13Short(got[i].Sequence), c13Short(want[i].Sequence))
		}
	}
	if len(got) != len(want) {
		return fmt.Sprintf("got %d record(s), want %d", len(got), len(want))
	}
	return ""
}

// c13Class names the shape of a failing text: does it hold a line that, with
// its line terminator, is longer than 64 KiB?
func c13Class(text []byte) string {
	start := 0
	for i := 0; i <= len(text); i++ {
		if i == len(text) || text[i] == '\n' {
			l := i - start
			if i < len(text) {
				l++
			}
			if l > c13ScannerLimit {
				return "line-over-64KiB"
			}
			start = i + 1
		}
	}
	return "records-differ"
}

func c13Letters0(xs []Fasta) int {
	t := 0
	for _, x := range xs {
		t += len(x.Sequence)
	}
	return t
}

type c13Opts struct {
	width    int  // 0: one line per sequence; >0: fixed width; <0: random width per line up to -width
	blank    int  // percent chance of a blank line before any line
	comment  int  // percent chance of a ';' comment line before any line
	crlf     bool // CRLF line ends
	emptyAsB bool // a sequence of 0 letters is written as a blank line rather than no line
}

func (o c13Opts) String() string {
	return fmt.Sprintf("width=%d blank%%=%d comment%%=%d crlf=%v", o.width, o.blank, o.comment, o.crlf)
}

// c13Layout is the independent FASTA writer.
func c13Layout(rng *rand.Rand, xs []Fasta, o c13Opts) []byte {
	var b bytes.Buffer
	nl := "\n"
	if o.crlf {
		nl = "\r\n"
	}
	noise := func() {
		for rng.Intn(100) < o.blank {
			b.WriteString(nl)
		}
		for rng.Intn(100) < o.comment {
			b.WriteString(";" + c13Name(rng) + nl)
			for rng.Intn(100) < o.blank {
				b.WriteString(nl)
			}
		}
	}
	for _, x := range xs {
		noise()
		b.WriteString(">" + x.Name + nl)
		s := x.Sequence
		if len(s) == 0 && o.emptyAsB {
			b.WriteString(nl)
		}
		for len(s) > 0 {
			w := len(s)
			switch {
			case o.width > 0:
				w = o.width
			case o.width < 0:
				w = 1 + rng.Intn(-o.width)
			}
			if w > len(s) {
				w = len(s)
			}
			noise()
			b.WriteString(s[:w] + nl)
			s = s[w:]
		}
	}
	noise()
	return b.Bytes()
}

func c13Gzip(text []byte) []byte {
	var b bytes.Buffer
	w := gzip.NewWriter(&b)
	_, _ = w.Write(text)
	_ = w.Close()
	return b.Bytes()
}

// c13GzipMembers compresses text as a gzip file of several members (RFC 1952:
// "a gzip file consists of a series of members"; what `cat a.gz b.gz`, bgzip or a
// writer that is closed and reopened per block produce): one member per piece
// of text between consecutive cut positions (sorted, 0..len(text)); a piece may
// be empty. Such a file decompresses to the whole text.
func c13GzipMembers(text []byte, cuts []int) []byte {
	var b bytes.Buffer
	start := 0
	for _, c := range append(append([]int{}, cuts...), len(text)) {
		w, _ := gzip.NewWriterLevel(&b, gzip.BestSpeed) // the level does not matter here; keeps the quick tier short
		_, _ = w.Write(text[start:c])
		_ = w.Close()
		start = c
	}
	return b.Bytes()
}

// c13Collect receives from ch until it is closed or the deadline passes.
func c13Collect(ch <-chan Fasta, deadline time.Duration) (got []Fasta, closed bool) {
	timer := time.NewTimer(deadline)
	defer timer.Stop()
	for {
		select {
		case x, ok := <-ch:
			if !ok {
				return got, true
			}
			got = append(got, x)
		case <-timer.C:
			return got, false
		}
	}
}

// c13List draws a record list of n records whose sequence lengths come from lens.
func c13List(rng *rand.Rand, n int, lens func(i int) int) []Fasta {
	xs := make([]Fasta, n)
	for i := range xs {
		xs[i] = Fasta{Name: c13Name(rng), Sequence: c13Seq(rng, lens(i))}
	}
	return xs
}

func c13MixLen(rng *rand.Rand, budget *int) int {
	var l int
	switch r := rng.Intn(100); {
	case r < 8:
		l = 0
	case r < 80:
		l = rng.Intn(500)
	case r < 95:
		l = 500 + rng.Intn(20000)
	default:
		l = 20000 + rng.Intn(280001)
	}
	if l > *budget {
		l = *budget
	}
	*budget -= l
	return l
}

// c13Fails collects violations found by parallel jobs so that they are reported
// smallest input first (the helper keeps the first three per class).
type c13Fails struct {
	mu   sync.Mutex
	list []c13FailRec
}

type c13FailRec struct {
	size                 int
	class, input, detail string
}

func (f *c13Fails) add(size int, class, input, detail string) {
	f.mu.Lock()
	f.list = append(f.list, c13FailRec{size, class, input, detail})
	f.mu.Unlock()
}

func (f *c13Fails) flush(v *verifRun) {
	sort.SliceStable(f.list, func(i, j int) bool {
		if f.list[i].size != f.list[j].size {
			return f.list[i].size < f.list[j].size
		}
		return f.list[i].input < f.list[j].input
	})
	for _, r := range f.list {
		v.Fail(r.class, r.input, r.detail)
	}
}

// c13Guard runs f and records a panic as a violation.
func (f *c13Fails) guard(size int, input string, fn func()) (ok bool) {
	defer func() {
		if r := recover(); r != nil {
			f.add(size, "panic", input, fmt.Sprintf("panic: %v", r))
			ok = false
		}
	}()
	fn()
	return true
}

// c13Parallel runs jobs on a small worker pool.
func c13Parallel(jobs []func()) {
	var wg sync.WaitGroup
	ch := make(chan func())
	for w := 0; w < 12; w++ {
		wg.Add(1)
		go func() {
			defer wg.Done()
			for j := range ch {
				j()
			}
		}()
	}
	for _, j := range jobs {
		ch <- j
	}
	close(ch)
	wg.Wait()
}

func c13BoundaryLens(thorough bool) []int {
	ls := []int{0, 1, 2, 59, 60, 61, 79, 80, 81, 4095, 4096, 4097, 32768, 65000}
	for l := 65530; l <= 65541; l++ {
		ls = append(ls, l)
	}
	ls = append(ls, 70000, 100000, 131071, 131072, 131073, 200000, 299999, 300000)
	if thorough {
		for l := 65400; l < 65530; l += 7 {
			ls = append(ls, l)
		}
		for l := 65542; l < 66000; l += 31 {
			ls = append(ls, l)
		}
		ls = append(ls, 16383, 16384, 16385, 150000, 262143, 262144, 262145)
	}
	return ls
}

// c13WithLong places a sequence of l letters at position pos of a list of n records.
func c13WithLong(seed int64, l, n, pos int) []Fasta {
	rng := rand.New(rand.NewSource(seed))
	xs := c13List(rng, n, func(i int) int {
		if i == pos {
			return l
		}
		return 1 + rng.Intn(12)
	})
	for i := range xs {
		xs[i].Name = "rec" + strconv.Itoa(i+1)
	}
	return xs
}

func c13Roundtrip(t *testing.T, dir string) {
	thorough := verifThorough()
	nRandom := 40
	if thorough {
		nRandom = 1500
	}
	v := newVerifRun("C13", "io/fasta.Build-Parse/post/roundtrip",
		"Parse(Build(xs)) == xs (and Read(Write(xs)) for a tenth of the cases): every list length 1..200 with sequences of 0..300 letters; "+
			"one sequence of boundary length (0,1,2,59..61,79..81,4095..4097,32768,65000,every length 65530..65541,70000,100000,131071..131073,200000,299999,300000"+
			map[bool]string{true: ", plus a sweep 65400..66000 and 16383..16385,150000,262143..262145", false: ""}[thorough]+
			") alone, first of 2, last of 2 and middle of 3 records; "+strconv.Itoa(nRandom)+
			" seeded random lists of 1..200 records with lengths mixed over 0..300000 (at most 3,000,000 letters per list); names 0..60 printable characters (ASCII 0x20..0x7E and some non-ASCII), letters A-Za-z subset; non-trivial = at least one letter in the list")
	v.Sampled()
	seed := verifSeed()
	var jobs []func()
	var fails c13Fails
	check := func(xs []Fasta, viaFile bool, tag string) {
		jobs = append(jobs, func() {
			v.Case(c13Key(xs, tag), c13Letters0(xs) > 0)
			text := Build(xs)
			var got []Fasta
			in := c13Describe(xs)
			if !fails.guard(len(text), in, func() {
				if viaFile {
					p := filepath.Join(dir, "rt-"+strconv.FormatInt(rand.Int63(), 36)+".fasta")
					Write(xs, p)
					got = Read(p)
				} else {
					got = Parse(bytes.NewReader(text))
				}
			}) {
				return
			}
			if d := c13Diff(got, xs); d != "" {
				fails.add(len(text), c13Class(text), in, d)
			}
		})
	}
	reps := 1
	if thorough {
		reps = 4
	}
	for rep := 0; rep < reps; rep++ {
		for n := 1; n <= 200; n++ {
			rng := rand.New(rand.NewSource(seed*1000003 + int64(rep*1000+n)))
			xs := c13List(rng, n, func(i int) int {
				if rng.Intn(8) == 0 {
					return 0
				}
				return rng.Intn(301)
			})
			check(xs, n%10 == 0, "short")
		}
	}
	for _, l := range c13BoundaryLens(thorough) {
		for k, shape := range [][2]int{{1, 0}, {2, 0}, {2, 1}, {3, 1}} {
			check(c13WithLong(seed+int64(l)*7+int64(k), l, shape[0], shape[1]), l%10 == 0 && k == 1, "boundary")
		}
	}
	rng := rand.New(rand.NewSource(seed ^ 0x13))
	for i := 0; i < nRandom; i++ {
		budget := 3000000
		xs := c13List(rng, 1+rng.Intn(200), func(int) int { return c13MixLen(rng, &budget) })
		check(xs, i%10 == 0, "random")
	}
	c13Parallel(jobs)
	fails.flush(v)
	v.Done()
}

func c13Invariance(t *testing.T, dir string) {
	thorough := verifThorough()
	nLists, nLayouts := 36, 10
	nGz := 4
	if thorough {
		nLists, nLayouts = 400, 40
		nGz = 12
	}
	v := newVerifRun("C13", "io/fasta.Parse/post/layout-invariance",
		"Parse(text) == xs for texts laid out by an independent writer: "+strconv.Itoa(nLists)+" seeded lists (1..200 records, lengths mixed over 0..300000, at most 1,500,000 letters per list, plus lists holding one sequence of 65535/65536/70000/300000 letters), each in "+
			strconv.Itoa(nLayouts)+" layouts drawn from: wrap width fixed in {1,2,3,7,10,59,60,61,70,80,1000,4096,65534,65535,65536,100000}, none (one line per sequence), or varying per line up to 200 or 70000; "+
			"blank lines and ';' comment lines (printable text) inserted before any line with probability 0/20/50 %; LF or CRLF; empty sequence as no line or blank line; "+
			"read through Parse, Read (temp file) or ReadGz (gzip temp file, one member); PLUS per list "+strconv.Itoa(nGz)+" further layouts from the same choices written as gzip temp files and read through ReadGz or ReadGzConcurrent (channel capacity 0, 1 or 1000, records collected until the channel is closed, 20 s deadline): "+
			"in turn ReadGz on a file of 2 gzip members, ReadGzConcurrent on a file of 1 member, ReadGzConcurrent on 2..6 members, ReadGz on 2..6 members; a multi-member file is the text cut at uniformly random byte positions (anywhere: inside a header, a sequence line or a CRLF; a tenth of the files also get an empty member), each piece compressed by its own gzip.Writer and the members concatenated, which decompresses to the whole text; class multi-member-gzip; "+
			"non-trivial = layout differs from one-line-per-sequence LF text")
	v.Sampled()
	seed := verifSeed()
	widths := []int{1, 2, 3, 7, 10, 59, 60, 61, 70, 80, 1000, 4096, 65534, 65535, 65536, 100000, 0, -200, -70000}
	var jobs []func()
	var fails c13Fails
	var fileNo int64
	var fileMu sync.Mutex
	nextFile := func(ext string) string {
		fileMu.Lock()
		defer fileMu.Unlock()
		fileNo++
		return filepath.Join(dir, "inv-"+strconv.FormatInt(fileNo, 10)+ext)
	}
	add := func(xs []Fasta, s int64) {
		for k := 0; k < nLayouts; k++ {
			k := k
			jobs = append(jobs, func() {
				rng := rand.New(rand.NewSource(s*131 + int64(k)))
				o := c13Opts{width: widths[rng.Intn(len(widths))], blank: []int{0, 20, 50}[rng.Intn(3)], comment: []int{0, 20, 50}[rng.Intn(3)], crlf: rng.Intn(2) == 0, emptyAsB: rng.Intn(2) == 0}
				if k == 0 {
					o = c13Opts{width: 60}
				}
				if c13Letters0(xs) > 400000 && o.width > 0 && o.width < 7 {
					o.width = 60 // keep the text size bounded
				}
				via := []string{"Parse", "Parse", "Read", "ReadGz"}[rng.Intn(4)]
				text := c13Layout(rng, xs, o)
				in := c13Describe(xs) + " layout " + o.String() + " via " + via
				v.Case(c13Key(xs, o.String()+via), o.width != 0 || o.blank+o.comment > 0 || o.crlf || via == "ReadGz")
				var got []Fasta
				if !fails.guard(len(text), in, func() {
					switch via {
					case "Parse":
						got = Parse(bytes.NewReader(text))
					case "Read":
						p := nextFile(".fasta")
						if err := ioutil.WriteFile(p, text, 0644); err != nil {
							t.Fatal(err)
						}
						got = Read(p)
					case "ReadGz":
						p := nextFile(".fasta.gz")
						if err := ioutil.WriteFile(p, c13Gzip(text), 0644); err != nil {
							t.Fatal(err)
						}
						got = ReadGz(p)
					}
				}) {
					return
				}
				if d := c13Diff(got, xs); d != "" {
					fails.add(len(text), c13Class(text), in, d)
				}
			})
		}
	}
	// the same lists as gzip files of one or several members, through ReadGz and
	// ReadGzConcurrent (own random streams: the layouts above stay what they were)
	addGz := func(xs []Fasta, s int64) {
		for k := 0; k < nGz; k++ {
			k := k
			jobs = append(jobs, func() {
				rng := rand.New(rand.NewSource(s*8191 + 0x6a + int64(k)))
				o := c13Opts{width: widths[rng.Intn(len(widths))], blank: []int{0, 20, 50}[rng.Intn(3)], comment: []int{0, 20, 50}[rng.Intn(3)], crlf: rng.Intn(2) == 0, emptyAsB: rng.Intn(2) == 0}
				if c13Letters0(xs) > 400000 && o.width > 0 && o.width < 7 {
					o.width = 60 // keep the text size bounded
				}
				text := c13Layout(rng, xs, o)
				via := []string{"ReadGz", "ReadGzConcurrent", "ReadGzConcurrent", "ReadGz"}[k%4]
				members := []int{2, 1, 2 + rng.Intn(5), 2 + rng.Intn(5)}[k%4]
				var cuts []int
				for len(cuts) < members-1 {
					cuts = append(cuts, rng.Intn(len(text)+1))
				}
				if members > 1 && rng.Intn(10) == 0 {
					cuts[0] = []int{0, len(text)}[rng.Intn(2)] // an empty first or last member
				}
				sort.Ints(cuts)
				capacity := []int{0, 1, 1000}[rng.Intn(3)]
				in := fmt.Sprintf("%s layout %s as a gzip file of %d member(s) (text of %d bytes cut at %v) via %s", c13Describe(xs), o.String(), members, len(text), cuts, via)
				if via == "ReadGzConcurrent" {
					in += fmt.Sprintf(" capacity %d", capacity)
				}
				v.Case(c13Key(xs, fmt.Sprintf("%s members=%d %s", o.String(), members, via)), true)
				class := c13Class(text)
				if members > 1 {
					class = "multi-member-gzip"
				}
				var got []Fasta
				closed := true
				if !fails.guard(len(text), in, func() {
					p := nextFile(".fasta.gz")
					if err := ioutil.WriteFile(p, c13GzipMembers(text, cuts), 0644); err != nil {
						t.Fatal(err)
					}
					if via == "ReadGz" {
						got = ReadGz(p)
					} else {
						ch := make(chan Fasta, capacity)
						ReadGzConcurrent(p, ch)
						got, closed = c13Collect(ch, 20*time.Second)
					}
				}) {
					return
				}
				if !closed {
					fails.add(len(text), "channel-not-closed", in, fmt.Sprintf("channel not closed within 20 s after %d record(s)", len(got)))
					return
				}
				if d := c13Diff(got, xs); d != "" {
					fails.add(len(text), class, in, d)
				}
			})
		}
	}
	rng := rand.New(rand.NewSource(seed ^ 0x1313))
	for i := 0; i < nLists; i++ {
		var xs []Fasta
		switch {
		case i < 4:
			xs = c13WithLong(seed+int64(i), []int{65535, 65536, 70000, 300000}[i], 3, 1)
		case i%3 == 0:
			n := 1 + rng.Intn(200)
			xs = c13List(rng, n, func(int) int { return rng.Intn(200) })
		default:
			budget := 1500000
			xs = c13List(rng, 1+rng.Intn(200), func(int) int { return c13MixLen(rng, &budget) })
		}
		add(xs, seed*977+int64(i))
		addGz(xs, seed*977+int64(i))
	}
	c13Parallel(jobs)
	fails.flush(v)
	v.Done()
}

// c13Stream runs the producer under recover, consumes with the given stalling
// pattern and reports what happened.
type c13StreamResult struct {
	got       []Fasta
	closed    bool        // the consumer saw the channel closed before the deadline
	producer  bool        // the producer returned before the deadline
	panicked  interface{} // value recovered in the producer goroutine
	afterOpen bool        // a value arrived after closure was observed (cannot happen on a Go channel; kept as a guard)
}

// long is the stall of consumer mode 4 (one long stall before the 2nd receive).
func c13RunStream(text []byte, capacity int, mode int, rng *rand.Rand, deadline time.Duration, long time.Duration) c13StreamResult {
	ch := make(chan Fasta, capacity)
	prod := make(chan interface{}, 1)
	go func() {
		defer func() { prod <- recover() }()
		ParseConcurrent(bytes.NewReader(text), ch)
	}()
	var res c13StreamResult
	timer := time.NewTimer(deadline)
	defer timer.Stop()
	stall := func(i int) {
		switch mode {
		case 0: // eager consumer
		case 1: // randomly stalled
			if rng.Intn(4) == 0 {
				time.Sleep(time.Duration(rng.Intn(300)) * time.Microsecond)
			}
		case 2: // lets the producer run ahead and block, then drains
			if i == 0 {
				time.Sleep(3 * time.Millisecond)
			}
		case 3: // bursts: long stall every few records
			if i%17 == 16 {
				time.Sleep(time.Duration(200+rng.Intn(800)) * time.Microsecond)
			}
		case 4: // takes the first record, then stalls for a long time before the second receive
			if i == 1 {
				time.Sleep(long)
			}
		}
	}
recv:
	for i := 0; ; i++ {
		stall(i)
		select {
		case x, ok := <-ch:
			if !ok {
				res.closed = true
				break recv
			}
			res.got = append(res.got, x)
		case <-timer.C:
			break recv
		}
	}
	select {
	case p := <-prod:
		res.producer = true
		res.panicked = p
	case <-timer.C:
	case <-time.After(deadline):
	}
	if res.closed {
		if _, ok := <-ch; ok {
			res.afterOpen = true
		}
	}
	return res
}

// c13LongStall is one case of the long-stalled consumer: capacity 0 or 1, 3..5
// small records, one stall of the given length before the 2nd receive.
type c13LongStall struct {
	xs       []Fasta
	text     []byte
	capacity int
	stall    time.Duration
	res      c13StreamResult
}

func c13LongStallPlan(thorough bool) (caps []int, stalls []time.Duration) {
	if thorough {
		return []int{0, 1}, []time.Duration{700 * time.Millisecond, 1200 * time.Millisecond, 2 * time.Second, 3 * time.Second}
	}
	return []int{0, 1}, []time.Duration{700 * time.Millisecond, 1200 * time.Millisecond}
}

// c13StartLongStalls starts the long-stall cases, each on its own goroutines, so
// that they run while the other clauses are evaluated; the returned function
// waits for them and hands back the outcomes.
func c13StartLongStalls() func() []*c13LongStall {
	thorough := verifThorough()
	caps, stalls := c13LongStallPlan(thorough)
	seed := verifSeed()
	var cases []*c13LongStall
	var wg sync.WaitGroup
	k := 0
	for si, st := range stalls {
		for ci, capacity := range caps {
			if !thorough && si != ci {
				continue // quick: capacity 0 with the first stall, capacity 1 with the second
			}
			k++
			rng := rand.New(rand.NewSource(seed*6007 + int64(k)))
			xs := c13List(rng, 3+k%3, func(int) int { return 1 + rng.Intn(60) })
			for i := range xs {
				xs[i].Name = "rec" + strconv.Itoa(i+1) + " " + xs[i].Name
			}
			c := &c13LongStall{xs: xs, text: c13Layout(rng, xs, c13Opts{width: 60}), capacity: capacity, stall: st}
			cases = append(cases, c)
			wg.Add(1)
			go func() {
				defer wg.Done()
				c.res = c13RunStream(c.text, c.capacity, 4, rng, 20*time.Second, c.stall)
			}()
		}
	}
	return func() []*c13LongStall {
		wg.Wait()
		return cases
	}
}

func c13LongStallText(thorough bool) string {
	if thorough {
		return "8 long-stall cases: capacities {0,1} x one stall of {0.7,1.2,2,3} s before the 2nd receive, 3..5 records of 1..60 letters"
	}
	return "2 long-stall cases: capacity 0 with one stall of 0.7 s and capacity 1 with one stall of 1.2 s before the 2nd receive, 3..5 records of 1..60 letters"
}

func c13Streaming(t *testing.T, longStalls func() []*c13LongStall) {
	thorough := verifThorough()
	reps := 1
	if thorough {
		reps = 8
	}
	v := newVerifRun("C13", "io/fasta.ParseConcurrent/post/stream",
		"every channel capacity 0..1000, "+strconv.Itoa(reps)+" seeded case(s) each: list of 1..200 records (sequences 0..2000 letters, laid out by the independent writer with random width/blank/comment/CRLF), "+
			"plus 16 cases at capacities {0,1,2,1000} with a 70000- or 300000-letter sequence wrapped at 60 or on one line; consumer eager, randomly stalled (0..300 us before a quarter of the receives), "+
			"late starter (3 ms) or bursty; plus "+c13LongStallText(thorough)+" (run concurrently with the other cases; same demands: records complete and in order, then closed exactly once); producer goroutine wrapped in recover (double close / send on closed channel shows as a panic), closure awaited with a 20 s deadline; not run under the race detector unless the driver passes -race; "+
			"non-trivial = more records than capacity+1 (the producer must block) or a stalled consumer")
	v.Sampled()
	seed := verifSeed()
	var jobs []func()
	var fails c13Fails
	// judge compares one outcome with the records the text was laid out from.
	// diffClass is the class of a difference in the records received.
	judge := func(res c13StreamResult, xs []Fasta, text []byte, in string, diffClass func() string) {
		switch {
		case res.panicked != nil:
			fails.add(len(text), "producer-panic", in, fmt.Sprintf("producer goroutine panicked: %v", res.panicked))
			return
		case !res.closed:
			fails.add(len(text), "channel-not-closed", in, fmt.Sprintf("channel not closed within 20 s after %d record(s)", len(res.got)))
			return
		case !res.producer:
			fails.add(len(text), "producer-not-finished", in, "channel closed but ParseConcurrent did not return within the deadline")
			return
		case res.afterOpen:
			fails.add(len(text), "value-after-close", in, "a value was received after the channel was seen closed")
			return
		}
		if d := c13Diff(res.got, xs); d != "" {
			fails.add(len(text), diffClass(), in, d)
		}
	}
	run := func(xs []Fasta, o c13Opts, capacity, mode int, s int64) {
		jobs = append(jobs, func() {
			rng := rand.New(rand.NewSource(s))
			text := c13Layout(rng, xs, o)
			in := fmt.Sprintf("capacity %d, consumer mode %d, %s, layout %s", capacity, mode, c13Describe(xs), o.String())
			v.Case(fmt.Sprintf("cap=%d mode=%d %s", capacity, mode, c13Key(xs, o.String())), len(xs) > capacity+1 || mode != 0)
			res := c13RunStream(text, capacity, mode, rng, 20*time.Second, 0)
			judge(res, xs, text, in, func() string { return c13Class(text) })
		})
	}
	widths := []int{1, 7, 60, 70, 80, 0, -100}
	for rep := 0; rep < reps; rep++ {
		for capacity := 0; capacity <= 1000; capacity++ {
			s := seed*7919 + int64(rep)*100003 + int64(capacity)
			rng := rand.New(rand.NewSource(s))
			n := 1 + rng.Intn(200)
			maxLen := 60
			if rng.Intn(10) == 0 {
				maxLen = 2000
			}
			xs := c13List(rng, n, func(int) int { return rng.Intn(maxLen + 1) })
			o := c13Opts{width: widths[rng.Intn(len(widths))], blank: []int{0, 20}[rng.Intn(2)], comment: []int{0, 20}[rng.Intn(2)], crlf: rng.Intn(2) == 0, emptyAsB: rng.Intn(2) == 0}
			mode := (capacity + rep) % 4
			if n > 60 && mode == 1 && !thorough {
				mode = 3
			}
			run(xs, o, capacity, mode, s)
		}
	}
	k := 0
	for _, capacity := range []int{0, 1, 2, 1000} {
		for _, l := range []int{70000, 300000} {
			for _, w := range []int{60, 0} {
				k++
				run(c13WithLong(seed+int64(k), l, 3, 1), c13Opts{width: w}, capacity, k%4, seed+int64(k))
			}
		}
	}
	c13Parallel(jobs)
	// the long-stalled consumers, started before the first clause
	for _, c := range longStalls() {
		in := fmt.Sprintf("capacity %d, consumer takes 1 record and then stalls for %v before the 2nd receive, %s, layout width=60", c.capacity, c.stall, c13Describe(c.xs))
		v.Case(fmt.Sprintf("cap=%d long-stall=%v %s", c.capacity, c.stall, c13Key(c.xs, "")), true)
		judge(c.res, c.xs, c.text, in, func() string { return "records-differ-after-long-stall" })
	}
	fails.flush(v)
	v.Done()
}

func TestVerifC13(t *testing.T) {
	dir := t.TempDir()
	longStalls := c13StartLongStalls() // run while the other clauses are evaluated
	c13Roundtrip(t, dir)
	c13Invariance(t, dir)
	c13Streaming(t, longStalls)
}
