package gff

// Bounded back end for C14: GFF3 write-then-read and coordinates.
//
// Clauses executed on the real Build / Write / Parse / Read and
// poly.Feature.GetSequence:
//
//   io/gff.Build-Parse/post/roundtrip        every field the property names is
//                                            the same after Parse(Build(x))
//   io/gff.Parse/post/coordinates            GetSequence() of a parsed feature is
//                                            bases start..end (1-based inclusive)
//                                            of the file's sequence
//   io/gff.Parse/post/independent-writer     the same for GFF3 text laid out by
//                                            an independent writer (c14Write),
//                                            including texts with the ### directive
//                                            between feature lines
//
// The oracle is the document description (c14Doc) the input was generated from.
//
// Besides single round trips there are HISTORIES on one path (roundtrip
// clause): several documents are written with Write to the same path one after
// the other, a smaller one after a larger one among them, and the path is read
// back with Read after every Write; each Read must give the document written
// last (classes prefixed path-rewritten-with-shorter-file /
// path-rewritten-with-longer-or-equal-file).

import (
	"bytes"
	"fmt"
	"io/ioutil"
	"math/rand"
	"path/filepath"
	"strconv"
	"strings"
	"testing"

	"github.com/TimothyStiles/poly"
)

type c14Feat struct {
	seqid, source, typ, score, strand, phase string
	attrs                                    [][2]string // unique keys, in file order
	start, end                               int         // 1-based inclusive, as in the file
}

type c14Doc struct {
	name                   string
	regionStart, regionEnd int
	seq                    string
	feats                  []c14Feat
}

const c14SeqidChars = "abcdefghijklmnopqrstuvwxyzABCDEFGHIJKLMNOPQRSTUVWXYZ0123456789.:^*$@!+_?-|"

func c14Seqid(rng *rand.Rand) string {
	n := 1 + rng.Intn(12)
	b := make([]byte, n)
	for i := range b {
		b[i] = c14SeqidChars[rng.Intn(len(c14SeqidChars))]
	}
	return string(b)
}

// c14Text draws field text of 1..max characters free of tab, newline, ';' and '='.
func c14Text(rng *rand.Rand, max int) string {
	n := 1 + rng.Intn(max)
	var b bytes.Buffer
	extra := []rune("éΩ名µ")
	for b.Len() < n {
		if rng.Intn(30) == 0 {
			b.WriteRune(extra[rng.Intn(len(extra))])
			continue
		}
		c := byte(0x20 + rng.Intn(0x7f-0x20))
		if c == ';' || c == '=' {
			continue
		}
		b.WriteByte(c)
	}
	return b.String()
}

func c14Pick(rng *rand.Rand, usual []string, freeMax int) string {
	if rng.Intn(5) == 0 {
		return c14Text(rng, freeMax)
	}
	return usual[rng.Intn(len(usual))]
}

func c14Seq(rng *rand.Rand, n int) string {
	alpha := "ACGT"
	if rng.Intn(4) == 0 {
		alpha = "ACGTNacgtnRYKMSWBDHV"
	}
	b := make([]byte, n)
	for i := range b {
		b[i] = alpha[rng.Intn(len(alpha))]
	}
	return string(b)
}

func c14Feature(rng *rand.Rand, name string, seqLen, nAttr int) c14Feat {
	f := c14Feat{seqid: name}
	if rng.Intn(4) == 0 {
		f.seqid = c14Seqid(rng)
	}
	f.source = c14Pick(rng, []string{"feature", "GenBank", "RefSeq", ".", "EMBL"}, 12)
	f.typ = c14Pick(rng, []string{"gene", "CDS", "mRNA", "exon", "region", "rep_origin"}, 12)
	f.score = c14Pick(rng, []string{".", "0", "0.95", "1e-20", "-3.5", "100"}, 6)
	f.strand = c14Pick(rng, []string{"+", "-", ".", "?"}, 3)
	f.phase = c14Pick(rng, []string{".", "0", "1", "2"}, 3)
	switch rng.Intn(8) {
	case 0: // whole sequence
		f.start, f.end = 1, seqLen
	case 1: // first base
		f.start, f.end = 1, 1
	case 2: // last base
		f.start, f.end = seqLen, seqLen
	case 3: // reaches the last base
		f.start, f.end = 1+rng.Intn(seqLen), seqLen
	case 4: // starts at the first base
		f.start, f.end = 1, 1+rng.Intn(seqLen)
	default:
		a, b := 1+rng.Intn(seqLen), 1+rng.Intn(seqLen)
		if a > b {
			a, b = b, a
		}
		f.start, f.end = a, b
	}
	seen := map[string]bool{}
	for len(f.attrs) < nAttr {
		k := c14Pick(rng, []string{"ID", "Name", "Parent", "gene", "locus_tag", "product", "db_xref", "Note", "codon_start"}, 10)
		if seen[k] {
			continue
		}
		seen[k] = true
		val := c14Text(rng, 30)
		if rng.Intn(40) == 0 {
			val = ""
		}
		f.attrs = append(f.attrs, [2]string{k, val})
	}
	return f
}

func c14NewDoc(rng *rand.Rand, seqLen, nFeat int) c14Doc {
	d := c14Doc{name: c14Seqid(rng), regionStart: 1, regionEnd: seqLen, seq: c14Seq(rng, seqLen)}
	for i := 0; i < nFeat; i++ {
		d.feats = append(d.feats, c14Feature(rng, d.name, seqLen, 1+rng.Intn(6)))
	}
	return d
}

// c14ToSequence builds the in-memory value the way a caller of the library (or
// Parse itself) would: Meta.Name/RegionStart/RegionEnd, features added through
// AddFeature with 0-based half-open locations.
func c14ToSequence(d c14Doc, version string) poly.Sequence {
	var s poly.Sequence
	s.Meta.Name = d.name
	s.Meta.GffVersion = version
	s.Meta.RegionStart = d.regionStart
	s.Meta.RegionEnd = d.regionEnd
	s.Meta.Size = d.regionEnd - d.regionStart
	s.Sequence = d.seq
	for _, f := range d.feats {
		ft := poly.Feature{Name: f.seqid, Source: f.source, Type: f.typ, Score: f.score, Strand: f.strand, Phase: f.phase, Attributes: map[string]string{}}
		for _, kv := range f.attrs {
			ft.Attributes[kv[0]] = kv[1]
		}
		ft.SequenceLocation.Start = f.start - 1
		ft.SequenceLocation.End = f.end
		s.AddFeature(&ft)
	}
	return s
}

// c14Write is the independent GFF3 writer. groupEnd (nil, or one flag per
// feature) says after which feature lines the writer emits the "###" directive
// ("all forward references resolved", GFF3 specification: it may follow any
// feature group, not only the last one); closeFeatures adds one before ##FASTA.
func c14Write(rng *rand.Rand, d c14Doc, width int, closeFeatures bool, groupEnd []bool) []byte {
	var b bytes.Buffer
	b.WriteString("##gff-version 3\n")
	b.WriteString("##sequence-region " + d.name + " " + strconv.Itoa(d.regionStart) + " " + strconv.Itoa(d.regionEnd) + "\n")
	closed := false
	for i, f := range d.feats {
		var at []string
		for _, kv := range f.attrs {
			at = append(at, kv[0]+"="+kv[1])
		}
		cols := []string{f.seqid, f.source, f.typ, strconv.Itoa(f.start), strconv.Itoa(f.end), f.score, f.strand, f.phase, strings.Join(at, ";")}
		b.WriteString(strings.Join(cols, "\t") + "\n")
		if groupEnd != nil && groupEnd[i] {
			b.WriteString("###\n")
			closed = true
		} else {
			closed = false
		}
	}
	if closeFeatures && !closed {
		b.WriteString("###\n")
	}
	b.WriteString("##FASTA\n")
	b.WriteString(">" + d.name + "\n")
	for s := d.seq; len(s) > 0; {
		w := width
		if w > len(s) {
			w = len(s)
		}
		b.WriteString(s[:w] + "\n")
		s = s[w:]
	}
	return b.Bytes()
}

func c14Describe(d c14Doc, how string) string {
	s := fmt.Sprintf("%s: region %s %d %d, sequence of %d letters", how, d.name, d.regionStart, d.regionEnd, len(d.seq))
	if len(d.seq) <= 80 {
		s += " (" + d.seq + ")"
	}
	s += fmt.Sprintf(", %d feature(s)", len(d.feats))
	for i, f := range d.feats {
		if i >= 2 {
			s += " ..."
			break
		}
		s += fmt.Sprintf(" [%s %s %s %d..%d %s %s %s %d attr]", f.seqid, strconv.Quote(f.source), strconv.Quote(f.typ), f.start, f.end, strconv.Quote(f.score), strconv.Quote(f.strand), strconv.Quote(f.phase), len(f.attrs))
	}
	return s
}

// c14PanicClass names the shape of an input on which Parse panicked.
func c14PanicClass(text []byte) string {
	lines := strings.Split(string(text), "\n")
	fasta := false
	var seqLines []string
	for _, l := range lines {
		if l == "##FASTA" {
			fasta = true
		} else if fasta && l != "" && !strings.HasPrefix(l, ">") {
			seqLines = append(seqLines, l)
		}
	}
	if n := len(seqLines); n > 0 && len(seqLines[n-1]) == 1 {
		return "one-letter-last-line"
	}
	return "panic"
}

type c14Runs struct{ main, coord *verifRun }

// c14Check parses text (through Parse, or Read on a temp file) and compares
// every field the property names with the description d.
func c14Check(r c14Runs, d c14Doc, text []byte, how, baseClass string, read func([]byte) poly.Sequence) {
	in := c14Describe(d, how)
	var got poly.Sequence
	panicked := true
	func() {
		defer func() {
			if p := recover(); p != nil {
				cl := c14PanicClass(text)
				if baseClass != "" && cl == "panic" {
					cl = baseClass + "-panic"
				}
				r.main.Fail(cl, in, fmt.Sprintf("Parse panicked: %v", p))
			}
		}()
		got = read(text)
		panicked = false
	}()
	if panicked {
		return
	}
	cls := func(c string) string {
		if baseClass != "" {
			return baseClass + "-" + c
		}
		return c
	}
	if got.Meta.Name != d.name || got.Meta.RegionStart != d.regionStart || got.Meta.RegionEnd != d.regionEnd {
		r.main.Fail(cls("region-differs"), in, fmt.Sprintf("region %q %d %d, want %q %d %d", got.Meta.Name, got.Meta.RegionStart, got.Meta.RegionEnd, d.name, d.regionStart, d.regionEnd))
	}
	if got.Sequence != d.seq {
		r.main.Fail(cls("sequence-differs"), in, fmt.Sprintf("sequence of %d letters %s, want %d letters %s", len(got.Sequence), c14Clip(got.Sequence), len(d.seq), c14Clip(d.seq)))
	}
	if len(got.Features) != len(d.feats) {
		r.main.Fail(cls("feature-count-differs"), in, fmt.Sprintf("%d feature(s), want %d", len(got.Features), len(d.feats)))
		return
	}
	for i, w := range d.feats {
		g := got.Features[i]
		var diffs []string
		cmp := func(what, a, b string) {
			if a != b {
				diffs = append(diffs, fmt.Sprintf("%s %q want %q", what, a, b))
			}
		}
		cmp("seqid", g.Name, w.seqid)
		cmp("source", g.Source, w.source)
		cmp("type", g.Type, w.typ)
		cmp("score", g.Score, w.score)
		cmp("strand", g.Strand, w.strand)
		cmp("phase", g.Phase, w.phase)
		if g.SequenceLocation.Start != w.start-1 || g.SequenceLocation.End != w.end {
			diffs = append(diffs, fmt.Sprintf("location [%d,%d) want [%d,%d)", g.SequenceLocation.Start, g.SequenceLocation.End, w.start-1, w.end))
		}
		if len(g.Attributes) != len(w.attrs) {
			diffs = append(diffs, fmt.Sprintf("%d attribute(s) want %d", len(g.Attributes), len(w.attrs)))
		}
		for _, kv := range w.attrs {
			if v, ok := g.Attributes[kv[0]]; !ok || v != kv[1] {
				diffs = append(diffs, fmt.Sprintf("attribute %q = %q (present %v) want %q", kv[0], v, ok, kv[1]))
			}
		}
		if len(diffs) > 0 {
			r.main.Fail(cls("feature-field-differs"), in, fmt.Sprintf("feature %d: %s", i, strings.Join(diffs, "; ")))
		}
		// coordinates clause: bases start..end, 1-based inclusive, of the file's sequence
		want := d.seq[w.start-1 : w.end]
		r.coord.Case(fmt.Sprintf("%s len=%d %d..%d", how, len(d.seq), w.start, w.end), true)
		var gs string
		if r.coord.Guard(cls("getsequence-panic"), in+fmt.Sprintf(" feature %d", i), func() { gs = g.GetSequence() }) && gs != want {
			r.coord.Fail(cls("feature-sequence-differs"), in, fmt.Sprintf("feature %d (%d..%d): GetSequence() = %s, want %s", i, w.start, w.end, c14Clip(gs), c14Clip(want)))
		}
	}
}

func c14Clip(s string) string {
	if len(s) > 50 {
		return s[:24] + "..." + s[len(s)-16:]
	}
	return strconv.Quote(s)
}

func TestVerifC14(t *testing.T) {
	thorough := verifThorough()
	dir := t.TempDir()
	seed := verifSeed()
	maxAll, perResidue, reps := 700, 4, 1
	if thorough {
		maxAll, perResidue, reps = 5000, 0, 3
	}
	lengths := []int{}
	for rep := 0; rep < reps; rep++ {
		for l := 1; l <= maxAll; l++ {
			lengths = append(lengths, l)
		}
	}
	lrng := rand.New(rand.NewSource(seed ^ 0x14))
	for r := 0; r < 70; r++ {
		for k := 0; k < perResidue; k++ {
			l := 351 + lrng.Intn(5000-351+1)
			l -= (l - r) % 70
			if l < 351 {
				l += 70
			}
			if l > 5000 {
				l -= 70
			}
			lengths = append(lengths, l)
		}
	}
	if !thorough {
		lengths = append(lengths, 4901, 4970, 4999, 5000)
	}
	nHist, histMax := 150, 1500
	if thorough {
		nHist, histMax = 1500, 5000
	}
	histName := ""
	histText := fmt.Sprintf("in addition, histories on one path (classes prefixed path-rewritten-with-shorter-file / path-rewritten-with-longer-or-equal-file): %d histories of 3..4 Writes of different documents to the SAME path, the path read back after every Write and compared with the document just written; first document 2..%d letters and 0..30 features, second a smaller document (shorter sequence down to 1 letter or exactly one letter less, no more features than the first, every third with the same region name as the first; the class says whether Build's output is shorter than the longest file written to the path before), later ones equal in length and feature count, smaller, or of any length 1..%d", nHist, histMax, histMax)
	lenText := "every sequence length 1.." + strconv.Itoa(maxAll) + " (" + strconv.Itoa(reps) + " seeded document(s) each)"
	if !thorough {
		lenText += " plus 4 seeded lengths in 351..5000 for each residue class mod 70 and 4901, 4970, 4999, 5000"
	}
	featText := "0..30 features (every count occurs; count = case index mod 31, plus seeded random counts), each with 1..6 attributes with distinct keys, 1 <= start <= end <= length including first base, last base and whole sequence; " +
		"seqid and region name 1..12 characters of the GFF3 seqid alphabet; source/type/score/strand/phase/attribute text non-empty, free of tab, newline, ';', '=' (attribute values occasionally empty); letters ACGT or IUPAC"

	dirText := "documents of 2..30 features (count = 2 + case index mod 29) in which the writer emits the GFF3 directive ### (forward references resolved) between feature lines: after every feature, after every group of 1..3 features, once after the first feature, or once before the last feature, with or without a further ### before ##FASTA; all features before and after each ### must be returned, in order, with their fields and sequences; "
	if thorough {
		dirText += "one such document for every length of the list above"
	} else {
		dirText += "one such document for every third length 1..700"
	}
	rt := newVerifRun("C14", "io/gff.Build-Parse/post/roundtrip",
		"Parse(Build(x)) (every 7th case through Write/Read on a temp file) compared with x on region name and bounds, sequence, feature count and order, and each feature's seqid, source, type, score, strand, phase, attributes, location: "+
			lenText+"; "+featText+"; Meta set as Parse sets it (Name, RegionStart=1, RegionEnd=length; GffVersion \"\" or \"3\"); separate cases (classes prefixed region-not-sequence-length) with 1 <= RegionStart <= RegionEnd unrelated to the length; "+histText+"; non-trivial = every case")
	co := newVerifRun("C14", "io/gff.Parse/post/coordinates",
		"one case per feature of every document of the other two clauses (including the documents read back in the histories of Writes to one path, classes prefixed path-rewritten-..., and the independent writer's texts without a final newline, classes prefixed no-final-newline, and its texts with ### lines between features, classes prefixed resolved-directive-between-features) that Parse returned (documents on which Parse panics are counted there, not here): GetSequence() == sequence[start-1:end] for the file's 1-based inclusive start..end, computed from the generated description")
	iw := newVerifRun("C14", "io/gff.Parse/post/independent-writer",
		"Parse on GFF3 text from an independent writer (##gff-version 3, ##sequence-region name 1 length, 9 tab-separated columns, attributes k=v joined by ';' in arbitrary key order, optional ### line, ##FASTA, >name, sequence lines of width 70, 60, 61, 35 or 10 with a short last line): "+
			lenText+"; "+featText+"; every document twice: with a newline after the last sequence line, and with the file ending right after the last sequence letter (classes prefixed no-final-newline; every 7th through Read on a temp file); "+
			"in addition (classes prefixed resolved-directive-between-features) "+dirText+"; non-trivial = every case")
	rt.Sampled()
	co.Sampled()
	iw.Sampled()

	for idx, l := range lengths {
		rng := rand.New(rand.NewSource(seed*1000003 + int64(idx)))
		nFeat := idx % 31
		if idx%3 == 2 {
			nFeat = rng.Intn(31)
		}
		d := c14NewDoc(rng, l, nFeat)

		// roundtrip through Build/Parse or Write/Read
		version := []string{"", "3"}[idx%2]
		rt.Case(fmt.Sprintf("len=%d feats=%d idx=%d", l, nFeat, idx), true)
		var text []byte
		x := c14ToSequence(d, version)
		if rt.Guard("build-panic", c14Describe(d, "Build"), func() { text = Build(x) }) {
			if idx%7 == 3 {
				p := filepath.Join(dir, "rt-"+strconv.Itoa(idx)+".gff")
				c14Check(c14Runs{rt, co}, d, text, "Write/Read", "", func([]byte) poly.Sequence {
					Write(x, p)
					return Read(p)
				})
			} else {
				c14Check(c14Runs{rt, co}, d, text, "Parse(Build)", "", Parse)
			}
		}

		// region bounds that are not the sequence length (separate classes)
		if idx%5 == 0 {
			d2 := d
			d2.regionStart = 1 + rng.Intn(3*l)
			d2.regionEnd = d2.regionStart + rng.Intn(3*l)
			if idx%10 == 0 && l > 70 {
				d2.regionStart, d2.regionEnd = 1, 70*(1+rng.Intn(l/70)) // a multiple of the line width inside the sequence
			}
			rt.Case(fmt.Sprintf("len=%d feats=%d idx=%d region=%d..%d", l, nFeat, idx, d2.regionStart, d2.regionEnd), true)
			x2 := c14ToSequence(d2, version)
			var text2 []byte
			if rt.Guard("region-not-sequence-length-build-panic", c14Describe(d2, "Build"), func() { text2 = Build(x2) }) {
				c14Check(c14Runs{rt, co}, d2, text2, "Parse(Build)", "region-not-sequence-length", Parse)
			}
		}

		// independent writer
		width := []int{70, 70, 60, 61, 35, 10}[rng.Intn(6)]
		itext := c14Write(rng, d, width, rng.Intn(2) == 0, nil)
		iw.Case(fmt.Sprintf("len=%d feats=%d idx=%d width=%d", l, nFeat, idx, width), true)
		how := "independent writer, width " + strconv.Itoa(width)
		if idx%7 == 5 {
			p := filepath.Join(dir, "iw-"+strconv.Itoa(idx)+".gff")
			if err := ioutil.WriteFile(p, itext, 0644); err != nil {
				t.Fatal(err)
			}
			c14Check(c14Runs{iw, co}, d, itext, how+", Read", "", func([]byte) poly.Sequence { return Read(p) })
		} else {
			c14Check(c14Runs{iw, co}, d, itext, how, "", Parse)
		}

		// the same text without a newline after the last sequence line (a writer
		// need not terminate the last line of a file); classes prefixed no-final-newline
		ntext := bytes.TrimSuffix(itext, []byte("\n"))
		iw.Case(fmt.Sprintf("len=%d feats=%d idx=%d width=%d no-final-newline", l, nFeat, idx, width), true)
		how += ", no newline after the last sequence line"
		if idx%7 == 6 {
			p := filepath.Join(dir, "iwn-"+strconv.Itoa(idx)+".gff")
			if err := ioutil.WriteFile(p, ntext, 0644); err != nil {
				t.Fatal(err)
			}
			c14Check(c14Runs{iw, co}, d, ntext, how+", Read", "no-final-newline", func([]byte) poly.Sequence { return Read(p) })
		} else {
			c14Check(c14Runs{iw, co}, d, ntext, how, "no-final-newline", Parse)
		}
	}
	// the "###" directive between features: a writer that closes every gene
	// group (or every feature) as soon as its forward references are resolved.
	// Every feature line, before and after a "###", must still be parsed.
	// Separate loop and generator stream so that the cases above are unchanged.
	for idx, l := range lengths {
		nFeat := 2 + idx%29
		rng := rand.New(rand.NewSource(seed*1000003 + int64(idx) + 0x1400000000))
		if l > 700 && !thorough {
			continue // the long lengths add nothing to this axis
		}
		if !thorough && idx%3 != 0 {
			continue
		}
		d := c14NewDoc(rng, l, nFeat)
		groupEnd := make([]bool, nFeat)
		var layout string
		switch (idx / 3) % 4 {
		case 0:
			layout = "### after every feature"
			for i := range groupEnd {
				groupEnd[i] = true
			}
		case 1:
			layout = "### after every group of 1..3 features"
			for i := 0; i < nFeat; {
				i += 1 + rng.Intn(3)
				if i > nFeat {
					i = nFeat
				}
				groupEnd[i-1] = true
			}
		case 2:
			layout = "a single ### after the first feature"
			groupEnd[0] = true
		default:
			layout = "a single ### before the last feature"
			groupEnd[nFeat-2] = true
		}
		width := []int{70, 70, 60, 61, 35, 10}[rng.Intn(6)]
		gtext := c14Write(rng, d, width, rng.Intn(2) == 0, groupEnd)
		iw.Case(fmt.Sprintf("len=%d feats=%d idx=%d width=%d %s", l, nFeat, idx, width, layout), true)
		how := "independent writer, width " + strconv.Itoa(width) + ", " + layout
		if (idx/3)%7 == 4 {
			p := filepath.Join(dir, "iwg-"+strconv.Itoa(idx)+".gff")
			if err := ioutil.WriteFile(p, gtext, 0644); err != nil {
				t.Fatal(err)
			}
			c14Check(c14Runs{iw, co}, d, gtext, how+", Read", "resolved-directive-between-features", func([]byte) poly.Sequence { return Read(p) })
		} else {
			c14Check(c14Runs{iw, co}, d, gtext, how, "resolved-directive-between-features", Parse)
		}
	}
	// histories on one path: Write must leave exactly the document just written
	// in the file, whatever an earlier Write left there. Each history writes 3..4
	// documents to the same path and reads the path back after every Write; the
	// second document is always smaller than the first (a shorter file replaces a
	// longer one), the later ones are smaller, equal in length or larger.
	// Separate generator stream so that the cases above are unchanged.
	for h := 0; h < nHist; h++ {
		rng := rand.New(rand.NewSource(seed*1000003 + int64(h) + 0x1410000000))
		p := filepath.Join(dir, "hist-"+strconv.Itoa(h)+".gff")
		steps := 3 + h%2
		prevLen, prevFeat, prevSize, maxSize := 0, 0, 0, 0
		for step := 0; step < steps; step++ {
			var l, nFeat int
			switch {
			case step == 0: // the larger document
				l = 2 + rng.Intn(histMax-1)
				if h%4 == 0 {
					l = histMax - rng.Intn(70)
				}
				nFeat = rng.Intn(31)
			case step == 1: // strictly smaller: shorter sequence, no more features
				l = 1 + rng.Intn(prevLen-1)
				if h%5 == 0 {
					l = prevLen - 1 // one letter less
				}
				nFeat = rng.Intn(prevFeat + 1)
			default:
				switch rng.Intn(3) {
				case 0: // same length and feature count
					l, nFeat = prevLen, prevFeat
				case 1:
					l, nFeat = 1+rng.Intn(prevLen), rng.Intn(31)
				default:
					l, nFeat = 1+rng.Intn(histMax), rng.Intn(31)
				}
			}
			d := c14NewDoc(rng, l, nFeat)
			if step == 1 && h%3 == 0 { // same region name as the document replaced
				d.name = histName
				for i := range d.feats {
					d.feats[i].seqid = histName
				}
			}
			x := c14ToSequence(d, []string{"", "3"}[(h+step)%2])
			var text []byte
			if !rt.Guard("build-panic", c14Describe(d, "Build"), func() { text = Build(x) }) {
				break
			}
			base := ""
			switch {
			case step > 0 && len(text) < maxSize: // shorter than a file this path has held
				base = "path-rewritten-with-shorter-file"
			case step > 0:
				base = "path-rewritten-with-longer-or-equal-file"
			}
			rt.Case(fmt.Sprintf("history %d step %d len=%d feats=%d bytes=%d after %d (longest %d)", h, step, l, nFeat, len(text), prevSize, maxSize), true)
			how := fmt.Sprintf("Write/Read on one path, write number %d of the history (Build gives %d bytes; the previous Write to this path gave %d bytes, the longest so far %d bytes)", step+1, len(text), prevSize, maxSize)
			c14Check(c14Runs{rt, co}, d, text, how, base, func([]byte) poly.Sequence {
				Write(x, p)
				return Read(p)
			})
			prevLen, prevFeat, prevSize = l, nFeat, len(text)
			if prevSize > maxSize {
				maxSize = prevSize
			}
			if step == 0 {
				histName = d.name
			}
		}
	}
	rt.Done()
	co.Done()
	iw.Done()
}
