package genbank

// Bounded back end for C02: feature sequences follow INSDC location semantics.
//
// The oracle is an INSDC location model written from the property statement:
// an abstract tree (span n..m, single base n, join, complement, partial
// markers), a printer to INSDC text, and a strict character-level reader and
// evaluator (c02Eval). None of it calls or copies poly's parser, printer or
// evaluator. The clauses are executed on the real parseLocation,
// Sequence.AddFeature, Feature.GetSequence and BuildLocationString, and, for
// locations parsed from GenBank text, on the real Parse: an independent writer
// (c02Record) lays the location out in the feature table of a flat-file
// record, broken after commas into lines of at most 58 columns as the format
// has it, and the features Parse returns are asked for their sequences.
// "Written back": BuildLocationString is judged on the structures assembled
// directly and on the structures parseLocation built from the text (the tree
// alone, no cached text), by the strict reader and the evaluator below.
// AddFeature's parent link is also exercised on a history of two sequences: a
// feature that already belongs to one sequence (the value handed to
// A.AddFeature, or the copy taken out of A.Features) is attached to another
// with B.AddFeature and must then read its location against B's bases (class
// feature-moved-between-sequences, under getFeatureSequence/post/eval-structure).

import (
	"errors"
	"fmt"
	"math/rand"
	"runtime/debug"
	"strconv"
	"strings"
	"sync"
	"sync/atomic"
	"testing"

	"github.com/TimothyStiles/poly"
)

// ---------------------------------------------------------------- model ----

// c02Node is an INSDC location expression.
//
//	kind 's'  span n..m, 1-based inclusive, lt = '<' on n, gt = '>' on m
//	kind 'b'  single base n
//	kind 'j'  join(kids...), 2 or more operands
//	kind 'c'  complement(kids[0])
type c02Node struct {
	kind   byte
	n, m   int
	lt, gt bool
	kids   []*c02Node
}

type c02Partial struct{ lt, gt bool }

func c02Print(x *c02Node) string {
	var b strings.Builder
	c02PrintTo(&b, x)
	return b.String()
}

func c02PrintTo(b *strings.Builder, x *c02Node) {
	switch x.kind {
	case 's':
		if x.lt {
			b.WriteByte('<')
		}
		b.WriteString(strconv.Itoa(x.n))
		b.WriteString("..")
		if x.gt {
			b.WriteByte('>')
		}
		b.WriteString(strconv.Itoa(x.m))
	case 'b':
		b.WriteString(strconv.Itoa(x.n))
	case 'j':
		b.WriteString("join(")
		for i, k := range x.kids {
			if i > 0 {
				b.WriteByte(',')
			}
			c02PrintTo(b, k)
		}
		b.WriteByte(')')
	case 'c':
		b.WriteString("complement(")
		c02PrintTo(b, x.kids[0])
		b.WriteByte(')')
	}
}

// c02Read is a strict reader for the INSDC location grammar restricted to the
// property's operators:
//
//	loc  := span | base | "complement(" loc ")" | "join(" loc ("," loc)+ ")"
//	span := ["<"] int ".." [">"] int
//	base := int                      int := [1-9][0-9]*
//
// Anything else (trailing text, '>' after the number, empty operand, a join
// of one operand) is a syntax error.
func c02Read(text string) (*c02Node, error) {
	pos := 0
	x, err := c02ReadLoc(text, &pos)
	if err != nil {
		return nil, err
	}
	if pos != len(text) {
		return nil, fmt.Errorf("unexpected %q at offset %d", text[pos:], pos)
	}
	return x, nil
}

func c02ReadInt(text string, pos *int) (int, error) {
	start := *pos
	v := 0
	for *pos < len(text) && text[*pos] >= '0' && text[*pos] <= '9' {
		if v > 1<<40 {
			return 0, errors.New("number too large")
		}
		v = v*10 + int(text[*pos]-'0')
		*pos++
	}
	if *pos == start {
		return 0, fmt.Errorf("number expected at offset %d", start)
	}
	if text[start] == '0' {
		return 0, fmt.Errorf("position with leading zero or zero at offset %d", start)
	}
	return v, nil
}

func c02HasPrefixAt(text string, pos int, p string) bool {
	return len(text)-pos >= len(p) && text[pos:pos+len(p)] == p
}

func c02ReadLoc(text string, pos *int) (*c02Node, error) {
	switch {
	case c02HasPrefixAt(text, *pos, "complement("):
		*pos += len("complement(")
		k, err := c02ReadLoc(text, pos)
		if err != nil {
			return nil, err
		}
		if !c02HasPrefixAt(text, *pos, ")") {
			return nil, fmt.Errorf("')' expected at offset %d", *pos)
		}
		*pos++
		return &c02Node{kind: 'c', kids: []*c02Node{k}}, nil
	case c02HasPrefixAt(text, *pos, "join("):
		*pos += len("join(")
		x := &c02Node{kind: 'j'}
		for {
			k, err := c02ReadLoc(text, pos)
			if err != nil {
				return nil, err
			}
			x.kids = append(x.kids, k)
			if c02HasPrefixAt(text, *pos, ",") {
				*pos++
				continue
			}
			break
		}
		if !c02HasPrefixAt(text, *pos, ")") {
			return nil, fmt.Errorf("')' expected at offset %d", *pos)
		}
		*pos++
		if len(x.kids) < 2 {
			return nil, errors.New("join of fewer than two operands")
		}
		return x, nil
	}
	x := &c02Node{}
	if c02HasPrefixAt(text, *pos, "<") {
		x.lt = true
		*pos++
	}
	n, err := c02ReadInt(text, pos)
	if err != nil {
		return nil, err
	}
	x.n = n
	if !c02HasPrefixAt(text, *pos, "..") {
		if x.lt {
			return nil, fmt.Errorf("'..' expected at offset %d", *pos)
		}
		x.kind = 'b'
		x.m = n
		return x, nil
	}
	*pos += 2
	x.kind = 's'
	if c02HasPrefixAt(text, *pos, ">") {
		x.gt = true
		*pos++
	}
	m, err := c02ReadInt(text, pos)
	if err != nil {
		return nil, err
	}
	x.m = m
	return x, nil
}

func c02RC(s string) string {
	out := make([]byte, len(s))
	for i := 0; i < len(s); i++ {
		var c byte
		switch s[i] {
		case 'A':
			c = 'T'
		case 'C':
			c = 'G'
		case 'G':
			c = 'C'
		case 'T':
			c = 'A'
		default:
			c = '?'
		}
		out[len(s)-1-i] = c
	}
	return string(out)
}

// c02EvalNode computes the bases a location denotes on parent: n..m the
// 1-based inclusive span, n the single base, join the concatenation in order,
// complement the reverse complement; partial markers change nothing.
func c02EvalNode(parent string, x *c02Node) (string, error) {
	switch x.kind {
	case 's', 'b':
		if x.n < 1 || x.m < x.n || x.m > len(parent) {
			return "", fmt.Errorf("position %d..%d outside 1..%d", x.n, x.m, len(parent))
		}
		return parent[x.n-1 : x.m], nil
	case 'j':
		var b strings.Builder
		for _, k := range x.kids {
			s, err := c02EvalNode(parent, k)
			if err != nil {
				return "", err
			}
			b.WriteString(s)
		}
		return b.String(), nil
	case 'c':
		s, err := c02EvalNode(parent, x.kids[0])
		if err != nil {
			return "", err
		}
		return c02RC(s), nil
	}
	return "", errors.New("bad node")
}

// c02Eval is the independent text evaluator: read t as INSDC, give the bases.
func c02Eval(parent, text string) (string, error) {
	x, err := c02Read(text)
	if err != nil {
		return "", err
	}
	return c02EvalNode(parent, x)
}

// c02Partials lists the partial markers of the leaves in textual order.
func c02Partials(x *c02Node, out []c02Partial) []c02Partial {
	if x.kind == 's' || x.kind == 'b' {
		return append(out, c02Partial{x.lt, x.gt})
	}
	for _, k := range x.kids {
		out = c02Partials(k, out)
	}
	return out
}

func c02PartialString(ps []c02Partial) string {
	var b strings.Builder
	for _, p := range ps {
		switch {
		case p.lt && p.gt:
			b.WriteString("[<>]")
		case p.lt:
			b.WriteString("[<]")
		case p.gt:
			b.WriteString("[>]")
		default:
			b.WriteString("[]")
		}
	}
	return b.String()
}

func c02Ops(x *c02Node) int {
	n := 0
	if x.kind == 'j' || x.kind == 'c' {
		n = 1
	}
	for _, k := range x.kids {
		n += c02Ops(k)
	}
	return n
}

func c02HasMarker(x *c02Node) bool {
	if x.lt || x.gt {
		return true
	}
	for _, k := range x.kids {
		if c02HasMarker(k) {
			return true
		}
	}
	return false
}

// c02ToLoc assembles the structure for a tree directly, in the convention the
// code uses: the Complement flag on a node means complement of that node; a
// join is Join plus SubLocations; a leaf is Start (0-based) .. End
// (exclusive), so a single base n is Start n-1, End n; partial flags sit on
// the leaf that carries the marker. complement applied directly to a
// complement has no representation in that convention (ok = false).
func c02ToLoc(x *c02Node) (loc poly.Location, ok bool) {
	switch x.kind {
	case 's', 'b':
		return poly.Location{Start: x.n - 1, End: x.m, FivePrimePartial: x.lt, ThreePrimePartial: x.gt}, true
	case 'j':
		loc.Join = true
		for _, k := range x.kids {
			s, ok := c02ToLoc(k)
			if !ok {
				return loc, false
			}
			loc.SubLocations = append(loc.SubLocations, s)
		}
		return loc, true
	case 'c':
		if x.kids[0].kind == 'c' {
			return loc, false
		}
		s, ok := c02ToLoc(x.kids[0])
		if !ok {
			return loc, false
		}
		s.Complement = true
		return s, true
	}
	return loc, false
}

// c02LocPartials lists the partial flags at the leaves of a structure.
func c02LocPartials(l poly.Location, out []c02Partial) []c02Partial {
	if len(l.SubLocations) == 0 {
		return append(out, c02Partial{l.FivePrimePartial, l.ThreePrimePartial})
	}
	for _, s := range l.SubLocations {
		out = c02LocPartials(s, out)
	}
	return out
}

func c02SamePartials(a, b []c02Partial) bool {
	if len(a) != len(b) {
		return false
	}
	for i := range a {
		if a[i] != b[i] {
			return false
		}
	}
	return true
}

// ------------------------------------------------------ clause checks ----

func c02Try(f func()) (msg string) {
	defer func() {
		if r := recover(); r != nil {
			msg = fmt.Sprintf("panic: %v", r)
		}
	}()
	f()
	return ""
}

// c02GetSequence puts a feature with the location into a Sequence holding
// parent (through AddFeature) and asks the stored feature for its sequence.
func c02GetSequence(parent string, loc poly.Location) string {
	seq := poly.Sequence{Sequence: parent}
	f := poly.Feature{Type: "misc_feature", SequenceLocation: loc}
	seq.AddFeature(&f)
	return seq.Features[len(seq.Features)-1].GetSequence()
}

// c02MovedClass names the history in which a feature that already belongs to
// one sequence is attached to another.
const c02MovedClass = "feature-moved-between-sequences"

// c02MovedCheck judges getFeatureSequence/post/eval-structure on a history:
// the structure assembled for x is put on a Sequence holding parentA with
// A.AddFeature, then the same annotation is put on a Sequence holding parentB
// with B.AddFeature: either the Feature value that was handed to A.AddFeature
// (viaTable = false) or the copy taken out of A.Features (viaTable = true), as
// when annotations are carried over from one record to another. The feature
// stored in B must report the INSDC reading of x on parentB, and the one that
// stays in A the reading on parentA. applicable = x has a structure and lies
// inside both parents, and the plain (one sequence) reading on A is right (if
// not, that is the business of the checks above, not of the history);
// differs = the readings on the two parents are different texts.
func c02MovedCheck(parentA, parentB string, x *c02Node, viaTable bool) (applicable, differs bool, problem string) {
	loc, ok := c02ToLoc(x)
	if !ok {
		return false, false, ""
	}
	wantA, errA := c02EvalNode(parentA, x)
	wantB, errB := c02EvalNode(parentB, x)
	if errA != nil || errB != nil {
		return false, false, ""
	}
	var gotA, gotB, stillA string
	step := "A.AddFeature"
	if p := c02Try(func() {
		first := poly.Sequence{Sequence: parentA}
		second := poly.Sequence{Sequence: parentB}
		f := poly.Feature{Type: "misc_feature", SequenceLocation: loc}
		first.AddFeature(&f)
		step = "A.Features[0].GetSequence"
		gotA = first.Features[0].GetSequence()
		carried := &f
		if viaTable {
			c := first.Features[0]
			carried = &c
		}
		step = "B.AddFeature"
		second.AddFeature(carried)
		step = "B.Features[0].GetSequence"
		gotB = second.Features[len(second.Features)-1].GetSequence()
		step = "A.Features[0].GetSequence after B.AddFeature"
		stillA = first.Features[0].GetSequence()
	}); p != "" {
		if step == "A.AddFeature" || step == "A.Features[0].GetSequence" {
			return false, false, ""
		}
		return true, wantA != wantB, step + ": " + p
	}
	if gotA != wantA {
		return false, false, ""
	}
	if gotB != wantB {
		problem = "B.Features[0].GetSequence() = " + c02Clip(gotB) + ", the location read on B's bases = " + c02Clip(wantB)
		if gotB == wantA {
			problem += " (what was returned is the reading on A's bases)"
		}
		return true, wantA != wantB, problem
	}
	if stillA != wantA {
		return true, wantA != wantB, "after B.AddFeature the feature that stays in A reports " + c02Clip(stillA) + ", the location read on A's bases = " + c02Clip(wantA)
	}
	return true, wantA != wantB, ""
}

// checkMoved runs the history on one expression and two parents and records it
// under the structure clause.
func (r *c02Runs) checkMoved(parentA, parentB string, x *c02Node, viaTable bool) {
	ok, differs, problem := c02MovedCheck(parentA, parentB, x, viaTable)
	if !ok {
		return
	}
	how := "value handed to A.AddFeature"
	if viaTable {
		how = "copy out of A.Features"
	}
	text := c02Print(x)
	v := r.structEval
	v.Case("moved "+strconv.Itoa(len(parentA))+">"+strconv.Itoa(len(parentB))+" "+how+":"+text, differs)
	if problem == "" || r.saturated(v, c02MovedClass) {
		return
	}
	v.Fail(c02MovedClass, "parent A="+c02Clip(parentA)+" parent B="+c02Clip(parentB)+" location="+text+" ; A.AddFeature(&f), then B.AddFeature of the "+how, problem)
}

// c02MovedShapes runs the history over every expression shape with at most
// maxOps operators on the 6-base parents: leaves from the 27 unmarked forms
// while 27^leaves <= limit, else from the first 12/8/6/4 of the reduced set.
func c02MovedShapes(r *c02Runs, parentA string, parentsB []string, maxOps, limit int, alphas [][]c02Leaf) (cases int) {
	for ops := 0; ops <= maxOps; ops++ {
		for _, s := range c02Shapes(ops, 3) {
			x := c02Clone(s)
			leaves := c02Leaves(x, nil)
			alpha := alphas[len(alphas)-1]
			for _, a := range alphas {
				if c02Pow(len(a), len(leaves)) <= limit {
					alpha = a
					break
				}
			}
			idx := make([]int, len(leaves))
			for {
				for i, l := range leaves {
					alpha[idx[i]].set(l)
				}
				for _, pb := range parentsB {
					for _, viaTable := range []bool{false, true} {
						r.checkMoved(parentA, pb, x, viaTable)
						cases++
					}
				}
				i := len(idx) - 1
				for ; i >= 0; i-- {
					idx[i]++
					if idx[i] < len(alpha) {
						break
					}
					idx[i] = 0
				}
				if i < 0 {
					break
				}
			}
		}
	}
	return cases
}

// c02MaxPos is the largest position a location names.
func c02MaxPos(x *c02Node) int {
	m := x.m
	if x.n > m {
		m = x.n
	}
	for _, k := range x.kids {
		if km := c02MaxPos(k); km > m {
			m = km
		}
	}
	return m
}

// c02ParseCheck runs parseLocation once on the printed expression and judges
// both parser clauses. evalProblem is "" when post/eval holds; the partial
// clause is evaluable only where the parser returns a structure with the same
// number of leaves as the text (anything else is a post/eval failure).
// Problem texts are short unless detail is set.
func c02ParseCheck(parent string, x *c02Node, detail bool) (evalProblem string, partialEvaluable bool, partialProblem string) {
	evalProblem, partialEvaluable, partialProblem, _, _ = c02ParseCheckLoc(parent, x, detail)
	return
}

// c02ParseCheckLoc is c02ParseCheck that also hands out the structure
// parseLocation returned (parsed = false when it panicked).
func c02ParseCheckLoc(parent string, x *c02Node, detail bool) (evalProblem string, partialEvaluable bool, partialProblem string, loc poly.Location, parsed bool) {
	text := c02Print(x)
	want, err := c02Eval(parent, text)
	if err != nil {
		return "HARNESS: oracle rejects its own text " + text + ": " + err.Error(), false, "", loc, false
	}
	if p := c02Try(func() { loc = parseLocation(text) }); p != "" {
		return "parseLocation: " + p, false, "", loc, false
	}
	parsed = true
	wantP := c02Partials(x, nil)
	gotP := c02LocPartials(loc, nil)
	if len(gotP) == len(wantP) {
		partialEvaluable = true
		if !c02SamePartials(gotP, wantP) {
			partialProblem = "partial flags at the leaves " + c02PartialString(gotP) + ", markers in the text " + c02PartialString(wantP)
		}
	}
	var got string
	if p := c02Try(func() { got = c02GetSequence(parent, loc) }); p != "" {
		evalProblem = "GetSequence on the parsed location: " + p
		if detail {
			evalProblem += "; parsed as " + c02LocString(loc)
		}
		return
	}
	if got != want {
		evalProblem = "differs"
		if detail {
			back := ""
			c02Try(func() { back = BuildLocationString(loc) })
			evalProblem = "GetSequence = " + c02Clip(got) + ", INSDC reading = " + c02Clip(want) + "; parsed as " + c02LocString(loc) + ", which prints back as " + c02Clip(back)
		}
	}
	return
}

// c02StructCheck judges getFeatureSequence/post/eval-structure and
// BuildLocationString/post/insdc on the structure assembled for x.
func c02StructCheck(parent string, x *c02Node) (representable bool, evalProblem, buildProblem string) {
	loc, ok := c02ToLoc(x)
	if !ok {
		return false, "", ""
	}
	want, err := c02EvalNode(parent, x)
	if err != nil {
		return true, "HARNESS: " + err.Error(), ""
	}
	var got string
	if p := c02Try(func() { got = c02GetSequence(parent, loc) }); p != "" {
		evalProblem = "GetSequence: " + p
	} else if got != want {
		evalProblem = "GetSequence = " + c02Clip(got) + ", independent evaluation = " + c02Clip(want)
	}

	var text string
	if p := c02Try(func() { text = BuildLocationString(loc) }); p != "" {
		return true, evalProblem, "BuildLocationString: " + p
	}
	back, err := c02Read(text)
	if err != nil {
		return true, evalProblem, "printed " + c02Clip(text) + " is not INSDC syntax: " + err.Error()
	}
	gotB, err := c02EvalNode(parent, back)
	if err != nil {
		return true, evalProblem, "printed " + c02Clip(text) + " does not denote bases of the parent: " + err.Error()
	}
	if gotB != want {
		return true, evalProblem, "printed " + c02Clip(text) + " denotes " + c02Clip(gotB) + ", structure denotes " + c02Clip(want)
	}
	if gp, wp := c02Partials(back, nil), c02Partials(x, nil); !c02SamePartials(gp, wp) {
		return true, evalProblem, "printed " + c02Clip(text) + " has partial ends " + c02PartialString(gp) + ", structure has " + c02PartialString(wp)
	}
	return true, evalProblem, ""
}

// c02BackCheck judges BuildLocationString/post/insdc on a structure that came
// out of the parser: loc = parseLocation(c02Print(x)), written back from the
// structure alone (no cached text is involved: BuildLocationString sees only
// the tree). The text must be accepted by the strict independent reader and
// denote the bases and the partial ends of the text that was parsed.
func c02BackCheck(parent string, x *c02Node, loc poly.Location) string {
	want, err := c02EvalNode(parent, x)
	if err != nil {
		return "HARNESS: " + err.Error()
	}
	var text string
	if p := c02Try(func() { text = BuildLocationString(loc) }); p != "" {
		return "BuildLocationString of the parsed structure: " + p
	}
	back, err := c02Read(text)
	if err != nil {
		return "written back as " + c02Clip(text) + ", which is not INSDC syntax: " + err.Error()
	}
	gotB, err := c02EvalNode(parent, back)
	if err != nil {
		return "written back as " + c02Clip(text) + ", which does not denote bases of the parent: " + err.Error()
	}
	if gotB != want {
		return "written back as " + c02Clip(text) + ", which denotes " + c02Clip(gotB) + "; the text parsed denotes " + c02Clip(want)
	}
	if gp, wp := c02Partials(back, nil), c02Partials(x, nil); !c02SamePartials(gp, wp) {
		return "written back as " + c02Clip(text) + " with partial ends " + c02PartialString(gp) + "; the text parsed has " + c02PartialString(wp)
	}
	return ""
}

// c02ParseBack: parse the text of x, write the structure back, judge the text.
// "" also when parseLocation panics (that is post/eval's business).
func c02ParseBack(parent string, x *c02Node) string {
	var loc poly.Location
	if p := c02Try(func() { loc = parseLocation(c02Print(x)) }); p != "" {
		return ""
	}
	return c02BackCheck(parent, x, loc)
}

func c02HasJoinBelow(x *c02Node) bool {
	for _, k := range x.kids {
		if k.kind == 'j' || c02HasJoinBelow(k) {
			return true
		}
	}
	return false
}

// c02BackShape names a smallest expression whose parsed structure is written
// back wrongly. Where the printer already fails on the structure assembled
// directly for the same expression it is the printer's defect and carries the
// printer's class (c02Shape); otherwise the defect lies in what the parser
// built, and the class says so: a join with another join among or below its
// operands is nested-join-written-back, anything else <shape>-written-back.
func c02BackShape(parent string, x *c02Node, memo map[string]bool) string {
	k := "prnt" + c02Print(x)
	printerFails, known := memo[k]
	if !known {
		ok, _, buildP := c02StructCheck(parent, x)
		printerFails = ok && buildP != ""
		if memo != nil && len(memo) < 50000 {
			memo[k] = printerFails
		}
	}
	if printerFails {
		return c02BuildShape(x)
	}
	if x.kind == 'j' && c02HasJoinBelow(x) {
		return "nested-join-written-back"
	}
	return c02Shape(x) + "-written-back"
}

func c02Clip(s string) string {
	if len(s) > 80 {
		return s[:80] + "...(" + strconv.Itoa(len(s)) + " chars)"
	}
	return s
}

func c02LocString(l poly.Location) string {
	s := fmt.Sprintf("%+v", l)
	if len(s) > 240 {
		s = s[:240] + "..."
	}
	return s
}

// c02Minimal finds the smallest failing sub-expressions of a failing
// expression: those that fail while every operand of theirs passes. Each
// sub-expression of a location is itself a location in the domain.
func c02Minimal(x *c02Node, fails func(*c02Node) bool, out []*c02Node) []*c02Node {
	if !fails(x) {
		return out
	}
	n := len(out)
	for _, k := range x.kids {
		out = c02Minimal(k, fails, out)
	}
	if len(out) == n {
		out = append(out, x)
	}
	return out
}

// c02Shape names the shape of a minimal failing expression. One name per
// distinct way of being built, never a size or a position.
func c02Shape(x *c02Node) string {
	switch x.kind {
	case 'b':
		return "single-base"
	case 's':
		if x.gt {
			return "three-prime-marker-placement"
		}
		if x.lt {
			return "five-prime-marker"
		}
		return "span"
	case 'c':
		if x.kids[0].kind == 'c' {
			return "complement-of-complement"
		}
		return "complement"
	case 'j':
		first := -1
		for i, k := range x.kids {
			if k.kind == 'j' || k.kind == 'c' {
				first = i
				break
			}
		}
		switch {
		case first < 0:
			return "join-of-plain-operands"
		case first > 0:
			// a span or single base comes before the first parenthesised operand
			return "join-span-then-paren"
		case len(x.kids) >= 3:
			// first operand parenthesised, two or more operands after it
			return "join-3plus-paren-operands"
		default:
			return "join-paren-then-one-operand"
		}
	}
	return "unknown"
}

// c02BuildShape is c02Shape for the printer clause, except that a span with a 3' marker is
// named by HOW the printer fails on it: the one known way (the marker appended after the end
// number, "n..m>" where INSDC writes "n..>m", everything else right) keeps the class
// three-prime-marker-placement; any other wrong text for such a span (marker lost, doubled,
// other coordinates) is three-prime-marker-span-miswritten, so that a new defect on the same
// shape is not taken for the recorded one.
func c02BuildShape(x *c02Node) string {
	if x.kind != 's' || !x.gt {
		return c02Shape(x)
	}
	loc, ok := c02ToLoc(x)
	if !ok {
		return c02Shape(x)
	}
	var text string
	if p := c02Try(func() { text = BuildLocationString(loc) }); p != "" {
		return "three-prime-marker-span-miswritten"
	}
	knownForm := strconv.Itoa(x.n) + ".." + strconv.Itoa(x.m) + ">"
	if x.lt {
		knownForm = "<" + knownForm
	}
	if text == knownForm {
		return "three-prime-marker-placement"
	}
	return "three-prime-marker-span-miswritten"
}

type c02Runs struct {
	parseEval, parsePartial, structEval, build, textEval *verifRun
	textFailures                                         int64
	harness                                              sync.Once
	harnessMsg                                           string
	mu                                                   sync.Mutex
	count                                                map[string]int
}

// report classifies a failing expression by its smallest failing parts and
// records one failure per class among them. problem(y, detail) is the clause's
// verdict on a sub-expression.
func (r *c02Runs) report(v *verifRun, parent string, x *c02Node, memo map[string]bool, problem func(*c02Node, bool) string) {
	r.reportAs(v, v.Clause[len(v.Clause)-4:], "location=", c02Shape, parent, x, memo, problem)
}

// reportAs: tag keeps the remembered verdicts of two checks under one clause
// apart, label introduces the expression in the recorded input, shape names
// the class of a smallest failing part.
func (r *c02Runs) reportAs(v *verifRun, tag, label string, shape func(*c02Node) string, parent string, x *c02Node, memo map[string]bool, problem func(*c02Node, bool) string) {
	mins := c02Minimal(x, func(y *c02Node) bool {
		if y == x {
			return true // the caller has just seen x fail (the checks are deterministic)
		}
		// verdicts on parts recur from one expression of a job to the next: remember them
		if memo == nil {
			return problem(y, false) != ""
		}
		k := tag + c02Print(y)
		if bad, ok := memo[k]; ok {
			return bad
		}
		bad := problem(y, false) != ""
		if len(memo) < 50000 {
			memo[k] = bad
		}
		return bad
	}, nil)
	full := ""
	seen := map[string]bool{}
	for _, m := range mins {
		class := shape(m)
		if seen[class] {
			continue
		}
		seen[class] = true
		if r.saturated(v, class) {
			continue
		}
		p := problem(m, true)
		if strings.HasPrefix(p, "HARNESS") {
			r.harness.Do(func() { r.harnessMsg = p })
			continue
		}
		if full == "" {
			full = c02Print(x)
		}
		in := c02Print(m)
		if in != full {
			p += " (smallest failing part of " + c02Clip(full) + ")"
		}
		v.Fail(class, "parent="+c02Clip(parent)+" "+label+in, p)
	}
}

// saturated says whether enough examples of a class are already recorded (the
// record keeps three); it only saves the work of wording further ones.
func (r *c02Runs) saturated(v *verifRun, class string) bool {
	k := v.Clause + "|" + class
	r.mu.Lock()
	defer r.mu.Unlock()
	r.count[k]++
	return r.count[k] > 3
}

// check runs the four clauses on one expression.
func (r *c02Runs) check(parent string, x *c02Node, memo map[string]bool) {
	text := c02Print(x)
	key := text
	if len(parent) != 6 {
		key = strconv.Itoa(len(parent)) + ":" + text
	}
	ops := c02Ops(x)
	marker := c02HasMarker(x)

	evalP, partialOK, partialP, parsedLoc, parsed := c02ParseCheckLoc(parent, x, false)
	r.parseEval.Case(key, ops > 0 || marker || x.kind == 'b')
	if evalP != "" {
		r.report(r.parseEval, parent, x, memo, func(y *c02Node, d bool) string { p, _, _ := c02ParseCheck(parent, y, d); return p })
	}
	if partialOK {
		r.parsePartial.Case(key, marker)
		if partialP != "" {
			r.report(r.parsePartial, parent, x, memo, func(y *c02Node, d bool) string { _, _, p := c02ParseCheck(parent, y, d); return p })
		}
	}

	ok, evalS, buildS := c02StructCheck(parent, x)
	if ok {
		r.structEval.Case(key, ops > 0)
		if evalS != "" {
			r.report(r.structEval, parent, x, memo, func(y *c02Node, d bool) string { _, p, _ := c02StructCheck(parent, y); return p })
		}
	}
	// one case of the printer clause per expression: written back from the
	// structure assembled directly (where it has one) and from the structure the
	// parser built from the text (where the parser returns)
	if ok || parsed {
		r.build.Case(key, ops > 0 || marker)
	}
	if ok && buildS != "" {
		r.reportAs(r.build, "nsdc", "location=", c02BuildShape, parent, x, memo, func(y *c02Node, d bool) string { _, _, p := c02StructCheck(parent, y); return p })
	}
	if parsed && c02BackCheck(parent, x, parsedLoc) != "" {
		r.reportAs(r.build, "back", "parsed from text, then written back: location=", func(y *c02Node) string { return c02BackShape(parent, y, memo) },
			parent, x, memo, func(y *c02Node, d bool) string { return c02ParseBack(parent, y) })
	}
}

// ------------------------------------------------------ GenBank text ----

// c02LocCols is the width of the location field of a feature table line
// (columns 22-79).
const c02LocCols = 58

// c02WrapLoc lays a location text out as the flat file does: broken after
// commas (at any nesting depth), as many pieces on a line as fit in cols
// columns. ok = false when a comma-free piece is longer than the field.
func c02WrapLoc(text string, cols int) (lines []string, ok bool) {
	cur, start := "", 0
	for i := 0; i < len(text); i++ {
		if text[i] != ',' && i != len(text)-1 {
			continue
		}
		piece := text[start : i+1]
		start = i + 1
		if len(piece) > cols {
			return nil, false
		}
		if cur != "" && len(cur)+len(piece) > cols {
			lines = append(lines, cur)
			cur = ""
		}
		cur += piece
	}
	return append(lines, cur), true
}

type c02TextFeat struct {
	key   string
	lines []string // location, line by line
}

// c02Record writes a flat-file record (NCBI layout: 12-column keyword field,
// feature key in column 6, location and qualifiers in column 22, ORIGIN rows
// of 60 lower-case letters in groups of 10, // terminator) holding the parent
// and the features, each with one /label qualifier.
func c02Record(parent string, feats []c02TextFeat) string {
	var b strings.Builder
	b.Grow(len(parent)*5/4 + 1024)
	b.WriteString(fmt.Sprintf("LOCUS       %-16s %11d bp    %-6s  %-8s %s %s\n", "c02rec", len(parent), "DNA", "linear", "UNA", "01-JAN-2000"))
	b.WriteString("DEFINITION  location test record.\nACCESSION   C02\nVERSION     C02.1\nKEYWORDS    .\n")
	b.WriteString("SOURCE      synthetic construct\n  ORGANISM  synthetic construct\n")
	b.WriteString("FEATURES             Location/Qualifiers\n")
	const indent = "                     " // 21 blanks
	for fi, f := range feats {
		for i, ln := range f.lines {
			if i == 0 {
				b.WriteString(fmt.Sprintf("     %-16s%s\n", f.key, ln))
			} else {
				b.WriteString(indent + ln + "\n")
			}
		}
		b.WriteString(indent + "/label=\"f" + strconv.Itoa(fi+1) + "\"\n")
	}
	b.WriteString("ORIGIN\n")
	low := strings.ToLower(parent)
	for i := 0; i < len(low); i += 60 {
		num := strconv.Itoa(i + 1)
		b.WriteString("         "[:9-len(num)] + num)
		for j := i; j < i+60 && j < len(low); j += 10 {
			e := j + 10
			if e > len(low) {
				e = len(low)
			}
			b.WriteByte(' ')
			b.WriteString(low[j:e])
		}
		b.WriteByte('\n')
	}
	b.WriteString("//\n")
	return b.String()
}

// c02TextCheck judges Parse/post/location-eval on the record that holds x as
// its first feature, laid out on lines of at most cols columns, and a plain
// span as its second. lines = 0 when x cannot be laid out (a comma-free piece
// longer than the field); such a case is outside the domain.
func c02TextCheck(parent string, x *c02Node, cols int, detail bool) (lines int, problem string) {
	text := c02Print(x)
	want, err := c02Eval(parent, text)
	if err != nil {
		return 1, "HARNESS: oracle rejects its own text " + text + ": " + err.Error()
	}
	locLines, ok := c02WrapLoc(text, cols)
	if !ok {
		return 0, ""
	}
	m := 3
	if m > len(parent) {
		m = len(parent)
	}
	after := "1.." + strconv.Itoa(m)
	wants := []string{strings.ToLower(want), strings.ToLower(parent[:m])}
	rec := c02Record(parent, []c02TextFeat{{"misc_feature", locLines}, {"misc_feature", []string{after}}})
	var seq poly.Sequence
	if p := c02Try(func() { seq = Parse([]byte(rec)) }); p != "" {
		return len(locLines), "Parse of the record: " + p
	}
	for i, w := range wants {
		if i >= len(seq.Features) {
			problem = fmt.Sprintf("Parse returns %d feature(s), the record states 2", len(seq.Features))
			if detail && len(seq.Features) > 0 {
				problem += "; location of feature 1 read as " + c02Clip(seq.Features[0].GbkLocationString)
			}
			return len(locLines), problem
		}
		var got string
		if p := c02Try(func() { got = seq.Features[i].GetSequence() }); p != "" {
			return len(locLines), fmt.Sprintf("GetSequence of feature %d: %s", i+1, p)
		}
		if got != w {
			problem = fmt.Sprintf("feature %d differs", i+1)
			if detail {
				problem = fmt.Sprintf("feature %d: GetSequence = %s, INSDC reading = %s; location read as %s", i+1, c02Clip(got), c02Clip(w), c02Clip(seq.Features[i].GbkLocationString))
			}
			return len(locLines), problem
		}
	}
	if len(seq.Features) != len(wants) {
		return len(locLines), fmt.Sprintf("Parse returns %d features, the record states 2", len(seq.Features))
	}
	return len(locLines), ""
}

// checkText runs the GenBank-text clause on one expression. A failing case is
// reduced to its smallest failing sub-expressions (each laid out in a record
// of its own); where parseLocation alone already misreads such a part the
// class is the shape of the expression, as under parseLocation/post/eval,
// otherwise it is the layout: the number of lines the location takes.
func (r *c02Runs) checkText(parent string, x *c02Node) {
	v := r.textEval
	lines, problem := c02TextCheck(parent, x, c02LocCols, false)
	if lines == 0 {
		return
	}
	text := c02Print(x)
	v.Case(strconv.Itoa(len(parent))+":"+text, lines >= 2)
	if problem == "" {
		return
	}
	if atomic.AddInt64(&r.textFailures, 1) > 64 {
		return // the record keeps three per class; the blame below is costly
	}
	fails := func(y *c02Node) bool { _, p := c02TextCheck(parent, y, c02LocCols, false); return p != "" }
	seen := map[string]bool{}
	for _, m := range c02Minimal(x, fails, nil) {
		n, _ := c02TextCheck(parent, m, c02LocCols, false)
		class := "location-on-one-line"
		if pe, _, _ := c02ParseCheck(parent, m, false); pe != "" {
			class = c02Shape(m)
		} else if n == 2 {
			class = "location-over-two-lines"
		} else if n >= 3 {
			class = "location-over-three-lines" // three or more
		}
		if seen[class] || r.saturated(v, class) {
			continue
		}
		seen[class] = true
		_, p := c02TextCheck(parent, m, c02LocCols, true)
		if strings.HasPrefix(p, "HARNESS") {
			r.harness.Do(func() { r.harnessMsg = p })
			continue
		}
		ll, _ := c02WrapLoc(c02Print(m), c02LocCols)
		in := c02Print(m)
		if in != text {
			p += " (smallest failing part of " + c02Clip(text) + ")"
		}
		v.Fail(class, "parent="+c02Clip(parent)+" location on "+strconv.Itoa(n)+" line(s):\n"+strings.Join(ll, "\n"), p)
	}
}

// c02LongJoins: joins of 2..6 operands whose coordinates have as many digits
// as the parent allows, with plain, complemented and alternating operands and
// as a whole inside complement(): from one line to three and more.
func c02LongJoins(plen int) []*c02Node {
	var out []*c02Node
	for arity := 2; arity <= 6; arity++ {
		for style := 0; style < 4; style++ {
			x := &c02Node{kind: 'j'}
			for i := 0; i < arity; i++ {
				// operand i lies in the top half of the parent
				hi := plen - (arity-1-i)*(plen/20)
				lo := hi - plen/40
				if lo < 1 {
					lo = 1
				}
				if hi < lo {
					hi = lo
				}
				var k *c02Node
				if hi == lo {
					k = &c02Node{kind: 'b', n: lo, m: lo}
				} else {
					k = &c02Node{kind: 's', n: lo, m: hi}
				}
				if style == 1 || (style == 2 && i%2 == 0) {
					k = &c02Node{kind: 'c', kids: []*c02Node{k}}
				}
				x.kids = append(x.kids, k)
			}
			if style == 3 {
				x = &c02Node{kind: 'c', kids: []*c02Node{x}}
			}
			out = append(out, x)
		}
	}
	return out
}

// ------------------------------------------------------- enumeration ----

// c02Shapes gives every expression shape with exactly ops operators, joins of
// 2..maxArity operands; leaves are placeholders.
func c02Shapes(ops, maxArity int) []*c02Node {
	if ops == 0 {
		return []*c02Node{{kind: 's', n: 1, m: 1}}
	}
	var out []*c02Node
	for _, s := range c02Shapes(ops-1, maxArity) {
		out = append(out, &c02Node{kind: 'c', kids: []*c02Node{s}})
	}
	for a := 2; a <= maxArity; a++ {
		// distribute ops-1 operators over a operands
		var rec func(i, left int, kids []*c02Node)
		rec = func(i, left int, kids []*c02Node) {
			if i == a-1 {
				for _, s := range c02Shapes(left, maxArity) {
					all := append(append([]*c02Node{}, kids...), s)
					out = append(out, &c02Node{kind: 'j', kids: all})
				}
				return
			}
			for k := 0; k <= left; k++ {
				for _, s := range c02Shapes(k, maxArity) {
					rec(i+1, left-k, append(append([]*c02Node{}, kids...), s))
				}
			}
		}
		rec(0, ops-1, nil)
	}
	return out
}

func c02Clone(x *c02Node) *c02Node {
	y := *x
	y.kids = nil
	for _, k := range x.kids {
		y.kids = append(y.kids, c02Clone(k))
	}
	return &y
}

func c02Leaves(x *c02Node, out []*c02Node) []*c02Node {
	if x.kind == 's' || x.kind == 'b' {
		return append(out, x)
	}
	for _, k := range x.kids {
		out = c02Leaves(k, out)
	}
	return out
}

type c02Leaf struct {
	kind   byte
	n, m   int
	lt, gt bool
}

func (l c02Leaf) set(x *c02Node) { x.kind, x.n, x.m, x.lt, x.gt = l.kind, l.n, l.m, l.lt, l.gt }

// leaf alphabets on a parent of length 6
func c02AlphaFull(plen int, markers bool) []c02Leaf {
	var out []c02Leaf
	for n := 1; n <= plen; n++ {
		out = append(out, c02Leaf{kind: 'b', n: n, m: n})
	}
	for n := 1; n <= plen; n++ {
		for m := n; m <= plen; m++ {
			out = append(out, c02Leaf{kind: 's', n: n, m: m})
			if markers {
				out = append(out, c02Leaf{kind: 's', n: n, m: m, lt: true},
					c02Leaf{kind: 's', n: n, m: m, gt: true},
					c02Leaf{kind: 's', n: n, m: m, lt: true, gt: true})
			}
		}
	}
	return out
}

func c02AlphaFromText(texts ...string) []c02Leaf {
	var out []c02Leaf
	for _, t := range texts {
		x, err := c02Read(t)
		if err != nil || len(x.kids) > 0 {
			panic("bad leaf " + t)
		}
		out = append(out, c02Leaf{x.kind, x.n, x.m, x.lt, x.gt})
	}
	return out
}

var c02Reduced = []string{"3", "1..2", "<2..4", "5..>6", "2..5", "<1..>6", "1", "6", "4..6", "3..3", "1..>3", "<4..5"}

func c02Pow(a, k int) int {
	p := 1
	for i := 0; i < k; i++ {
		p *= a
		if p > 1<<40 {
			return p
		}
	}
	return p
}

type c02Job struct {
	shape *c02Node
	alpha []c02Leaf
	first int // index into alpha fixed for the first leaf
}

func c02RunJob(r *c02Runs, parent string, j c02Job) {
	x := c02Clone(j.shape)
	leaves := c02Leaves(x, nil)
	idx := make([]int, len(leaves))
	idx[0] = j.first
	memo := map[string]bool{}
	for {
		for i, l := range leaves {
			j.alpha[idx[i]].set(l)
		}
		r.check(parent, x, memo)
		i := len(idx) - 1
		for ; i >= 1; i-- {
			idx[i]++
			if idx[i] < len(j.alpha) {
				break
			}
			idx[i] = 0
		}
		if i < 1 {
			return
		}
	}
}

// ------------------------------------------------------------ random ----

func c02RandParent(rng *rand.Rand, n int) string {
	b := make([]byte, n)
	for i := range b {
		b[i] = "ACGT"[rng.Intn(4)]
	}
	return string(b)
}

func c02RandLeaf(rng *rand.Rand, plen int) *c02Node {
	if rng.Intn(4) == 0 {
		n := 1 + rng.Intn(plen)
		return &c02Node{kind: 'b', n: n, m: n}
	}
	n := 1 + rng.Intn(plen)
	m := n + rng.Intn(plen-n+1)
	if rng.Intn(3) == 0 { // short spans too
		m = n + rng.Intn(plen-n+1)%12
	}
	return &c02Node{kind: 's', n: n, m: m, lt: rng.Intn(5) == 0, gt: rng.Intn(5) == 0}
}

// c02RandTree draws an expression with operators nested at most depth deep.
func c02RandTree(rng *rand.Rand, plen, depth int, root bool) *c02Node {
	if depth == 0 {
		return c02RandLeaf(rng, plen)
	}
	r := rng.Intn(100)
	switch {
	case r < 30 && !root:
		return c02RandLeaf(rng, plen)
	case r < 55:
		return &c02Node{kind: 'c', kids: []*c02Node{c02RandTree(rng, plen, depth-1, false)}}
	default:
		a := 2 + rng.Intn(5)
		x := &c02Node{kind: 'j'}
		for i := 0; i < a; i++ {
			x.kids = append(x.kids, c02RandTree(rng, plen, depth-1, false))
		}
		return x
	}
}

func c02RandLen(rng *rand.Rand) int {
	switch r := rng.Intn(10); {
	case r < 3:
		return 1 + rng.Intn(12)
	case r < 7:
		return 1 + rng.Intn(200)
	default:
		return 1 + rng.Intn(2000)
	}
}

// -------------------------------------------------------------- entry ----

func TestVerifC02(t *testing.T) {
	const parent6 = "ACCTGA" // no span of two or more bases equals the reverse complement of any span (checked below)
	// the distinct-case maps are large and long-lived; collect less often
	defer debug.SetGCPercent(debug.SetGCPercent(200))
	capFull, capCases := 20000, 20000 // bounds on alphabet^leaves: for the complete alphabet, for the others
	nRandom := 40000
	if verifThorough() {
		capFull, capCases = 750000, 100000
		nRandom = 1000000
	}

	movedB := []string{"CAAGTC", "CAAGTCTGG", "CAAG"} // parents a feature is moved to: every base differs from parent6's at the same place
	movedLimit := 2000
	full := c02AlphaFull(6, true)   // 90 leaf forms: 6 single bases, 21 spans x {none,<,>,<>}
	plain := c02AlphaFull(6, false) // 27 leaf forms without markers
	red12 := c02AlphaFromText(c02Reduced...)
	alphas := [][]c02Leaf{full, plain, red12, red12[:8], red12[:6], red12[:4]}

	domain := func(what string) string {
		return what + ". Exhaustive part, 6-base parent " + parent6 + ": all 166 expression shapes with <= 3 operators (complement, join of 2..3 operands, any nesting); " +
			"leaves from all 90 forms (6 single bases; 21 spans n..m, 1<=n<=m<=6, each with no marker, <, >, <>) while 90^leaves <= " + strconv.Itoa(capFull) +
			", else the 27 unmarked forms (27^leaves <= " + strconv.Itoa(capCases) + ") plus a pass over a marked reduced set, else the first 12/8/6/4 of {" + strings.Join(c02Reduced, " ") +
			"}: complete up to " + c02FullUpTo(capFull, capCases) + " leaves, beyond that complete in shape, restricted in leaf values, markers sampled. " +
			"Random part: " + strconv.Itoa(nRandom) + " seeded trees, operators nested to depth 4, joins of 2..6 operands, single bases, spans, optional markers, " +
			"ACGT parents of length 1..2000 (joins of 4..6 operands only here)"
	}
	r := &c02Runs{
		count: map[string]int{},
		parseEval: newVerifRun("C02", "io/genbank.parseLocation/post/eval",
			domain("GetSequence of a feature with SequenceLocation = parseLocation(t), added with AddFeature to a Sequence holding the parent, equals the independent INSDC evaluation c02Eval(parent, t), no panic; non-trivial = t has an operator, a marker or a single base")),
		parsePartial: newVerifRun("C02", "io/genbank.parseLocation/post/partial",
			domain("FivePrimePartial/ThreePrimePartial at the leaves of parseLocation(t), in order, equal the < and > markers of the spans of t; evaluated where parseLocation returns a structure with as many leaves as t (panics and lost operands count under post/eval only); non-trivial = t has a marker")),
		structEval: newVerifRun("C02", "poly.getFeatureSequence/post/eval-structure",
			domain("structure assembled directly as poly.Location (Complement flag = complement of that node, Join + SubLocations, leaf Start 0-based .. End exclusive, partial flags on leaves); GetSequence after AddFeature equals the independent evaluation; complement applied directly to a complement has no form in that convention and is left out; non-trivial = has an operator. "+
				"Also a history of two sequences (class "+c02MovedClass+"): the structure is put on a Sequence holding parent A with A.AddFeature, then the same annotation is attached to a Sequence holding parent B with B.AddFeature, once as the Feature value that was handed to A.AddFeature and once as the copy taken out of A.Features; demanded: B.Features[0].GetSequence() equals the independent evaluation on B's bases and A.Features[0].GetSequence() afterwards still the one on A's bases. "+
				"Exhaustively for every expression shape with <= 2 operators on A = "+parent6+" and B in {"+strings.Join(movedB, ", ")+"} (same length with every base different, longer, shorter; only locations inside both parents), leaves from the 27 unmarked forms or the first 12/8/6/4 of the reduced set so that alphabet^leaves <= "+strconv.Itoa(movedLimit)+"; and for every tree of the random part with a second seeded ACGT parent B, in one half of the cases of A's length, else of a length drawn between the largest position the location names and 2000, alternately the value handed over and the copy out of the table; such a case is keyed 'moved ...' and is non-trivial when the readings on A and B differ")),
		build: newVerifRun("C02", "io/genbank.BuildLocationString/post/insdc",
			domain("BuildLocationString of the same structures is accepted by the strict independent INSDC reader and denotes the same bases and the same partial ends (< and > per span); complement of complement left out as above; non-trivial = has an operator or a marker. "+
				"Also, for every expression t of the domain (complement of complement included, nested joins and complements to depth 4 in the random part, every nesting of <= 3 operators in the exhaustive part), the structure parseLocation(t) written back with BuildLocationString (the tree alone, no cached text): that text must be accepted by the same reader and denote the bases and the partial ends of t (the notation may differ: a single base n may come back as n..n, complement(complement(e)) as e); evaluated where parseLocation returns; one case per expression, judged both ways; "+
				"a failure is named like the printer's when the printer also fails on the directly assembled structure of the smallest failing part, else nested-join-written-back (a join with a join among or below its operands) or <shape>-written-back")),
	}
	textParents := []int{9, 99, 999, 2000}
	r.textEval = newVerifRun("C02", "io/genbank.Parse/post/location-eval",
		"location parsed from GenBank text: an independent writer lays out a flat-file record (LOCUS, DEFINITION .. ORGANISM, feature table with key in column 6 and location in column 22, ORIGIN rows of 60 lower-case letters, //) "+
			"with the location t as its first feature, broken after commas (at any depth) into lines of at most 58 columns (columns 22-79), as many lines as that takes (one to three for the long joins below, up to dozens for the nested joins of the random part), followed by a second feature 1..3 (1..n on a shorter parent), each with one /label qualifier; "+
			"demanded: Parse returns both features, no panic, and GetSequence of each equals the independent INSDC evaluation c02Eval(parent, t) in lower case; "+
			"locations with a comma-free piece longer than 58 columns are left out. Domain: joins of 2..6 operands with coordinates of as many digits as the parent has, operands all plain / all complement() / alternating / the join inside complement(), on parents of length {9,99,999,2000} (1 to 3 and more lines), "+
			"plus every tree of the random part below ("+strconv.Itoa(nRandom)+" seeded trees, operators nested to depth 4, joins of 2..6 operands, single bases, spans, optional markers, ACGT parents of length 1..2000); non-trivial = the location takes two or more lines. "+
			"A failing case is named after the expression shape when parseLocation alone misreads its smallest failing part, else after the number of lines that part takes (location-on-one-line, -over-two-lines, -over-three-lines = three or more)")
	for _, v := range []*verifRun{r.parseEval, r.parsePartial, r.structEval, r.build, r.textEval} {
		v.Sampled()
	}

	// harness self-check: printer and reader agree, evaluator matches a hand-computed case
	if got, err := c02Eval("GATCCA", "join(complement(1..2),<3..>4,6)"); err != nil || got != "TC"+"TC"+"A" {
		t.Fatalf("oracle self-check: %q %v", got, err)
	}
	for n := 1; n <= 6; n++ {
		for m := n + 1; m <= 6; m++ {
			for a := 1; a <= 6; a++ {
				for b := a; b <= 6; b++ {
					if parent6[n-1:m] == c02RC(parent6[a-1:b]) || ((n != a || m != b) && parent6[n-1:m] == parent6[a-1:b]) {
						t.Fatalf("parent %s: span %d..%d is not told apart from %d..%d or its reverse complement", parent6, n, m, a, b)
					}
				}
			}
		}
	}
	if ll, ok := c02WrapLoc("join(complement(1001..1100),complement(1200..1250),1300..1400,complement(1500..1600),1700..1800,complement(1900..2000))", c02LocCols); !ok ||
		strings.Join(ll, "|") != "join(complement(1001..1100),complement(1200..1250),|1300..1400,complement(1500..1600),1700..1800,|complement(1900..2000))" {
		t.Fatalf("layout self-check: %q %v", ll, ok)
	}
	for _, bad := range []string{"1..5>", "4..", "join(1..2)", "join(1..2,)", "complement(1..2", "<3", "0..2", "1..2x", ""} {
		if _, err := c02Read(bad); err == nil {
			t.Fatalf("oracle reader accepts %q", bad)
		}
	}

	// exhaustive part
	var jobs []c02Job
	shapes := 0
	for ops := 0; ops <= 3; ops++ {
		for _, s := range c02Shapes(ops, 3) {
			shapes++
			k := len(c02Leaves(s, nil))
			chosen := -1
			for i, a := range alphas {
				if (i == 0 && c02Pow(len(a), k) <= capFull) || (i > 0 && c02Pow(len(a), k) <= capCases) {
					chosen = i
					break
				}
			}
			if chosen < 0 {
				chosen = len(alphas) - 1
			}
			use := [][]c02Leaf{alphas[chosen]}
			if chosen == 1 { // plain alphabet has no markers: add a marker-bearing pass
				for _, a := range alphas[2:] {
					if c02Pow(len(a), k) <= capCases {
						use = append(use, a)
						break
					}
				}
			}
			for _, a := range use {
				for f := range a {
					if ops <= 1 && k <= 2 {
						// smallest expressions first and in a fixed order, so that the
						// recorded examples of each class are the smallest ones
						c02RunJob(r, parent6, c02Job{s, a, f})
						continue
					}
					jobs = append(jobs, c02Job{s, a, f})
				}
			}
		}
	}
	if shapes != 166 {
		t.Fatalf("shape enumeration gave %d shapes, 166 expected", shapes)
	}
	const workers = 16
	var wg sync.WaitGroup
	ch := make(chan c02Job, 64)
	for w := 0; w < workers; w++ {
		wg.Add(1)
		go func() {
			defer wg.Done()
			for j := range ch {
				c02RunJob(r, parent6, j)
			}
		}()
	}
	for _, j := range jobs {
		ch <- j
	}
	close(ch)
	wg.Wait()

	// history: a feature that belongs to one sequence is attached to another, smallest first
	for i := range movedB[0] {
		if movedB[0][i] == parent6[i] {
			t.Fatalf("parent %s does not differ from %s at base %d", movedB[0], parent6, i+1)
		}
	}
	c02MovedShapes(r, parent6, movedB, 2, movedLimit, [][]c02Leaf{plain, red12, red12[:8], red12[:6], red12[:4]})

	// GenBank text: long joins, from one line to three and more, smallest first
	seed := verifSeed()
	for _, plen := range textParents {
		parent := c02RandParent(rand.New(rand.NewSource(seed*1000003+int64(plen))), plen)
		for _, x := range c02LongJoins(plen) {
			r.checkText(parent, x)
		}
	}

	// random part
	for w := 0; w < workers; w++ {
		wg.Add(1)
		go func(w int) {
			defer wg.Done()
			rng := rand.New(rand.NewSource(seed*1000003 + int64(w)))
			rngB := rand.New(rand.NewSource(seed*1000003 + 7777 + int64(w))) // second parents: a stream of their own
			for i := 0; i < nRandom/workers; i++ {
				plen := c02RandLen(rng)
				if i == 0 {
					plen = 1
				} else if i == 1 {
					plen = 2000
				}
				parent := c02RandParent(rng, plen)
				depth := 1 + rng.Intn(4)
				x := c02RandTree(rng, plen, depth, true)
				r.check(parent, x, nil)
				r.checkText(parent, x)
				lenB := plen
				if rngB.Intn(2) == 0 {
					lo := c02MaxPos(x)
					lenB = lo + rngB.Intn(2000-lo+1)
				}
				r.checkMoved(parent, c02RandParent(rngB, lenB), x, i%2 == 0)
			}
		}(w)
	}
	wg.Wait()

	if r.harnessMsg != "" {
		t.Fatalf("%s", r.harnessMsg)
	}
	r.parseEval.Done()
	r.parsePartial.Done()
	r.structEval.Done()
	r.build.Done()
	r.textEval.Done()
}

func c02FullUpTo(capFull, capCases int) string {
	k := 0
	for c02Pow(90, k+1) <= capFull {
		k++
	}
	k2 := k
	for c02Pow(27, k2+1) <= capCases {
		k2++
	}
	return strconv.Itoa(k) + " (with markers) / " + strconv.Itoa(k2) + " (without markers)"
}
