package genbank

// Bounded back end for C01: GenBank parsing returns exactly what a well-formed
// record states.
//
// An independent GenBank flat-file WRITER (c01Layout) lays out abstract records
// (c01Rec) in the NCBI layout: column-positioned LOCUS line, 12-column keyword
// field, 21-column feature table, 79/80-column wrapping, ORIGIN rows of 60
// letters in groups of 10, "//" terminator. The text is handed to the real
// Parse / ParseMulti / ParseFlat and every field is compared with the abstract
// record. Nothing here calls the code under test to obtain an expected value,
// except where the property itself says so ("each equal to the result of
// parsing that record alone").
//
// A failing case is attributed to a witness class by delta debugging over named
// shape axes (c01Blame): each axis can be neutralised on the abstract record;
// the class is the axis that must stay for the clause to keep failing.
//
// CONSECUTIVE BLANKS (axes and classes consecutive-blanks-in-value,
// consecutive-blanks-in-meta-text; c01PutBlankRuns, c01BlankQualRec,
// c01BlankMetaRec, c01InjectBlanks). Printable ASCII includes the blank, and a
// value may hold two or more blanks in a row ("Cloned by PCR.  Verified", a
// note with aligned columns). "Verbatim" covers them: the run comes back as
// long as it was stated. Everywhere else in this file texts are single-spaced;
// an enumeration of its own and random records of their own (streams 9..12)
// put runs of 2..6 blanks between two words of quoted qualifier values (on the
// only line, the first, a middle or the last line of the laid-out qualifier)
// and of the keyword-block and reference texts (first line or continuation
// line). Only runs that lie INSIDE a laid-out line are generated: the writer
// wraps at single blanks, a line break stands for exactly one blank, and a run
// that the wrap would fall into cannot be laid out without leaving blanks at
// the end of one line or the start of the next, which the flat-file layout
// does not carry (probed on the unchanged reader: blanks left at the end of the
// first line of a qualifier come back, blanks at the end or start of a
// continuation line do not; such layouts are not part of the domain). Every
// generated text is checked for that (c01TidyLines).
//
// SHORT CONTINUATION LINES OF MULTI-LINE LOCATIONS (axes and classes
// one-/two-/three-character-location-continuation-line; c01Feat.LocCuts,
// c01ShortLoc, c01ShortLocRec, c01InjectShortLocLines). The writer above breaks
// a location after a comma, so each of its location lines holds whole operands
// (five characters or more). Other writers cut the text at a column (the 58
// characters of the location field, or fewer) wherever that falls, or put the
// closing parenthesis on a line of its own: join(1..5,7..9 / ). A continuation
// line then carries as little as one character in the location column. An
// enumeration of its own (stream 13) lays join and complement(join) locations
// out on 2..4 lines with ONE continuation line of exactly 1, 2 or 3 characters
// - the last line of a text cut every 58 (or every 8..57) characters, the last
// line of a comma-broken text with one more break before its last characters,
// a middle line right behind or in front of a comma break - on the first
// feature, on a feature without qualifiers in front of another feature, on the
// last feature without and with qualifiers; random records of their own
// (streams 14, 15) get their join locations laid out anew the same ways. All
// these layouts were probed on the unchanged reader first: it joins the
// trimmed lines, so the text comes back verbatim wherever the break falls;
// none had to be left out. The clause is the existing one (location text
// verbatim, every feature and qualifier after it as stated).

import (
	"bytes"
	"compress/gzip"
	"fmt"
	"math/rand"
	"os"
	"path/filepath"
	"reflect"
	"runtime"
	"sort"
	"strconv"
	"strings"
	"sync"
	"testing"

	"github.com/TimothyStiles/poly"
)

/******************************************************************************
 Abstract record
******************************************************************************/

type c01Qual struct {
	Key, Value string
	Bare       bool // written without quotes (/codon_start=1)
}

type c01Feat struct {
	Key        string
	Ranges     [][2]int // 1-based inclusive
	Join       bool
	Compl      bool
	Partial    int   // 0 none, 1 "<a..b", 2 "a..>b" (single plain range only)
	Single     bool  // single base "a"
	BreakAfter []int // indexes of ranges after which the writer starts a new line
	// LocCuts, when set, replaces BreakAfter: character offsets into the
	// location text at which the writer starts a new line (a writer that
	// hard-wraps the text at a column, or that puts the closing parenthesis on a
	// line of its own, breaks at places that are not the end of an operand)
	LocCuts []int
	Quals   []c01Qual
}

type c01Ref struct {
	NoRange                 bool
	Authors, Title, Journal []string
	PubMed                  string
	Remark                  []string
}

type c01KV struct {
	Key   string
	Text  []string
	Early bool // between VERSION and KEYWORDS (DBLINK), else after the references (COMMENT)
}

// Text fields are lists of paragraphs; every paragraph is wrapped on its own,
// the stated value is all words joined by single spaces.
type c01Rec struct {
	Name, Mol, Topo, Div, Date  string
	Def, Acc, Ver, Kw, Src, Org []string
	Refs                        []c01Ref
	Others                      []c01KV
	Feats                       []c01Feat
	Seq                         string
	Width                       int // 79 or 80
	OriginBlanks                bool
	Pubmed3                     bool
}

type c01File struct {
	Recs    []c01Rec
	FinalNL bool
	Header  bool
}

func c01CopyS(s []string) []string { return append([]string(nil), s...) }

func c01CloneRec(r *c01Rec) c01Rec {
	c := *r
	c.Def, c.Acc, c.Ver, c.Kw, c.Src, c.Org = c01CopyS(r.Def), c01CopyS(r.Acc), c01CopyS(r.Ver), c01CopyS(r.Kw), c01CopyS(r.Src), c01CopyS(r.Org)
	c.Refs = make([]c01Ref, len(r.Refs))
	for i, x := range r.Refs {
		x.Authors, x.Title, x.Journal, x.Remark = c01CopyS(x.Authors), c01CopyS(x.Title), c01CopyS(x.Journal), c01CopyS(x.Remark)
		c.Refs[i] = x
	}
	c.Others = make([]c01KV, len(r.Others))
	for i, x := range r.Others {
		x.Text = c01CopyS(x.Text)
		c.Others[i] = x
	}
	c.Feats = make([]c01Feat, len(r.Feats))
	for i, x := range r.Feats {
		x.Ranges = append([][2]int(nil), x.Ranges...)
		x.BreakAfter = append([]int(nil), x.BreakAfter...)
		x.LocCuts = append([]int(nil), x.LocCuts...)
		x.Quals = append([]c01Qual(nil), x.Quals...)
		c.Feats[i] = x
	}
	return c
}

func c01CloneFile(f *c01File) c01File {
	c := *f
	c.Recs = make([]c01Rec, len(f.Recs))
	for i := range f.Recs {
		c.Recs[i] = c01CloneRec(&f.Recs[i])
	}
	return c
}

func c01J(p []string) string { return strings.Join(p, " ") }

/******************************************************************************
 Independent writer
******************************************************************************/

func c01RangeText(f *c01Feat, i int) string {
	r := f.Ranges[i]
	if f.Single {
		return strconv.Itoa(r[0])
	}
	a, b := strconv.Itoa(r[0]), strconv.Itoa(r[1])
	switch f.Partial {
	case 1:
		a = "<" + a
	case 2:
		b = ">" + b
	}
	return a + ".." + b
}

// c01LocParts: concatenating the parts gives the location text; part i ends
// right after range i (and its comma).
func c01LocParts(f *c01Feat) []string {
	if !f.Join {
		s := c01RangeText(f, 0)
		if f.Compl {
			s = "complement(" + s + ")"
		}
		return []string{s}
	}
	parts := make([]string, len(f.Ranges))
	for i := range f.Ranges {
		s := c01RangeText(f, i)
		if i == 0 {
			s = "join(" + s
			if f.Compl {
				s = "complement(" + s
			}
		}
		if i < len(f.Ranges)-1 {
			s += ","
		} else {
			s += ")"
			if f.Compl {
				s += ")"
			}
		}
		parts[i] = s
	}
	return parts
}

func c01LocText(f *c01Feat) string { return strings.Join(c01LocParts(f), "") }

func c01LocLines(f *c01Feat) []string {
	if len(f.LocCuts) > 0 {
		text := c01LocText(f)
		var lines []string
		at := 0
		for _, c := range f.LocCuts {
			if c > at && c < len(text) { // cuts that a changed text no longer has are skipped
				lines = append(lines, text[at:c])
				at = c
			}
		}
		return append(lines, text[at:])
	}
	parts := c01LocParts(f)
	brk := map[int]bool{}
	for _, b := range f.BreakAfter {
		brk[b] = true
	}
	var lines []string
	cur := ""
	for i, p := range parts {
		cur += p
		if brk[i] && i < len(parts)-1 {
			lines = append(lines, cur)
			cur = ""
		}
	}
	return append(lines, cur)
}

// c01LocStruct gives the same location as a poly.Location, for the shapes whose
// structure is not in dispute (C02 owns the rest).
func c01LocStruct(f *c01Feat) (poly.Location, bool) {
	if f.Single || f.Partial == 2 {
		return poly.Location{}, false
	}
	if !f.Join {
		r := f.Ranges[0]
		return poly.Location{Start: r[0] - 1, End: r[1], Complement: f.Compl, FivePrimePartial: f.Partial == 1}, true
	}
	l := poly.Location{Join: true, Complement: f.Compl}
	for _, r := range f.Ranges {
		l.SubLocations = append(l.SubLocations, poly.Location{Start: r[0] - 1, End: r[1]})
	}
	return l, true
}

// c01Wrap: greedy word wrap at single spaces.
func c01Wrap(text string, w int) []string {
	var lines []string
	cur := ""
	started := false
	for _, wd := range strings.Split(text, " ") {
		if !started {
			cur, started = wd, true
		} else if len(cur)+1+len(wd) <= w {
			cur += " " + wd
		} else {
			lines = append(lines, cur)
			cur = wd
		}
	}
	return append(lines, cur)
}

func c01QualText(q *c01Qual) string {
	if q.Bare {
		return "/" + q.Key + "=" + q.Value
	}
	return "/" + q.Key + "=\"" + q.Value + "\""
}

// c01WrapQual wraps a qualifier at spaces; a token longer than a line (a
// translation) is cut hard. first[i] is the index of the first token of line i
// (-1 when the line starts inside a token).
func c01WrapQual(q string, w int) (lines []string, first []int) {
	cur, curFirst, started := "", 0, false
	for ti, t := range strings.Split(q, " ") {
		if started && len(cur)+1+len(t) <= w {
			cur += " " + t
			continue
		}
		if started {
			lines, first = append(lines, cur), append(first, curFirst)
		}
		curFirst = ti
		for len(t) > w {
			lines, first = append(lines, t[:w]), append(first, curFirst)
			t, curFirst = t[w:], -1
		}
		cur, started = t, true
	}
	return append(lines, cur), append(first, curFirst)
}

func c01Key(k string) string { return fmt.Sprintf("%-12s", k) }

func c01TextLines(paras []string, w int) []string {
	var out []string
	for _, p := range paras {
		out = append(out, c01Wrap(p, w)...)
	}
	return out
}

func c01Block(b *strings.Builder, key string, paras []string, width int) {
	lines := c01TextLines(paras, width-12)
	if len(lines) == 0 {
		b.WriteString(strings.TrimRight(key, " ") + "\n")
		return
	}
	for i, ln := range lines {
		if i == 0 {
			b.WriteString(c01Key(key) + ln + "\n")
		} else {
			b.WriteString("            " + ln + "\n")
		}
	}
}

const c01FeatIndent = "                     " // 21 blanks

// c01Layout writes one record, terminator line and its newline included.
func c01Layout(r *c01Rec) string {
	var b strings.Builder
	b.Grow(len(r.Seq)*5/4 + 4096)
	n := len(r.Seq)
	// LOCUS: 13-28 name, 30-40 length, 42-43 bp, 48-53 molecule, 56-63 topology, 65-67 division, 69-79 date
	b.WriteString(fmt.Sprintf("LOCUS       %-16s %11d bp    %-6s  %-8s %s %s\n", r.Name, n, r.Mol, r.Topo, r.Div, r.Date))
	c01Block(&b, "DEFINITION", r.Def, r.Width)
	c01Block(&b, "ACCESSION", r.Acc, r.Width)
	c01Block(&b, "VERSION", r.Ver, r.Width)
	for _, o := range r.Others {
		if o.Early {
			c01Block(&b, o.Key, o.Text, r.Width)
		}
	}
	c01Block(&b, "KEYWORDS", r.Kw, r.Width)
	c01Block(&b, "SOURCE", r.Src, r.Width)
	c01Block(&b, "  ORGANISM", r.Org, r.Width)
	for i, ref := range r.Refs {
		head := strconv.Itoa(i + 1)
		if !ref.NoRange {
			head += "  (bases 1 to " + strconv.Itoa(n) + ")"
		}
		b.WriteString("REFERENCE   " + head + "\n")
		if len(ref.Authors) > 0 {
			c01Block(&b, "  AUTHORS", ref.Authors, r.Width)
		}
		if len(ref.Title) > 0 {
			c01Block(&b, "  TITLE", ref.Title, r.Width)
		}
		if len(ref.Journal) > 0 {
			c01Block(&b, "  JOURNAL", ref.Journal, r.Width)
		}
		if ref.PubMed != "" {
			if r.Pubmed3 {
				c01Block(&b, "   PUBMED", []string{ref.PubMed}, r.Width)
			} else {
				c01Block(&b, "  PUBMED", []string{ref.PubMed}, r.Width)
			}
		}
		if len(ref.Remark) > 0 {
			c01Block(&b, "  REMARK", ref.Remark, r.Width)
		}
	}
	for _, o := range r.Others {
		if !o.Early {
			c01Block(&b, o.Key, o.Text, r.Width)
		}
	}
	b.WriteString("FEATURES             Location/Qualifiers\n")
	for fi := range r.Feats {
		f := &r.Feats[fi]
		for i, ln := range c01LocLines(f) {
			if i == 0 {
				b.WriteString(fmt.Sprintf("     %-16s%s\n", f.Key, ln))
			} else {
				b.WriteString(c01FeatIndent + ln + "\n")
			}
		}
		for qi := range f.Quals {
			lines, _ := c01WrapQual(c01QualText(&f.Quals[qi]), r.Width-21)
			for _, ln := range lines {
				b.WriteString(c01FeatIndent + ln + "\n")
			}
		}
	}
	if r.OriginBlanks {
		b.WriteString("ORIGIN      \n")
	} else {
		b.WriteString("ORIGIN\n")
	}
	for i := 0; i < n; i += 60 {
		num := strconv.Itoa(i + 1)
		b.WriteString("         "[:9-len(num)] + num)
		for j := i; j < i+60 && j < n; j += 10 {
			e := j + 10
			if e > n {
				e = n
			}
			b.WriteByte(' ')
			b.WriteString(r.Seq[j:e])
		}
		b.WriteByte('\n')
	}
	b.WriteString("//\n")
	return b.String()
}

// the ten header lines of an NCBI release file
const c01Header = "GBBCT1.SEQ          Genetic Sequence Data Bank\n" +
	"                         October 15 2020\n" +
	"\n" +
	"                NCBI-GenBank Flat File Release 240.0\n" +
	"\n" +
	"                     Bacterial Sequences (Part 1)\n" +
	"\n" +
	"  101593 loci,   185853961 bases, from   101593 reported sequences\n" +
	"\n" +
	"\n"

func c01RecordTexts(f *c01File) []string {
	out := make([]string, len(f.Recs))
	for i := range f.Recs {
		out[i] = c01Layout(&f.Recs[i])
	}
	return out
}

func c01FileText(f *c01File) string {
	s := strings.Join(c01RecordTexts(f), "")
	if f.Header {
		s = c01Header + s
	}
	if !f.FinalNL {
		s = strings.TrimSuffix(s, "\n")
	}
	return s
}

// c01Show abbreviates the sequence rows so that a witness stays readable.
func c01Show(text string) string {
	lines := strings.Split(text, "\n")
	var out []string
	inSeq, rows := false, 0
	for _, ln := range lines {
		if strings.HasPrefix(ln, "ORIGIN") {
			inSeq, rows = true, 0
		} else if ln == "//" {
			inSeq = false
		} else if inSeq {
			rows++
			if rows == 2 {
				out = append(out, "        ...")
			}
			if rows >= 2 {
				continue
			}
		}
		out = append(out, ln)
	}
	return strings.Join(out, "\n")
}

/******************************************************************************
 Shape axes and witness classes
******************************************************************************/

type c01Axis struct {
	name    string
	present func(f *c01File) bool
	neutral func(f *c01File)
}

func c01RecAxis(name string, present func(r *c01Rec) bool, neutral func(r *c01Rec)) c01Axis {
	return c01Axis{name,
		func(f *c01File) bool {
			for i := range f.Recs {
				if present(&f.Recs[i]) {
					return true
				}
			}
			return false
		},
		func(f *c01File) {
			for i := range f.Recs {
				if present(&f.Recs[i]) {
					neutral(&f.Recs[i])
				}
			}
		}}
}

const c01NeutralLen = 120

func c01Resize(r *c01Rec, n int) {
	for len(r.Seq) < n {
		r.Seq += r.Seq + "acgt"
	}
	r.Seq = r.Seq[:n]
	for fi := range r.Feats {
		for ri := range r.Feats[fi].Ranges {
			for k := 0; k < 2; k++ {
				if r.Feats[fi].Ranges[ri][k] > n {
					r.Feats[fi].Ranges[ri][k] = n
				}
			}
		}
	}
}

func c01Trunc(text string, limit int) string {
	out := ""
	for i, w := range strings.Split(text, " ") {
		if i == 0 {
			out = w
		} else if len(out)+1+len(w) <= limit {
			out += " " + w
		} else {
			break
		}
	}
	return strings.TrimRight(out, " ") // a text cut inside a run of blanks does not end in one
}

func c01AllTexts(r *c01Rec) []*[]string {
	ts := []*[]string{&r.Def, &r.Acc, &r.Ver, &r.Kw, &r.Src, &r.Org}
	for i := range r.Refs {
		ts = append(ts, &r.Refs[i].Authors, &r.Refs[i].Title, &r.Refs[i].Journal, &r.Refs[i].Remark)
	}
	for i := range r.Others {
		ts = append(ts, &r.Others[i].Text)
	}
	return ts
}

// slash positions: for every quoted qualifier, the word indexes that start a
// continuation line with '/'.
func c01ContSlashWords(q *c01Qual, width int) map[int]bool {
	if q.Bare {
		return nil
	}
	_, first := c01WrapQual(c01QualText(q), width-21)
	words := strings.Split(q.Value, " ")
	var m map[int]bool
	for li, ti := range first {
		if li > 0 && ti > 0 && ti < len(words) && strings.HasPrefix(words[ti], "/") {
			if m == nil {
				m = map[int]bool{}
			}
			m[ti] = true
		}
	}
	return m
}

func c01EachQual(r *c01Rec, f func(ft *c01Feat, q *c01Qual)) {
	for fi := range r.Feats {
		for qi := range r.Feats[fi].Quals {
			f(&r.Feats[fi], &r.Feats[fi].Quals[qi])
		}
	}
}

func c01AnyQual(r *c01Rec, p func(q *c01Qual) bool) bool {
	found := false
	c01EachQual(r, func(_ *c01Feat, q *c01Qual) {
		if p(q) {
			found = true
		}
	})
	return found
}

func c01QualLines(q *c01Qual, width int) int {
	lines, _ := c01WrapQual(c01QualText(q), width-21)
	return len(lines)
}

// c01OtherSlash: a '/' in the value that does not start a continuation line.
func c01OtherSlash(q *c01Qual, width int) bool {
	if !strings.Contains(q.Value, "/") {
		return false
	}
	cs := c01ContSlashWords(q, width)
	for wi, w := range strings.Split(q.Value, " ") {
		rest := w
		if cs[wi] {
			rest = w[1:]
		}
		if strings.Contains(rest, "/") {
			return true
		}
	}
	return false
}

// c01LongTokenLen: a blank-free token of at least this many characters (a URL,
// a list of accession numbers) that does not fit on the line above leaves that
// line at least 20 columns short of the right margin.
const c01LongTokenLen = 21

// c01ShortLines: for a quoted qualifier other than /translation laid out on two
// or more lines, the indexes of the lines (never the last) that end 20 or more
// columns before the right margin because the next word, a blank-free token of
// c01LongTokenLen or more characters, does not fit.
func c01ShortLines(q *c01Qual, width int) []int {
	if q.Bare || q.Key == "translation" {
		return nil
	}
	w := width - 21
	lines, first := c01WrapQual(c01QualText(q), w)
	var out []int
	for li := 0; li+1 < len(lines); li++ {
		if first[li+1] > 0 && w-len(lines[li]) >= c01LongTokenLen-1 {
			out = append(out, li)
		}
	}
	return out
}

func c01HasShortLine(q *c01Qual, width int, firstLine bool) bool {
	for _, li := range c01ShortLines(q, width) {
		if (li == 0) == firstLine {
			return true
		}
	}
	return false
}

// c01ShortLineAxis: neutralised by putting a blank in every 12th place of the
// long tokens of the value (same length, nearly the same lines, nothing short).
func c01ShortLineAxis(name string, firstLine bool) c01Axis {
	return c01RecAxis(name,
		func(r *c01Rec) bool {
			return c01AnyQual(r, func(q *c01Qual) bool { return c01HasShortLine(q, r.Width, firstLine) })
		},
		func(r *c01Rec) {
			c01EachQual(r, func(_ *c01Feat, q *c01Qual) {
				if !c01HasShortLine(q, r.Width, firstLine) {
					return
				}
				words := strings.Split(q.Value, " ")
				for wi, w := range words {
					if len(w) < c01LongTokenLen {
						continue
					}
					b := []byte(w)
					for k := range b {
						if k%12 == 11 && k < len(b)-1 {
							b[k] = ' '
						} else if b[k] == '/' {
							b[k] = 'x' // a piece must not start a line with '/' or end one in "//"
						}
					}
					words[wi] = string(b)
				}
				q.Value = strings.Join(words, " ")
			})
		})
}

// The top-level keywords of the flat-file format. A keyword is a keyword only
// in the keyword field (columns 1-12, starting in column 1); as the first word
// of an indented continuation line (a wrapped qualifier value, a wrapped
// DEFINITION, COMMENT, TITLE ... text) the same letters are text.
var c01TopKeywords = []string{"LOCUS", "DEFINITION", "ACCESSION", "VERSION", "KEYWORDS", "SOURCE", "REFERENCE", "FEATURES", "ORIGIN", "COMMENT"}

// The sub-keywords of a reference, and ORGANISM; the same holds for them (their
// field is columns 3-12 or 4-12 of a line that is not blank in columns 1-6).
var c01RefSubKeywords = []string{"AUTHORS", "CONSRTM", "TITLE", "JOURNAL", "PUBMED", "REMARK"}

var c01AllKeywordWords = append(append(append([]string{}, c01TopKeywords...), c01RefSubKeywords...), "ORGANISM")

func c01WordSet(words ...string) map[string]bool {
	m := map[string]bool{}
	for _, k := range words {
		m[k] = true
	}
	return m
}

var c01IsTopKeyword = c01WordSet(c01TopKeywords...)
var c01IsRefSubKeyword = c01WordSet(c01RefSubKeywords...)
var c01IsOrganismWord = c01WordSet("ORGANISM")
var c01IsKeywordWord = c01WordSet(c01AllKeywordWords...)

// c01ContKeywordWords: for a quoted qualifier, the indexes of the value words
// that start a continuation line and spell a word of the set (the last word is
// left out: the closing quote is glued to it).
func c01ContKeywordWords(q *c01Qual, width int, set map[string]bool) map[int]bool {
	if q.Bare {
		return nil
	}
	_, first := c01WrapQual(c01QualText(q), width-21)
	if len(first) < 2 {
		return nil
	}
	words := strings.Split(q.Value, " ")
	var m map[int]bool
	for li, ti := range first {
		if li > 0 && ti > 0 && ti < len(words)-1 && set[words[ti]] {
			if m == nil {
				m = map[int]bool{}
			}
			m[ti] = true
		}
	}
	return m
}

// c01ContStarts: {paragraph, word} of every word that starts a continuation
// line of a keyword block as c01Block lays it out (all lines but the first).
func c01ContStarts(paras []string, w int) [][2]int {
	var out [][2]int
	firstLine := true
	for pi, p := range paras {
		cur := 0
		for wi, wd := range strings.Split(p, " ") {
			if wi > 0 && cur+1+len(wd) <= w {
				cur += 1 + len(wd)
				continue
			}
			cur = len(wd)
			if !firstLine {
				out = append(out, [2]int{pi, wi})
			}
			firstLine = false
		}
	}
	return out
}

// c01KeywordConts: the continuation lines of the block whose first word spells
// a word of the set.
func c01KeywordConts(paras []string, w int, set map[string]bool) [][2]int {
	var out [][2]int
	for _, pw := range c01ContStarts(paras, w) {
		if set[strings.Split(paras[pw[0]], " ")[pw[1]]] {
			out = append(out, pw)
		}
	}
	return out
}

// c01LowerKeywordConts spells those words in lower case (same length, so the
// wrapping stays as it is).
func c01LowerKeywordConts(t *[]string, w int, set map[string]bool) {
	for _, pw := range c01KeywordConts(*t, w, set) {
		words := strings.Split((*t)[pw[0]], " ")
		words[pw[1]] = strings.ToLower(words[pw[1]])
		(*t)[pw[0]] = strings.Join(words, " ")
	}
}

// the keyword blocks outside the references, and the reference fields
func c01BlockTexts(r *c01Rec) []*[]string {
	ts := []*[]string{&r.Def, &r.Acc, &r.Ver, &r.Kw, &r.Src, &r.Org}
	for i := range r.Others {
		ts = append(ts, &r.Others[i].Text)
	}
	return ts
}

func c01RefTexts(r *c01Rec) []*[]string {
	var ts []*[]string
	for i := range r.Refs {
		ts = append(ts, &r.Refs[i].Authors, &r.Refs[i].Title, &r.Refs[i].Journal, &r.Refs[i].Remark)
	}
	return ts
}

// c01LowerKeywordQuals: the same for the qualifier values of the record.
func c01LowerKeywordQuals(r *c01Rec, set map[string]bool) {
	c01EachQual(r, func(_ *c01Feat, q *c01Qual) {
		ck := c01ContKeywordWords(q, r.Width, set)
		if len(ck) == 0 {
			return
		}
		words := strings.Split(q.Value, " ")
		for wi := range words {
			if ck[wi] {
				words[wi] = strings.ToLower(words[wi])
			}
		}
		q.Value = strings.Join(words, " ")
	})
}

func c01AnyKeywordCont(ts []*[]string, w int, set map[string]bool) bool {
	for _, t := range ts {
		if len(c01KeywordConts(*t, w, set)) > 0 {
			return true
		}
	}
	return false
}

// Lower-case locus names that contain a word which, in another column of the
// LOCUS line, would be a molecule type, a topology or a division. The name
// column is columns 13-28; whatever it spells, the molecule type, topology and
// division are the ones written in their own columns.
var c01KeywordNames = []string{
	"dnak_transcript", "ssu_rdna_tx", "mrna_7", "trna_leu", "rrna16s", "linearized_x", "circular9", "genomic_dna_1", "bct_syn",
	"dna", "rna", "mrna", "trna", "rrna", "linear", "circular", "linear_dna", "circular_mrna", "other_rna_2", "unassigned_dna", "viral_crna",
	"transcribed_rna", "genomic_rna_9", "pri_1", "rod2", "mam_x", "vrt", "inv_3", "pln", "vrl_phg", "una_est", "pat_sts_gss", "htg_htc", "env",
	"syn_circular_trna", "x_linear", "x_circular", "est_linear_rrna",
}

// c01KeywordWords: the lower-cased molecule words, topologies and divisions.
var c01KeywordWords = func() []string {
	w := []string{"dna", "rna", "linear", "circular", "genomic", "other", "unassigned", "transcribed", "viral"}
	for _, d := range c01Divisions {
		w = append(w, strings.ToLower(d))
	}
	return w
}()

func c01NameHasKeyword(name string) bool {
	l := strings.ToLower(name)
	for _, w := range c01KeywordWords {
		if strings.Contains(l, w) {
			return true
		}
	}
	return false
}

// c01WordAxis: a word of the set starts a continuation line anywhere in the
// record (qualifier value, keyword block, reference field).
func c01WordAxis(name string, set map[string]bool) c01Axis {
	return c01RecAxis(name,
		func(r *c01Rec) bool {
			return c01AnyQual(r, func(q *c01Qual) bool { return len(c01ContKeywordWords(q, r.Width, set)) > 0 }) ||
				c01AnyKeywordCont(c01AllTexts(r), r.Width-12, set)
		},
		func(r *c01Rec) {
			c01LowerKeywordQuals(r, set)
			for _, t := range c01AllTexts(r) {
				c01LowerKeywordConts(t, r.Width-12, set)
			}
		})
}

// c01HasBlankRun: two or more blanks in a row.
func c01HasBlankRun(s string) bool { return strings.Contains(s, "  ") }

func c01AnyBlankRun(paras []string) bool {
	for _, p := range paras {
		if c01HasBlankRun(p) {
			return true
		}
	}
	return false
}

// c01FillBlankRuns keeps one blank of every run and puts an x in the place of
// each further one: the same length, the same line breaks (no run lies at one),
// single-spaced.
func c01FillBlankRuns(s string) string {
	b := []byte(s)
	for i := 1; i < len(b); i++ {
		if b[i] == ' ' && (s[i-1] == ' ') {
			b[i] = 'x'
		}
	}
	return string(b)
}

// c01TidyLines: no laid-out line is empty, starts with a blank or ends in one,
// i.e. every run of blanks of the text lies inside a line.
func c01TidyLines(lines []string) bool {
	for _, ln := range lines {
		if ln == "" || ln[0] == ' ' || ln[len(ln)-1] == ' ' {
			return false
		}
	}
	return true
}

func c01QualTidy(q *c01Qual, width int) bool {
	lines, _ := c01WrapQual(c01QualText(q), width-21)
	return c01TidyLines(lines)
}

// c01HasShortLocLine: a continuation line of the location of f holds exactly
// n characters.
func c01HasShortLocLine(f *c01Feat, n int) bool {
	if len(f.LocCuts) == 0 {
		return false // lines of whole operands: "a..b," has five characters or more
	}
	for i, ln := range c01LocLines(f) {
		if i > 0 && len(ln) == n {
			return true
		}
	}
	return false
}

// c01LongerLocLines moves the break in front of every continuation line of n
// characters four characters to the left (or, where the line above has fewer
// than eight characters, takes the break away).
func c01LongerLocLines(f *c01Feat, n int) {
	for c01HasShortLocLine(f, n) {
		lines := c01LocLines(f)
		var cuts []int
		at := 0
		for _, ln := range lines[:len(lines)-1] {
			at += len(ln)
			cuts = append(cuts, at)
		}
		for i := 1; i < len(lines); i++ {
			if len(lines[i]) != n {
				continue
			}
			if len(lines[i-1]) >= 8 {
				cuts[i-1] -= 4
			} else {
				cuts = append(cuts[:i-1], cuts[i:]...)
			}
			break
		}
		f.LocCuts = cuts
		if len(cuts) == 0 {
			return
		}
	}
}

func c01ShortLocLineAxis(name string, n int) c01Axis {
	return c01RecAxis(name,
		func(r *c01Rec) bool {
			for i := range r.Feats {
				if c01HasShortLocLine(&r.Feats[i], n) {
					return true
				}
			}
			return false
		},
		func(r *c01Rec) {
			for i := range r.Feats {
				c01LongerLocLines(&r.Feats[i], n)
			}
		})
}

var c01DigitWord = map[int]string{1: "one", 2: "two", 3: "three", 4: "four", 5: "five", 6: "six"}

// c01Axes lists the axes leaf first, containers last.
func c01Axes() []c01Axis {
	var ax []c01Axis
	for _, d := range []int{1, 2, 4, 5, 6} {
		d := d
		ax = append(ax, c01RecAxis(c01DigitWord[d]+"-digit-length",
			func(r *c01Rec) bool { return len(strconv.Itoa(len(r.Seq))) == d },
			func(r *c01Rec) { c01Resize(r, c01NeutralLen) }))
	}
	for _, d := range []int{1, 2, 16} {
		d := d
		name := map[int]string{1: "one-char-locus-name", 2: "two-char-locus-name", 16: "sixteen-char-locus-name"}[d]
		ax = append(ax, c01RecAxis(name,
			func(r *c01Rec) bool { return len(r.Name) == d },
			func(r *c01Rec) { r.Name = "locus1" }))
	}
	ax = append(ax, c01RecAxis("topology-word-as-locus-name",
		func(r *c01Rec) bool { return r.Name == "linear" || r.Name == "circular" },
		func(r *c01Rec) { r.Name = "locus1" }))
	ax = append(ax, c01RecAxis("keyword-in-locus-name",
		func(r *c01Rec) bool { return r.Name != "linear" && r.Name != "circular" && c01NameHasKeyword(r.Name) },
		func(r *c01Rec) { r.Name = "locus1" }))
	for _, m := range []string{"mRNA", "tRNA", "rRNA"} {
		m := m
		ax = append(ax, c01RecAxis(strings.ToLower(m)+"-molecule",
			func(r *c01Rec) bool { return r.Mol == m },
			func(r *c01Rec) { r.Mol = "DNA" }))
	}
	ax = append(ax,
		// two or more blanks in a row inside a qualifier value / a keyword-block or
		// reference text (neutralised to a single-spaced text of the same length
		// with the same line breaks)
		c01RecAxis("consecutive-blanks-in-value",
			func(r *c01Rec) bool {
				return c01AnyQual(r, func(q *c01Qual) bool { return c01HasBlankRun(q.Value) })
			},
			func(r *c01Rec) {
				c01EachQual(r, func(_ *c01Feat, q *c01Qual) { q.Value = c01FillBlankRuns(q.Value) })
			}),
		c01RecAxis("consecutive-blanks-in-meta-text",
			func(r *c01Rec) bool {
				for _, t := range c01AllTexts(r) {
					if c01AnyBlankRun(*t) {
						return true
					}
				}
				return false
			},
			func(r *c01Rec) {
				for _, t := range c01AllTexts(r) {
					for pi := range *t {
						(*t)[pi] = c01FillBlankRuns((*t)[pi])
					}
				}
			}),
		c01RecAxis("circular-topology", func(r *c01Rec) bool { return r.Topo == "circular" }, func(r *c01Rec) { r.Topo = "linear" }),
		c01RecAxis("no-topology", func(r *c01Rec) bool { return r.Topo == "" }, func(r *c01Rec) { r.Topo = "linear" }),
		c01RecAxis("origin-trailing-blanks", func(r *c01Rec) bool { return r.OriginBlanks }, func(r *c01Rec) { r.OriginBlanks = false }),
		c01RecAxis("pubmed-indent-three",
			func(r *c01Rec) bool {
				if !r.Pubmed3 {
					return false
				}
				for _, x := range r.Refs {
					if x.PubMed != "" {
						return true
					}
				}
				return false
			},
			func(r *c01Rec) { r.Pubmed3 = false }),
		// the text "/translation=" inside the value of another qualifier
		// (neutralised to a text of the same length that keeps its '/' and its
		// '=', so the wrapping and the other axes stay as they are)
		c01RecAxis("translation-text-in-other-qualifier",
			func(r *c01Rec) bool { return c01AnyQual(r, c01HasTransText) },
			func(r *c01Rec) {
				c01EachQual(r, func(_ *c01Feat, q *c01Qual) {
					if c01HasTransText(q) {
						q.Value = strings.ReplaceAll(q.Value, c01TransText, "/translatiox=")
					}
				})
			}),
		// a wrapped value whose first line (or a later line) stops 20 or more
		// columns short of the margin because the next word is a long token
		c01ShortLineAxis("short-first-line-before-long-token", true),
		c01ShortLineAxis("short-continuation-line-before-long-token", false),
		c01RecAxis("continuation-starts-with-slash",
			func(r *c01Rec) bool {
				return c01AnyQual(r, func(q *c01Qual) bool { return len(c01ContSlashWords(q, r.Width)) > 0 })
			},
			func(r *c01Rec) {
				c01EachQual(r, func(_ *c01Feat, q *c01Qual) {
					cs := c01ContSlashWords(q, r.Width)
					if len(cs) == 0 {
						return
					}
					words := strings.Split(q.Value, " ")
					for wi := range words {
						if cs[wi] {
							words[wi] = "x" + words[wi][1:]
						}
					}
					q.Value = strings.Join(words, " ")
				})
			}),
		c01RecAxis("keyword-like-continuation",
			func(r *c01Rec) bool {
				return c01AnyQual(r, func(q *c01Qual) bool { return len(c01ContKeywordWords(q, r.Width, c01IsTopKeyword)) > 0 })
			},
			func(r *c01Rec) { c01LowerKeywordQuals(r, c01IsTopKeyword) }),
		c01RecAxis("keyword-like-continuation-in-keyword-block",
			func(r *c01Rec) bool { return c01AnyKeywordCont(c01BlockTexts(r), r.Width-12, c01IsTopKeyword) },
			func(r *c01Rec) {
				for _, t := range c01BlockTexts(r) {
					c01LowerKeywordConts(t, r.Width-12, c01IsTopKeyword)
				}
			}),
		c01RecAxis("keyword-like-continuation-in-reference",
			func(r *c01Rec) bool { return c01AnyKeywordCont(c01RefTexts(r), r.Width-12, c01IsTopKeyword) },
			func(r *c01Rec) {
				for _, t := range c01RefTexts(r) {
					c01LowerKeywordConts(t, r.Width-12, c01IsTopKeyword)
				}
			}),
		c01WordAxis("reference-subkeyword-like-continuation", c01IsRefSubKeyword),
		c01WordAxis("organism-word-continuation", c01IsOrganismWord),
		c01RecAxis("slash-in-value",
			func(r *c01Rec) bool {
				return c01AnyQual(r, func(q *c01Qual) bool { return c01OtherSlash(q, r.Width) })
			},
			func(r *c01Rec) {
				c01EachQual(r, func(_ *c01Feat, q *c01Qual) {
					cs := c01ContSlashWords(q, r.Width)
					words := strings.Split(q.Value, " ")
					for wi, w := range words {
						if cs[wi] {
							words[wi] = "/" + strings.ReplaceAll(w[1:], "/", "x")
						} else {
							words[wi] = strings.ReplaceAll(w, "/", "x")
						}
					}
					q.Value = strings.Join(words, " ")
				})
			}),
		c01RecAxis("equals-in-value",
			func(r *c01Rec) bool {
				return c01AnyQual(r, func(q *c01Qual) bool { return strings.Contains(q.Value, "=") })
			},
			func(r *c01Rec) {
				c01EachQual(r, func(_ *c01Feat, q *c01Qual) { q.Value = strings.ReplaceAll(q.Value, "=", "x") })
			}),
		c01RecAxis("empty-value",
			func(r *c01Rec) bool { return c01AnyQual(r, func(q *c01Qual) bool { return q.Value == "" }) },
			func(r *c01Rec) {
				c01EachQual(r, func(_ *c01Feat, q *c01Qual) {
					if q.Value == "" {
						q.Value = "x"
					}
				})
			}),
		c01RecAxis("unquoted-value",
			func(r *c01Rec) bool { return c01AnyQual(r, func(q *c01Qual) bool { return q.Bare }) },
			func(r *c01Rec) { c01EachQual(r, func(_ *c01Feat, q *c01Qual) { q.Bare = false }) }),
		c01RecAxis("hard-wrapped-translation",
			func(r *c01Rec) bool {
				return c01AnyQual(r, func(q *c01Qual) bool { return q.Key == "translation" && c01QualLines(q, r.Width) > 1 })
			},
			func(r *c01Rec) {
				c01EachQual(r, func(_ *c01Feat, q *c01Qual) {
					if q.Key == "translation" && len(q.Value) > 30 {
						q.Value = q.Value[:30]
					}
				})
			}),
		c01RecAxis("wrapped-value",
			func(r *c01Rec) bool {
				return c01AnyQual(r, func(q *c01Qual) bool { return q.Key != "translation" && c01QualLines(q, r.Width) > 1 })
			},
			func(r *c01Rec) {
				c01EachQual(r, func(_ *c01Feat, q *c01Qual) {
					if q.Key == "translation" || c01QualLines(q, r.Width) <= 1 {
						return
					}
					cs := c01ContSlashWords(q, r.Width)
					out := ""
					for wi, w := range strings.Split(q.Value, " ") {
						if cs[wi] {
							continue
						}
						if out == "" {
							out = w
						} else if len(out)+1+len(w) <= 30 {
							out += " " + w
						}
					}
					q.Value = strings.TrimRight(out, " ") // a value cut inside a run of blanks does not end in one
				})
			}),
		// a continuation line of a multi-line location that carries exactly one,
		// two, three characters (neutralised by moving the break in front of it
		// four characters to the left, so that the location keeps its text and its
		// number of lines)
		c01ShortLocLineAxis("one-character-location-continuation-line", 1),
		c01ShortLocLineAxis("two-character-location-continuation-line", 2),
		c01ShortLocLineAxis("three-character-location-continuation-line", 3),
		c01RecAxis("multi-line-location",
			func(r *c01Rec) bool {
				for i := range r.Feats {
					if len(c01LocLines(&r.Feats[i])) > 1 {
						return true
					}
				}
				return false
			},
			func(r *c01Rec) {
				for i := range r.Feats {
					f := &r.Feats[i]
					f.BreakAfter = nil
					f.LocCuts = nil
					for len(c01LocText(f)) > 58 && len(f.Ranges) > 2 {
						f.Ranges = f.Ranges[:len(f.Ranges)-1]
					}
				}
			}),
		c01RecAxis("feature-without-qualifiers",
			func(r *c01Rec) bool {
				for i := range r.Feats {
					if len(r.Feats[i].Quals) == 0 {
						return true
					}
				}
				return false
			},
			func(r *c01Rec) {
				for i := range r.Feats {
					if len(r.Feats[i].Quals) == 0 {
						r.Feats[i].Quals = []c01Qual{{Key: "note", Value: "x"}}
					}
				}
			}),
		c01RecAxis("reference-remark",
			func(r *c01Rec) bool {
				for _, x := range r.Refs {
					if len(x.Remark) > 0 {
						return true
					}
				}
				return false
			},
			func(r *c01Rec) {
				for i := range r.Refs {
					r.Refs[i].Remark = nil
				}
			}),
		c01RecAxis("reference-without-range",
			func(r *c01Rec) bool {
				for _, x := range r.Refs {
					if x.NoRange {
						return true
					}
				}
				return false
			},
			func(r *c01Rec) {
				for i := range r.Refs {
					r.Refs[i].NoRange = false
				}
			}),
		c01RecAxis("wrapped-meta-line",
			func(r *c01Rec) bool {
				for _, t := range c01AllTexts(r) {
					if len(c01TextLines(*t, r.Width-12)) > 1 {
						return true
					}
				}
				return false
			},
			func(r *c01Rec) {
				for _, t := range c01AllTexts(r) {
					if len(c01TextLines(*t, r.Width-12)) > 1 {
						*t = []string{c01Trunc(c01J(*t), 40)}
					}
				}
			}),
		c01RecAxis("extra-keyword", func(r *c01Rec) bool { return len(r.Others) > 0 }, func(r *c01Rec) { r.Others = nil }),
		c01RecAxis("several-qualifiers",
			func(r *c01Rec) bool {
				for i := range r.Feats {
					if len(r.Feats[i].Quals) > 1 {
						return true
					}
				}
				return false
			},
			func(r *c01Rec) {
				for i := range r.Feats {
					if len(r.Feats[i].Quals) > 1 {
						r.Feats[i].Quals = r.Feats[i].Quals[:1]
					}
				}
			}),
		c01RecAxis("several-features", func(r *c01Rec) bool { return len(r.Feats) > 1 }, func(r *c01Rec) { r.Feats = r.Feats[:1] }),
		c01RecAxis("several-references", func(r *c01Rec) bool { return len(r.Refs) > 1 }, func(r *c01Rec) { r.Refs = r.Refs[:1] }),
		c01RecAxis("features", func(r *c01Rec) bool { return len(r.Feats) > 0 }, func(r *c01Rec) { r.Feats = nil }),
		c01RecAxis("references", func(r *c01Rec) bool { return len(r.Refs) > 0 }, func(r *c01Rec) { r.Refs = nil }),
		c01Axis{"no-final-newline", func(f *c01File) bool { return !f.FinalNL }, func(f *c01File) { f.FinalNL = true }},
		c01Axis{"several-records", func(f *c01File) bool { return len(f.Recs) > 1 }, func(f *c01File) { f.Recs = f.Recs[:1] }},
	)
	return ax
}

var c01AxisList = c01Axes()

// c01Blame reduces a failing file to a 1-minimal set of shape axes and names
// the class after it. fails must be deterministic. The second result is the
// reduced file (still failing).
func c01Blame(f *c01File, fails func(g *c01File) bool) (string, c01File) {
	var present []int
	for i := range c01AxisList {
		if c01AxisList[i].present(f) {
			present = append(present, i)
		}
	}
	keep := map[int]bool{}
	for _, i := range present {
		keep[i] = true
	}
	build := func(keep map[int]bool) c01File {
		g := c01CloneFile(f)
		for _, i := range present {
			if !keep[i] {
				c01AxisList[i].neutral(&g)
			}
		}
		return g
	}
	container := map[int]bool{}
	for pass := 0; pass < 2; pass++ {
		for _, i := range present {
			if !keep[i] || (pass == 1 && !container[i]) {
				continue
			}
			delete(container, i)
			keep[i] = false
			g := build(keep)
			collateral := false
			for _, j := range present {
				if keep[j] && !c01AxisList[j].present(&g) {
					collateral = true
				}
			}
			if collateral {
				keep[i] = true
				container[i] = true
				continue
			}
			if !fails(&g) {
				keep[i] = true
			}
		}
	}
	// The class is named after the shape axes that must stay. Axes that only
	// hold another kept axis (containers) and the pure quantity or existence
	// axes ("several-...", "features", "references", "extra-keyword") are left
	// out of the name when a shape axis remains.
	var names, quantities, all []string
	for _, i := range present {
		if keep[i] {
			name := c01AxisList[i].name
			all = append(all, name)
			if container[i] {
				continue
			}
			if strings.HasPrefix(name, "several-") || name == "features" || name == "references" || name == "extra-keyword" {
				quantities = append(quantities, name)
			} else {
				names = append(names, name)
			}
		}
	}
	// A locus name that spells a topology word is one shape whichever topology
	// the record states in its own column (the stated topology is merely what
	// the name must differ from, or coincide with, for the clause to fail).
	for _, n := range names {
		if n == "topology-word-as-locus-name" {
			var rest []string
			for _, m := range names {
				if m != "circular-topology" && m != "no-topology" {
					rest = append(rest, m)
				}
			}
			names = rest
			break
		}
	}
	// A keyword-like word at the start of a continuation line of a reference
	// field is one shape whichever later field of the reference the record
	// happens to state (the REMARK is merely what there is to lose).
	for _, n := range names {
		if n == "keyword-like-continuation-in-reference" {
			var rest []string
			for _, m := range names {
				if m != "reference-remark" {
					rest = append(rest, m)
				}
			}
			names = rest
			break
		}
	}
	// The text "/translation=" inside another qualifier's value is one shape
	// whether or not the value still wraps once everything else is neutralised
	// (the wrap point is merely where there is a blank to lose), and whether or
	// not the text happens to start a continuation line (taking that '/' away
	// takes the text away).
	for _, n := range names {
		if n == "translation-text-in-other-qualifier" {
			var rest []string
			for _, m := range names {
				if m != "wrapped-value" && m != "continuation-starts-with-slash" {
					rest = append(rest, m)
				}
			}
			names = rest
			break
		}
	}
	if len(names) == 0 {
		names = quantities
	}
	if len(names) == 0 {
		names = all
	}
	if len(names) == 0 {
		names = []string{"plain-record"}
	}
	return strings.Join(names, "+"), build(keep)
}

/******************************************************************************
 Generators
******************************************************************************/

const c01Lower = "abcdefghijklmnopqrstuvwxyz"
const c01Upper = "ABCDEFGHIJKLMNOPQRSTUVWXYZ"
const c01Digits = "0123456789"

// printable ASCII without blank, double quote, '/' and '='
const c01Punct = "!#$%&'()*+,-.:;<>?@[\\]^_`{|}~"
const c01ValueAlpha = c01Lower + c01Lower + c01Upper + c01Digits + c01Punct
const c01MetaAlpha = c01Lower + c01Lower + c01Lower + c01Upper + c01Digits + c01Punct + "/="

var c01Reserved = map[string]bool{"LOCUS": true, "DEFINITION": true, "ACCESSION": true, "VERSION": true, "KEYWORDS": true,
	"SOURCE": true, "ORGANISM": true, "REFERENCE": true, "AUTHORS": true, "TITLE": true, "JOURNAL": true, "PUBMED": true,
	"REMARK": true, "FEATURES": true, "ORIGIN": true, "COMMENT": true, "CONSRTM": true}

func c01Pick(rng *rand.Rand, xs []string) string { return xs[rng.Intn(len(xs))] }

func c01Word(rng *rand.Rand, alpha string, min, max int) string {
	for {
		n := min + rng.Intn(max-min+1)
		b := make([]byte, n)
		for i := range b {
			b[i] = alpha[rng.Intn(len(alpha))]
		}
		w := string(b)
		if strings.HasSuffix(w, "//") || c01Reserved[w] {
			continue
		}
		return w
	}
}

// c01Text: single-spaced words, about chars characters long (at least one word).
func c01Text(rng *rand.Rand, alpha string, chars int) string {
	out := c01Word(rng, alpha, 1, 12)
	for len(out) < chars {
		w := c01Word(rng, alpha, 1, 12)
		if len(out)+1+len(w) > chars && len(out) > 0 {
			break
		}
		out += " " + w
	}
	return out
}

func c01Seq(rng *rand.Rand, n int) string {
	b := make([]byte, n)
	var x uint64
	for i := range b {
		if i%32 == 0 {
			x = rng.Uint64()
		}
		b[i] = "acgt"[x&3]
		x >>= 2
	}
	return string(b)
}

func c01Name(rng *rand.Rand, n int) string {
	b := make([]byte, n)
	for i := range b {
		if i == 0 {
			b[i] = c01Lower[rng.Intn(26)]
		} else {
			b[i] = (c01Lower + c01Lower + c01Digits + "_")[rng.Intn(63)]
		}
	}
	return string(b)
}

var c01Divisions = []string{"PRI", "ROD", "MAM", "VRT", "INV", "PLN", "BCT", "VRL", "PHG", "SYN", "UNA", "EST", "PAT", "STS", "GSS", "HTG", "HTC", "ENV"}
var c01Months = []string{"JAN", "FEB", "MAR", "APR", "MAY", "JUN", "JUL", "AUG", "SEP", "OCT", "NOV", "DEC"}
var c01Mols = []string{"DNA", "mRNA", "tRNA", "rRNA"}
var c01FeatKeys = []string{"source", "gene", "CDS", "mRNA", "tRNA", "rRNA", "misc_feature", "promoter", "terminator", "rep_origin",
	"primer_bind", "protein_bind", "RBS", "regulatory", "sig_peptide", "mat_peptide", "exon", "intron", "5'UTR", "3'UTR", "-10_signal", "misc_difference"}
var c01QualKeys = []string{"note", "gene", "product", "label", "locus_tag", "db_xref", "function", "standard_name", "protein_id",
	"organism", "mol_type", "strain", "inference", "experiment"}

func c01Date(rng *rand.Rand) string {
	return fmt.Sprintf("%02d-%s-%04d", 1+rng.Intn(28), c01Pick(rng, c01Months), 1982+rng.Intn(45))
}

func c01BaseRec(rng *rand.Rand, n int) c01Rec {
	acc := c01Word(rng, c01Upper, 2, 2) + c01Word(rng, c01Digits, 6, 6)
	org := c01Word(rng, c01Upper, 1, 1) + c01Word(rng, c01Lower, 4, 9) + " " + c01Word(rng, c01Lower, 4, 9)
	return c01Rec{
		Name: c01Name(rng, 5+rng.Intn(6)), Mol: "DNA", Topo: "linear", Div: c01Pick(rng, c01Divisions), Date: c01Date(rng),
		Def: []string{c01Text(rng, c01MetaAlpha, 10+rng.Intn(40))}, Acc: []string{acc}, Ver: []string{acc + "." + strconv.Itoa(1+rng.Intn(9))},
		Kw: []string{"."}, Src: []string{org}, Org: []string{org},
		Seq: c01Seq(rng, n), Width: 79 + rng.Intn(2),
	}
}

func c01RandRange(rng *rand.Rand, n int) [2]int {
	a := 1 + rng.Intn(n)
	b := a + rng.Intn(n-a+1)
	if n > 200 && rng.Intn(2) == 0 {
		b = a + rng.Intn(200)
		if b > n {
			b = n
		}
	}
	return [2]int{a, b}
}

// c01GenLoc fills the location of f: lines = number of lines wanted (1..3) or
// 0 for "whatever a 58-column field needs" with up to maxRanges operands.
func c01GenLoc(rng *rand.Rand, f *c01Feat, n, lines, maxRanges int) {
	f.Ranges, f.Join, f.Compl, f.Partial, f.Single, f.BreakAfter = nil, false, false, 0, false, nil
	if lines == 1 {
		switch rng.Intn(8) {
		case 0, 1:
			f.Ranges = [][2]int{c01RandRange(rng, n)}
		case 2:
			f.Ranges, f.Compl = [][2]int{c01RandRange(rng, n)}, true
		case 3:
			f.Ranges, f.Partial = [][2]int{c01RandRange(rng, n)}, 1
		case 4:
			f.Ranges, f.Partial = [][2]int{c01RandRange(rng, n)}, 2
		case 5:
			a := 1 + rng.Intn(n)
			f.Ranges, f.Single = [][2]int{{a, a}}, true
		default:
			f.Join, f.Compl = true, rng.Intn(3) == 0
			f.Ranges = [][2]int{c01RandRange(rng, n), c01RandRange(rng, n)}
			if rng.Intn(2) == 0 {
				f.Ranges = append(f.Ranges, c01RandRange(rng, n))
			}
			for len(c01LocText(f)) > 58 {
				if len(f.Ranges) > 2 {
					f.Ranges = f.Ranges[:len(f.Ranges)-1]
				} else {
					f.Compl = false
				}
			}
		}
		return
	}
	f.Join, f.Compl = true, rng.Intn(3) == 0
	m := lines + rng.Intn(2) // at most two operands per line, so the forced breaks suffice
	if lines == 0 {
		m = 2 + rng.Intn(maxRanges-1)
	}
	for i := 0; i < m; i++ {
		f.Ranges = append(f.Ranges, c01RandRange(rng, n))
	}
	// forced breaks: lines-1 of them, spread evenly
	for k := 1; k < lines; k++ {
		f.BreakAfter = append(f.BreakAfter, k*m/lines-1)
	}
	// breaks the column limit asks for
	parts := c01LocParts(f)
	brk := map[int]bool{}
	for _, b := range f.BreakAfter {
		brk[b] = true
	}
	cur := 0
	for i, p := range parts {
		if cur > 0 && cur+len(p) > 58 {
			brk[i-1] = true
			cur = 0
		}
		cur += len(p)
		if brk[i] {
			cur = 0
		}
	}
	f.BreakAfter = nil
	for i := range parts {
		if brk[i] && i < len(parts)-1 {
			f.BreakAfter = append(f.BreakAfter, i)
		}
	}
}

// value shapes
const (
	c01VPlain = iota
	c01VSlash
	c01VEquals
	c01VSlashEquals
	c01VWrap
	c01VWrapSlashEquals
	c01VContSlash
	c01VEmpty
	c01VBare
	c01VTranslation
	c01VTransText
	c01VShapes
)

// c01VContKeyword is not part of the enumerated shapes (it has its own
// enumeration over the keywords and the places); the random records use it.
const c01VContKeyword = 100

// c01VLongToken has an enumeration of its own too (c01LongTokenRec).
const c01VLongToken = 101

var c01VNames = []string{"plain", "slash", "equals", "slash+equals", "wrap", "wrap+slash+equals", "continuation-slash", "empty", "bare", "translation", "translation-text"}

// c01TransText is the literal text a value of the translation-text shape
// contains: the name of the one qualifier whose wrapped lines are glued
// together without a blank, spelled inside the value of another qualifier
// (values may contain '/' and '='). It is text there like any other.
const c01TransText = "/translation="

// c01HasTransText: a qualifier other than /translation whose value contains
// the text "/translation=".
func c01HasTransText(q *c01Qual) bool {
	return q.Key != "translation" && strings.Contains(q.Value, c01TransText)
}

func c01Inject(rng *rand.Rand, text string, ch byte) string {
	words := strings.Split(text, " ")
	k := 1 + rng.Intn(2)
	for i := 0; i < k; i++ {
		wi := rng.Intn(len(words))
		w := words[wi]
		pos := 1
		if len(w) > 1 {
			pos = 1 + rng.Intn(len(w)-1)
		}
		w = w[:pos] + string(ch) + w[pos:]
		if strings.HasSuffix(w, "//") {
			w += "x"
		}
		words[wi] = w
	}
	return strings.Join(words, " ")
}

// c01MakeQual builds one qualifier of the given shape for a record of the given width.
func c01MakeQual(rng *rand.Rand, key string, shape, width int) c01Qual {
	q := c01Qual{Key: key}
	switch shape {
	case c01VEmpty:
		return q
	case c01VBare:
		q.Bare, q.Value = true, strconv.Itoa(1+rng.Intn(25))
		return q
	case c01VTranslation:
		q.Key, q.Value = "translation", "M"+c01Word(rng, "ACDEFGHIKLMNPQRSTVWY", 70, 260)
		return q
	case c01VContKeyword:
		return c01KeywordQual(rng, key, width, c01Pick(rng, c01AllKeywordWords))
	case c01VLongToken:
		return c01LongTokenQual(rng, key, width, c01LongTokenLen+rng.Intn(37), rng.Intn(2), rng.Intn(2), rng.Intn(3))
	case c01VTransText:
		// a value of two or more lines with the text "/translation=" in front of
		// one of its words: on its own, with letters after it as in a quoted
		// qualifier, or inside a word
		words := strings.Split(c01Text(rng, c01ValueAlpha, 70+rng.Intn(160)), " ")
		w := []string{c01TransText, c01TransText + c01Word(rng, "ACDEFGHIKLMNPQRSTVWY", 3, 8), "(see" + c01TransText + ")"}[rng.Intn(3)]
		at := rng.Intn(len(words))
		words = append(words[:at], append([]string{w}, words[at:]...)...)
		q.Value = strings.Join(words, " ")
		return q
	}
	chars := 3 + rng.Intn(25)
	if shape == c01VWrap || shape == c01VWrapSlashEquals || shape == c01VContSlash {
		chars = 70 + rng.Intn(160)
	}
	q.Value = c01Text(rng, c01ValueAlpha, chars)
	if shape == c01VSlash || shape == c01VSlashEquals || shape == c01VWrapSlashEquals {
		q.Value = c01Inject(rng, q.Value, '/')
	}
	if shape == c01VEquals || shape == c01VSlashEquals || shape == c01VWrapSlashEquals {
		q.Value = c01Inject(rng, q.Value, '=')
	}
	if shape == c01VContSlash {
		_, first := c01WrapQual(c01QualText(&q), width-21)
		words := strings.Split(q.Value, " ")
		if len(first) > 1 && first[1] > 0 && first[1] < len(words) {
			// the word was already too long for the line above, so one more letter keeps it here
			words[first[1]] = "/" + words[first[1]]
			q.Value = strings.Join(words, " ")
		}
	}
	return q
}

// c01LongToken: a blank-free token of n characters (n >= 21): kind 0 in the
// manner of a URL (letters, digits and / . _ - = ? &), kind 1 a list of
// accession numbers separated by commas. It neither starts with '/' nor ends
// in a character other than a letter or digit.
func c01LongToken(rng *rand.Rand, n, kind int) string {
	if kind == 0 {
		const head = "https://"
		return head + c01Word(rng, c01Lower+c01Lower+c01Digits+"/._-=?&", n-len(head)-1, n-len(head)-1) + c01Word(rng, c01Lower+c01Digits, 1, 1)
	}
	t := ""
	for len(t) < n {
		if t != "" {
			t += ","
		}
		t += c01Word(rng, c01Upper, 2, 2) + c01Word(rng, c01Digits, 6, 6)
	}
	t = t[:n]
	if t[n-1] == ',' {
		t = t[:n-1] + "7"
	}
	return t
}

// c01QualFits: no blank-free piece of the laid-out qualifier is longer than a
// line (such a piece would be cut hard, which only /translation values are).
func c01QualFits(q *c01Qual, width int) bool {
	for _, t := range strings.Split(c01QualText(q), " ") {
		if len(t) > width-21 {
			return false
		}
	}
	return true
}

// where the long-token enumeration puts the short line, and what follows the token
var c01TokenLeads = []string{"first-line", "second-line"}
var c01TokenTails = []string{"none", "few-words", "more-lines"}

// c01LongTokenQual: a quoted qualifier whose value is wrapped at a blank in
// front of a token of tokLen characters that does not fit on the line above,
// which therefore stops tokLen-1 or more columns short of the margin: the
// first line of the qualifier (lead 0) or its second (lead 1, the first line
// full). tail: the token ends the value (0), is followed by a few words (1) or
// by one to three further lines of words (2).
func c01LongTokenQual(rng *rand.Rand, key string, width, tokLen, kind, lead, tail int) c01Qual {
	w := width - 21
	for try := 0; ; try++ {
		q := c01Qual{Key: key}
		words := []string{}
		if lead == 1 { // a full first line or two before the short one
			words = strings.Split(c01Text(rng, c01ValueAlpha, 60+rng.Intn(50)), " ")
		}
		tok := c01LongToken(rng, tokLen, kind)
		// words until the token no longer fits on the current line
		for n := 0; ; n++ {
			q.Value = strings.Join(append(append([]string{}, words...), tok), " ")
			lines, first := c01WrapQual(c01QualText(&q), w)
			if n > 0 && first[len(first)-1] == len(words) && len(lines) >= 2 {
				break // the token starts the last line
			}
			words = append(words, c01Word(rng, c01ValueAlpha, 1, 12))
		}
		words = append(words, tok)
		switch tail {
		case 1:
			words = append(words, strings.Split(c01Text(rng, c01ValueAlpha, 3+rng.Intn(15)), " ")...)
		case 2:
			words = append(words, strings.Split(c01Text(rng, c01ValueAlpha, 60+rng.Intn(120)), " ")...)
		}
		q.Value = strings.Join(words, " ")
		if c01QualFits(&q, width) && c01HasShortLine(&q, width, lead == 0) {
			return q
		}
		if try > 200 {
			panic(fmt.Sprintf("c01LongTokenQual: cannot build key=%s width=%d token=%d lead=%d tail=%d", key, width, tokLen, lead, tail))
		}
	}
}

// c01LongTokenRec: a 345-letter record with two features of two qualifiers
// each, one reference and a COMMENT; the qualifier at the named place (the
// first qualifier of the first feature, so that a qualifier, a feature and
// ORIGIN follow it, or the last qualifier of the last feature, so that ORIGIN
// follows it) is a long-token qualifier.
func c01LongTokenRec(rng *rand.Rand, width, tokLen, kind, lead, tail int, last bool) c01Rec {
	r := c01ShapeRec(rng, 345, 2, 2, c01VPlain, 1)
	r.Width = width
	short := func(k int) []string { return []string{c01Text(rng, c01MetaAlpha, k)} }
	r.Refs = []c01Ref{{Authors: short(30), Title: short(40), Journal: short(30)}}
	r.Others = []c01KV{{"COMMENT", short(40), false}}
	fi, qi := 0, 0
	if last {
		fi, qi = 1, 1
	}
	r.Feats[fi].Quals[qi] = c01LongTokenQual(rng, r.Feats[fi].Quals[qi].Key, width, tokLen, kind, lead, tail)
	return r
}

// c01InjectLongTokens puts, with probability 1/3 each, a blank-free token of
// 21..57 characters in front of a random word (or behind the last one) of the
// quoted values of r other than /translation, where the laid-out qualifier
// still has no piece longer than a line.
func c01InjectLongTokens(rng *rand.Rand, r *c01Rec) {
	c01EachQual(r, func(_ *c01Feat, q *c01Qual) {
		if q.Bare || q.Key == "translation" || rng.Intn(3) > 0 {
			return
		}
		tok := c01LongToken(rng, c01LongTokenLen+rng.Intn(37), rng.Intn(2))
		words := strings.Split(q.Value, " ")
		if q.Value == "" {
			words = nil
		}
		at := rng.Intn(len(words) + 1)
		old := q.Value
		out := append(append(append([]string{}, words[:at]...), tok), words[at:]...)
		q.Value = strings.Join(out, " ")
		if !c01QualFits(q, r.Width) {
			q.Value = old
		}
	})
}

// c01PutAtLineStart inserts kw into the single-spaced words so that it starts a
// continuation line when lead+words+tail is wrapped greedily at w columns: it
// goes in front of a word that starts such a line, preceded, where it would
// still fit on the line above, by one filler word that fills that line.
func c01PutAtLineStart(rng *rand.Rand, words []string, lead, tail string, w int, kw, alpha string) ([]string, bool) {
	if len(words) < 3 {
		return words, false
	}
	lines, first := c01WrapQual(lead+strings.Join(words, " ")+tail, w)
	var cand []int
	for li, ti := range first {
		if li > 0 && ti > 0 {
			cand = append(cand, li)
		}
	}
	if len(cand) == 0 {
		return words, false
	}
	li := cand[rng.Intn(len(cand))]
	ti := first[li]
	ins := []string{kw}
	if room := w - len(lines[li-1]) - 1; room >= len(kw) {
		ins = []string{c01Word(rng, alpha, room, room), kw}
	}
	out := append([]string{}, words[:ti]...)
	out = append(out, ins...)
	return append(out, words[ti:]...), true
}

// c01KeywordPara: a paragraph of about chars characters (at least two lines of
// w columns) with kw as the first word of one of its continuation lines.
func c01KeywordPara(rng *rand.Rand, alpha string, w, chars int, kw string) string {
	if chars < w+30 {
		chars = w + 30
	}
	for try := 0; ; try++ {
		words, ok := c01PutAtLineStart(rng, strings.Split(c01Text(rng, alpha, chars), " "), "", "", w, kw, alpha)
		p := strings.Join(words, " ")
		if ok && len(c01KeywordConts([]string{p}, w, c01IsKeywordWord)) > 0 {
			return p
		}
		if try > 50 {
			panic("c01KeywordPara: cannot place " + kw)
		}
	}
}

// c01KeywordQual: a quoted qualifier whose wrapped value has kw as the first
// word of a continuation line.
func c01KeywordQual(rng *rand.Rand, key string, width int, kw string) c01Qual {
	for try := 0; ; try++ {
		q := c01Qual{Key: key}
		words, ok := c01PutAtLineStart(rng, strings.Split(c01Text(rng, c01ValueAlpha, 70+rng.Intn(160)), " "), "/"+key+"=\"", "\"", width-21, kw, c01ValueAlpha)
		q.Value = strings.Join(words, " ")
		if ok && len(c01ContKeywordWords(&q, width, c01IsKeywordWord)) > 0 {
			return q
		}
		if try > 50 {
			panic("c01KeywordQual: cannot place " + kw)
		}
	}
}

// where the dedicated enumeration puts the keyword-like word
var c01KeywordPlaces = []string{"qualifier", "DEFINITION", "KEYWORDS", "SOURCE", "ORGANISM", "COMMENT", "DBLINK", "AUTHORS", "TITLE", "JOURNAL", "REMARK"}

// c01KeywordContRec: a record with two features, two complete references, a
// DBLINK and a COMMENT block, and kw at the start of a continuation line of
// the named place (reference fields: those of the first reference).
func c01KeywordContRec(rng *rand.Rand, n, width int, place, kw string) c01Rec {
	r := c01ShapeRec(rng, n, 2, 1, c01VPlain, 1)
	r.Width = width
	short := func(k int) []string { return []string{c01Text(rng, c01MetaAlpha, k)} }
	for i := 0; i < 2; i++ {
		r.Refs = append(r.Refs, c01Ref{Authors: short(30), Title: short(40), Journal: short(30), PubMed: c01Word(rng, c01Digits, 6, 8), Remark: short(30)})
	}
	r.Others = []c01KV{{"DBLINK", []string{"BioProject: PRJNA" + c01Word(rng, c01Digits, 4, 6)}, true}, {"COMMENT", short(40), false}}
	para := func() []string { return []string{c01KeywordPara(rng, c01MetaAlpha, width-12, 90+rng.Intn(60), kw)} }
	switch place {
	case "qualifier":
		r.Feats[0].Quals[0] = c01KeywordQual(rng, r.Feats[0].Quals[0].Key, width, kw)
	case "DEFINITION":
		r.Def = para()
	case "KEYWORDS":
		r.Kw = para()
	case "SOURCE":
		r.Src = para()
	case "ORGANISM":
		r.Org = append(r.Org[:1], para()...) // name line, then the lineage
	case "DBLINK":
		r.Others[0].Text = append(r.Others[0].Text, para()...)
	case "COMMENT":
		r.Others[1].Text = para()
	case "AUTHORS":
		r.Refs[0].Authors = para()
	case "TITLE":
		r.Refs[0].Title = para()
	case "JOURNAL":
		r.Refs[0].Journal = para()
	case "REMARK":
		r.Refs[0].Remark = para()
	default:
		panic("c01KeywordContRec: " + place)
	}
	return r
}

// which line of the laid-out text a run of blanks is put on
const (
	c01LineAny = iota - 1
	c01LineFirst
	c01LineMiddle
	c01LineLast
	c01LineContinuation // any line but the first
)

// c01PutBlankRuns widens `runs` gaps between two words of text to runLen()
// blanks each. lay lays the text out (lines, and the index of the first
// single-blank-separated token of every line, as c01WrapQual gives them); the
// first run goes on the line named by line (c01LineFirst, ... of the layout at
// that moment; it stays on a line of its own choosing only in so far as the
// words after it move down), the others anywhere. A widening after which some
// line would be empty, start with a blank or end in one is taken back. The
// result says how many runs were put.
func c01PutBlankRuns(rng *rand.Rand, text string, lay func(text string) ([]string, []int), line, runs int, runLen func() int) (string, int) {
	put := 0
	for k := 0; k < runs; k++ {
		want := line
		if k > 0 {
			want = c01LineAny
		}
		for try := 0; try < 30; try++ {
			lines, first := lay(text)
			words := strings.Split(text, " ")
			var cand []int
			li := 0
			for ti := 0; ti+1 < len(words); ti++ {
				for li+1 < len(first) && first[li+1] >= 0 && first[li+1] <= ti {
					li++
				}
				sameLine := li+1 >= len(first) || first[li+1] < 0 || ti+1 < first[li+1]
				if !sameLine || words[ti] == "" || words[ti+1] == "" {
					continue
				}
				ok := false
				switch want {
				case c01LineAny:
					ok = true
				case c01LineFirst:
					ok = li == 0
				case c01LineMiddle:
					ok = li > 0 && li < len(lines)-1
				case c01LineLast:
					ok = li == len(lines)-1 && li > 0
				case c01LineContinuation:
					ok = li > 0
				}
				if ok {
					cand = append(cand, ti)
				}
			}
			if len(cand) == 0 {
				break
			}
			ti := cand[rng.Intn(len(cand))]
			fill := make([]string, runLen()-1)
			out := append(append(append([]string{}, words[:ti+1]...), fill...), words[ti+1:]...)
			wide := strings.Join(out, " ")
			if l2, _ := lay(wide); c01TidyLines(l2) {
				text = wide
				put++
				break
			}
		}
	}
	return text, put
}

func c01LayQual(key string, width int) func(string) ([]string, []int) {
	return func(v string) ([]string, []int) {
		q := c01Qual{Key: key, Value: v}
		return c01WrapQual(c01QualText(&q), width-21)
	}
}

// c01LayPara lays a paragraph of a keyword block out (c01Wrap gives the same
// lines: no word of these texts is longer than a line).
func c01LayPara(width int) func(string) ([]string, []int) {
	return func(p string) ([]string, []int) { return c01WrapQual(p, width-12) }
}

// where the consecutive-blanks enumeration puts the (first) run in a qualifier
var c01BlankLines = []string{"only-line", "first-line", "middle-line", "last-line"}

// c01BlankQual: a quoted qualifier whose value has `runs` runs of runLen blanks,
// the first of them on the named line of the laid-out qualifier (place 0: a
// value of one line; 1..3: a value of three or more lines), every run inside a
// line.
func c01BlankQual(rng *rand.Rand, key string, width, runLen, place, runs int) c01Qual {
	for try := 0; ; try++ {
		q := c01Qual{Key: key}
		line := c01LineAny
		if place == 0 {
			q.Value = c01Text(rng, c01ValueAlpha, 14+rng.Intn(20))
		} else {
			q.Value = c01Text(rng, c01ValueAlpha, 150+rng.Intn(80))
			line = []int{c01LineFirst, c01LineMiddle, c01LineLast}[place-1]
		}
		n := 0
		q.Value, n = c01PutBlankRuns(rng, q.Value, c01LayQual(key, width), line, runs, func() int { return runLen })
		lines := c01QualLines(&q, width)
		if n == runs && c01QualTidy(&q, width) && ((place == 0 && lines == 1) || (place > 0 && lines >= 3)) {
			return q
		}
		if try > 200 {
			panic(fmt.Sprintf("c01BlankQual: cannot build key=%s width=%d run=%d place=%d runs=%d", key, width, runLen, place, runs))
		}
	}
}

// c01BlankQualRec: the 345-letter record of the long-token enumeration (two
// features of two qualifiers, one reference, COMMENT) with a c01BlankQual at the
// named place.
func c01BlankQualRec(rng *rand.Rand, width, runLen, place, runs int, last bool) c01Rec {
	r := c01ShapeRec(rng, 345, 2, 2, c01VPlain, 1)
	r.Width = width
	short := func(k int) []string { return []string{c01Text(rng, c01MetaAlpha, k)} }
	r.Refs = []c01Ref{{Authors: short(30), Title: short(40), Journal: short(30)}}
	r.Others = []c01KV{{"COMMENT", short(40), false}}
	fi, qi := 0, 0
	if last {
		fi, qi = 1, 1
	}
	r.Feats[fi].Quals[qi] = c01BlankQual(rng, r.Feats[fi].Quals[qi].Key, width, runLen, place, runs)
	return r
}

// the texts of the consecutive-blanks enumeration outside the feature table
var c01BlankMetaPlaces = []string{"DEFINITION", "KEYWORDS", "SOURCE", "ORGANISM", "COMMENT", "DBLINK", "AUTHORS", "TITLE", "JOURNAL", "REMARK"}

// c01BlankMetaRec: the record of the keyword-like-continuation enumeration (two
// features, two complete references, DBLINK and COMMENT) in which the text of
// the named place (ORGANISM: the lineage below the name line; DBLINK: a second
// entry; reference fields: of the first reference) is a paragraph of two or
// three lines with a run of runLen blanks between two words of its first line
// (cont false) or of a continuation line (cont true), and a second run
// anywhere.
func c01BlankMetaRec(rng *rand.Rand, width int, place string, runLen int, cont bool) c01Rec {
	r := c01ShapeRec(rng, 345, 2, 1, c01VPlain, 1)
	r.Width = width
	short := func(k int) []string { return []string{c01Text(rng, c01MetaAlpha, k)} }
	for i := 0; i < 2; i++ {
		r.Refs = append(r.Refs, c01Ref{Authors: short(30), Title: short(40), Journal: short(30), PubMed: c01Word(rng, c01Digits, 6, 8), Remark: short(30)})
	}
	r.Others = []c01KV{{"DBLINK", []string{"BioProject: PRJNA" + c01Word(rng, c01Digits, 4, 6)}, true}, {"COMMENT", short(40), false}}
	line := c01LineFirst
	if cont {
		line = c01LineContinuation
	}
	para := ""
	for try := 0; ; try++ {
		n := 0
		para, n = c01PutBlankRuns(rng, c01Text(rng, c01MetaAlpha, 100+rng.Intn(60)), c01LayPara(width), line, 2, func() int { return runLen })
		if lines, _ := c01LayPara(width)(para); n == 2 && len(lines) >= 2 && c01TidyLines(lines) {
			break
		}
		if try > 200 {
			panic("c01BlankMetaRec: cannot build " + place)
		}
	}
	switch place {
	case "DEFINITION":
		r.Def = []string{para}
	case "KEYWORDS":
		r.Kw = []string{para}
	case "SOURCE":
		r.Src = []string{para}
	case "ORGANISM":
		r.Org = append(r.Org[:1], para)
	case "DBLINK":
		r.Others[0].Text = append(r.Others[0].Text, para)
	case "COMMENT":
		r.Others[1].Text = []string{para}
	case "AUTHORS":
		r.Refs[0].Authors = []string{para}
	case "TITLE":
		r.Refs[0].Title = []string{para}
	case "JOURNAL":
		r.Refs[0].Journal = []string{para}
	case "REMARK":
		r.Refs[0].Remark = []string{para}
	default:
		panic("c01BlankMetaRec: " + place)
	}
	return r
}

// c01InjectBlanks widens, with probability 1/2 each, 1..3 gaps of the quoted
// values of r other than /translation to runs of 2..4 blanks, and, with
// probability 1/4 each, 1..2 gaps of a random paragraph of the DEFINITION,
// KEYWORDS, SOURCE, ORGANISM, reference and extra-keyword texts; every run
// inside a laid-out line (a widening that would not be is left out).
func c01InjectBlanks(rng *rand.Rand, r *c01Rec) {
	runLen := func() int { return 2 + rng.Intn(3) }
	c01EachQual(r, func(_ *c01Feat, q *c01Qual) {
		if q.Bare || q.Key == "translation" || !strings.Contains(q.Value, " ") || rng.Intn(2) > 0 {
			return
		}
		q.Value, _ = c01PutBlankRuns(rng, q.Value, c01LayQual(q.Key, r.Width), c01LineAny, 1+rng.Intn(3), runLen)
	})
	for _, t := range c01AllTexts(r) {
		if t == &r.Acc || t == &r.Ver || len(*t) == 0 || rng.Intn(4) > 0 {
			continue
		}
		pi := rng.Intn(len(*t))
		(*t)[pi], _ = c01PutBlankRuns(rng, (*t)[pi], c01LayPara(r.Width), c01LineAny, 1+rng.Intn(2), runLen)
	}
}

/******************************************************************************
 Short continuation lines of multi-line locations
******************************************************************************/

// layouts of the short-location-line enumeration
const (
	c01SLWrap58     = iota // text cut every 58 characters (the width of the location field), the rest on the last line
	c01SLWrapNarrow        // the same at a column drawn from 8..57 (a writer with a narrower field)
	c01SLLast              // breaks after commas, and one more in front of the last characters (the closing parenthesis on a line of its own)
	c01SLMiddle            // breaks after commas, and one more right behind or in front of one of them: a short line between two others
)

var c01ShortLocStyles = []string{"hard-wrap-at-58", "hard-wrap-at-narrower-column", "breaks-after-commas-and-before-the-last-characters", "breaks-after-commas-and-a-short-middle-line"}

var c01ShortLocPlaces = []string{"first-feature-qualifiers-follow", "middle-feature-without-qualifiers", "last-feature-without-qualifiers", "last-feature-qualifiers-follow"}

// c01NumOfDigits draws a number of d digits that is at most n (d <= digits of n).
func c01NumOfDigits(rng *rand.Rand, d, n int) int {
	lo, hi := 1, 9
	for i := 1; i < d; i++ {
		lo, hi = lo*10, hi*10+9
	}
	if hi > n {
		hi = n
	}
	return lo + rng.Intn(hi-lo+1)
}

// c01JoinOfLen draws the operands a..b (1 <= a <= b <= n) of a join so that the
// operands and the commas between them take exactly chars characters; nil when
// no two or more operands do.
func c01JoinOfLen(rng *rand.Rand, n, chars int) [][2]int {
	d := len(strconv.Itoa(n))
	// an operand with its comma has 5 .. 2d+3 characters; the last one has no comma
	lo, hi := (chars+1+2*d+2)/(2*d+3), (chars+1)/5
	if lo < 2 {
		lo = 2
	}
	if lo > hi {
		return nil
	}
	m := lo + rng.Intn(hi-lo+1)
	lens := make([]int, m)
	for i := range lens {
		lens[i] = 4
	}
	for extra := chars - (5*m - 1); extra > 0; {
		if i := rng.Intn(m); lens[i] < 2*d+2 {
			lens[i]++
			extra--
		}
	}
	out := make([][2]int, m)
	for i, l := range lens {
		daLo, daHi := l-2-d, (l-2)/2
		if daLo < 1 {
			daLo = 1
		}
		da := daLo + rng.Intn(daHi-daLo+1)
		a, b := c01NumOfDigits(rng, da, n), c01NumOfDigits(rng, l-2-da, n)
		if a > b {
			a, b = b, a
		}
		out[i] = [2]int{a, b}
	}
	return out
}

// c01CommaCuts: the offsets into the location text at which the lines of the
// BreakAfter layout of f start.
func c01CommaCuts(f *c01Feat) []int {
	g := *f
	g.LocCuts = nil
	lines := c01LocLines(&g)
	var cuts []int
	at := 0
	for _, ln := range lines[:len(lines)-1] {
		at += len(ln)
		cuts = append(cuts, at)
	}
	return cuts
}

// c01ShortLocOK: the laid-out location of f has no line over 58 characters,
// exactly one continuation line of three characters or fewer, that one of n
// characters, and (lines > 0) that many lines.
func c01ShortLocOK(f *c01Feat, n, lines int) bool {
	ls := c01LocLines(f)
	if lines > 0 && len(ls) != lines {
		return false
	}
	short := 0
	for i, ln := range ls {
		if len(ln) == 0 || len(ln) > 58 {
			return false
		}
		if i > 0 && len(ln) <= 3 {
			if len(ln) != n {
				return false
			}
			short++
		}
	}
	return short == 1 && strings.Join(ls, "") == c01LocText(f)
}

// c01ShortLoc gives f a join(...) or complement(join(...)) location over a
// sequence of n letters, laid out in the given style on the given number of
// lines, one continuation line of which has exactly short (1..3) characters.
func c01ShortLoc(rng *rand.Rand, f *c01Feat, n, style, short, lines int, compl bool) {
	for try := 0; try < 100000; try++ {
		f.Ranges, f.Join, f.Compl, f.Partial, f.Single, f.BreakAfter, f.LocCuts = nil, true, compl, 0, false, nil, nil
		var cuts []int
		switch style {
		case c01SLWrap58, c01SLWrapNarrow:
			w := 58
			if style == c01SLWrapNarrow {
				w = 8 + rng.Intn(50)
			}
			total := (lines-1)*w + short
			overhead := len("join()")
			if compl {
				overhead += len("complement()")
			}
			if f.Ranges = c01JoinOfLen(rng, n, total-overhead); f.Ranges == nil {
				continue
			}
			for c := w; c < total; c += w {
				cuts = append(cuts, c)
			}
		default:
			if lines == 2 { // the commas' layout has one line
				f.Ranges = [][2]int{c01RandRange(rng, n), c01RandRange(rng, n)}
				if rng.Intn(2) == 0 {
					f.Ranges = append(f.Ranges, c01RandRange(rng, n))
				}
			} else {
				c01GenLoc(rng, f, n, lines-1, 6)
				f.Compl = compl
			}
			cuts = c01CommaCuts(f)
			if style == c01SLLast {
				cuts = append(cuts, len(c01LocText(f))-short)
			} else {
				if len(cuts) == 0 {
					continue
				}
				c := cuts[rng.Intn(len(cuts))]
				if rng.Intn(2) == 0 {
					cuts = append(cuts, c+short) // the first characters of the line below the break
				} else {
					cuts = append(cuts, c-short) // the last characters of the line above, comma included
				}
				sort.Ints(cuts)
			}
		}
		f.BreakAfter, f.LocCuts = nil, cuts
		if c01ShortLocOK(f, short, lines) {
			return
		}
	}
	panic(fmt.Sprintf("c01ShortLoc: cannot lay out style %d short %d lines %d", style, short, lines))
}

// c01ShortLocRec: a 345-letter record with three features of two qualifiers
// each; the feature at the named place has a c01ShortLoc location: the first
// feature (its qualifiers, two more features and ORIGIN follow the short line),
// the second feature without qualifiers (the key line of the next feature
// follows the location), the last feature without qualifiers (ORIGIN follows
// the location), the last feature with its qualifiers.
func c01ShortLocRec(rng *rand.Rand, style, short, lines int, compl bool, place int) c01Rec {
	r := c01ShapeRec(rng, 345, 3, 2, c01VPlain, 1)
	fi := []int{0, 1, 2, 2}[place]
	c01ShortLoc(rng, &r.Feats[fi], 345, style, short, lines, compl)
	if place == 1 || place == 2 {
		r.Feats[fi].Quals = nil
	}
	return r
}

// c01InjectShortLocLines lays, with probability 1/2 each, the join locations of
// r out anew, the operands as they are: cut every w characters for a column w
// in 8..58 that leaves 1..3 characters on the last line (58 itself half of the
// time where it does), or with one more break 1..3 characters before the end
// of the text, or 1..3 characters behind or in front of one of its breaks. A
// layout that would have a second line of three characters or fewer, or a
// line over 58 characters, is left out.
func c01InjectShortLocLines(rng *rand.Rand, r *c01Rec) {
	for i := range r.Feats {
		f := &r.Feats[i]
		if !f.Join || rng.Intn(2) > 0 {
			continue
		}
		total := len(c01LocText(f))
		short := 1 + rng.Intn(3)
		comma := c01CommaCuts(f)
		var cuts []int
		switch st := rng.Intn(3); {
		case st == 0:
			var ws []int
			for w := 8; w <= 58; w++ {
				if total > w && total%w == short {
					ws = append(ws, w)
				}
			}
			if len(ws) == 0 {
				continue
			}
			w := ws[rng.Intn(len(ws))]
			if ws[len(ws)-1] == 58 && rng.Intn(2) == 0 {
				w = 58
			}
			for c := w; c < total; c += w {
				cuts = append(cuts, c)
			}
		case st == 1 || len(comma) == 0:
			cuts = append(comma, total-short)
		default:
			c := comma[rng.Intn(len(comma))]
			if rng.Intn(2) == 0 {
				cuts = append(comma, c+short)
			} else {
				cuts = append(comma, c-short)
			}
			sort.Ints(cuts)
		}
		oldBreaks := f.BreakAfter
		f.BreakAfter, f.LocCuts = nil, cuts
		if !c01ShortLocOK(f, short, 0) {
			f.BreakAfter, f.LocCuts = oldBreaks, nil
		}
	}
}

// c01ShapeRec: the record of the exhaustive part. Every feature has the same
// shape; content is random.
func c01ShapeRec(rng *rand.Rand, n, nFeat, nq, vshape, locLines int) c01Rec {
	r := c01BaseRec(rng, n)
	for i := 0; i < nFeat; i++ {
		f := c01Feat{Key: []string{"gene", "CDS", "misc_feature"}[i%3]}
		c01GenLoc(rng, &f, n, locLines, 6)
		keys := []string{"note", "product"}
		if vshape == c01VBare {
			keys = []string{"codon_start", "transl_table"}
		}
		for k := 0; k < nq; k++ {
			s := vshape
			if vshape == c01VTranslation && k == 1 {
				s = c01VWrap
			}
			f.Quals = append(f.Quals, c01MakeQual(rng, keys[k], s, r.Width))
		}
		r.Feats = append(r.Feats, f)
	}
	return r
}

type c01Profile struct {
	MaxMeta     int // longest metadata text in characters
	MaxQuals    int
	AllowNoTopo bool
	MaxLen      int
}

func c01RandLen(rng *rand.Rand, max int) int {
	d := 1 + rng.Intn(6)
	lo, hi := 1, 9
	for i := 1; i < d; i++ {
		lo, hi = lo*10, hi*10+9
	}
	if hi > max {
		hi = max
	}
	if lo > hi {
		lo = hi
	}
	return lo + rng.Intn(hi-lo+1)
}

func c01MaybeLong(rng *rand.Rand, p c01Profile, long bool) []string {
	chars := 5 + rng.Intn(50)
	if long {
		chars = 70 + rng.Intn(p.MaxMeta-69)
	}
	t := c01Text(rng, c01MetaAlpha, chars)
	if long && rng.Intn(4) == 0 {
		return []string{t, c01Text(rng, c01MetaAlpha, 5+rng.Intn(100))}
	}
	return []string{t}
}

// c01RandRec: seeded-random content over the property's domain.
func c01RandRec(rng *rand.Rand, p c01Profile) c01Rec {
	n := c01RandLen(rng, p.MaxLen)
	r := c01BaseRec(rng, n)
	switch rng.Intn(12) {
	case 0:
		r.Name = c01Name(rng, 1)
	case 1:
		r.Name = c01Name(rng, 2)
	case 2:
		r.Name = c01Name(rng, 16)
	case 3, 4:
		r.Name = c01Name(rng, 3+rng.Intn(13))
	}
	r.Mol = c01Pick(rng, c01Mols)
	if rng.Intn(2) == 0 {
		r.Topo = "circular"
	}
	if p.AllowNoTopo && rng.Intn(6) == 0 {
		r.Topo = ""
	}
	r.OriginBlanks = rng.Intn(2) == 0
	r.Pubmed3 = rng.Intn(2) == 0
	wrapMeta := rng.Intn(3) > 0
	r.Def = c01MaybeLong(rng, p, wrapMeta && rng.Intn(2) == 0)
	if wrapMeta && rng.Intn(3) == 0 {
		r.Kw = c01MaybeLong(rng, p, true)
	}
	if wrapMeta && rng.Intn(3) == 0 {
		r.Src = c01MaybeLong(rng, p, true)
	}
	if rng.Intn(2) == 0 {
		// organism name on its own line, lineage below, as NCBI writes it
		r.Org = []string{r.Org[0], c01Text(rng, c01Lower+";", 20+rng.Intn(150))}
		if !wrapMeta {
			r.Org = r.Org[:1]
		}
	}
	if rng.Intn(5) == 0 {
		r.Acc = []string{r.Acc[0] + " " + c01Text(rng, c01Upper+c01Digits, 10)}
	}
	nref := rng.Intn(6)
	if rng.Intn(3) == 0 {
		nref = 0
	}
	for i := 0; i < nref; i++ {
		ref := c01Ref{NoRange: rng.Intn(6) == 0}
		ref.Authors = c01MaybeLong(rng, p, wrapMeta && rng.Intn(3) == 0)
		if rng.Intn(5) > 0 {
			ref.Title = c01MaybeLong(rng, p, wrapMeta && rng.Intn(2) == 0)
		}
		ref.Journal = c01MaybeLong(rng, p, wrapMeta && rng.Intn(4) == 0)
		if rng.Intn(2) == 0 {
			ref.PubMed = c01Word(rng, c01Digits, 5, 8)
		}
		if rng.Intn(3) == 0 {
			ref.Remark = c01MaybeLong(rng, p, wrapMeta && rng.Intn(3) == 0)
		}
		r.Refs = append(r.Refs, ref)
	}
	if rng.Intn(2) == 0 {
		r.Others = append(r.Others, c01KV{"COMMENT", c01MaybeLong(rng, p, wrapMeta), false})
	}
	if rng.Intn(3) == 0 {
		r.Others = append(r.Others, c01KV{"DBLINK", []string{"BioProject: PRJNA" + c01Word(rng, c01Digits, 3, 6), "BioSample: SAMN" + c01Word(rng, c01Digits, 6, 8)}, true})
		if !wrapMeta {
			r.Others[len(r.Others)-1].Text = r.Others[len(r.Others)-1].Text[:1]
		}
	}
	if rng.Intn(6) == 0 {
		r.Others = append(r.Others, c01KV{"PROJECT", c01MaybeLong(rng, p, false), true})
	}
	// features
	nfeat := rng.Intn(41)
	if rng.Intn(3) == 0 {
		nfeat = rng.Intn(4)
	}
	noQualOK := rng.Intn(2) == 0
	multiLocOK := rng.Intn(2) == 0
	allowed := []int{c01VPlain, c01VPlain, c01VEmpty, c01VBare}
	slashOK, equalsOK := rng.Intn(2) == 0, rng.Intn(2) == 0
	if slashOK {
		allowed = append(allowed, c01VSlash, c01VSlash)
	}
	if equalsOK {
		allowed = append(allowed, c01VEquals, c01VEquals)
	}
	if slashOK && equalsOK {
		allowed = append(allowed, c01VSlashEquals)
	}
	if rng.Intn(2) == 0 {
		allowed = append(allowed, c01VWrap, c01VTranslation)
		if slashOK && equalsOK {
			allowed = append(allowed, c01VWrapSlashEquals, c01VTransText)
		}
		if rng.Intn(3) == 0 {
			allowed = append(allowed, c01VContSlash)
		}
		if rng.Intn(3) == 0 {
			allowed = append(allowed, c01VContKeyword)
		}
	}
	// one record in five: a keyword block or a reference field gets a last
	// paragraph in which a keyword word starts a continuation line
	if rng.Intn(5) == 0 {
		ts := []*[]string{&r.Def, &r.Kw, &r.Src, &r.Org}
		for i := range r.Others {
			ts = append(ts, &r.Others[i].Text)
		}
		ts = append(ts, c01RefTexts(&r)...)
		t := ts[rng.Intn(len(ts))]
		para := c01KeywordPara(rng, c01MetaAlpha, r.Width-12, 70+rng.Intn(p.MaxMeta-69), c01Pick(rng, c01AllKeywordWords))
		if t == &r.Org || len(*t) == 0 {
			*t = append(*t, para)
		} else {
			(*t)[len(*t)-1] = para
		}
	}
	for i := 0; i < nfeat; i++ {
		f := c01Feat{Key: c01Pick(rng, c01FeatKeys)}
		lines := 1
		if multiLocOK && rng.Intn(4) == 0 {
			lines = []int{0, 2, 3}[rng.Intn(3)]
		}
		c01GenLoc(rng, &f, n, lines, 40)
		nq := 1 + rng.Intn(p.MaxQuals)
		if noQualOK && rng.Intn(4) == 0 {
			nq = 0
		}
		perm := rng.Perm(len(c01QualKeys))
		used := map[string]bool{}
		for k := 0; k < nq; k++ {
			s := allowed[rng.Intn(len(allowed))]
			key := c01QualKeys[perm[k%len(perm)]]
			if s == c01VBare {
				key = []string{"codon_start", "transl_table", "number"}[rng.Intn(3)]
			}
			q := c01MakeQual(rng, key, s, r.Width)
			if used[q.Key] {
				continue
			}
			used[q.Key] = true
			f.Quals = append(f.Quals, q)
		}
		if nq > 0 && len(f.Quals) == 0 {
			f.Quals = []c01Qual{c01MakeQual(rng, "note", c01VPlain, r.Width)}
		}
		r.Feats = append(r.Feats, f)
	}
	return r
}

/******************************************************************************
 Clause checks against the abstract record
******************************************************************************/

func c01Q(s string) string {
	if len(s) > 90 {
		return strconv.Quote(s[:60]) + "...(" + strconv.Itoa(len(s)) + " chars)"
	}
	return strconv.Quote(s)
}

func c01Diff(field, got, want string) string {
	if got == want {
		return ""
	}
	if len(got) > 90 || len(want) > 90 {
		i := 0
		for i < len(got) && i < len(want) && got[i] == want[i] {
			i++
		}
		lo := i - 20
		if lo < 0 {
			lo = 0
		}
		g, w := got[lo:], want[lo:]
		if len(g) > 70 {
			g = g[:70]
		}
		if len(w) > 70 {
			w = w[:70]
		}
		return fmt.Sprintf("%s: lengths %d/%d, first difference at byte %d: got ...%q, stated ...%q", field, len(got), len(want), i, g, w)
	}
	return fmt.Sprintf("%s: got %q, stated %q", field, got, want)
}

func c01CheckOrigin(s *poly.Sequence, r *c01Rec) string {
	return c01Diff("Sequence", s.Sequence, r.Seq)
}

func c01CheckLocus(s *poly.Sequence, r *c01Rec) string {
	l := s.Meta.Locus
	for _, d := range []string{
		c01Diff("Locus.Name", l.Name, r.Name),
		c01Diff("Locus.SequenceLength", l.SequenceLength, strconv.Itoa(len(r.Seq))),
		c01Diff("Locus.MoleculeType", l.MoleculeType, r.Mol),
		c01Diff("Locus.GenbankDivision", l.GenbankDivision, r.Div),
		c01Diff("Locus.ModificationDate", l.ModificationDate, r.Date),
	} {
		if d != "" {
			return d
		}
	}
	if l.Circular != (r.Topo == "circular") || l.Linear != (r.Topo == "linear") {
		return fmt.Sprintf("topology: got Circular=%v Linear=%v, stated %q", l.Circular, l.Linear, r.Topo)
	}
	return ""
}

func c01CheckMeta(s *poly.Sequence, r *c01Rec) string {
	m := s.Meta
	for _, d := range []string{
		c01Diff("Definition", m.Definition, c01J(r.Def)),
		c01Diff("Accession", m.Accession, c01J(r.Acc)),
		c01Diff("Version", m.Version, c01J(r.Ver)),
		c01Diff("Keywords", m.Keywords, c01J(r.Kw)),
		c01Diff("Source", m.Source, c01J(r.Src)),
		c01Diff("Organism", m.Organism, c01J(r.Org)),
	} {
		if d != "" {
			return d
		}
	}
	want := map[string]string{}
	for _, o := range r.Others {
		want[o.Key] = c01J(o.Text)
		got, ok := m.Other[o.Key]
		if !ok {
			return "Other[" + o.Key + "] missing"
		}
		if d := c01Diff("Other["+o.Key+"]", got, want[o.Key]); d != "" {
			return d
		}
	}
	var extra []string
	for k := range m.Other {
		if _, ok := want[k]; !ok {
			extra = append(extra, k)
		}
	}
	if len(extra) > 0 {
		sort.Strings(extra)
		return fmt.Sprintf("Other has keyword(s) the record does not state: %q", extra)
	}
	return ""
}

func c01CheckRefs(s *poly.Sequence, r *c01Rec) string {
	if len(s.Meta.References) != len(r.Refs) {
		return fmt.Sprintf("got %d references, stated %d", len(s.Meta.References), len(r.Refs))
	}
	for i, w := range r.Refs {
		g := s.Meta.References[i]
		rng := ""
		if !w.NoRange {
			rng = "(bases 1 to " + strconv.Itoa(len(r.Seq)) + ")"
		}
		p := "reference " + strconv.Itoa(i+1) + " "
		for _, d := range []string{
			c01Diff(p+"Index", g.Index, strconv.Itoa(i+1)),
			c01Diff(p+"Range", g.Range, rng),
			c01Diff(p+"Authors", g.Authors, c01J(w.Authors)),
			c01Diff(p+"Title", g.Title, c01J(w.Title)),
			c01Diff(p+"Journal", g.Journal, c01J(w.Journal)),
			c01Diff(p+"PubMed", g.PubMed, w.PubMed),
			c01Diff(p+"Remark", g.Remark, c01J(w.Remark)),
		} {
			if d != "" {
				return d
			}
		}
	}
	return ""
}

func c01CheckFeats(s *poly.Sequence, r *c01Rec) string {
	n := len(s.Features)
	if len(r.Feats) < n {
		n = len(r.Feats)
	}
	for i := 0; i < n; i++ {
		g, w := s.Features[i], &r.Feats[i]
		p := "feature " + strconv.Itoa(i+1) + " "
		if d := c01Diff(p+"key", g.Type, w.Key); d != "" {
			return d
		}
		if d := c01Diff(p+"("+w.Key+") location", g.GbkLocationString, c01LocText(w)); d != "" {
			return d
		}
		seen := map[string]bool{}
		for _, q := range w.Quals {
			seen[q.Key] = true
			gv, ok := g.Attributes[q.Key]
			if !ok {
				return p + "(" + w.Key + ") qualifier /" + q.Key + " missing"
			}
			if d := c01Diff(p+"("+w.Key+") /"+q.Key, gv, q.Value); d != "" {
				return d
			}
		}
		var extra []string
		for k := range g.Attributes {
			if !seen[k] {
				extra = append(extra, k)
			}
		}
		if len(extra) > 0 {
			sort.Strings(extra)
			return fmt.Sprintf("%s(%s) has qualifier(s) the record does not state: %q", p, w.Key, extra)
		}
	}
	if len(s.Features) != len(r.Feats) {
		return fmt.Sprintf("got %d features, stated %d", len(s.Features), len(r.Feats))
	}
	return ""
}

func c01TryParse(text string) (s poly.Sequence, panicMsg string) {
	defer func() {
		if r := recover(); r != nil {
			panicMsg = fmt.Sprintf("panic: %v", r)
		}
	}()
	return Parse([]byte(text)), ""
}

// c01TryMulti: via != "" goes through the file wrappers ReadMulti / ReadFlat /
// ReadFlatGz (for a path ending in .gz) instead of ParseMulti / ParseFlat.
func c01TryMulti(text string, flat bool, via string) (s []poly.Sequence, panicMsg string) {
	defer func() {
		if r := recover(); r != nil {
			panicMsg = fmt.Sprintf("panic: %v", r)
		}
	}()
	if via != "" {
		data := []byte(text)
		if strings.HasSuffix(via, ".gz") {
			var b bytes.Buffer
			w := gzip.NewWriter(&b)
			w.Write(data)
			w.Close()
			data = b.Bytes()
		}
		if err := os.WriteFile(via, data, 0o644); err != nil {
			panic(err)
		}
		defer os.Remove(via)
		switch {
		case flat && strings.HasSuffix(via, ".gz"):
			return ReadFlatGz(via), ""
		case flat:
			return ReadFlat(via), ""
		}
		return ReadMulti(via), ""
	}
	if flat {
		return ParseFlat([]byte(text)), ""
	}
	return ParseMulti([]byte(text)), ""
}

func c01LocEq(a, b poly.Location) bool {
	if a.Start != b.Start || a.End != b.End || a.Complement != b.Complement || a.Join != b.Join ||
		a.FivePrimePartial != b.FivePrimePartial || a.ThreePrimePartial != b.ThreePrimePartial || len(a.SubLocations) != len(b.SubLocations) {
		return false
	}
	for i := range a.SubLocations {
		if !c01LocEq(a.SubLocations[i], b.SubLocations[i]) {
			return false
		}
	}
	return true
}

// c01SameResult: equality of two parse results (ParentSequence pointers aside).
func c01SameResult(a, b *poly.Sequence) string {
	if d := c01Diff("Sequence", a.Sequence, b.Sequence); d != "" {
		return d
	}
	if !reflect.DeepEqual(a.Meta, b.Meta) {
		return fmt.Sprintf("Meta differs: %+v vs %+v", a.Meta, b.Meta)
	}
	if len(a.Features) != len(b.Features) {
		return fmt.Sprintf("%d features vs %d", len(a.Features), len(b.Features))
	}
	for i := range a.Features {
		x, y := a.Features[i], b.Features[i]
		if x.Type != y.Type || x.GbkLocationString != y.GbkLocationString || !c01LocEq(x.SequenceLocation, y.SequenceLocation) ||
			!(len(x.Attributes) == 0 && len(y.Attributes) == 0 || reflect.DeepEqual(x.Attributes, y.Attributes)) {
			return fmt.Sprintf("feature %d differs: %s %s %v vs %s %s %v", i+1, x.Type, x.GbkLocationString, x.Attributes, y.Type, y.GbkLocationString, y.Attributes)
		}
	}
	return ""
}

/******************************************************************************
 Driver
******************************************************************************/

type c01Out struct {
	run        int
	key        string
	nontrivial bool
	failed     bool
	class      string
	input      string
	detail     string
}

// c01Parallel evaluates cases 0..n-1 on all cores and records the outcomes in
// case order, so that the first witnesses kept are the smallest ones.
func c01Parallel(n int, runs []*verifRun, eval func(i int) []c01Out) {
	const chunk = 1024
	workers := runtime.NumCPU()
	for lo := 0; lo < n; lo += chunk {
		hi := lo + chunk
		if hi > n {
			hi = n
		}
		res := make([][]c01Out, hi-lo)
		var wg sync.WaitGroup
		next := make(chan int, hi-lo)
		for i := lo; i < hi; i++ {
			next <- i
		}
		close(next)
		for w := 0; w < workers; w++ {
			wg.Add(1)
			go func() {
				defer wg.Done()
				for i := range next {
					res[i-lo] = eval(i)
				}
			}()
		}
		wg.Wait()
		for _, outs := range res {
			for _, o := range outs {
				runs[o.run].Case(o.key, o.nontrivial)
				if o.failed {
					runs[o.run].Fail(o.class, o.input, o.detail)
				}
			}
		}
	}
}

const (
	c01RunPanic = iota
	c01RunOrigin
	c01RunLocus
	c01RunMeta
	c01RunRefs
	c01RunFeats
	c01RunMulti
	c01RunFlat
)

type c01Clause struct {
	run        int
	check      func(s *poly.Sequence, r *c01Rec) string
	nontrivial func(r *c01Rec) bool
}

func c01WrappedMeta(r *c01Rec) bool {
	for _, t := range c01AllTexts(r) {
		if len(c01TextLines(*t, r.Width-12)) > 1 {
			return true
		}
	}
	return false
}

var c01Clauses = []c01Clause{
	{c01RunOrigin, c01CheckOrigin, func(r *c01Rec) bool { return true }},
	{c01RunLocus, c01CheckLocus, func(r *c01Rec) bool { return true }},
	{c01RunMeta, c01CheckMeta, func(r *c01Rec) bool { return len(r.Others) > 0 || c01WrappedMeta(r) }},
	{c01RunRefs, c01CheckRefs, func(r *c01Rec) bool { return len(r.Refs) > 0 }},
	{c01RunFeats, c01CheckFeats, func(r *c01Rec) bool { return len(r.Feats) > 0 }},
}

// c01EvalRecord: the Parse clauses on a single-record file.
func c01EvalRecord(key string, f *c01File, via string) []c01Out {
	var outs []c01Out
	text := c01FileText(f)
	rec := &f.Recs[0]
	s, pm := c01TryParse(text)
	if via != "" { // through the file wrapper Read
		if err := os.WriteFile(via, []byte(text), 0o644); err != nil {
			panic(err)
		}
		func() {
			defer func() {
				if r := recover(); r != nil {
					pm = fmt.Sprintf("panic: %v", r)
				}
			}()
			defer os.Remove(via)
			s, pm = Read(via), ""
		}()
	}
	po := c01Out{run: c01RunPanic, key: key, nontrivial: true}
	if pm != "" {
		cl, min := c01Blame(f, func(g *c01File) bool { _, m := c01TryParse(c01FileText(g)); return m != "" })
		po.failed, po.class, po.input, po.detail = true, cl, c01Show(c01FileText(&min)), pm
		return append(outs, po)
	}
	outs = append(outs, po)
	for _, c := range c01Clauses {
		c := c
		o := c01Out{run: c.run, key: key, nontrivial: c.nontrivial(rec)}
		if d := c.check(&s, rec); d != "" {
			cl, min := c01Blame(f, func(g *c01File) bool {
				gs, m := c01TryParse(c01FileText(g))
				return m != "" || c.check(&gs, &g.Recs[0]) != ""
			})
			ms, _ := c01TryParse(c01FileText(&min))
			md := c.check(&ms, &min.Recs[0])
			if md == "" {
				md = d
			}
			o.failed, o.class, o.input, o.detail = true, cl, c01Show(c01FileText(&min)), md
		}
		outs = append(outs, o)
	}
	return outs
}

// c01CheckFile: k records give k results, result i equals Parse(record i alone).
func c01CheckFile(f *c01File, via string) string {
	text := c01FileText(f)
	got, pm := c01TryMulti(text, f.Header, via)
	if pm != "" {
		return pm
	}
	if len(got) != len(f.Recs) {
		return fmt.Sprintf("%d records in the file, %d results", len(f.Recs), len(got))
	}
	for i, t := range c01RecordTexts(f) {
		alone, pm := c01TryParse(t)
		if pm != "" {
			return "record " + strconv.Itoa(i+1) + " alone: " + pm
		}
		if d := c01SameResult(&got[i], &alone); d != "" {
			return "result " + strconv.Itoa(i+1) + " differs from parsing record " + strconv.Itoa(i+1) + " alone: " + d
		}
		// and it is that record, not another one
		if got[i].Meta.Locus.Name != f.Recs[i].Name {
			return fmt.Sprintf("result %d is locus %q, record %d of the file is %q", i+1, got[i].Meta.Locus.Name, i+1, f.Recs[i].Name)
		}
	}
	return ""
}

func c01EvalFile(key string, f *c01File, via string) []c01Out {
	run := c01RunMulti
	if f.Header {
		run = c01RunFlat
	}
	o := c01Out{run: run, key: key, nontrivial: len(f.Recs) > 1 || !f.FinalNL}
	if d := c01CheckFile(f, via); d != "" {
		cl, min := c01Blame(f, func(g *c01File) bool { return c01CheckFile(g, "") != "" })
		md := c01CheckFile(&min, "")
		if md == "" {
			md = d
		}
		head := fmt.Sprintf("[%d record(s), final newline %v, header %v] ", len(min.Recs), min.FinalNL, min.Header)
		o.failed, o.class, o.input, o.detail = true, cl, head+c01Show(strings.TrimPrefix(c01FileText(&min), c01Header)), md
	}
	return []c01Out{o}
}

func c01Rng(stream, i int) *rand.Rand {
	return rand.New(rand.NewSource(verifSeed()*1000003 + int64(stream)*100000007 + int64(i)))
}

// token lengths of the long-token enumeration: 21 leaves the line above 20 or
// more columns short, 57 (with the closing quote) fills a 58-column line
var c01TokenLens = []int{21, 30, 45, 57}

func TestVerifC01(t *testing.T) {
	nRandRec, nRandFile := 600, 200
	lenReps := []int{7, 12, 345, 1234, 12345, 100000}
	extraLens := []int{1, 9, 10, 60, 61, 99, 100, 120, 999, 1000, 9999, 10000, 99999}
	nBlankRand := 80    // random records with runs of blanks (streams 11, 12)
	nShortLocRand := 80 // random records with short location continuation lines (streams 14, 15)
	if verifThorough() {
		nRandRec, nRandFile = 30000, 8000
		nBlankRand = 4000
		nShortLocRand = 4000
	}
	prof := c01Profile{MaxMeta: 400, MaxQuals: 5, MaxLen: 100000}

	dom := "independent NCBI-layout writer (LOCUS columns 13-28/30-40/48-53/56-63/65-67/69-79, 12-column keyword field, feature key column 6, location/qualifier column 22, wrapping at 79 or 80 columns, ORIGIN 60/10); "
	shapeDom := "exhaustive over shape: sequence length {7,12,345,1234,12345,100000} (1 to 6 digits) x 1 or 2 features x qualifiers per feature {0,1,2} x value shape {" + strings.Join(c01VNames, ",") +
		"} (translation-text = a /note or /product value of 70..252 characters, laid out on two or more lines, that contains the literal text /translation= in front of one of its words: on its own, followed by 3..8 letters, or as (see/translation=)) x location on {1,2,3} lines x final newline {yes,no}, plus lengths {1,9,10,60,61,99,100,120,999,1000,9999,10000,99999} and locus names of 1..16 characters and the 4 molecule types x 2 topologies on a plain record, plus " + strconv.Itoa(len(c01KeywordNames)) +
		" lower-case locus names that contain a molecule-type, topology or division word (dnak_transcript, ssu_rdna_tx, mrna_7, trna_leu, rrna16s, linearized_x, circular9, genomic_dna_1, bct_syn, linear, circular, dna, mrna, est_linear_rrna, ...) x 4 molecule types x 2 topologies x all 18 divisions on a plain 345-letter record, plus keyword-like continuation lines: each of the words {" + strings.Join(c01AllKeywordWords, ",") +
		"} as the first word of an indented continuation line (every word in every place, so each word occurs above as well as below the real line of that keyword) of {a wrapped qualifier value, DEFINITION, KEYWORDS, SOURCE, the ORGANISM lineage, COMMENT, DBLINK, and AUTHORS, TITLE, JOURNAL, REMARK of the first of two references} x wrapping at {79,80} columns on a 345-letter record with two features, two complete references, DBLINK and COMMENT, plus short lines in front of long tokens: a quoted /note or /product value wrapped at a blank in front of a blank-free token of {21,30,45,57} characters (a URL of letters, digits and / . _ - = ? &, or a comma-separated accession list) that does not fit on the line above, so that this line, {the first line of the qualifier, its second line after a full first one}, stops 20 or more columns (up to 50) before the right margin, the token {ending the value, followed by a few words, followed by one to three more lines of words} x wrapping at {79,80} columns x {first qualifier of the first feature, so that another qualifier and another feature follow; last qualifier of the last feature} on a 345-letter record with two features of two qualifiers, one reference and COMMENT; "
	randDom := fmt.Sprintf("plus %d seeded-random records: length 1..100000 (digit count uniform), locus name 1..16 lower-case characters, DNA/mRNA/tRNA/rRNA, linear/circular, 0..40 features with 0..5 qualifiers (values over printable ASCII without the double quote, single-spaced words, up to 230 characters, translations up to 260), locations a..b, complement, join, complement(join), partial, single base, join of up to 40 ranges on several lines, 0..5 references with optional TITLE/PUBMED/REMARK, COMMENT/DBLINK/PROJECT blocks, metadata texts to 400 characters, in about one record in six wrapped qualifier values, in about one record in eight values of the translation-text shape above (up to 252 characters, under any of the 14 qualifier names), in one record in five a keyword block or reference field with a continuation line whose first word is one of the keyword words above, and in one record in four a blank-free token of 21..57 characters (URL or accession list) put at a random word position into each quoted value other than /translation with probability 1/3 (where no piece of the laid-out qualifier gets longer than a line), which leaves the line above it up to 56 columns short; every 25th random record is read through Read from a temporary file; ", nRandRec)
	shapeDom += "plus consecutive blanks (all texts above are single-spaced): a quoted /note or /product value with {1,3} runs of {2,3,6} blanks between two of its words, the first run on {the only line of a one-line value; the first, a middle, the last line of a value of three or more lines} x wrapping at {79,80} columns x {first qualifier of the first feature, last qualifier of the last feature} on a 345-letter record with two features of two qualifiers, one reference and COMMENT (class consecutive-blanks-in-value), and a paragraph of two or three lines with two runs of {2,4} blanks, the first on {its first line, a continuation line}, as the text of each of {" + strings.Join(c01BlankMetaPlaces, ", ") + "} (ORGANISM: the lineage; DBLINK: a second entry; reference fields: of the first of two references) x wrapping at {79,80} columns on a 345-letter record with two features, two complete references, DBLINK and COMMENT (class consecutive-blanks-in-meta-text); every run lies inside a laid-out line: the writer wraps at single blanks and a line break stands for exactly one blank, so a run that the wrap would fall into would leave blanks at the end of a line or the start of the next, a layout the format does not carry and the unchanged reader does not read back (it keeps blanks at the end of the first line of a qualifier and drops those at the end or start of a continuation line); such layouts are not generated; the value or text, runs included, must come back verbatim; "
	randDom += fmt.Sprintf("plus %d seeded-random records of the same kind with lengths up to 9999 in which, with probability 1/2 each, 1..3 gaps between words of the quoted values other than /translation are widened to runs of 2..4 blanks and, with probability 1/4 each, 1..2 gaps of a paragraph of the DEFINITION, KEYWORDS, SOURCE, ORGANISM, reference and extra-keyword texts (every run inside a laid-out line, as above); ", nBlankRand)
	shapeDom += "plus short continuation lines of multi-line locations (everywhere above a location line holds whole operands, five characters or more): a join(...) or complement(join(...)) location on {2,3,4} lines of which ONE continuation line carries exactly {1,2,3} characters in the location column, laid out as {" + strings.Join(c01ShortLocStyles, "; ") + "}: the text cut every 58 characters (the width of the location field) or every w characters for a column w drawn from 8..57, with 1, 2 or 3 characters left for the last line (a closing parenthesis alone, '))', '5))', ...; operands drawn so that the text has exactly that length); or broken after commas as above with one more break 1, 2 or 3 characters before the end of the text (join(1..5,7..9 / ) style: the closing parenthesis or parentheses on a line of their own, or with the last digit); or broken after commas with one more break 1, 2 or 3 characters behind or in front of one of these breaks, which gives a short line between two others (a lone comma, '5,', '17.', ...; 3 and 4 lines only); x {join, complement(join)} x the feature being {the first of three, its two qualifiers following the short line; the second of three and without qualifiers, the key line of the next feature following; the last and without qualifiers, ORIGIN following; the last, with its qualifiers} on a 345-letter record with three features of two qualifiers (classes one-character-location-continuation-line, two-character-location-continuation-line, three-character-location-continuation-line); every one of these layouts was probed on the unchanged reader, which reads the location text back verbatim whatever the column of the break (inside a number, between the two dots, before or after a comma or parenthesis), so none is left out; the location text must come back verbatim and every feature and qualifier after it as stated; "
	randDom += fmt.Sprintf("plus %d seeded-random records of the same kind with lengths up to 9999 in which, with probability 1/2 each, the join locations are laid out anew, operands unchanged: cut every w characters for a column w in 8..58 that leaves 1..3 characters on the last line (58 half of the time where it does), or with one more break 1..3 characters before the end of the text, or 1..3 characters behind or in front of one of its breaks after a comma (exactly one continuation line of three characters or fewer, no line over 58 characters); ", nShortLocRand)
	runs := []*verifRun{
		newVerifRun("C01", "io/genbank.Parse/panic-free", dom+shapeDom+randDom+"every case counts"),
		newVerifRun("C01", "io/genbank.Parse/post/origin", dom+shapeDom+randDom+"every case counts (length >= 1)"),
		newVerifRun("C01", "io/genbank.Parse/post/locus", dom+shapeDom+randDom+"every case counts; compared: name, length, molecule type, topology, division, date"),
		newVerifRun("C01", "io/genbank.Parse/post/meta", dom+shapeDom+randDom+"non-trivial = a wrapped block or an extra keyword; compared: DEFINITION, ACCESSION, VERSION, KEYWORDS, SOURCE, ORGANISM, other keywords, continuation lines joined by one blank"),
		newVerifRun("C01", "io/genbank.Parse/post/references", dom+shapeDom+randDom+"non-trivial = at least one reference; compared: number, range, AUTHORS, TITLE, JOURNAL, PUBMED, REMARK"),
		newVerifRun("C01", "io/genbank.Parse/post/features", dom+shapeDom+randDom+"non-trivial = at least one feature; compared: count, order, key, location text, every qualifier value, no unstated qualifier"),
		newVerifRun("C01", "io/genbank.ParseMulti/post/records", dom+fmt.Sprintf("files of k records without header: the record shapes above (one feature) x k {1,2,3} x final newline {yes,no}, plus %d seeded-random files of 1..5 random records (one in ten read through ReadMulti from a temporary file); non-trivial = k >= 2 or no final newline; demanded: k results, result i equal to Parse of record i alone and carrying record i's locus name", nRandFile)),
		newVerifRun("C01", "io/genbank.ParseFlat/post/records", dom+fmt.Sprintf("files of k records behind the 10-line release header: the record shapes above (one feature) x k {1,2,3} x final newline {yes,no}, plus %d seeded-random files of 1..5 random records (one in ten read through ReadFlat or, gzipped, ReadFlatGz from a temporary file); non-trivial = k >= 2 or no final newline; demanded as for ParseMulti", nRandFile)),
	}
	for _, v := range runs {
		v.Sampled() // content is sampled even where the shape is enumerated
	}

	// ---- single records, shape enumeration -------------------------------
	type shape struct {
		n, nFeat, nq, vs, loc int
		nl                    bool
	}
	var shapes []shape
	for _, n := range lenReps {
		for nFeat := 1; nFeat <= 2; nFeat++ {
			for nq := 0; nq <= 2; nq++ {
				for vs := 0; vs < c01VShapes; vs++ {
					if nq == 0 && vs > 0 {
						continue
					}
					for loc := 1; loc <= 3; loc++ {
						for _, nl := range []bool{true, false} {
							shapes = append(shapes, shape{n, nFeat, nq, vs, loc, nl})
						}
					}
				}
			}
		}
	}
	c01Parallel(len(shapes), runs, func(i int) []c01Out {
		sh := shapes[i]
		rng := c01Rng(1, i)
		f := c01File{Recs: []c01Rec{c01ShapeRec(rng, sh.n, sh.nFeat, sh.nq, sh.vs, sh.loc)}, FinalNL: sh.nl}
		key := fmt.Sprintf("len=%d features=%d qualifiers=%d value=%s location-lines=%d final-newline=%v", sh.n, sh.nFeat, sh.nq, c01VNames[sh.vs], sh.loc, sh.nl)
		return c01EvalRecord(key, &f, "")
	})
	// plain records: boundary lengths, name lengths, molecule types, topology
	type plain struct {
		n, nameLen int
		mol, topo  string
		feats      int
		name, div  string // when set: this locus name / division instead of random ones
	}
	var plains []plain
	for _, n := range append(append([]int{}, extraLens...), lenReps...) {
		for feats := 0; feats <= 1; feats++ {
			plains = append(plains, plain{n, 8, "DNA", "linear", feats, "", ""})
		}
	}
	for nl := 1; nl <= 16; nl++ {
		for _, n := range []int{7, 12, 345, 1234} {
			plains = append(plains, plain{n, nl, "DNA", "linear", 1, "", ""})
		}
	}
	for _, m := range c01Mols {
		for _, tp := range []string{"linear", "circular"} {
			for _, n := range []int{7, 345, 1234, 12345} {
				plains = append(plains, plain{n, 8, m, tp, 1, "", ""})
			}
		}
	}
	// lower-case locus names containing a molecule-type, topology or division word
	for _, name := range c01KeywordNames {
		for _, m := range c01Mols {
			for _, tp := range []string{"linear", "circular"} {
				for _, d := range c01Divisions {
					plains = append(plains, plain{n: 345, nameLen: len(name), mol: m, topo: tp, feats: 1, name: name, div: d})
				}
			}
		}
	}
	c01Parallel(len(plains), runs, func(i int) []c01Out {
		p := plains[i]
		rng := c01Rng(2, i)
		r := c01ShapeRec(rng, p.n, p.feats, 1, c01VPlain, 1)
		r.Name, r.Mol, r.Topo = c01Name(rng, p.nameLen), p.mol, p.topo
		if p.name != "" {
			r.Name, r.Div = p.name, p.div
			f := c01File{Recs: []c01Rec{r}, FinalNL: true}
			return c01EvalRecord(fmt.Sprintf("plain len=%d name=%s %s %s %s features=%d", p.n, p.name, p.mol, p.topo, p.div, p.feats), &f, "")
		}
		f := c01File{Recs: []c01Rec{r}, FinalNL: true}
		return c01EvalRecord(fmt.Sprintf("plain len=%d name-length=%d %s %s features=%d", p.n, p.nameLen, p.mol, p.topo, p.feats), &f, "")
	})
	// keyword-like words at the start of continuation lines
	type kwcase struct {
		place, kw string
		width     int
	}
	var kwcases []kwcase
	for _, place := range c01KeywordPlaces {
		for _, kw := range c01AllKeywordWords {
			for _, width := range []int{79, 80} {
				kwcases = append(kwcases, kwcase{place, kw, width})
			}
		}
	}
	c01Parallel(len(kwcases), runs, func(i int) []c01Out {
		k := kwcases[i]
		rng := c01Rng(6, i)
		f := c01File{Recs: []c01Rec{c01KeywordContRec(rng, 345, k.width, k.place, k.kw)}, FinalNL: true}
		return c01EvalRecord(fmt.Sprintf("keyword-like-continuation place=%s word=%s width=%d", k.place, k.kw, k.width), &f, "")
	})
	// a wrapped value whose line stops short in front of a long blank-free token
	type tokcase struct {
		tokLen, kind, lead, tail, width int
		last                            bool
	}
	var tokcases []tokcase
	for _, tokLen := range c01TokenLens {
		for lead := range c01TokenLeads {
			for tail := range c01TokenTails {
				for _, width := range []int{79, 80} {
					for _, last := range []bool{false, true} {
						tokcases = append(tokcases, tokcase{tokLen, len(tokcases) % 2, lead, tail, width, last})
					}
				}
			}
		}
	}
	c01Parallel(len(tokcases), runs, func(i int) []c01Out {
		k := tokcases[i]
		rng := c01Rng(7, i)
		f := c01File{Recs: []c01Rec{c01LongTokenRec(rng, k.width, k.tokLen, k.kind, k.lead, k.tail, k.last)}, FinalNL: true}
		place := "first-qualifier-of-first-feature"
		if k.last {
			place = "last-qualifier-of-last-feature"
		}
		return c01EvalRecord(fmt.Sprintf("long-token length=%d kind=%s short-line=%s after-token=%s width=%d place=%s", k.tokLen, []string{"url", "accession-list"}[k.kind], c01TokenLeads[k.lead], c01TokenTails[k.tail], k.width, place), &f, "")
	})
	// runs of two or more blanks inside qualifier values and keyword-block texts
	type blankcase struct {
		runLen, place, runs, width int
		last                       bool
		meta                       string // when set: the run goes into this keyword block or reference field
		cont                       bool
	}
	var blankcases []blankcase
	for _, runLen := range []int{2, 3, 6} {
		for place := range c01BlankLines {
			for _, nruns := range []int{1, 3} {
				for _, width := range []int{79, 80} {
					for _, last := range []bool{false, true} {
						blankcases = append(blankcases, blankcase{runLen: runLen, place: place, runs: nruns, width: width, last: last})
					}
				}
			}
		}
	}
	for _, meta := range c01BlankMetaPlaces {
		for _, runLen := range []int{2, 4} {
			for _, cont := range []bool{false, true} {
				for _, width := range []int{79, 80} {
					blankcases = append(blankcases, blankcase{runLen: runLen, runs: 2, width: width, meta: meta, cont: cont})
				}
			}
		}
	}
	c01Parallel(len(blankcases), runs, func(i int) []c01Out {
		k := blankcases[i]
		if k.meta != "" {
			f := c01File{Recs: []c01Rec{c01BlankMetaRec(c01Rng(10, i), k.width, k.meta, k.runLen, k.cont)}, FinalNL: true}
			line := "first-line"
			if k.cont {
				line = "continuation-line"
			}
			return c01EvalRecord(fmt.Sprintf("consecutive-blanks place=%s run=%d runs=2 first-run-on=%s width=%d", k.meta, k.runLen, line, k.width), &f, "")
		}
		f := c01File{Recs: []c01Rec{c01BlankQualRec(c01Rng(9, i), k.width, k.runLen, k.place, k.runs, k.last)}, FinalNL: true}
		place := "first-qualifier-of-first-feature"
		if k.last {
			place = "last-qualifier-of-last-feature"
		}
		return c01EvalRecord(fmt.Sprintf("consecutive-blanks place=qualifier run=%d runs=%d first-run-on=%s width=%d at=%s", k.runLen, k.runs, c01BlankLines[k.place], k.width, place), &f, "")
	})
	c01Parallel(nBlankRand, runs, func(i int) []c01Out {
		p := prof
		p.MaxLen = 9999
		f := c01File{Recs: []c01Rec{c01RandRec(c01Rng(11, i), p)}, FinalNL: i%2 == 0}
		c01InjectBlanks(c01Rng(12, i), &f.Recs[0])
		return c01EvalRecord("random-with-consecutive-blanks#"+strconv.Itoa(i), &f, "")
	})
	// ---- single records, random content ----------------------------------
	rtmp := t.TempDir()
	c01Parallel(nRandRec, runs, func(i int) []c01Out {
		rng := c01Rng(3, i)
		f := c01File{Recs: []c01Rec{c01RandRec(rng, prof)}, FinalNL: rng.Intn(2) == 0}
		if i%4 == 1 {
			// one random record in four: long tokens in its quoted values (drawn from
			// a stream of their own, so the records are otherwise the ones they were)
			c01InjectLongTokens(c01Rng(8, i), &f.Recs[0])
		}
		via := ""
		if i%25 == 7 {
			via = filepath.Join(rtmp, "r"+strconv.Itoa(i)+".gbk")
		}
		return c01EvalRecord("random#"+strconv.Itoa(i), &f, via)
	})

	// ---- single records: short continuation lines of multi-line locations --
	// (own streams 13..15, evaluated after the cases above)
	type sloccase struct {
		style, short, lines, place int
		compl                      bool
	}
	var sloccases []sloccase
	for style := range c01ShortLocStyles {
		for short := 1; short <= 3; short++ {
			for lines := 2; lines <= 4; lines++ {
				if style == c01SLMiddle && lines < 3 {
					continue
				}
				for _, compl := range []bool{false, true} {
					for place := range c01ShortLocPlaces {
						sloccases = append(sloccases, sloccase{style, short, lines, place, compl})
					}
				}
			}
		}
	}
	c01Parallel(len(sloccases), runs, func(i int) []c01Out {
		k := sloccases[i]
		f := c01File{Recs: []c01Rec{c01ShortLocRec(c01Rng(13, i), k.style, k.short, k.lines, k.compl, k.place)}, FinalNL: true}
		return c01EvalRecord(fmt.Sprintf("short-location-line characters=%d layout=%s lines=%d complement=%v place=%s", k.short, c01ShortLocStyles[k.style], k.lines, k.compl, c01ShortLocPlaces[k.place]), &f, "")
	})
	c01Parallel(nShortLocRand, runs, func(i int) []c01Out {
		p := prof
		p.MaxLen = 9999
		f := c01File{Recs: []c01Rec{c01RandRec(c01Rng(14, i), p)}, FinalNL: i%2 == 0}
		c01InjectShortLocLines(c01Rng(15, i), &f.Recs[0])
		return c01EvalRecord("random-with-short-location-lines#"+strconv.Itoa(i), &f, "")
	})

	// ---- files -----------------------------------------------------------
	type fshape struct {
		sh     shape
		k      int
		header bool
	}
	var fshapes []fshape
	for _, sh := range shapes {
		if sh.nFeat != 1 {
			continue
		}
		for k := 1; k <= 3; k++ {
			if !verifThorough() && sh.n >= 10000 && k == 3 {
				continue // quick tier: the two longest lengths with k = 1, 2 only
			}
			for _, h := range []bool{false, true} {
				fshapes = append(fshapes, fshape{sh, k, h})
			}
		}
	}
	c01Parallel(len(fshapes), runs, func(i int) []c01Out {
		fs := fshapes[i]
		rng := c01Rng(4, i)
		f := c01File{FinalNL: fs.sh.nl, Header: fs.header}
		for j := 0; j < fs.k; j++ {
			f.Recs = append(f.Recs, c01ShapeRec(rng, fs.sh.n, 1, fs.sh.nq, fs.sh.vs, fs.sh.loc))
			f.Recs[j].Name = "rec" + strconv.Itoa(j+1) + f.Recs[j].Name
		}
		key := fmt.Sprintf("k=%d header=%v len=%d qualifiers=%d value=%s location-lines=%d final-newline=%v", fs.k, fs.header, fs.sh.n, fs.sh.nq, c01VNames[fs.sh.vs], fs.sh.loc, fs.sh.nl)
		return c01EvalFile(key, &f, "")
	})
	fprof := prof
	tmp := t.TempDir()
	c01Parallel(2*nRandFile, runs, func(i int) []c01Out {
		rng := c01Rng(5, i)
		f := c01File{FinalNL: rng.Intn(2) == 0, Header: i%2 == 1}
		k := 1 + rng.Intn(5)
		for j := 0; j < k; j++ {
			p := fprof
			if rng.Intn(4) > 0 {
				p.MaxLen = 9999
			}
			f.Recs = append(f.Recs, c01RandRec(rng, p))
		}
		via := ""
		if i%20 >= 18 { // one file in ten through ReadMulti / ReadFlat, every other flat one gzipped
			via = filepath.Join(tmp, "f"+strconv.Itoa(i)+".seq")
			if i%40 == 19 {
				via += ".gz"
			}
		}
		return c01EvalFile(fmt.Sprintf("random-file#%d k=%d header=%v final-newline=%v", i, k, f.Header, f.FinalNL), &f, via)
	})
	if !verifThorough() {
		runs[c01RunMulti].Domain += "; quick tier: lengths 12345 and 100000 with k = 1, 2 only"
		runs[c01RunFlat].Domain += "; quick tier: lengths 12345 and 100000 with k = 1, 2 only"
	}
	for _, v := range runs {
		v.Done()
	}
}
