package genbank

// Bounded back end for C03: GenBank write-then-read is the identity, writing is
// deterministic, and the written text follows the flat-file layout closely
// enough for an independent reader.
//
// Records come from two sources, as the property says: (1) the image of Parse
// over files laid out by an independent NCBI-layout writer (c03Layout, the same
// abstract records as C01), (2) structured records assembled directly as
// poly.Sequence values from the same abstract records (c03ToSeq), with and
// without cached location text. Build's output is parsed back by the real Parse
// (identity clauses, one per field group) and by an independent strict reader
// (c03ReadRecord: 12-column keyword field, feature key column 6, location and
// qualifiers column 22, numbered ORIGIN rows of 60 in groups of 10, "//").
// Determinism: the same record is built 128 times and the bytes compared, the
// first build being the first write the freshly assembled record goes through.
// Every case keeps a deep copy of the record taken before the first write: the
// identity clauses compare with that copy, and the record handed to the writer
// must still equal it after the writes (class record-altered-by-writing).
//
// A failing case is attributed to a witness class by delta debugging over named
// shape axes (c03Blame), as in C01.
//
// Beyond the shapes shared with C01 the enumerations cover references given
// with every subset of their five fields (axes reference-without-authors,
// -title, -journal, -pubmed, reference-remark) and partial markers on
// complemented spans, on operands of joins and inside complement(join()) (axes
// complement-with-partial-end, partial-end). Where the writer puts a 3' marker
// (a..b> for a..>b) is C02's finding three-prime-marker-placement; poly's reader
// accepts its writer's form, so the identity clauses are not affected, and the
// layout clause reads both notations as the same partial end (c03MarkerPlace).
//
// DUPLICATE FEATURES (axis and class duplicate-feature; c03DupRec,
// c03InjectDups). A record may hold the same annotation more than once: two or
// more features equal in key, location and qualifiers (merged annotation sets,
// or qualifier-less features at the same place). "The same number of features
// in the same order, nothing lost" holds for them as for any others. An
// enumeration of its own and random records of their own (streams 12..14)
// carry such features, adjacent and apart, through all three sources. The
// structured sources assemble the record through AddFeature or, in these cases
// only and in half of them, by appending to Sequence.Features directly
// (c03Rec.Direct), so that what the writer is given does not depend on what
// AddFeature does with a feature it has seen before.

import (
	"bytes"
	"errors"
	"fmt"
	"math/rand"
	"path/filepath"
	"runtime"
	"strconv"
	"strings"
	"sync"
	"testing"

	"github.com/TimothyStiles/poly"
)

/******************************************************************************
 Abstract record
******************************************************************************/

type c03Qual struct {
	Key, Value string
	Bare       bool // written without quotes (/codon_start=1)
}

type c03Feat struct {
	Key        string
	Ranges     [][2]int // 1-based inclusive
	Join       bool
	Compl      bool
	Partial    int   // single range, plain or inside complement(): 0 none, 1 "<a..b", 2 "a..>b", 3 "<a..>b"
	Single     bool  // single base "a"
	BreakAfter []int // indexes of ranges after which the writer starts a new line
	Quals      []c03Qual
	OpCompl    []bool // join only: operand i is written complement(a..b) (a complemented operand below the top level)
	OpPartial  []int  // join only: the markers of operand i, coded like Partial
}

// c03OpC: operand i of the join is complemented.
func (f *c03Feat) c03OpC(i int) bool { return f.Join && i < len(f.OpCompl) && f.OpCompl[i] }

// c03OpP: the markers of range i (the single range, or operand i of the join).
func (f *c03Feat) c03OpP(i int) int {
	if !f.Join {
		return f.Partial
	}
	if i < len(f.OpPartial) {
		return f.OpPartial[i]
	}
	return 0
}

// c03ComplPartial: range i is a complemented node that carries a marker itself:
// complement(<a..b) alone or as an operand of a join.
func (f *c03Feat) c03ComplPartial(i int) bool {
	if f.Single || f.c03OpP(i) == 0 {
		return false
	}
	if !f.Join {
		return f.Compl
	}
	return f.c03OpC(i)
}

func c03AnyOpCompl(f *c03Feat) bool {
	for i := range f.Ranges {
		if f.c03OpC(i) {
			return true
		}
	}
	return false
}

type c03Ref struct {
	NoRange                 bool
	Authors, Title, Journal []string
	PubMed                  string
	Remark                  []string
}

type c03KV struct {
	Key   string
	Text  []string
	Early bool // between VERSION and KEYWORDS (DBLINK), else after the references (COMMENT)
}

// Text fields are lists of paragraphs; every paragraph is wrapped on its own,
// the stated value is all words joined by single spaces.
type c03Rec struct {
	Name, Mol, Topo, Div, Date  string
	Def, Acc, Ver, Kw, Src, Org []string
	Refs                        []c03Ref
	Others                      []c03KV
	Feats                       []c03Feat
	Seq                         string
	Width                       int // 79 or 80
	OriginBlanks                bool
	Pubmed3                     bool
	Structured                  bool // C03: handed to Build as a struct; the writer below is not involved
	Direct                      bool // structured only: Features assembled by append, not through AddFeature (duplicate-feature cases)
}

type c03File struct {
	Recs    []c03Rec
	FinalNL bool
	Header  bool
	Mode    int // C03: where the record given to Build comes from
}

func c03CopyS(s []string) []string { return append([]string(nil), s...) }

func c03CloneRec(r *c03Rec) c03Rec {
	c := *r
	c.Def, c.Acc, c.Ver, c.Kw, c.Src, c.Org = c03CopyS(r.Def), c03CopyS(r.Acc), c03CopyS(r.Ver), c03CopyS(r.Kw), c03CopyS(r.Src), c03CopyS(r.Org)
	c.Refs = make([]c03Ref, len(r.Refs))
	for i, x := range r.Refs {
		x.Authors, x.Title, x.Journal, x.Remark = c03CopyS(x.Authors), c03CopyS(x.Title), c03CopyS(x.Journal), c03CopyS(x.Remark)
		c.Refs[i] = x
	}
	c.Others = make([]c03KV, len(r.Others))
	for i, x := range r.Others {
		x.Text = c03CopyS(x.Text)
		c.Others[i] = x
	}
	c.Feats = make([]c03Feat, len(r.Feats))
	for i, x := range r.Feats {
		x.Ranges = append([][2]int(nil), x.Ranges...)
		x.BreakAfter = append([]int(nil), x.BreakAfter...)
		x.Quals = append([]c03Qual(nil), x.Quals...)
		x.OpCompl = append([]bool(nil), x.OpCompl...)
		x.OpPartial = append([]int(nil), x.OpPartial...)
		c.Feats[i] = x
	}
	return c
}

func c03CloneFile(f *c03File) c03File {
	c := *f
	c.Recs = make([]c03Rec, len(f.Recs))
	for i := range f.Recs {
		c.Recs[i] = c03CloneRec(&f.Recs[i])
	}
	return c
}

func c03J(p []string) string { return strings.Join(p, " ") }

/******************************************************************************
 Independent writer
******************************************************************************/

func c03RangeText(f *c03Feat, i int) string {
	r := f.Ranges[i]
	if f.Single {
		return strconv.Itoa(r[0])
	}
	a, b := strconv.Itoa(r[0]), strconv.Itoa(r[1])
	p := f.c03OpP(i)
	if p&1 != 0 {
		a = "<" + a
	}
	if p&2 != 0 {
		b = ">" + b
	}
	return a + ".." + b
}

// c03LocParts: concatenating the parts gives the location text; part i ends
// right after range i (and its comma).
func c03LocParts(f *c03Feat) []string {
	if !f.Join {
		s := c03RangeText(f, 0)
		if f.Compl {
			s = "complement(" + s + ")"
		}
		return []string{s}
	}
	parts := make([]string, len(f.Ranges))
	for i := range f.Ranges {
		s := c03RangeText(f, i)
		if f.c03OpC(i) {
			s = "complement(" + s + ")"
		}
		if i == 0 {
			s = "join(" + s
			if f.Compl {
				s = "complement(" + s
			}
		}
		if i < len(f.Ranges)-1 {
			s += ","
		} else {
			s += ")"
			if f.Compl {
				s += ")"
			}
		}
		parts[i] = s
	}
	return parts
}

func c03LocText(f *c03Feat) string { return strings.Join(c03LocParts(f), "") }

func c03LocLines(f *c03Feat) []string {
	parts := c03LocParts(f)
	brk := map[int]bool{}
	for _, b := range f.BreakAfter {
		brk[b] = true
	}
	var lines []string
	cur := ""
	for i, p := range parts {
		cur += p
		if brk[i] && i < len(parts)-1 {
			lines = append(lines, cur)
			cur = ""
		}
	}
	return append(lines, cur)
}

// c03LocStruct gives the same location as a poly.Location, for the shapes whose
// structure is not in dispute (a single base is written n..n: C02 owns that).
// The partial flags sit on the span that carries the marker (also when that
// span is itself the complemented node: complement(<a..b) is one node with
// Complement and FivePrimePartial set) and, as in the structures the parser
// returns, on the join above it.
func c03LocStruct(f *c03Feat) (poly.Location, bool) {
	if f.Single {
		return poly.Location{}, false
	}
	span := func(i int, compl bool) poly.Location {
		r, p := f.Ranges[i], f.c03OpP(i)
		return poly.Location{Start: r[0] - 1, End: r[1], Complement: compl, FivePrimePartial: p&1 != 0, ThreePrimePartial: p&2 != 0}
	}
	if !f.Join {
		return span(0, f.Compl), true
	}
	l := poly.Location{Join: true, Complement: f.Compl}
	for i := range f.Ranges {
		k := span(i, f.c03OpC(i))
		l.SubLocations = append(l.SubLocations, k)
		l.FivePrimePartial = l.FivePrimePartial || k.FivePrimePartial
		l.ThreePrimePartial = l.ThreePrimePartial || k.ThreePrimePartial
	}
	return l, true
}

// c03MarkerPlace rewrites "..>n" as "..n>". Where a 3' marker goes (a..>b in
// INSDC, a..b> from this writer) is judged by C02's clause
// BuildLocationString/post/insdc (class three-prime-marker-placement); the
// layout clause of C03 reads both notations as the same partial end.
func c03MarkerPlace(s string) string {
	if !strings.Contains(s, "..>") {
		return s
	}
	var b strings.Builder
	for i := 0; i < len(s); {
		if strings.HasPrefix(s[i:], "..>") {
			j := i + 3
			for j < len(s) && s[j] >= '0' && s[j] <= '9' {
				j++
			}
			b.WriteString("..")
			b.WriteString(s[i+3 : j])
			b.WriteByte('>')
			i = j
			continue
		}
		b.WriteByte(s[i])
		i++
	}
	return b.String()
}

// c03Wrap: greedy word wrap at single spaces.
func c03Wrap(text string, w int) []string {
	var lines []string
	cur := ""
	started := false
	for _, wd := range strings.Split(text, " ") {
		if !started {
			cur, started = wd, true
		} else if len(cur)+1+len(wd) <= w {
			cur += " " + wd
		} else {
			lines = append(lines, cur)
			cur = wd
		}
	}
	return append(lines, cur)
}

func c03QualText(q *c03Qual) string {
	if q.Bare {
		return "/" + q.Key + "=" + q.Value
	}
	return "/" + q.Key + "=\"" + q.Value + "\""
}

// c03WrapQual wraps a qualifier at spaces; a token longer than a line (a
// translation) is cut hard. first[i] is the index of the first token of line i
// (-1 when the line starts inside a token).
func c03WrapQual(q string, w int) (lines []string, first []int) {
	cur, curFirst, started := "", 0, false
	for ti, t := range strings.Split(q, " ") {
		if started && len(cur)+1+len(t) <= w {
			cur += " " + t
			continue
		}
		if started {
			lines, first = append(lines, cur), append(first, curFirst)
		}
		curFirst = ti
		for len(t) > w {
			lines, first = append(lines, t[:w]), append(first, curFirst)
			t, curFirst = t[w:], -1
		}
		cur, started = t, true
	}
	return append(lines, cur), append(first, curFirst)
}

func c03Key(k string) string { return fmt.Sprintf("%-12s", k) }

func c03TextLines(paras []string, w int) []string {
	var out []string
	for _, p := range paras {
		out = append(out, c03Wrap(p, w)...)
	}
	return out
}

func c03Block(b *strings.Builder, key string, paras []string, width int) {
	lines := c03TextLines(paras, width-12)
	if len(lines) == 0 {
		b.WriteString(strings.TrimRight(key, " ") + "\n")
		return
	}
	for i, ln := range lines {
		if i == 0 {
			b.WriteString(c03Key(key) + ln + "\n")
		} else {
			b.WriteString("            " + ln + "\n")
		}
	}
}

const c03FeatIndent = "                     " // 21 blanks

// c03Layout writes one record, terminator line and its newline included.
func c03Layout(r *c03Rec) string {
	var b strings.Builder
	b.Grow(len(r.Seq)*5/4 + 4096)
	n := len(r.Seq)
	// LOCUS: 13-28 name, 30-40 length, 42-43 bp, 48-53 molecule, 56-63 topology, 65-67 division, 69-79 date
	// A name longer than the 16 columns takes its room from the right-justified
	// length field (one blank always separates them), so that "bp" and the
	// columns after it stay in place as long as the length still fits.
	lenWidth := 11 - (len(r.Name) - 16)
	if len(r.Name) <= 16 {
		lenWidth = 11
	} else if lenWidth < 1 {
		lenWidth = 1
	}
	b.WriteString(fmt.Sprintf("LOCUS       %-16s %*d bp    %-6s  %-8s %s %s\n", r.Name, lenWidth, n, r.Mol, r.Topo, r.Div, r.Date))
	c03Block(&b, "DEFINITION", r.Def, r.Width)
	c03Block(&b, "ACCESSION", r.Acc, r.Width)
	c03Block(&b, "VERSION", r.Ver, r.Width)
	for _, o := range r.Others {
		if o.Early {
			c03Block(&b, o.Key, o.Text, r.Width)
		}
	}
	c03Block(&b, "KEYWORDS", r.Kw, r.Width)
	c03Block(&b, "SOURCE", r.Src, r.Width)
	c03Block(&b, "  ORGANISM", r.Org, r.Width)
	for i, ref := range r.Refs {
		head := strconv.Itoa(i + 1)
		if !ref.NoRange {
			head += "  (bases 1 to " + strconv.Itoa(n) + ")"
		}
		b.WriteString("REFERENCE   " + head + "\n")
		if len(ref.Authors) > 0 {
			c03Block(&b, "  AUTHORS", ref.Authors, r.Width)
		}
		if len(ref.Title) > 0 {
			c03Block(&b, "  TITLE", ref.Title, r.Width)
		}
		if len(ref.Journal) > 0 {
			c03Block(&b, "  JOURNAL", ref.Journal, r.Width)
		}
		if ref.PubMed != "" {
			if r.Pubmed3 {
				c03Block(&b, "   PUBMED", []string{ref.PubMed}, r.Width)
			} else {
				c03Block(&b, "  PUBMED", []string{ref.PubMed}, r.Width)
			}
		}
		if len(ref.Remark) > 0 {
			c03Block(&b, "  REMARK", ref.Remark, r.Width)
		}
	}
	for _, o := range r.Others {
		if !o.Early {
			c03Block(&b, o.Key, o.Text, r.Width)
		}
	}
	b.WriteString("FEATURES             Location/Qualifiers\n")
	for fi := range r.Feats {
		f := &r.Feats[fi]
		for i, ln := range c03LocLines(f) {
			if i == 0 {
				b.WriteString(fmt.Sprintf("     %-16s%s\n", f.Key, ln))
			} else {
				b.WriteString(c03FeatIndent + ln + "\n")
			}
		}
		for qi := range f.Quals {
			lines, _ := c03WrapQual(c03QualText(&f.Quals[qi]), r.Width-21)
			for _, ln := range lines {
				b.WriteString(c03FeatIndent + ln + "\n")
			}
		}
	}
	if r.OriginBlanks {
		b.WriteString("ORIGIN      \n")
	} else {
		b.WriteString("ORIGIN\n")
	}
	for i := 0; i < n; i += 60 {
		num := strconv.Itoa(i + 1)
		b.WriteString("         "[:9-len(num)] + num)
		for j := i; j < i+60 && j < n; j += 10 {
			e := j + 10
			if e > n {
				e = n
			}
			b.WriteByte(' ')
			b.WriteString(r.Seq[j:e])
		}
		b.WriteByte('\n')
	}
	b.WriteString("//\n")
	return b.String()
}

// the ten header lines of an NCBI release file
const c03Header = "GBBCT1.SEQ          Genetic Sequence Data Bank\n" +
	"                         October 15 2020\n" +
	"\n" +
	"                NCBI-GenBank Flat File Release 240.0\n" +
	"\n" +
	"                     Bacterial Sequences (Part 1)\n" +
	"\n" +
	"  101593 loci,   185853961 bases, from   101593 reported sequences\n" +
	"\n" +
	"\n"

func c03RecordTexts(f *c03File) []string {
	out := make([]string, len(f.Recs))
	for i := range f.Recs {
		out[i] = c03Layout(&f.Recs[i])
	}
	return out
}

func c03FileText(f *c03File) string {
	s := strings.Join(c03RecordTexts(f), "")
	if f.Header {
		s = c03Header + s
	}
	if !f.FinalNL {
		s = strings.TrimSuffix(s, "\n")
	}
	return s
}

// c03Show abbreviates the sequence rows so that a witness stays readable.
func c03Show(text string) string {
	lines := strings.Split(text, "\n")
	var out []string
	inSeq, rows := false, 0
	for _, ln := range lines {
		if strings.HasPrefix(ln, "ORIGIN") {
			inSeq, rows = true, 0
		} else if ln == "//" {
			inSeq = false
		} else if inSeq {
			rows++
			if rows == 2 {
				out = append(out, "        ...")
			}
			if rows >= 2 {
				continue
			}
		}
		out = append(out, ln)
	}
	return strings.Join(out, "\n")
}

/******************************************************************************
 Shape axes and witness classes
******************************************************************************/

type c03Axis struct {
	name    string
	present func(f *c03File) bool
	neutral func(f *c03File)
}

func c03RecAxis(name string, present func(r *c03Rec) bool, neutral func(r *c03Rec)) c03Axis {
	return c03Axis{name,
		func(f *c03File) bool {
			for i := range f.Recs {
				if present(&f.Recs[i]) {
					return true
				}
			}
			return false
		},
		func(f *c03File) {
			for i := range f.Recs {
				if present(&f.Recs[i]) {
					neutral(&f.Recs[i])
				}
			}
		}}
}

// c03RefFieldAxis: some reference of the record lacks a field; neutral fills it in.
func c03RefFieldAxis(name string, lacks func(x *c03Ref) bool, fill func(x *c03Ref)) c03Axis {
	return c03RecAxis(name,
		func(r *c03Rec) bool {
			for i := range r.Refs {
				if lacks(&r.Refs[i]) {
					return true
				}
			}
			return false
		},
		func(r *c03Rec) {
			for i := range r.Refs {
				if lacks(&r.Refs[i]) {
					fill(&r.Refs[i])
				}
			}
		})
}

const c03NeutralLen = 120

func c03Resize(r *c03Rec, n int) {
	for len(r.Seq) < n {
		r.Seq += r.Seq + "acgt"
	}
	r.Seq = r.Seq[:n]
	for fi := range r.Feats {
		for ri := range r.Feats[fi].Ranges {
			for k := 0; k < 2; k++ {
				if r.Feats[fi].Ranges[ri][k] > n {
					r.Feats[fi].Ranges[ri][k] = n
				}
			}
		}
	}
}

func c03Trunc(text string, limit int) string {
	out := ""
	for i, w := range strings.Split(text, " ") {
		if i == 0 {
			out = w
		} else if len(out)+1+len(w) <= limit {
			out += " " + w
		} else {
			break
		}
	}
	return out
}

func c03AllTexts(r *c03Rec) []*[]string {
	ts := []*[]string{&r.Def, &r.Acc, &r.Ver, &r.Kw, &r.Src, &r.Org}
	for i := range r.Refs {
		ts = append(ts, &r.Refs[i].Authors, &r.Refs[i].Title, &r.Refs[i].Journal, &r.Refs[i].Remark)
	}
	for i := range r.Others {
		ts = append(ts, &r.Others[i].Text)
	}
	return ts
}

// c03EmptyTexts: the keyword texts of the record that are empty (the six fixed
// keywords and the extra keyword blocks; an absent reference field is not a
// keyword without text, it is simply not part of the record).
func c03EmptyTexts(r *c03Rec) []*[]string {
	var out []*[]string
	for _, t := range []*[]string{&r.Def, &r.Acc, &r.Ver, &r.Kw, &r.Src, &r.Org} {
		if c03J(*t) == "" {
			out = append(out, t)
		}
	}
	for i := range r.Others {
		if c03J(r.Others[i].Text) == "" {
			out = append(out, &r.Others[i].Text)
		}
	}
	return out
}

// c03TextField is the width of the text field of a keyword line (columns
// 13-80).
const c03TextField = 68

// c03HasLongToken: one of the single-spaced words is longer than the text field.
func c03HasLongToken(paras []string) bool {
	for _, para := range paras {
		for _, w := range strings.Split(para, " ") {
			if len(w) > c03TextField {
				return true
			}
		}
	}
	return false
}

// slash positions: for every quoted qualifier, the word indexes that start a
// continuation line with '/'.
func c03ContSlashWords(q *c03Qual, width int) map[int]bool {
	if q.Bare || width == 0 {
		return nil
	}
	_, first := c03WrapQual(c03QualText(q), width-21)
	words := strings.Split(q.Value, " ")
	var m map[int]bool
	for li, ti := range first {
		if li > 0 && ti > 0 && ti < len(words) && strings.HasPrefix(words[ti], "/") {
			if m == nil {
				m = map[int]bool{}
			}
			m[ti] = true
		}
	}
	return m
}

// c03W: the layout width that matters for the qualifier axes; 0 for a
// structured record, whose values are never laid out by the writer above.
func c03W(r *c03Rec) int {
	if r.Structured {
		return 0
	}
	return r.Width
}

func c03EachQual(r *c03Rec, f func(ft *c03Feat, q *c03Qual)) {
	for fi := range r.Feats {
		for qi := range r.Feats[fi].Quals {
			f(&r.Feats[fi], &r.Feats[fi].Quals[qi])
		}
	}
}

func c03AnyQual(r *c03Rec, p func(q *c03Qual) bool) bool {
	found := false
	c03EachQual(r, func(_ *c03Feat, q *c03Qual) {
		if p(q) {
			found = true
		}
	})
	return found
}

func c03QualLines(q *c03Qual, width int) int {
	lines, _ := c03WrapQual(c03QualText(q), width-21)
	return len(lines)
}

// c03OtherSlash: a '/' in the value that does not start a continuation line.
func c03OtherSlash(q *c03Qual, width int) bool {
	if !strings.Contains(q.Value, "/") {
		return false
	}
	cs := c03ContSlashWords(q, width)
	for wi, w := range strings.Split(q.Value, " ") {
		rest := w
		if cs[wi] {
			rest = w[1:]
		}
		if strings.Contains(rest, "/") {
			return true
		}
	}
	return false
}

// c03SameFeat: the two features are the same annotation: equal key, equal
// location (as written) and equal qualifiers (same names, values and quoting).
func c03SameFeat(a, b *c03Feat) bool {
	if a.Key != b.Key || len(a.Quals) != len(b.Quals) || c03LocText(a) != c03LocText(b) {
		return false
	}
	qa := map[string]c03Qual{}
	for _, q := range a.Quals {
		qa[q.Key] = q
	}
	for _, q := range b.Quals {
		if x, ok := qa[q.Key]; !ok || x != q {
			return false
		}
	}
	return true
}

// c03DupFeats: the indexes of the features of r that equal an earlier feature.
func c03DupFeats(r *c03Rec) []int {
	var out []int
	for i := 1; i < len(r.Feats); i++ {
		for j := 0; j < i; j++ {
			if c03SameFeat(&r.Feats[i], &r.Feats[j]) {
				out = append(out, i)
				break
			}
		}
	}
	return out
}

func c03CloneFeat(x c03Feat) c03Feat {
	x.Ranges = append([][2]int(nil), x.Ranges...)
	x.BreakAfter = append([]int(nil), x.BreakAfter...)
	x.Quals = append([]c03Qual(nil), x.Quals...)
	x.OpCompl = append([]bool(nil), x.OpCompl...)
	x.OpPartial = append([]int(nil), x.OpPartial...)
	return x
}

var c03DigitWord = map[int]string{1: "one", 2: "two", 3: "three", 4: "four", 5: "five", 6: "six"}

// c03Axes lists the axes leaf first, containers last.
func c03Axes() []c03Axis {
	var ax []c03Axis
	for _, d := range []int{1, 2, 4, 5, 6} {
		d := d
		ax = append(ax, c03RecAxis(c03DigitWord[d]+"-digit-length",
			func(r *c03Rec) bool { return len(strconv.Itoa(len(r.Seq))) == d },
			func(r *c03Rec) { c03Resize(r, c03NeutralLen) }))
	}
	for _, d := range []int{1, 2, 16} {
		d := d
		name := map[int]string{1: "one-char-locus-name", 2: "two-char-locus-name", 16: "sixteen-char-locus-name"}[d]
		ax = append(ax, c03RecAxis(name,
			func(r *c03Rec) bool { return len(r.Name) == d },
			func(r *c03Rec) { r.Name = "locus1" }))
	}
	// a name that does not fit the historical 16-column name field (columns 13-28)
	ax = append(ax, c03RecAxis("long-locus-name",
		func(r *c03Rec) bool { return len(r.Name) > 16 },
		func(r *c03Rec) { r.Name = "locus1" }))
	for _, m := range []string{"mRNA", "tRNA", "rRNA"} {
		m := m
		ax = append(ax, c03RecAxis(strings.ToLower(m)+"-molecule",
			func(r *c03Rec) bool { return r.Mol == m },
			func(r *c03Rec) { r.Mol = "DNA" }))
	}
	// a keyword the record carries with no text: DEFINITION ... ORGANISM or an
	// extra keyword block (Meta.Other entry) whose text is empty
	ax = append(ax, c03RecAxis("empty-keyword-text",
		func(r *c03Rec) bool { return len(c03EmptyTexts(r)) > 0 },
		func(r *c03Rec) {
			for _, t := range c03EmptyTexts(r) {
				*t = []string{"x"}
			}
		}))
	ax = append(ax,
		c03RecAxis("circular-topology", func(r *c03Rec) bool { return r.Topo == "circular" }, func(r *c03Rec) { r.Topo = "linear" }),
		c03RecAxis("no-topology", func(r *c03Rec) bool { return r.Topo == "" }, func(r *c03Rec) { r.Topo = "linear" }),
		// LOCUS columns a structured record leaves empty (all four empty = a
		// bare LOCUS line: name and length only)
		c03RecAxis("no-molecule-type", func(r *c03Rec) bool { return r.Mol == "" }, func(r *c03Rec) { r.Mol = "DNA" }),
		c03RecAxis("no-division", func(r *c03Rec) bool { return r.Div == "" }, func(r *c03Rec) { r.Div = "SYN" }),
		c03RecAxis("no-date", func(r *c03Rec) bool { return r.Date == "" }, func(r *c03Rec) { r.Date = "01-JAN-2000" }),
		c03RecAxis("origin-trailing-blanks", func(r *c03Rec) bool { return r.OriginBlanks && !r.Structured }, func(r *c03Rec) { r.OriginBlanks = false }),
		c03RecAxis("pubmed-indent-three",
			func(r *c03Rec) bool {
				if !r.Pubmed3 || r.Structured {
					return false
				}
				for _, x := range r.Refs {
					if x.PubMed != "" {
						return true
					}
				}
				return false
			},
			func(r *c03Rec) { r.Pubmed3 = false }),
		c03RecAxis("continuation-starts-with-slash",
			func(r *c03Rec) bool {
				return c03AnyQual(r, func(q *c03Qual) bool { return len(c03ContSlashWords(q, c03W(r))) > 0 })
			},
			func(r *c03Rec) {
				c03EachQual(r, func(_ *c03Feat, q *c03Qual) {
					cs := c03ContSlashWords(q, r.Width)
					if len(cs) == 0 {
						return
					}
					words := strings.Split(q.Value, " ")
					for wi := range words {
						if cs[wi] {
							words[wi] = "x" + words[wi][1:]
						}
					}
					q.Value = strings.Join(words, " ")
				})
			}),
		c03RecAxis("slash-in-value",
			func(r *c03Rec) bool {
				return c03AnyQual(r, func(q *c03Qual) bool { return c03OtherSlash(q, c03W(r)) })
			},
			func(r *c03Rec) {
				c03EachQual(r, func(_ *c03Feat, q *c03Qual) {
					cs := c03ContSlashWords(q, c03W(r))
					words := strings.Split(q.Value, " ")
					for wi, w := range words {
						if cs[wi] {
							words[wi] = "/" + strings.ReplaceAll(w[1:], "/", "x")
						} else {
							words[wi] = strings.ReplaceAll(w, "/", "x")
						}
					}
					q.Value = strings.Join(words, " ")
				})
			}),
		c03RecAxis("equals-in-value",
			func(r *c03Rec) bool {
				return c03AnyQual(r, func(q *c03Qual) bool { return strings.Contains(q.Value, "=") })
			},
			func(r *c03Rec) {
				c03EachQual(r, func(_ *c03Feat, q *c03Qual) { q.Value = strings.ReplaceAll(q.Value, "=", "x") })
			}),
		c03RecAxis("empty-value",
			func(r *c03Rec) bool { return c03AnyQual(r, func(q *c03Qual) bool { return q.Value == "" }) },
			func(r *c03Rec) {
				c03EachQual(r, func(_ *c03Feat, q *c03Qual) {
					if q.Value == "" {
						q.Value = "x"
					}
				})
			}),
		c03RecAxis("unquoted-value",
			func(r *c03Rec) bool { return !r.Structured && c03AnyQual(r, func(q *c03Qual) bool { return q.Bare }) },
			func(r *c03Rec) { c03EachQual(r, func(_ *c03Feat, q *c03Qual) { q.Bare = false }) }),
		c03RecAxis("hard-wrapped-translation",
			func(r *c03Rec) bool {
				return !r.Structured && c03AnyQual(r, func(q *c03Qual) bool { return q.Key == "translation" && c03QualLines(q, r.Width) > 1 })
			},
			func(r *c03Rec) {
				c03EachQual(r, func(_ *c03Feat, q *c03Qual) {
					if q.Key == "translation" && len(q.Value) > 30 {
						q.Value = q.Value[:30]
					}
				})
			}),
		c03RecAxis("wrapped-value",
			func(r *c03Rec) bool {
				return !r.Structured && c03AnyQual(r, func(q *c03Qual) bool { return q.Key != "translation" && c03QualLines(q, r.Width) > 1 })
			},
			func(r *c03Rec) {
				c03EachQual(r, func(_ *c03Feat, q *c03Qual) {
					if q.Key == "translation" || c03QualLines(q, r.Width) <= 1 {
						return
					}
					cs := c03ContSlashWords(q, r.Width)
					out := ""
					for wi, w := range strings.Split(q.Value, " ") {
						if cs[wi] {
							continue
						}
						if out == "" {
							out = w
						} else if len(out)+1+len(w) <= 30 {
							out += " " + w
						}
					}
					q.Value = out
				})
			}),
		c03RecAxis("long-value",
			func(r *c03Rec) bool {
				return r.Structured && c03AnyQual(r, func(q *c03Qual) bool { return len(q.Value) > 55 })
			},
			func(r *c03Rec) {
				c03EachQual(r, func(_ *c03Feat, q *c03Qual) {
					if len(q.Value) > 55 {
						q.Value = c03Trunc(q.Value, 30)
						if len(q.Value) > 30 {
							q.Value = q.Value[:30]
						}
					}
				})
			}),
		// a complemented span that carries a partial marker itself:
		// complement(<a..b), complement(a..>b), alone or as an operand of a join
		c03RecAxis("complement-with-partial-end",
			func(r *c03Rec) bool {
				for i := range r.Feats {
					for k := range r.Feats[i].Ranges {
						if r.Feats[i].c03ComplPartial(k) {
							return true
						}
					}
				}
				return false
			},
			func(r *c03Rec) {
				for i := range r.Feats {
					f := &r.Feats[i]
					for k := range f.Ranges {
						if !f.c03ComplPartial(k) {
							continue
						}
						if f.Join {
							f.OpPartial[k] = 0
						} else {
							f.Partial = 0
						}
					}
				}
			}),
		// a partial marker on a span that is not itself complemented: <a..b,
		// join(<a..b,c..d), complement(join(a..b,c..>d))
		c03RecAxis("partial-end",
			func(r *c03Rec) bool {
				for i := range r.Feats {
					f := &r.Feats[i]
					for k := range f.Ranges {
						if !f.Single && f.c03OpP(k) != 0 && !f.c03ComplPartial(k) {
							return true
						}
					}
				}
				return false
			},
			func(r *c03Rec) {
				for i := range r.Feats {
					f := &r.Feats[i]
					for k := range f.Ranges {
						if f.Single || f.c03OpP(k) == 0 || f.c03ComplPartial(k) {
							continue
						}
						if f.Join {
							f.OpPartial[k] = 0
						} else {
							f.Partial = 0
						}
					}
				}
			}),
		// an operand of a join inside complement(): a complemented node below
		// the top level of the location
		c03RecAxis("complemented-operand",
			func(r *c03Rec) bool {
				for i := range r.Feats {
					if c03AnyOpCompl(&r.Feats[i]) {
						return true
					}
				}
				return false
			},
			func(r *c03Rec) {
				for i := range r.Feats {
					r.Feats[i].OpCompl = nil
				}
			}),
		c03RecAxis("long-location",
			func(r *c03Rec) bool {
				for i := range r.Feats {
					if r.Structured && len(c03LocText(&r.Feats[i])) > 58 {
						return true
					}
				}
				return false
			},
			func(r *c03Rec) {
				for i := range r.Feats {
					f := &r.Feats[i]
					for len(c03LocText(f)) > 58 && len(f.Ranges) > 2 {
						f.Ranges = f.Ranges[:len(f.Ranges)-1]
					}
				}
			}),
		c03RecAxis("multi-line-location",
			func(r *c03Rec) bool {
				if r.Structured {
					return false
				}
				for i := range r.Feats {
					if len(c03LocLines(&r.Feats[i])) > 1 {
						return true
					}
				}
				return false
			},
			func(r *c03Rec) {
				for i := range r.Feats {
					f := &r.Feats[i]
					f.BreakAfter = nil
					for len(c03LocText(f)) > 58 && len(f.Ranges) > 2 {
						f.Ranges = f.Ranges[:len(f.Ranges)-1]
					}
				}
			}),
		// two or more features equal in key, location and qualifiers; neutralised
		// by giving every later copy a key that makes it differ from all the others
		// (location, qualifiers, number and order of the features stay)
		c03RecAxis("duplicate-feature",
			func(r *c03Rec) bool { return len(c03DupFeats(r)) > 0 },
			func(r *c03Rec) {
				for _, i := range c03DupFeats(r) {
					for _, k := range c03FeatKeys {
						r.Feats[i].Key = k
						unique := true
						for j := range r.Feats {
							if j != i && c03SameFeat(&r.Feats[i], &r.Feats[j]) {
								unique = false
								break
							}
						}
						if unique {
							break
						}
					}
				}
			}),
		c03RecAxis("feature-without-qualifiers",
			func(r *c03Rec) bool {
				for i := range r.Feats {
					if len(r.Feats[i].Quals) == 0 {
						return true
					}
				}
				return false
			},
			func(r *c03Rec) {
				for i := range r.Feats {
					if len(r.Feats[i].Quals) == 0 {
						r.Feats[i].Quals = []c03Qual{{Key: "note", Value: "x"}}
					}
				}
			}),
		// a blank-free token longer than the 68-column text field of a keyword
		// line (a long URL): no wrapping can make it fit
		c03RecAxis("unbreakable-token",
			func(r *c03Rec) bool {
				for _, t := range c03AllTexts(r) {
					if c03HasLongToken(*t) {
						return true
					}
				}
				return false
			},
			func(r *c03Rec) {
				for _, t := range c03AllTexts(r) {
					for pi, para := range *t {
						words := strings.Split(para, " ")
						for wi, w := range words {
							if len(w) > c03TextField {
								// same length, a blank in every 21st place: the text
								// still needs as many lines
								b := []byte(w)
								for k := 20; k < len(b)-1; k += 21 {
									b[k] = ' '
								}
								words[wi] = string(b)
							}
						}
						(*t)[pi] = strings.Join(words, " ")
					}
				}
			}),
		// a reference given without one of AUTHORS, TITLE, JOURNAL, PUBMED (the
		// fields that are there may be any of the others: TITLE without AUTHORS,
		// REMARK without PUBMED, ...)
		c03RefFieldAxis("reference-without-authors", func(x *c03Ref) bool { return c03J(x.Authors) == "" }, func(x *c03Ref) { x.Authors = []string{"x"} }),
		c03RefFieldAxis("reference-without-title", func(x *c03Ref) bool { return c03J(x.Title) == "" }, func(x *c03Ref) { x.Title = []string{"x"} }),
		c03RefFieldAxis("reference-without-journal", func(x *c03Ref) bool { return c03J(x.Journal) == "" }, func(x *c03Ref) { x.Journal = []string{"x"} }),
		c03RefFieldAxis("reference-without-pubmed", func(x *c03Ref) bool { return x.PubMed == "" }, func(x *c03Ref) { x.PubMed = "1" }),
		c03RecAxis("reference-remark",
			func(r *c03Rec) bool {
				for _, x := range r.Refs {
					if len(x.Remark) > 0 {
						return true
					}
				}
				return false
			},
			func(r *c03Rec) {
				for i := range r.Refs {
					r.Refs[i].Remark = nil
				}
			}),
		c03RecAxis("reference-without-range",
			func(r *c03Rec) bool {
				for _, x := range r.Refs {
					if x.NoRange {
						return true
					}
				}
				return false
			},
			func(r *c03Rec) {
				for i := range r.Refs {
					r.Refs[i].NoRange = false
				}
			}),
		c03RecAxis("wrapped-meta-line",
			func(r *c03Rec) bool {
				for _, t := range c03AllTexts(r) {
					if len(c03TextLines(*t, r.Width-12)) > 1 {
						return true
					}
				}
				return false
			},
			func(r *c03Rec) {
				for _, t := range c03AllTexts(r) {
					if len(c03TextLines(*t, r.Width-12)) > 1 {
						*t = []string{c03Trunc(c03J(*t), 40)}
					}
				}
			}),
		c03RecAxis("several-extra-keywords", func(r *c03Rec) bool { return len(r.Others) > 1 }, func(r *c03Rec) { r.Others = r.Others[:1] }),
		c03RecAxis("extra-keyword", func(r *c03Rec) bool { return len(r.Others) > 0 }, func(r *c03Rec) { r.Others = nil }),
		c03RecAxis("several-qualifiers",
			func(r *c03Rec) bool {
				for i := range r.Feats {
					if len(r.Feats[i].Quals) > 1 {
						return true
					}
				}
				return false
			},
			func(r *c03Rec) {
				for i := range r.Feats {
					if len(r.Feats[i].Quals) > 1 {
						r.Feats[i].Quals = r.Feats[i].Quals[:1]
					}
				}
			}),
		c03RecAxis("several-features", func(r *c03Rec) bool { return len(r.Feats) > 1 }, func(r *c03Rec) { r.Feats = r.Feats[:1] }),
		c03RecAxis("several-references", func(r *c03Rec) bool { return len(r.Refs) > 1 }, func(r *c03Rec) { r.Refs = r.Refs[:1] }),
		c03RecAxis("features", func(r *c03Rec) bool { return len(r.Feats) > 0 }, func(r *c03Rec) { r.Feats = nil }),
		c03RecAxis("references", func(r *c03Rec) bool { return len(r.Refs) > 0 }, func(r *c03Rec) { r.Refs = nil }),
		c03Axis{"location-without-text", func(f *c03File) bool { return f.Mode == 2 }, func(f *c03File) { f.Mode = 1 }},
		c03Axis{"no-final-newline", func(f *c03File) bool { return !f.FinalNL }, func(f *c03File) { f.FinalNL = true }},
		c03Axis{"several-records", func(f *c03File) bool { return len(f.Recs) > 1 }, func(f *c03File) { f.Recs = f.Recs[:1] }},
	)
	return ax
}

var c03AxisList = c03Axes()

// c03Blame reduces a failing file to a 1-minimal set of shape axes and names
// the class after it. fails must be deterministic. The second result is the
// reduced file (still failing).
func c03Blame(f *c03File, fails func(g *c03File) bool) (string, c03File) {
	var present []int
	for i := range c03AxisList {
		if c03AxisList[i].present(f) {
			present = append(present, i)
		}
	}
	keep := map[int]bool{}
	for _, i := range present {
		keep[i] = true
	}
	build := func(keep map[int]bool) c03File {
		g := c03CloneFile(f)
		for _, i := range present {
			if !keep[i] {
				c03AxisList[i].neutral(&g)
			}
		}
		return g
	}
	container := map[int]bool{}
	for pass := 0; pass < 2; pass++ {
		for _, i := range present {
			if !keep[i] || (pass == 1 && !container[i]) {
				continue
			}
			delete(container, i)
			keep[i] = false
			g := build(keep)
			collateral := false
			for _, j := range present {
				if keep[j] && !c03AxisList[j].present(&g) {
					collateral = true
				}
			}
			if collateral {
				keep[i] = true
				container[i] = true
				continue
			}
			if !fails(&g) {
				keep[i] = true
			}
		}
	}
	// The class is named after the shape axes that must stay. Axes that only
	// hold another kept axis (containers) and the pure quantity or existence
	// axes ("several-...", "features", "references", "extra-keyword") are left
	// out of the name when a shape axis remains.
	var names, quantities, all []string
	for _, i := range present {
		if keep[i] {
			name := c03AxisList[i].name
			all = append(all, name)
			if container[i] {
				continue
			}
			if strings.HasPrefix(name, "several-") || name == "features" || name == "references" || name == "extra-keyword" {
				quantities = append(quantities, name)
			} else {
				names = append(names, name)
			}
		}
	}
	// All four LOCUS columns after the length empty is one shape: a bare LOCUS
	// line (name and length only).
	bare := map[string]bool{"no-topology": true, "no-molecule-type": true, "no-division": true, "no-date": true}
	nBare := 0
	for _, n := range names {
		if bare[n] {
			nBare++
		}
	}
	if nBare == len(bare) {
		rest := []string{"bare-locus-line"}
		for _, n := range names {
			if !bare[n] {
				rest = append(rest, n)
			}
		}
		names = rest
	}
	if len(names) == 0 {
		names = quantities
	}
	if len(names) == 0 {
		names = all
	}
	if len(names) == 0 {
		names = []string{"plain-record"}
	}
	return strings.Join(names, "+"), build(keep)
}

// c03KeepOnly neutralises every axis of f except the named ones.
func c03KeepOnly(f *c03File, names ...string) c03File {
	g := c03CloneFile(f)
	for i := range c03AxisList {
		keep := false
		for _, n := range names {
			if c03AxisList[i].name == n {
				keep = true
			}
		}
		if !keep && c03AxisList[i].present(&g) {
			c03AxisList[i].neutral(&g)
		}
	}
	return g
}

/******************************************************************************
 Generators
******************************************************************************/

const c03Lower = "abcdefghijklmnopqrstuvwxyz"
const c03Upper = "ABCDEFGHIJKLMNOPQRSTUVWXYZ"
const c03Digits = "0123456789"

// printable ASCII without blank, double quote, '/' and '='
const c03Punct = "!#$%&'()*+,-.:;<>?@[\\]^_`{|}~"
const c03ValueAlpha = c03Lower + c03Lower + c03Upper + c03Digits + c03Punct
const c03MetaAlpha = c03Lower + c03Lower + c03Lower + c03Upper + c03Digits + c03Punct + "/="

var c03Reserved = map[string]bool{"LOCUS": true, "DEFINITION": true, "ACCESSION": true, "VERSION": true, "KEYWORDS": true,
	"SOURCE": true, "ORGANISM": true, "REFERENCE": true, "AUTHORS": true, "TITLE": true, "JOURNAL": true, "PUBMED": true,
	"REMARK": true, "FEATURES": true, "ORIGIN": true, "COMMENT": true, "CONSRTM": true}

func c03Pick(rng *rand.Rand, xs []string) string { return xs[rng.Intn(len(xs))] }

func c03Word(rng *rand.Rand, alpha string, min, max int) string {
	for {
		n := min + rng.Intn(max-min+1)
		b := make([]byte, n)
		for i := range b {
			b[i] = alpha[rng.Intn(len(alpha))]
		}
		w := string(b)
		if strings.HasSuffix(w, "//") || c03Reserved[w] {
			continue
		}
		return w
	}
}

// c03Text: single-spaced words, about chars characters long (at least one word).
func c03Text(rng *rand.Rand, alpha string, chars int) string {
	out := c03Word(rng, alpha, 1, 12)
	for len(out) < chars {
		w := c03Word(rng, alpha, 1, 12)
		if len(out)+1+len(w) > chars && len(out) > 0 {
			break
		}
		out += " " + w
	}
	return out
}

func c03Seq(rng *rand.Rand, n int) string {
	b := make([]byte, n)
	var x uint64
	for i := range b {
		if i%32 == 0 {
			x = rng.Uint64()
		}
		b[i] = "acgt"[x&3]
		x >>= 2
	}
	return string(b)
}

func c03Name(rng *rand.Rand, n int) string {
	b := make([]byte, n)
	for i := range b {
		if i == 0 {
			b[i] = c03Lower[rng.Intn(26)]
		} else {
			b[i] = (c03Lower + c03Lower + c03Digits + "_")[rng.Intn(63)]
		}
	}
	return string(b)
}

var c03Divisions = []string{"PRI", "ROD", "MAM", "VRT", "INV", "PLN", "BCT", "VRL", "PHG", "SYN", "UNA", "EST", "PAT", "STS", "GSS", "HTG", "HTC", "ENV"}
var c03Months = []string{"JAN", "FEB", "MAR", "APR", "MAY", "JUN", "JUL", "AUG", "SEP", "OCT", "NOV", "DEC"}
var c03Mols = []string{"DNA", "mRNA", "tRNA", "rRNA"}
var c03FeatKeys = []string{"source", "gene", "CDS", "mRNA", "tRNA", "rRNA", "misc_feature", "promoter", "terminator", "rep_origin",
	"primer_bind", "protein_bind", "RBS", "regulatory", "sig_peptide", "mat_peptide", "exon", "intron", "5'UTR", "3'UTR", "-10_signal", "misc_difference"}
var c03QualKeys = []string{"note", "gene", "product", "label", "locus_tag", "db_xref", "function", "standard_name", "protein_id",
	"organism", "mol_type", "strain", "inference", "experiment"}

func c03Date(rng *rand.Rand) string {
	return fmt.Sprintf("%02d-%s-%04d", 1+rng.Intn(28), c03Pick(rng, c03Months), 1982+rng.Intn(45))
}

func c03BaseRec(rng *rand.Rand, n int) c03Rec {
	acc := c03Word(rng, c03Upper, 2, 2) + c03Word(rng, c03Digits, 6, 6)
	org := c03Word(rng, c03Upper, 1, 1) + c03Word(rng, c03Lower, 4, 9) + " " + c03Word(rng, c03Lower, 4, 9)
	return c03Rec{
		Name: c03Name(rng, 5+rng.Intn(6)), Mol: "DNA", Topo: "linear", Div: c03Pick(rng, c03Divisions), Date: c03Date(rng),
		Def: []string{c03Text(rng, c03MetaAlpha, 10+rng.Intn(40))}, Acc: []string{acc}, Ver: []string{acc + "." + strconv.Itoa(1+rng.Intn(9))},
		Kw: []string{"."}, Src: []string{org}, Org: []string{org},
		Seq: c03Seq(rng, n), Width: 79 + rng.Intn(2),
	}
}

func c03RandRange(rng *rand.Rand, n int) [2]int {
	a := 1 + rng.Intn(n)
	b := a + rng.Intn(n-a+1)
	if n > 200 && rng.Intn(2) == 0 {
		b = a + rng.Intn(200)
		if b > n {
			b = n
		}
	}
	return [2]int{a, b}
}

// c03GenLoc fills the location of f: lines = number of lines wanted (1..3) or
// 0 for "whatever a 58-column field needs" with up to maxRanges operands.
func c03GenLoc(rng *rand.Rand, f *c03Feat, n, lines, maxRanges int) {
	f.Ranges, f.Join, f.Compl, f.Partial, f.Single, f.BreakAfter = nil, false, false, 0, false, nil
	if lines == 1 {
		switch rng.Intn(8) {
		case 0, 1:
			f.Ranges = [][2]int{c03RandRange(rng, n)}
		case 2:
			f.Ranges, f.Compl = [][2]int{c03RandRange(rng, n)}, true
		case 3:
			f.Ranges, f.Partial = [][2]int{c03RandRange(rng, n)}, 1
		case 4:
			f.Ranges, f.Partial = [][2]int{c03RandRange(rng, n)}, 2
		case 5:
			a := 1 + rng.Intn(n)
			f.Ranges, f.Single = [][2]int{{a, a}}, true
		default:
			f.Join, f.Compl = true, rng.Intn(3) == 0
			f.Ranges = [][2]int{c03RandRange(rng, n), c03RandRange(rng, n)}
			if rng.Intn(2) == 0 {
				f.Ranges = append(f.Ranges, c03RandRange(rng, n))
			}
			for len(c03LocText(f)) > 58 {
				if len(f.Ranges) > 2 {
					f.Ranges = f.Ranges[:len(f.Ranges)-1]
				} else {
					f.Compl = false
				}
			}
		}
		return
	}
	f.Join, f.Compl = true, rng.Intn(3) == 0
	m := lines + rng.Intn(2) // at most two operands per line, so the forced breaks suffice
	if lines == 0 {
		m = 2 + rng.Intn(maxRanges-1)
	}
	for i := 0; i < m; i++ {
		f.Ranges = append(f.Ranges, c03RandRange(rng, n))
	}
	// forced breaks: lines-1 of them, spread evenly
	for k := 1; k < lines; k++ {
		f.BreakAfter = append(f.BreakAfter, k*m/lines-1)
	}
	c03FitBreaks(f)
}

// c03FitBreaks adds to f.BreakAfter the breaks the 58-column location field
// asks for (the forced ones stay).
func c03FitBreaks(f *c03Feat) {
	parts := c03LocParts(f)
	brk := map[int]bool{}
	for _, b := range f.BreakAfter {
		brk[b] = true
	}
	cur := 0
	for i, p := range parts {
		if cur > 0 && cur+len(p) > 58 {
			brk[i-1] = true
			cur = 0
		}
		cur += len(p)
		if brk[i] {
			cur = 0
		}
	}
	f.BreakAfter = nil
	for i := range parts {
		if brk[i] && i < len(parts)-1 {
			f.BreakAfter = append(f.BreakAfter, i)
		}
	}
}

// value shapes
const (
	c03VPlain = iota
	c03VSlash
	c03VEquals
	c03VSlashEquals
	c03VWrap
	c03VWrapSlashEquals
	c03VContSlash
	c03VEmpty
	c03VBare
	c03VTranslation
	c03VShapes
)

var c03VNames = []string{"plain", "slash", "equals", "slash+equals", "wrap", "wrap+slash+equals", "continuation-slash", "empty", "bare", "translation"}

func c03Inject(rng *rand.Rand, text string, ch byte) string {
	words := strings.Split(text, " ")
	k := 1 + rng.Intn(2)
	for i := 0; i < k; i++ {
		wi := rng.Intn(len(words))
		w := words[wi]
		pos := 1
		if len(w) > 1 {
			pos = 1 + rng.Intn(len(w)-1)
		}
		w = w[:pos] + string(ch) + w[pos:]
		if strings.HasSuffix(w, "//") {
			w += "x"
		}
		words[wi] = w
	}
	return strings.Join(words, " ")
}

// c03MakeQual builds one qualifier of the given shape for a record of the given width.
func c03MakeQual(rng *rand.Rand, key string, shape, width int) c03Qual {
	q := c03Qual{Key: key}
	switch shape {
	case c03VEmpty:
		return q
	case c03VBare:
		q.Bare, q.Value = true, strconv.Itoa(1+rng.Intn(25))
		return q
	case c03VTranslation:
		q.Key, q.Value = "translation", "M"+c03Word(rng, "ACDEFGHIKLMNPQRSTVWY", 70, 260)
		return q
	}
	chars := 3 + rng.Intn(25)
	if shape == c03VWrap || shape == c03VWrapSlashEquals || shape == c03VContSlash {
		chars = 70 + rng.Intn(160)
	}
	q.Value = c03Text(rng, c03ValueAlpha, chars)
	if shape == c03VSlash || shape == c03VSlashEquals || shape == c03VWrapSlashEquals {
		q.Value = c03Inject(rng, q.Value, '/')
	}
	if shape == c03VEquals || shape == c03VSlashEquals || shape == c03VWrapSlashEquals {
		q.Value = c03Inject(rng, q.Value, '=')
	}
	if shape == c03VContSlash {
		_, first := c03WrapQual(c03QualText(&q), width-21)
		words := strings.Split(q.Value, " ")
		if len(first) > 1 && first[1] > 0 && first[1] < len(words) {
			// the word was already too long for the line above, so one more letter keeps it here
			words[first[1]] = "/" + words[first[1]]
			q.Value = strings.Join(words, " ")
		}
	}
	return q
}

// c03LongToken: a blank-free token of n characters in the manner of a URL
// (letters, digits and / . _ - = ? &; it does not end in '/').
func c03LongToken(rng *rand.Rand, n int) string {
	const head = "https://"
	return head + c03Word(rng, c03Lower+c03Lower+c03Digits+"/._-=?&", n-len(head)-1, n-len(head)-1) + c03Word(rng, c03Lower+c03Digits, 1, 1)
}

// where c03PutToken puts the token in a text
var c03TokenPositions = []string{"alone", "first", "middle", "last"}

// c03PutToken: the token as the whole text, or as the first, a middle or the
// last word of the first paragraph.
func c03PutToken(t *[]string, tok string, pos int) {
	if pos == 0 || len(*t) == 0 {
		*t = []string{tok}
		return
	}
	words := strings.Split((*t)[0], " ")
	at := map[int]int{1: 0, 2: (len(words) + 1) / 2, 3: len(words)}[pos]
	words = append(words[:at], append([]string{tok}, words[at:]...)...)
	(*t)[0] = strings.Join(words, " ")
}

// the places of the unbreakable-token enumeration
var c03TokenPlaces = []string{"DEFINITION", "KEYWORDS", "SOURCE", "ORGANISM", "AUTHORS", "TITLE", "JOURNAL", "REMARK", "COMMENT", "DBLINK"}

// c03TokenRec: a 345-letter record with one feature, one complete reference, a
// DBLINK and a COMMENT block; the text of the named place is two or three
// lines of words with a token of n characters put at pos.
func c03TokenRec(rng *rand.Rand, place string, pos, n int) c03Rec {
	r := c03ShapeRec(rng, 345, 1, 1, c03VPlain, 1)
	short := func(k int) []string { return []string{c03Text(rng, c03MetaAlpha, k)} }
	r.Refs = []c03Ref{{Authors: short(30), Title: short(40), Journal: short(30), PubMed: c03Word(rng, c03Digits, 6, 8), Remark: short(30)}}
	r.Others = []c03KV{{"DBLINK", []string{"BioProject: PRJNA" + c03Word(rng, c03Digits, 4, 6)}, true}, {"COMMENT", short(40), false}}
	var t *[]string
	switch place {
	case "DEFINITION":
		t = &r.Def
	case "KEYWORDS":
		t = &r.Kw
	case "SOURCE":
		t = &r.Src
	case "ORGANISM":
		t = &r.Org
	case "AUTHORS":
		t = &r.Refs[0].Authors
	case "TITLE":
		t = &r.Refs[0].Title
	case "JOURNAL":
		t = &r.Refs[0].Journal
	case "REMARK":
		t = &r.Refs[0].Remark
	case "DBLINK":
		t = &r.Others[0].Text
	case "COMMENT":
		t = &r.Others[1].Text
	default:
		panic("c03TokenRec: " + place)
	}
	*t = short(100 + rng.Intn(100))
	c03PutToken(t, c03LongToken(rng, n), pos)
	return r
}

// c03ShapeRec: the record of the exhaustive part. Every feature has the same
// shape; content is random.
func c03ShapeRec(rng *rand.Rand, n, nFeat, nq, vshape, locLines int) c03Rec {
	r := c03BaseRec(rng, n)
	for i := 0; i < nFeat; i++ {
		f := c03Feat{Key: []string{"gene", "CDS", "misc_feature"}[i%3]}
		c03GenLoc(rng, &f, n, locLines, 6)
		keys := []string{"note", "product"}
		if vshape == c03VBare {
			keys = []string{"codon_start", "transl_table"}
		}
		for k := 0; k < nq; k++ {
			s := vshape
			if vshape == c03VTranslation && k == 1 {
				s = c03VWrap
			}
			f.Quals = append(f.Quals, c03MakeQual(rng, keys[k], s, r.Width))
		}
		r.Feats = append(r.Feats, f)
	}
	return r
}

// where the duplicate-feature enumeration puts the copies
var c03DupPlacements = []string{"adjacent", "one-feature-between", "first-and-last", "only-features"}

// c03DupRec: a record with three different features (gene, CDS, misc_feature;
// nq plain qualifiers each, random one-line locations) in which the CDS occurs
// `copies` times, every copy equal in key, location and qualifiers:
//
//	adjacent             gene CDS CDS [CDS] misc_feature
//	one-feature-between  CDS gene CDS [misc_feature CDS]
//	first-and-last       CDS gene misc_feature CDS, with three copies CDS CDS gene misc_feature CDS
//	only-features        CDS CDS [CDS]
func c03DupRec(rng *rand.Rand, n, nq, copies, placement int) c03Rec {
	r := c03ShapeRec(rng, n, 3, nq, c03VPlain, 1)
	g, d, m := r.Feats[0], r.Feats[1], r.Feats[2]
	dup := func() c03Feat { return c03CloneFeat(d) }
	var fs []c03Feat
	switch placement {
	case 0:
		fs = append(fs, g)
		for i := 0; i < copies; i++ {
			fs = append(fs, dup())
		}
		fs = append(fs, m)
	case 1:
		fs = append(fs, dup(), g, dup())
		if copies > 2 {
			fs = append(fs, m, dup())
		}
	case 2:
		fs = append(fs, dup())
		if copies > 2 {
			fs = append(fs, dup())
		}
		fs = append(fs, g, m, dup())
	default:
		for i := 0; i < copies; i++ {
			fs = append(fs, dup())
		}
	}
	r.Feats = fs
	return r
}

// c03InjectDups copies 1..3 randomly chosen features of r (a plain one is added
// to a record without features) once or twice each, the copy put right behind
// the original (one time in two) or at a random place; a record that already
// has 40 features gets the copy in place of another feature instead.
func c03InjectDups(rng *rand.Rand, r *c03Rec) {
	if len(r.Feats) == 0 {
		f := c03Feat{Key: c03Pick(rng, c03FeatKeys)}
		c03GenLoc(rng, &f, len(r.Seq), 1, 6)
		if rng.Intn(2) == 0 {
			f.Quals = []c03Qual{c03MakeQual(rng, "note", c03VPlain, r.Width)}
		}
		r.Feats = append(r.Feats, f)
	}
	for k, picks := 0, 1+rng.Intn(3); k < picks; k++ {
		src := rng.Intn(len(r.Feats))
		for c, copies := 0, 1+rng.Intn(2); c < copies; c++ {
			cp := c03CloneFeat(r.Feats[src])
			at := src + 1
			if rng.Intn(2) == 0 {
				at = rng.Intn(len(r.Feats) + 1)
			}
			if len(r.Feats) >= 40 {
				if at >= len(r.Feats) {
					at = len(r.Feats) - 1
				}
				if at == src {
					continue
				}
				r.Feats[at] = cp
				continue
			}
			r.Feats = append(r.Feats, c03Feat{})
			copy(r.Feats[at+1:], r.Feats[at:])
			r.Feats[at] = cp
			if at <= src {
				src++
			}
		}
	}
}

type c03Profile struct {
	MaxMeta     int // longest metadata text in characters
	MaxQuals    int
	AllowNoTopo bool
	MaxLen      int
	ManyOthers  bool
	EmptyTexts  bool // structured records only: ORGANISM or an extra keyword block may be given with no text
	LongTokens  bool // one record in five gets a blank-free token of 69..300 characters in one of its texts
	EmptyLocus  bool // structured records only: LOCUS columns after the length may be left empty
}

func c03RandLen(rng *rand.Rand, max int) int {
	d := 1 + rng.Intn(6)
	lo, hi := 1, 9
	for i := 1; i < d; i++ {
		lo, hi = lo*10, hi*10+9
	}
	if hi > max {
		hi = max
	}
	if lo > hi {
		lo = hi
	}
	return lo + rng.Intn(hi-lo+1)
}

func c03MaybeLong(rng *rand.Rand, p c03Profile, long bool) []string {
	chars := 5 + rng.Intn(50)
	if long {
		chars = 70 + rng.Intn(p.MaxMeta-69)
	}
	t := c03Text(rng, c03MetaAlpha, chars)
	if long && rng.Intn(4) == 0 {
		return []string{t, c03Text(rng, c03MetaAlpha, 5+rng.Intn(100))}
	}
	return []string{t}
}

// c03RandRec: seeded-random content over the property's domain.
func c03RandRec(rng *rand.Rand, p c03Profile) c03Rec {
	n := c03RandLen(rng, p.MaxLen)
	r := c03BaseRec(rng, n)
	switch rng.Intn(12) {
	case 0:
		r.Name = c03Name(rng, 1)
	case 1:
		r.Name = c03Name(rng, 2)
	case 2:
		r.Name = c03Name(rng, 16)
	case 3, 4:
		r.Name = c03Name(rng, 3+rng.Intn(13))
	case 5:
		r.Name = c03Name(rng, 17+rng.Intn(24)) // 17..40: longer than the 16-column name field
	}
	r.Mol = c03Pick(rng, c03Mols)
	if rng.Intn(2) == 0 {
		r.Topo = "circular"
	}
	if p.AllowNoTopo && rng.Intn(6) == 0 {
		r.Topo = ""
	}
	r.OriginBlanks = rng.Intn(2) == 0
	r.Pubmed3 = rng.Intn(2) == 0
	wrapMeta := rng.Intn(3) > 0
	r.Def = c03MaybeLong(rng, p, wrapMeta && rng.Intn(2) == 0)
	if wrapMeta && rng.Intn(3) == 0 {
		r.Kw = c03MaybeLong(rng, p, true)
	}
	if wrapMeta && rng.Intn(3) == 0 {
		r.Src = c03MaybeLong(rng, p, true)
	}
	if rng.Intn(2) == 0 {
		// organism name on its own line, lineage below, as NCBI writes it
		r.Org = []string{r.Org[0], c03Text(rng, c03Lower+";", 20+rng.Intn(150))}
		if !wrapMeta {
			r.Org = r.Org[:1]
		}
	}
	if rng.Intn(5) == 0 {
		r.Acc = []string{r.Acc[0] + " " + c03Text(rng, c03Upper+c03Digits, 10)}
	}
	nref := rng.Intn(6)
	if rng.Intn(3) == 0 {
		nref = 0
	}
	for i := 0; i < nref; i++ {
		ref := c03Ref{NoRange: rng.Intn(6) == 0}
		ref.Authors = c03MaybeLong(rng, p, wrapMeta && rng.Intn(3) == 0)
		if rng.Intn(5) > 0 {
			ref.Title = c03MaybeLong(rng, p, wrapMeta && rng.Intn(2) == 0)
		}
		ref.Journal = c03MaybeLong(rng, p, wrapMeta && rng.Intn(4) == 0)
		if rng.Intn(2) == 0 {
			ref.PubMed = c03Word(rng, c03Digits, 5, 8)
		}
		if rng.Intn(3) == 0 {
			ref.Remark = c03MaybeLong(rng, p, wrapMeta && rng.Intn(3) == 0)
		}
		r.Refs = append(r.Refs, ref)
	}
	if rng.Intn(2) == 0 {
		r.Others = append(r.Others, c03KV{"COMMENT", c03MaybeLong(rng, p, wrapMeta), false})
	}
	if rng.Intn(3) == 0 {
		r.Others = append(r.Others, c03KV{"DBLINK", []string{"BioProject: PRJNA" + c03Word(rng, c03Digits, 3, 6), "BioSample: SAMN" + c03Word(rng, c03Digits, 6, 8)}, true})
		if !wrapMeta {
			r.Others[len(r.Others)-1].Text = r.Others[len(r.Others)-1].Text[:1]
		}
	}
	if rng.Intn(6) == 0 {
		r.Others = append(r.Others, c03KV{"PROJECT", c03MaybeLong(rng, p, false), true})
	}
	if p.ManyOthers && rng.Intn(2) == 0 {
		r.Others = append(r.Others, c03KV{"SEGMENT", []string{strconv.Itoa(1+rng.Intn(3)) + " of 3"}, true})
	}
	// features
	nfeat := rng.Intn(41)
	if rng.Intn(3) == 0 {
		nfeat = rng.Intn(4)
	}
	noQualOK := rng.Intn(2) == 0
	multiLocOK := rng.Intn(2) == 0
	allowed := []int{c03VPlain, c03VPlain, c03VEmpty, c03VBare}
	slashOK, equalsOK := rng.Intn(2) == 0, rng.Intn(2) == 0
	if slashOK {
		allowed = append(allowed, c03VSlash, c03VSlash)
	}
	if equalsOK {
		allowed = append(allowed, c03VEquals, c03VEquals)
	}
	if slashOK && equalsOK {
		allowed = append(allowed, c03VSlashEquals)
	}
	if rng.Intn(2) == 0 {
		allowed = append(allowed, c03VWrap, c03VTranslation)
		if slashOK && equalsOK {
			allowed = append(allowed, c03VWrapSlashEquals)
		}
		if rng.Intn(3) == 0 {
			allowed = append(allowed, c03VContSlash)
		}
	}
	for i := 0; i < nfeat; i++ {
		f := c03Feat{Key: c03Pick(rng, c03FeatKeys)}
		lines := 1
		if multiLocOK && rng.Intn(4) == 0 {
			lines = []int{0, 2, 3}[rng.Intn(3)]
		}
		c03GenLoc(rng, &f, n, lines, 40)
		nq := 1 + rng.Intn(p.MaxQuals)
		if noQualOK && rng.Intn(4) == 0 {
			nq = 0
		}
		perm := rng.Perm(len(c03QualKeys))
		used := map[string]bool{}
		for k := 0; k < nq; k++ {
			s := allowed[rng.Intn(len(allowed))]
			key := c03QualKeys[perm[k%len(perm)]]
			if s == c03VBare {
				key = []string{"codon_start", "transl_table", "number"}[rng.Intn(3)]
			}
			q := c03MakeQual(rng, key, s, r.Width)
			if used[q.Key] {
				continue
			}
			used[q.Key] = true
			f.Quals = append(f.Quals, q)
		}
		if nq > 0 && len(f.Quals) == 0 {
			f.Quals = []c03Qual{c03MakeQual(rng, "note", c03VPlain, r.Width)}
		}
		r.Feats = append(r.Feats, f)
	}
	if p.EmptyTexts {
		switch rng.Intn(8) {
		case 0:
			r.Org = nil // SOURCE stated, ORGANISM empty
		case 1:
			if len(r.Others) > 0 {
				r.Others[rng.Intn(len(r.Others))].Text = nil
			}
		case 2:
			r.Org = nil
			for i := range r.Others {
				r.Others[i].Text = nil
			}
		}
	}
	if p.LongTokens && rng.Intn(5) == 0 {
		// a blank-free token longer than the text field in one of the texts
		// (not ACCESSION or VERSION), the text staying within MaxMeta characters
		var ts []*[]string
		for _, t := range c03AllTexts(&r) {
			if t != &r.Acc && t != &r.Ver && len(*t) > 0 {
				ts = append(ts, t)
			}
		}
		t := ts[rng.Intn(len(ts))]
		tok := c03LongToken(rng, c03TextField+1+rng.Intn(232))
		pi := rng.Intn(len(*t))
		room := p.MaxMeta - (len(c03J(*t)) - len((*t)[pi])) - len(tok) - 1
		var words []string
		if room >= 1 {
			words = strings.Split(c03Trunc((*t)[pi], room), " ")
			if len(words[0]) > room {
				words = nil
			}
		}
		at := rng.Intn(len(words) + 1)
		words = append(words[:at], append([]string{tok}, words[at:]...)...)
		(*t)[pi] = strings.Join(words, " ")
	}
	if p.EmptyLocus && rng.Intn(6) == 0 {
		// any non-empty subset of molecule type, topology, division, date left out
		mask := 1 + rng.Intn(15)
		c03EmptyLocus(&r, mask)
	}
	return r
}

// c03EmptyLocus empties the LOCUS columns named by mask: 1 molecule type,
// 2 topology, 4 division, 8 date.
func c03EmptyLocus(r *c03Rec, mask int) {
	if mask&1 != 0 {
		r.Mol = ""
	}
	if mask&2 != 0 {
		r.Topo = ""
	}
	if mask&4 != 0 {
		r.Div = ""
	}
	if mask&8 != 0 {
		r.Date = ""
	}
}

func c03LocusMaskName(mask int) string {
	if mask == 0 {
		return "none"
	}
	var out []string
	for i, n := range []string{"molecule", "topology", "division", "date"} {
		if mask&(1<<i) != 0 {
			out = append(out, n)
		}
	}
	return strings.Join(out, "+")
}

func c03Q(s string) string {
	if len(s) > 90 {
		return strconv.Quote(s[:60]) + "...(" + strconv.Itoa(len(s)) + " chars)"
	}
	return strconv.Quote(s)
}

func c03Diff(field, got, want string) string {
	if got == want {
		return ""
	}
	if len(got) > 90 || len(want) > 90 {
		i := 0
		for i < len(got) && i < len(want) && got[i] == want[i] {
			i++
		}
		lo := i - 20
		if lo < 0 {
			lo = 0
		}
		g, w := got[lo:], want[lo:]
		if len(g) > 70 {
			g = g[:70]
		}
		if len(w) > 70 {
			w = w[:70]
		}
		return fmt.Sprintf("%s: lengths %d/%d, first difference at byte %d: got ...%q, stated ...%q", field, len(got), len(want), i, g, w)
	}
	return fmt.Sprintf("%s: got %q, stated %q", field, got, want)
}

func c03TryParse(text string) (s poly.Sequence, panicMsg string) {
	defer func() {
		if r := recover(); r != nil {
			panicMsg = fmt.Sprintf("panic: %v", r)
		}
	}()
	return Parse([]byte(text)), ""
}

func c03LocEq(a, b poly.Location) bool {
	if a.Start != b.Start || a.End != b.End || a.Complement != b.Complement || a.Join != b.Join ||
		a.FivePrimePartial != b.FivePrimePartial || a.ThreePrimePartial != b.ThreePrimePartial || len(a.SubLocations) != len(b.SubLocations) {
		return false
	}
	for i := range a.SubLocations {
		if !c03LocEq(a.SubLocations[i], b.SubLocations[i]) {
			return false
		}
	}
	return true
}

type c03Out struct {
	run        int
	key        string
	nontrivial bool
	failed     bool
	noCase     bool // a second finding on a case that is already counted
	class      string
	input      string
	detail     string
}

// c03Parallel evaluates cases 0..n-1 on all cores and records the outcomes in
// case order, so that the first witnesses kept are the smallest ones.
func c03Parallel(n int, runs []*verifRun, eval func(i int) []c03Out) {
	const chunk = 1024
	workers := runtime.NumCPU()
	for lo := 0; lo < n; lo += chunk {
		hi := lo + chunk
		if hi > n {
			hi = n
		}
		res := make([][]c03Out, hi-lo)
		var wg sync.WaitGroup
		next := make(chan int, hi-lo)
		for i := lo; i < hi; i++ {
			next <- i
		}
		close(next)
		for w := 0; w < workers; w++ {
			wg.Add(1)
			go func() {
				defer wg.Done()
				for i := range next {
					res[i-lo] = eval(i)
				}
			}()
		}
		wg.Wait()
		for _, outs := range res {
			for _, o := range outs {
				if !o.noCase {
					runs[o.run].Case(o.key, o.nontrivial)
				}
				if o.failed {
					runs[o.run].Fail(o.class, o.input, o.detail)
				}
			}
		}
	}
}

func c03Rng(stream, i int) *rand.Rand {
	return rand.New(rand.NewSource(verifSeed()*1000003 + int64(stream)*100000007 + int64(i)))
}

/******************************************************************************
 Structured records
******************************************************************************/

const (
	c03ModeImage    = 0 // r = Parse(file laid out by the independent writer)
	c03ModeCached   = 1 // r assembled as a struct, features carry GbkLocationString
	c03ModeUncached = 2 // r assembled as a struct, features carry SequenceLocation only
)

var c03ModeNames = []string{"parsed-file", "structured-with-location-text", "structured-without-location-text"}

func c03SetMode(f *c03File, mode int) {
	f.Mode = mode
	for i := range f.Recs {
		f.Recs[i].Structured = mode != c03ModeImage
	}
}

func c03RefRange(rec *c03Rec, x *c03Ref) string {
	if x.NoRange {
		return ""
	}
	return "(bases 1 to " + strconv.Itoa(len(rec.Seq)) + ")"
}

// c03ToSeq assembles the record programmatically.
func c03ToSeq(rec *c03Rec, cached bool) poly.Sequence {
	var s poly.Sequence
	s.Sequence = rec.Seq
	m := &s.Meta
	m.Locus = poly.Locus{Name: rec.Name, SequenceLength: strconv.Itoa(len(rec.Seq)), MoleculeType: rec.Mol, GenbankDivision: rec.Div,
		ModificationDate: rec.Date, SequenceCoding: "bp", Circular: rec.Topo == "circular", Linear: rec.Topo == "linear"}
	m.Definition, m.Accession, m.Version = c03J(rec.Def), c03J(rec.Acc), c03J(rec.Ver)
	m.Keywords, m.Source, m.Organism = c03J(rec.Kw), c03J(rec.Src), c03J(rec.Org)
	for i := range rec.Refs {
		x := &rec.Refs[i]
		m.References = append(m.References, poly.Reference{Index: strconv.Itoa(i + 1), Range: c03RefRange(rec, x), Authors: c03J(x.Authors),
			Title: c03J(x.Title), Journal: c03J(x.Journal), PubMed: x.PubMed, Remark: c03J(x.Remark)})
	}
	m.Other = map[string]string{}
	for _, o := range rec.Others {
		m.Other[o.Key] = c03J(o.Text)
	}
	for i := range rec.Feats {
		ft := &rec.Feats[i]
		f := poly.Feature{Type: ft.Key, Attributes: map[string]string{}}
		for _, q := range ft.Quals {
			f.Attributes[q.Key] = q.Value
		}
		st, ok := c03LocStruct(ft)
		if ok {
			f.SequenceLocation = st
		}
		if cached || !ok {
			f.GbkLocationString = c03LocText(ft)
		}
		if rec.Direct {
			s.Features = append(s.Features, f)
			continue
		}
		s.AddFeature(&f)
	}
	return s
}

/******************************************************************************
 Independent strict reader
******************************************************************************/

type c03RFeat struct {
	Key, Loc string
	Quals    map[string]string
}

type c03Read struct {
	Name, Length, Mol, Topo, Div, Date string
	Def, Acc, Ver, Kw, Src, Org        string
	Refs                               []*poly.Reference
	Other                              map[string]string
	Feats                              []*c03RFeat
	Seq                                string
}

func c03Blank(s string) bool { return strings.Trim(s, " ") == "" }

func c03UpperWord(s string) bool {
	if s == "" {
		return false
	}
	for i := 0; i < len(s); i++ {
		if !(s[i] >= 'A' && s[i] <= 'Z' || s[i] >= '0' && s[i] <= '9' || s[i] == '_') {
			return false
		}
	}
	return true
}

func c03AllDigits(s string) bool {
	if s == "" {
		return false
	}
	for i := 0; i < len(s); i++ {
		if s[i] < '0' || s[i] > '9' {
			return false
		}
	}
	return true
}

// c03ReadRecord reads one record by column position.
func c03ReadRecord(text string) (*c03Read, error) {
	lines := strings.Split(text, "\n")
	if len(lines) > 0 && lines[len(lines)-1] == "" {
		lines = lines[:len(lines)-1] // final newline
	}
	rd := &c03Read{Other: map[string]string{}}
	at := func(i int) string { return fmt.Sprintf("line %d %q", i+1, lines[i]) }
	if len(lines) == 0 || !strings.HasPrefix(lines[0], "LOCUS       ") {
		return nil, errors.New("no LOCUS keyword in columns 1-12 of line 1")
	}
	// name, length, "bp", then, each of them optional and told apart by its
	// form, in this order: molecule type (a word ending in DNA or RNA),
	// topology (linear or circular), division (three capitals), date (dd-MMM-yyyy)
	tok := strings.Fields(lines[0][12:])
	if len(tok) < 3 || !c03AllDigits(tok[1]) || tok[2] != "bp" {
		return nil, errors.New("LOCUS line does not read as name, length, bp, ...: " + at(0))
	}
	rd.Name, rd.Length = tok[0], tok[1]
	rest := tok[3:]
	if len(rest) > 0 && (strings.HasSuffix(rest[0], "DNA") || strings.HasSuffix(rest[0], "RNA")) {
		rd.Mol, rest = rest[0], rest[1:]
	}
	if len(rest) > 0 && (rest[0] == "linear" || rest[0] == "circular") {
		rd.Topo, rest = rest[0], rest[1:]
	}
	if len(rest) > 0 && len(rest[0]) == 3 && strings.Trim(rest[0], c03Upper) == "" {
		rd.Div, rest = rest[0], rest[1:]
	}
	if len(rest) > 0 && len(rest[0]) == 11 && rest[0][2] == '-' && rest[0][6] == '-' && c03AllDigits(rest[0][:2]) && c03AllDigits(rest[0][7:]) && strings.Trim(rest[0][3:6], c03Upper) == "" {
		rd.Date, rest = rest[0], rest[1:]
	}
	if len(rest) > 0 {
		return nil, errors.New("LOCUS line does not read as name, length, bp, [molecule,] [topology,] [division,] [date]: " + at(0))
	}
	// keyword blocks
	var cur *string
	var dummy string
	var ref *poly.Reference
	top := ""
	others := map[string]*string{}
	appendTo := func(p *string, data string) {
		data = strings.TrimSpace(data)
		if *p == "" {
			*p = data
		} else if data != "" {
			*p += " " + data
		}
	}
	i := 1
	for ; i < len(lines); i++ {
		ln := lines[i]
		if strings.HasPrefix(ln, "FEATURES") {
			break
		}
		if ln == "" {
			return nil, errors.New("blank line inside the record: line " + strconv.Itoa(i+1))
		}
		field, data := ln, ""
		if len(ln) > 12 {
			field, data = ln[:12], ln[12:]
		}
		switch {
		case c03Blank(field):
			if cur == nil {
				return nil, errors.New("continuation line without a keyword above it: " + at(i))
			}
			appendTo(cur, data)
		case ln[0] != ' ':
			key := strings.TrimRight(field, " ")
			if !c03UpperWord(key) || len(key) > 11 {
				return nil, errors.New("columns 1-12 do not hold a keyword followed by a blank: " + at(i))
			}
			top, ref = key, nil
			switch key {
			case "DEFINITION":
				cur = &rd.Def
			case "ACCESSION":
				cur = &rd.Acc
			case "VERSION":
				cur = &rd.Ver
			case "KEYWORDS":
				cur = &rd.Kw
			case "SOURCE":
				cur = &rd.Src
			case "REFERENCE":
				ref = &poly.Reference{}
				rd.Refs = append(rd.Refs, ref)
				f := strings.Fields(data)
				if len(f) > 0 {
					ref.Index = f[0]
					ref.Range = strings.TrimSpace(strings.TrimPrefix(strings.TrimSpace(data), f[0]))
				}
				cur = &ref.Range
				data = ""
			case "LOCUS", "ORIGIN":
				return nil, errors.New("keyword out of place: " + at(i))
			default:
				if _, dup := others[key]; dup {
					return nil, errors.New("keyword block written twice: " + at(i))
				}
				p := new(string)
				others[key] = p
				cur = p
			}
			appendTo(cur, data)
		default:
			// sub-keyword: 2 or 3 blanks, upper-case word, blanks up to column 12
			ind := len(field) - len(strings.TrimLeft(field, " "))
			key := strings.TrimSpace(field)
			if (ind != 2 && ind != 3) || !c03UpperWord(key) || (len(field) == 12 && field[11] != ' ') {
				return nil, errors.New("text in the keyword columns 1-12 that is neither a keyword nor blank: " + at(i))
			}
			cur = &dummy
			switch {
			case key == "ORGANISM" && top == "SOURCE":
				cur = &rd.Org
			case ref != nil && key == "AUTHORS":
				cur = &ref.Authors
			case ref != nil && key == "TITLE":
				cur = &ref.Title
			case ref != nil && key == "JOURNAL":
				cur = &ref.Journal
			case ref != nil && key == "PUBMED":
				cur = &ref.PubMed
			case ref != nil && key == "REMARK":
				cur = &ref.Remark
			}
			dummy = ""
			appendTo(cur, data)
		}
	}
	for k, p := range others {
		rd.Other[k] = *p
	}
	if i >= len(lines) {
		return nil, errors.New("no FEATURES line")
	}
	if strings.TrimRight(lines[i], " ") != "FEATURES             Location/Qualifiers" {
		return nil, errors.New("FEATURES header not in columns 1 and 22: " + at(i))
	}
	// feature table
	var ft *c03RFeat
	var qKey, qAcc string
	qOpen, inLoc := false, false
	for i++; i < len(lines) && strings.HasPrefix(lines[i], " "); i++ {
		ln := lines[i]
		if len(ln) < 22 {
			return nil, errors.New("feature table line shorter than 22 columns: " + at(i))
		}
		content := strings.TrimRight(ln[21:], " ")
		if ln[21] == ' ' {
			return nil, errors.New("column 22 of a feature table line is blank: " + at(i))
		}
		switch {
		case ln[:5] == "     " && ln[5] != ' ':
			if qOpen {
				return nil, errors.New("quoted qualifier value not closed before " + at(i))
			}
			key := strings.TrimRight(ln[5:21], " ")
			if strings.Contains(key, " ") || ln[20] != ' ' {
				return nil, errors.New("feature key does not sit in columns 6-20 followed by a blank: " + at(i))
			}
			ft = &c03RFeat{Key: key, Loc: content, Quals: map[string]string{}}
			rd.Feats = append(rd.Feats, ft)
			inLoc = true
		case c03Blank(ln[:21]):
			if ft == nil {
				return nil, errors.New("qualifier line before the first feature: " + at(i))
			}
			switch {
			case qOpen:
				if qKey == "translation" {
					qAcc += content
				} else {
					qAcc += " " + content
				}
				if strings.HasSuffix(content, "\"") {
					ft.Quals[qKey] = qAcc[:len(qAcc)-1]
					qOpen = false
				}
			case content[0] == '/':
				inLoc = false
				body := content[1:]
				eq := strings.IndexByte(body, '=')
				if eq < 0 {
					ft.Quals[body] = ""
					break
				}
				qKey = body[:eq]
				v := body[eq+1:]
				switch {
				case len(v) >= 2 && v[0] == '"' && v[len(v)-1] == '"':
					ft.Quals[qKey] = v[1 : len(v)-1]
				case len(v) >= 1 && v[0] == '"':
					qOpen, qAcc = true, v[1:]
				default:
					ft.Quals[qKey] = v
				}
			case inLoc:
				ft.Loc += content
			default:
				return nil, errors.New("line in the qualifier column that neither starts a qualifier nor continues a quoted value: " + at(i))
			}
		default:
			return nil, errors.New("feature table line with text outside columns 6-20 and 22-80: " + at(i))
		}
	}
	if qOpen {
		return nil, errors.New("quoted qualifier value not closed at the end of the feature table")
	}
	if i >= len(lines) || strings.TrimRight(lines[i], " ") != "ORIGIN" {
		if i < len(lines) {
			return nil, errors.New("expected ORIGIN after the feature table, found " + at(i))
		}
		return nil, errors.New("no ORIGIN line")
	}
	// sequence rows
	i++
	start := i
	for ; i < len(lines) && lines[i] != "//"; i++ {
	}
	if i >= len(lines) {
		return nil, errors.New("no // terminator line")
	}
	var seq strings.Builder
	for j := start; j < i; j++ {
		ln := lines[j]
		last := j == i-1
		num := strconv.Itoa((j-start)*60 + 1)
		want := "         "[:9-len(num)] + num + " "
		if !strings.HasPrefix(ln, want) {
			return nil, errors.New("sequence row does not start with its 1-based index right-justified in 9 columns: " + at(j))
		}
		groups := strings.Split(ln[10:], " ")
		if len(groups) > 6 || (!last && len(groups) != 6) {
			return nil, errors.New("sequence row does not hold six groups: " + at(j))
		}
		for gi, g := range groups {
			if g == "" || len(g) > 10 || (len(g) < 10 && !(last && gi == len(groups)-1)) {
				return nil, errors.New("sequence group is not ten letters: " + at(j))
			}
			for k := 0; k < len(g); k++ {
				if !(g[k] >= 'a' && g[k] <= 'z' || g[k] >= 'A' && g[k] <= 'Z') {
					return nil, errors.New("sequence row holds a non-letter: " + at(j))
				}
			}
			seq.WriteString(g)
		}
	}
	rd.Seq = seq.String()
	if i != len(lines)-1 {
		return nil, errors.New("text after the // terminator")
	}
	return rd, nil
}

/******************************************************************************
 One case: source record, Build, Parse back, independent read
******************************************************************************/

type c03Result struct {
	srcPanic   string
	given      poly.Sequence // deep copy of the record taken before the first write: the record as it was given
	r          poly.Sequence // the record handed to the writer (every write gets this same value)
	out        []byte
	buildPanic string
	r2         poly.Sequence
	parsePanic string
	rd         *c03Read
	rdErr      error
}

func c03TryBuild(s poly.Sequence) (out []byte, panicMsg string) {
	defer func() {
		if r := recover(); r != nil {
			panicMsg = fmt.Sprintf("Build panic: %v", r)
		}
	}()
	return Build(s), ""
}

func c03CopyLoc(l poly.Location) poly.Location {
	c := l
	if l.SubLocations != nil {
		c.SubLocations = make([]poly.Location, len(l.SubLocations))
		for i := range l.SubLocations {
			c.SubLocations[i] = c03CopyLoc(l.SubLocations[i])
		}
	}
	return c
}

func c03CopyMap(m map[string]string) map[string]string {
	if m == nil {
		return nil
	}
	c := make(map[string]string, len(m))
	for k, v := range m {
		c[k] = v
	}
	return c
}

// c03CopySeq: a deep copy that shares no slice, map or location node with s
// (ParentSequence is left out: it is not something the writer is given to
// write).
func c03CopySeq(s poly.Sequence) poly.Sequence {
	c := s
	c.Meta.References = append([]poly.Reference(nil), s.Meta.References...)
	c.Meta.Other = c03CopyMap(s.Meta.Other)
	c.Features = make([]poly.Feature, len(s.Features))
	for i, ft := range s.Features {
		ft.Attributes = c03CopyMap(ft.Attributes)
		ft.SequenceLocation = c03CopyLoc(ft.SequenceLocation)
		ft.ParentSequence = nil
		c.Features[i] = ft
	}
	return c
}

func c03Source(f *c03File) (poly.Sequence, string) {
	if f.Mode == c03ModeImage {
		return c03TryParse(c03FileText(f))
	}
	return c03ToSeq(&f.Recs[0], f.Mode == c03ModeCached), ""
}

// c03Run executes the case. viaFile != "" goes through Write and Read.
func c03Run(f *c03File, viaFile string) *c03Result {
	res := &c03Result{}
	res.r, res.srcPanic = c03Source(f)
	if res.srcPanic != "" {
		return res
	}
	res.given = c03CopySeq(res.r)
	res.out, res.buildPanic = c03TryBuild(res.r)
	if res.buildPanic != "" {
		return res
	}
	if viaFile != "" {
		func() {
			defer func() {
				if r := recover(); r != nil {
					res.parsePanic = fmt.Sprintf("Read(Write(r)) panic: %v", r)
				}
			}()
			Write(res.r, viaFile)
			res.r2 = Read(viaFile)
		}()
	} else {
		res.r2, res.parsePanic = c03TryParse(string(res.out))
		if res.parsePanic != "" {
			res.parsePanic = "Parse(Build(r)) " + res.parsePanic
		}
	}
	res.rd, res.rdErr = c03ReadRecord(string(res.out))
	return res
}

func c03MapEq(a, b map[string]string) string {
	for k, v := range a {
		w, ok := b[k]
		if !ok {
			return fmt.Sprintf("key %q lost (value %s)", k, c03Q(v))
		}
		if d := c03Diff("["+k+"]", w, v); d != "" {
			return d
		}
	}
	for k := range b {
		if _, ok := a[k]; !ok {
			return fmt.Sprintf("key %q appeared (value %s)", k, c03Q(b[k]))
		}
	}
	return ""
}

func c03First(ds ...string) string {
	for _, d := range ds {
		if d != "" {
			return d
		}
	}
	return ""
}

func c03Topo(l poly.Locus) string {
	switch {
	case l.Circular && l.Linear:
		return "circular+linear"
	case l.Circular:
		return "circular"
	case l.Linear:
		return "linear"
	}
	return ""
}

// identity clauses: got = Parse(Build(r)) against r as it was given ("read
// back" vs "given"), and r itself after the writes against the deep copy taken
// before the first one (nothing the writer is given is altered).
const c03AlteredPrefix = "record altered by writing: "

func c03CmpSeq(g, w *poly.Sequence) string { return c03Diff("Sequence", g.Sequence, w.Sequence) }

func c03CmpLocus(gs, ws *poly.Sequence) string {
	g, w := gs.Meta.Locus, ws.Meta.Locus
	return c03First(
		c03Diff("Locus.Name", g.Name, w.Name),
		c03Diff("Locus.SequenceLength", g.SequenceLength, w.SequenceLength),
		c03Diff("Locus.MoleculeType", g.MoleculeType, w.MoleculeType),
		c03Diff("Locus topology", c03Topo(g), c03Topo(w)),
		c03Diff("Locus.GenbankDivision", g.GenbankDivision, w.GenbankDivision),
		c03Diff("Locus.ModificationDate", g.ModificationDate, w.ModificationDate))
}

func c03CmpMeta(gs, ws *poly.Sequence) string {
	g, w := gs.Meta, ws.Meta
	d := c03First(
		c03Diff("Definition", g.Definition, w.Definition),
		c03Diff("Accession", g.Accession, w.Accession),
		c03Diff("Version", g.Version, w.Version),
		c03Diff("Keywords", g.Keywords, w.Keywords),
		c03Diff("Source", g.Source, w.Source),
		c03Diff("Organism", g.Organism, w.Organism))
	if d != "" {
		return d
	}
	if d := c03MapEq(w.Other, g.Other); d != "" {
		return "Meta.Other " + d
	}
	return ""
}

func c03RefsEq(got []poly.Reference, want []poly.Reference) string {
	if len(got) != len(want) {
		return fmt.Sprintf("%d references read back, %d given", len(got), len(want))
	}
	for i := range want {
		g, w := got[i], want[i]
		p := "reference " + strconv.Itoa(i+1) + " "
		if d := c03First(
			c03Diff(p+"Index", g.Index, w.Index), c03Diff(p+"Range", g.Range, w.Range), c03Diff(p+"Authors", g.Authors, w.Authors),
			c03Diff(p+"Title", g.Title, w.Title), c03Diff(p+"Journal", g.Journal, w.Journal), c03Diff(p+"PubMed", g.PubMed, w.PubMed),
			c03Diff(p+"Remark", g.Remark, w.Remark)); d != "" {
			return d
		}
	}
	return ""
}

func c03CmpRefs(gs, ws *poly.Sequence) string {
	return c03RefsEq(gs.Meta.References, ws.Meta.References)
}

// c03CmpFeats: strict = the record against its own copy (text and structure
// must both be what they were), else a record read back against the one given
// (location text where that has text, structure otherwise).
func c03CmpFeats(gs, ws *poly.Sequence, strict bool) string {
	got, want := gs.Features, ws.Features
	n := len(got)
	if len(want) < n {
		n = len(want)
	}
	for i := 0; i < n; i++ {
		g, w := got[i], want[i]
		p := "feature " + strconv.Itoa(i+1) + " (" + w.Type + ") "
		if d := c03Diff(p+"key", g.Type, w.Type); d != "" {
			return d
		}
		if strict {
			if d := c03Diff(p+"location text", g.GbkLocationString, w.GbkLocationString); d != "" {
				return d
			}
			if !c03LocEq(g.SequenceLocation, w.SequenceLocation) {
				return fmt.Sprintf("%sSequenceLocation: after the write(s) %s, given %s", p, c03LocShow(g.SequenceLocation), c03LocShow(w.SequenceLocation))
			}
		} else if w.GbkLocationString != "" {
			if d := c03Diff(p+"location text", g.GbkLocationString, w.GbkLocationString); d != "" {
				return d
			}
		} else if !c03LocEq(g.SequenceLocation, w.SequenceLocation) {
			return fmt.Sprintf("%slocation: read back %+v (text %q), given %+v", p, g.SequenceLocation, g.GbkLocationString, w.SequenceLocation)
		}
		if d := c03MapEq(w.Attributes, g.Attributes); d != "" {
			return p + "qualifier " + d
		}
	}
	if len(got) != len(want) {
		return fmt.Sprintf("%d features read back, %d given", len(got), len(want))
	}
	return ""
}

// c03LocShow: a location tree in short, for messages (Start is 0-based, End
// exclusive, as stored; C = Complement set, J = Join set on the node).
func c03LocShow(l poly.Location) string {
	s := ""
	if l.Complement {
		s += "C"
	}
	if l.Join {
		s += "J"
	}
	if l.FivePrimePartial {
		s += "<"
	}
	if l.ThreePrimePartial {
		s += ">"
	}
	if len(l.SubLocations) == 0 {
		return s + "{" + strconv.Itoa(l.Start) + "," + strconv.Itoa(l.End) + "}"
	}
	parts := make([]string, len(l.SubLocations))
	for i, k := range l.SubLocations {
		parts[i] = c03LocShow(k)
	}
	return s + "[" + strings.Join(parts, " ") + "]"
}

func c03CmpFeatsStrict(g, w *poly.Sequence) string { return c03CmpFeats(g, w, true) }
func c03CmpFeatsRead(g, w *poly.Sequence) string   { return c03CmpFeats(g, w, false) }

// c03Altered: what the writes changed in the record they were given, by field
// group ("" = nothing).
func c03Altered(res *c03Result, cmp func(g, w *poly.Sequence) string) string {
	if d := cmp(&res.r, &res.given); d != "" {
		return c03AlteredPrefix + "after the write(s) the record handed to Build differs from the copy taken before: " + d
	}
	return ""
}

func c03AlteredAny(res *c03Result) string {
	return c03First(c03Altered(res, c03CmpSeq), c03Altered(res, c03CmpLocus), c03Altered(res, c03CmpMeta), c03Altered(res, c03CmpRefs), c03Altered(res, c03CmpFeatsStrict))
}

func c03RtSeq(res *c03Result, f *c03File) string {
	return c03First(c03Altered(res, c03CmpSeq), c03CmpSeq(&res.r2, &res.given))
}

func c03RtLocus(res *c03Result, f *c03File) string {
	return c03First(c03Altered(res, c03CmpLocus), c03CmpLocus(&res.r2, &res.given))
}

func c03RtMeta(res *c03Result, f *c03File) string {
	return c03First(c03Altered(res, c03CmpMeta), c03CmpMeta(&res.r2, &res.given))
}

func c03RtRefs(res *c03Result, f *c03File) string {
	return c03First(c03Altered(res, c03CmpRefs), c03CmpRefs(&res.r2, &res.given))
}

func c03RtFeats(res *c03Result, f *c03File) string {
	return c03First(c03Altered(res, c03CmpFeatsStrict), c03CmpFeatsRead(&res.r2, &res.given))
}

// layout clause: what the independent reader recovers from Build's text against r.
func c03Layout2(res *c03Result, f *c03File) string {
	if res.rdErr != nil {
		return "independent reader: " + res.rdErr.Error()
	}
	rd, w := res.rd, &res.given // the record as it was given
	l := w.Meta.Locus
	if d := c03First(
		c03Diff("sequence", rd.Seq, w.Sequence),
		c03Diff("LOCUS name", rd.Name, l.Name), c03Diff("LOCUS length", rd.Length, l.SequenceLength), c03Diff("LOCUS molecule", rd.Mol, l.MoleculeType),
		c03Diff("LOCUS topology", rd.Topo, c03Topo(l)), c03Diff("LOCUS division", rd.Div, l.GenbankDivision), c03Diff("LOCUS date", rd.Date, l.ModificationDate),
		c03Diff("DEFINITION", rd.Def, w.Meta.Definition), c03Diff("ACCESSION", rd.Acc, w.Meta.Accession), c03Diff("VERSION", rd.Ver, w.Meta.Version),
		c03Diff("KEYWORDS", rd.Kw, w.Meta.Keywords), c03Diff("SOURCE", rd.Src, w.Meta.Source), c03Diff("ORGANISM", rd.Org, w.Meta.Organism)); d != "" {
		return "independent reader: " + d
	}
	if d := c03MapEq(w.Meta.Other, rd.Other); d != "" {
		return "independent reader: other keyword " + d
	}
	refs := make([]poly.Reference, len(rd.Refs))
	for i, p := range rd.Refs {
		refs[i] = *p
	}
	if d := c03RefsEq(refs, w.Meta.References); d != "" {
		return "independent reader: " + d
	}
	n := len(rd.Feats)
	if len(w.Features) < n {
		n = len(w.Features)
	}
	for i := 0; i < n; i++ {
		g, wf := rd.Feats[i], w.Features[i]
		p := "independent reader: feature " + strconv.Itoa(i+1) + " (" + wf.Type + ") "
		loc, gloc := wf.GbkLocationString, g.Loc
		if loc == "" {
			// no text was given: the INSDC text of the structure, the place of a 3' marker left to C02
			loc, gloc = c03MarkerPlace(c03LocText(&f.Recs[0].Feats[i])), c03MarkerPlace(gloc)
		}
		if d := c03First(c03Diff(p+"key", g.Key, wf.Type), c03Diff(p+"location", gloc, loc)); d != "" {
			return d
		}
		if d := c03MapEq(wf.Attributes, g.Quals); d != "" {
			return p + "qualifier " + d
		}
	}
	if len(rd.Feats) != len(w.Features) {
		return fmt.Sprintf("independent reader: %d features, %d given", len(rd.Feats), len(w.Features))
	}
	return ""
}

const (
	c03RunDet = iota
	c03RunNoPanic
	c03RunSeq
	c03RunLocus
	c03RunMeta
	c03RunRefs
	c03RunFeats
	c03RunLayout
)

type c03Clause struct {
	run        int
	roundtrip  bool
	check      func(res *c03Result, f *c03File) string
	nontrivial func(r *poly.Sequence) bool
}

func c03LongMeta(r *poly.Sequence) bool {
	m := r.Meta
	for _, s := range []string{m.Definition, m.Accession, m.Version, m.Keywords, m.Source, m.Organism} {
		if len(s) > 68 || s == "" {
			return true
		}
	}
	for _, s := range m.Other {
		if len(s) > 68 {
			return true
		}
	}
	return len(m.Other) > 0
}

var c03Clauses = []c03Clause{
	{c03RunSeq, true, c03RtSeq, func(r *poly.Sequence) bool { return true }},
	{c03RunLocus, true, c03RtLocus, func(r *poly.Sequence) bool { return true }},
	{c03RunMeta, true, c03RtMeta, c03LongMeta},
	{c03RunRefs, true, c03RtRefs, func(r *poly.Sequence) bool { return len(r.Meta.References) > 0 }},
	{c03RunFeats, true, c03RtFeats, func(r *poly.Sequence) bool { return len(r.Features) > 0 }},
	{c03RunLayout, false, c03Layout2, func(r *poly.Sequence) bool { return true }},
}

// c03ClauseFails: the verdict of one clause on one (possibly reduced) case.
func c03ClauseFails(c *c03Clause, res *c03Result, f *c03File) string {
	if res.srcPanic != "" {
		return "" // Parse of the generated file is C01's business
	}
	if res.buildPanic != "" || (c.roundtrip && res.parsePanic != "") {
		return "" // recorded once, under the no-panic clause
	}
	return c.check(res, f)
}

// With two keys Go's map iteration starts at one of eight offsets of a bucket
// and only one of them gives the other order, so two builds agree with
// probability 7/8; 128 builds leave (7/8)^127 < 1e-7. Records longer than
// 20000 letters are built 64 times ((7/8)^63 ~ 2e-4), which is what bounds the
// cost of the quick tier.
const c03Builds = 128

func c03NBuilds(r *poly.Sequence) int {
	if len(r.Sequence) > 20000 {
		return c03Builds / 2
	}
	return c03Builds
}

// c03Nondet builds r c03Builds times and says whether the text before the
// FEATURES line (keyword blocks) and the text from it on (feature table) vary.
// first, when not nil, is the first write of r, made before the call (r has
// then been through one write already); the writes made here are compared
// with it and count from 2.
func c03Nondet(r poly.Sequence, first []byte) (headVaries, tailVaries bool, detail string) {
	split := func(o []byte) (string, string) {
		s := string(o)
		if k := strings.Index(s, "\nFEATURES "); k >= 0 {
			return s[:k], s[k:]
		}
		return s, ""
	}
	if first == nil {
		var pm string
		first, pm = c03TryBuild(r)
		if pm != "" {
			return false, false, ""
		}
	}
	h0, t0 := split(first)
	for i := 1; i < c03NBuilds(&r); i++ {
		o, _ := c03TryBuild(r)
		if bytes.Equal(first, o) {
			continue
		}
		h, t := split(o)
		if h != h0 {
			headVaries = true
		}
		if t != t0 {
			tailVaries = true
		}
		if detail == "" {
			a, b := strings.Split(string(first), "\n"), strings.Split(string(o), "\n")
			detail = fmt.Sprintf("build 1 and build %d differ in length", i+1)
			for k := 0; k < len(a) && k < len(b); k++ {
				if a[k] != b[k] {
					detail = fmt.Sprintf("build 1 and build %d differ at line %d: %q vs %q", i+1, k+1, a[k], b[k])
					break
				}
			}
		}
	}
	return
}

// c03ComplBelowTop: the location has a complemented node below its top level.
func c03ComplBelowTop(l poly.Location) bool {
	for _, s := range l.SubLocations {
		if s.Complement || c03ComplBelowTop(s) {
			return true
		}
	}
	return false
}

// c03WritesAlter: two writes of the record of g leave it different from the
// copy taken before the first.
func c03WritesAlter(g *c03File) bool {
	res := &c03Result{}
	res.r, res.srcPanic = c03Source(g)
	if res.srcPanic != "" {
		return false
	}
	res.given = c03CopySeq(res.r)
	for i := 0; i < 2; i++ {
		if _, pm := c03TryBuild(res.r); pm != "" {
			return false
		}
	}
	return c03AlteredAny(res) != ""
}

var c03AlteredMu sync.Mutex
var c03AlteredSeen int

// c03AlteredWitness reduces a case whose record is altered by writing to the
// shape axes that must stay for that and describes the reduced case. The
// reduction is made for the first 500 such cases only (the record keeps three
// examples per class).
func c03AlteredWitness(f *c03File) (input, axes string) {
	c03AlteredMu.Lock()
	c03AlteredSeen++
	n := c03AlteredSeen
	c03AlteredMu.Unlock()
	if n > 500 || !c03WritesAlter(f) {
		return c03Describe(f), ""
	}
	cl, min := c03Blame(f, c03WritesAlter)
	return c03Describe(&min), " (shape that must stay: " + cl + ")"
}

func c03Describe(f *c03File) string {
	if f.Mode == c03ModeImage {
		return "[record = Parse of this file] " + c03Show(c03FileText(f))
	}
	r := c03ToSeq(&f.Recs[0], f.Mode == c03ModeCached)
	out, pm := c03TryBuild(r)
	if pm != "" {
		return "[" + c03ModeNames[f.Mode] + "] " + pm
	}
	rec := &f.Recs[0]
	extra := ""
	for i, x := range rec.Refs {
		if len(x.Remark) > 0 {
			extra += fmt.Sprintf(" References[%d].Remark=%s", i, c03Q(c03J(x.Remark)))
		}
	}
	return "[" + c03ModeNames[f.Mode] + ";" + extra + " one Build of it:] " + c03Show(string(out))
}

func c03Eval(key string, f *c03File, viaFile string) []c03Out {
	var outs []c03Out
	res := c03Run(f, viaFile)
	if res.srcPanic != "" {
		return nil
	}
	// determinism: the write c03Run made of the freshly assembled record is
	// write 1, the further writes of the same record are compared with it
	nt := len(res.given.Meta.Other) >= 2
	for _, ft := range res.given.Features {
		if len(ft.Attributes) >= 2 || (ft.GbkLocationString == "" && c03ComplBelowTop(ft.SequenceLocation)) {
			nt = true
		}
	}
	outs = append(outs, c03Out{run: c03RunDet, key: key, nontrivial: nt})
	headV, tailV, det := false, false, ""
	if res.buildPanic == "" {
		headV, tailV, det = c03Nondet(res.r, res.out)
	}
	if headV || tailV {
		if alt := c03AlteredAny(res); alt != "" {
			// the writes differ because writing changed the record: one class,
			// whatever part of the text shows it; what still varies once the
			// record has settled is classified below as before
			in, axes := c03AlteredWitness(f)
			outs = append(outs, c03Out{run: c03RunDet, key: key, failed: true, noCase: true, class: "record-altered-by-writing", input: in,
				detail: det + axes + "; " + alt})
			headV, tailV, det = c03Nondet(res.r, nil)
		}
	}
	// the class follows from where the outputs differ; the witness is the case
	// with everything else neutralised, if that still shows it
	witness := func(head bool, keeps ...[]string) (string, string) {
		for _, k := range keeps {
			g := c03KeepOnly(f, k...)
			if r, pm := c03Source(&g); pm == "" {
				if h, t, d := c03Nondet(r, nil); (head && h) || (!head && t) {
					return c03Describe(&g), d
				}
			}
		}
		return c03Describe(f), det
	}
	if headV {
		in, d := witness(true, []string{"several-extra-keywords", "extra-keyword"})
		outs = append(outs, c03Out{run: c03RunDet, key: key, failed: true, noCase: true, class: "several-extra-keywords", input: in, detail: d})
	}
	if tailV {
		in, d := witness(false, []string{"several-qualifiers", "features"}, []string{"several-qualifiers", "several-features", "features"})
		outs = append(outs, c03Out{run: c03RunDet, key: key, failed: true, noCase: true, class: "several-qualifiers", input: in, detail: d})
	}
	// Build and Parse(Build(r)) return
	po := c03Out{run: c03RunNoPanic, key: key, nontrivial: true}
	if pm := res.buildPanic + res.parsePanic; pm != "" {
		cl, min := c03Blame(f, func(g *c03File) bool { x := c03Run(g, ""); return x.buildPanic+x.parsePanic != "" })
		md := pm
		if x := c03Run(&min, ""); x.buildPanic+x.parsePanic != "" {
			md = x.buildPanic + x.parsePanic
		}
		po.failed, po.class, po.input, po.detail = true, cl, c03Describe(&min), md
		return append(outs, po)
	}
	outs = append(outs, po)
	for ci := range c03Clauses {
		c := &c03Clauses[ci]
		o := c03Out{run: c.run, key: key, nontrivial: c.nontrivial(&res.given)}
		if d := c03ClauseFails(c, res, f); strings.HasPrefix(d, c03AlteredPrefix) {
			in, axes := c03AlteredWitness(f)
			o.failed, o.class, o.input, o.detail = true, "record-altered-by-writing", in, strings.TrimSpace(axes)+" "+d
		} else if d != "" {
			cl, min := c03Blame(f, func(g *c03File) bool { return c03ClauseFails(c, c03Run(g, ""), g) != "" })
			md := c03ClauseFails(c, c03Run(&min, ""), &min)
			if md == "" {
				md = d
			}
			o.failed, o.class, o.input, o.detail = true, cl, c03Describe(&min), md
		}
		outs = append(outs, o)
	}
	return outs
}

// locus name lengths of the enumeration: every length up to 24 (16 is the
// width of the historical name field, columns 13-28), then 32 and 40.
var c03NameLengths = []int{1, 2, 3, 4, 5, 6, 7, 8, 9, 10, 11, 12, 13, 14, 15, 16, 17, 18, 19, 20, 21, 22, 23, 24, 32, 40}

// which keyword texts are empty in the records of the empty-text enumeration
var c03EmptyKinds = []string{"ORGANISM", "SOURCE", "SOURCE+ORGANISM", "DEFINITION", "ACCESSION", "VERSION", "KEYWORDS",
	"DEFINITION+ACCESSION+VERSION+KEYWORDS+SOURCE+ORGANISM", "COMMENT", "DBLINK", "COMMENT+DBLINK", "ORGANISM+COMMENT"}

// which operands of the join are complemented in the enumeration
var c03OpComplPatterns = []string{"all", "first", "last", "alternating"}

func c03OpComplPattern(pattern, arity int) []bool {
	out := make([]bool, arity)
	for i := range out {
		switch pattern {
		case 0:
			out[i] = true
		case 1:
			out[i] = i == 0
		case 2:
			out[i] = i == arity-1
		default:
			out[i] = i%2 == 0
		}
	}
	return out
}

// the fields of a reference in the subset enumeration, bit i of the mask = field i given
var c03RefFields = []string{"AUTHORS", "TITLE", "JOURNAL", "PUBMED", "REMARK"}

func c03PartialShapeNames() string {
	names := make([]string, len(c03PartialShapes))
	for i := range c03PartialShapes {
		names[i] = c03PartialShapes[i].name
	}
	return strings.Join(names, "  ")
}

func c03RefMaskName(mask int) string {
	var out []string
	for i, n := range c03RefFields {
		if mask&(1<<i) != 0 {
			out = append(out, n)
		}
	}
	if len(out) == 0 {
		return "none"
	}
	return strings.Join(out, "+")
}

// c03RefSubset: a reference with exactly the fields of mask.
func c03RefSubset(rng *rand.Rand, mask int) c03Ref {
	var x c03Ref
	if mask&1 != 0 {
		x.Authors = []string{c03Text(rng, c03MetaAlpha, 30)}
	}
	if mask&2 != 0 {
		x.Title = []string{c03Text(rng, c03MetaAlpha, 40)}
	}
	if mask&4 != 0 {
		x.Journal = []string{c03Text(rng, c03MetaAlpha, 30)}
	}
	if mask&8 != 0 {
		x.PubMed = c03Word(rng, c03Digits, 6, 8)
	}
	if mask&16 != 0 {
		x.Remark = []string{c03Text(rng, c03MetaAlpha, 30)}
	}
	return x
}

// where the reference with the field subset stands
var c03RefPlaces = []string{"only-reference", "first-of-two", "second-of-two"}

// partial markers on and around complemented nodes: the locations of the
// enumeration. compl = the whole location inside complement(); join = false: a
// single span with markers p[0]; join = true: two spans, operand i with markers
// p[i] (1 '<', 2 '>', 3 both), written complement(...) where opc[i].
type c03PartialShape struct {
	name  string
	join  bool
	compl bool
	p     [2]int
	opc   [2]bool
}

var c03PartialShapes = []c03PartialShape{
	{"complement(<a..b)", false, true, [2]int{1, 0}, [2]bool{}},
	{"complement(a..>b)", false, true, [2]int{2, 0}, [2]bool{}},
	{"complement(<a..>b)", false, true, [2]int{3, 0}, [2]bool{}},
	{"<a..>b", false, false, [2]int{3, 0}, [2]bool{}},
	{"a..>b", false, false, [2]int{2, 0}, [2]bool{}},
	{"join(complement(<a..b),c..d)", true, false, [2]int{1, 0}, [2]bool{true, false}},
	{"join(a..b,complement(c..>d))", true, false, [2]int{0, 2}, [2]bool{false, true}},
	{"join(complement(<a..b),complement(c..>d))", true, false, [2]int{1, 2}, [2]bool{true, true}},
	{"join(<a..b,c..>d)", true, false, [2]int{1, 2}, [2]bool{}},
	{"join(<a..b,complement(c..d))", true, false, [2]int{1, 0}, [2]bool{false, true}},
	{"complement(join(<a..b,c..d))", true, true, [2]int{1, 0}, [2]bool{}},
	{"complement(join(a..b,c..>d))", true, true, [2]int{0, 2}, [2]bool{}},
	{"complement(join(<a..b,c..>d))", true, true, [2]int{1, 2}, [2]bool{}},
	{"complement(join(complement(<a..b),c..d))", true, true, [2]int{1, 0}, [2]bool{true, false}},
}

// c03SetPartialShape gives the feature the location of the shape on a sequence of n letters.
func c03SetPartialShape(rng *rand.Rand, ft *c03Feat, sh *c03PartialShape, n int) {
	ft.Ranges, ft.Join, ft.Compl, ft.Partial, ft.Single, ft.BreakAfter, ft.OpCompl, ft.OpPartial = nil, sh.join, sh.compl, 0, false, nil, nil, nil
	if !sh.join {
		ft.Ranges, ft.Partial = [][2]int{c03RandRange(rng, n)}, sh.p[0]
		return
	}
	ft.Ranges = [][2]int{c03RandRange(rng, n), c03RandRange(rng, n)}
	ft.OpPartial = []int{sh.p[0], sh.p[1]}
	if sh.opc[0] || sh.opc[1] {
		ft.OpCompl = []bool{sh.opc[0], sh.opc[1]}
	}
	c03FitBreaks(ft)
}

func TestVerifC03(t *testing.T) {
	nRand := 300
	nDupRand := 45 // random records with duplicated features (streams 13, 14)
	if verifThorough() {
		nRand = 15000
		nDupRand = 3000
	}
	tmp := t.TempDir()
	prof := c03Profile{MaxMeta: 2000, MaxQuals: 8, MaxLen: 100000, ManyOthers: true, LongTokens: true}

	src := "records r from three sources: (a) Parse of a file laid out by an independent NCBI-layout writer, (b) structured poly.Sequence with GbkLocationString set, (c) structured with SequenceLocation only (locations a..b, complement, join, complement(join), joins with complemented operands such as join(complement(a..b),complement(c..d)) and complement(join(complement(a..b),c..d)), spans partial at the 5' end, the 3' end or both, also where the partial span is itself the complemented node, as in complement(<a..b), or an operand of a join; the partial flags sit on the span that carries the marker and, as in the structures the parser returns, on the join above it; a single base is given as text); every case keeps a deep copy of r taken before the first write; "
	shapeDom := "shape enumeration: sequence length {7,12,345,1234,12345,100000} x qualifiers per feature {0,1,2,8} x value shape {plain,slash,equals,wrap,empty} x source {a,b,c}, two features, one reference with and without REMARK, 0..3 extra keyword blocks, DEFINITION up to 2000 characters in every third case; locus names of 1..24, 32 and 40 characters (16 = width of the name field in columns 13-28) x length {7,12,345} x source {a,b,c}, 4 molecule types x {linear,circular,none}; structured records (sources b, c) that carry a keyword with no text: {" + strings.Join(c03EmptyKinds, ", ") + "} empty (COMMENT, DBLINK = Meta.Other entries with empty text) x 0 or 1 reference x with or without a filled extra keyword; " +
		"structured records (sources b, c) with every subset of the LOCUS columns {molecule type, topology, division, date} left empty (all four empty = a bare LOCUS line, name and length only) x length {7,345}; " +
		"unbreakable tokens: one blank-free URL-like token of {69,100,300} characters (longer than the 68-column text field) as the whole text or as the first, a middle or the last word of two to three lines of text in each of {" + strings.Join(c03TokenPlaces, ", ") + "} (reference fields: of the one reference) x source {a,b,c} on a 345-letter record with one feature, one complete reference, DBLINK and COMMENT; " +
		"complemented operands below the top level: two features whose location is a join of {2,3,4} spans with {all, the first, the last, every other} operand(s) written complement(a..b), the join plain or itself inside complement() x length {12,345} x 1 or 2 qualifiers x source {a,b,c} (source c = the structure alone, Complement set on the SubLocations; sources a, b lay the text out on lines of at most 58 columns); " +
		"reference field subsets: a reference given with each of the 32 subsets of {" + strings.Join(c03RefFields, ", ") + "} (none to all five; e.g. TITLE without AUTHORS, REMARK without PUBMED), all other fields empty, as {" + strings.Join(c03RefPlaces, ", ") + "} (the other reference complete) x source {a,b,c} on a 345-letter record, with and without a COMMENT block after the references; " +
		"partial ends on and around complemented nodes: two features with the location {" + c03PartialShapeNames() + "} x length {12,345} x 1 or 2 qualifiers x source {a,b,c} (source c = the structure alone: FivePrimePartial/ThreePrimePartial and Complement on the same node for complement(<a..b)); "
	randDom := fmt.Sprintf("plus %d seeded-random records (sources cycling a,b,c): length 1..100000 (digit count uniform), locus name 1..40 characters (17..40 in one case of twelve), in structured records ORGANISM and/or an extra keyword text empty in up to three cases of eight, 0..40 features with 0..8 qualifiers (values over printable ASCII without the double quote, single-spaced words, up to 230 characters), 0..5 references with optional TITLE/PUBMED/REMARK, COMMENT/DBLINK/PROJECT/SEGMENT blocks, metadata texts up to 2000 characters, in one record in five one blank-free token of 69..300 characters inside one of the texts (DEFINITION, KEYWORDS, SOURCE, ORGANISM, a reference field or an extra keyword block), in one structured record in six a non-empty subset of the LOCUS columns molecule type, topology, division, date left empty; in every other random record each join gets, with probability 1/2, a random non-empty set of complemented operands; in every other triple of consecutive random records (all three sources) each reference loses each of AUTHORS, TITLE, JOURNAL, PUBMED with probability 1/4, each single span gets with probability 1/2 the markers <, > or both (also inside complement()), and each join with probability 1/2 such markers on a random non-empty set of its operands (complemented or not); every 50th random case goes through Write and Read on a temporary file; ", nRand)
	shapeDom += "duplicate features: a record in which one feature (a CDS with a random one-line location: a..b, complement, partial, single base, join) occurs {2,3} times, every copy equal in key, location and qualifiers, with {0,1,2} qualifiers per feature (0 = identical qualifier-less features at the same place), placed {" + strings.Join(c03DupPlacements, ", ") + "} (gene CDS CDS misc_feature; CDS gene CDS misc_feature CDS; CDS gene misc_feature CDS; CDS CDS alone) x length {12,345} x source {a, b, c, and b, c with the Features slice assembled by append instead of through AddFeature}: the same number of features in the same order is demanded as for any other record (class duplicate-feature); "
	randDom += fmt.Sprintf("plus %d seeded-random records of the same kind with lengths up to 9999 (sources cycling a,b,c; in every other triple the structured records are assembled by append instead of through AddFeature) in which 1..3 randomly chosen features are each copied once or twice, the copy equal in key, location and qualifiers and put right behind the original or at a random place (at most 40 features; a record without features gets one first); ", nDupRand)
	runs := []*verifRun{
		newVerifRun("C03", "io/genbank.Build/determinism", src+shapeDom+randDom+fmt.Sprintf("the same record value written %d times (64 times above 20000 letters), the first write being the first the freshly assembled record goes through, all outputs byte-identical; where they differ and the record is no longer equal to the deep copy taken before the first write the class is record-altered-by-writing; non-trivial = at least 2 Meta.Other keys, a feature with at least 2 qualifiers, or a location without cached text that has a complemented node below its top level", c03Builds)),
		newVerifRun("C03", "io/genbank.Build/post/roundtrip-no-panic", src+shapeDom+randDom+"Build(r) and Parse(Build(r)) return without a panic; every case counts; the field clauses below are evaluated on the cases that return"),
		newVerifRun("C03", "io/genbank.Build/post/roundtrip-sequence", src+shapeDom+randDom+"Parse(Build(r)).Sequence == r.Sequence as given (the copy), and r.Sequence after the writes equals the copy (class record-altered-by-writing otherwise); every case counts"),
		newVerifRun("C03", "io/genbank.Build/post/roundtrip-locus", src+shapeDom+randDom+"Parse(Build(r)) equals r as given (the copy) in locus name, length, molecule type, topology, division, date, and r after the writes equals the copy in them (class record-altered-by-writing otherwise); every case counts"),
		newVerifRun("C03", "io/genbank.Build/post/roundtrip-meta", src+shapeDom+randDom+"Parse(Build(r)) equals r as given (the copy) in Definition, Accession, Version, Keywords, Source, Organism and the Other map, and r after the writes equals the copy in them (class record-altered-by-writing otherwise); non-trivial = a text longer than 68 characters, a keyword with empty text or an Other key"),
		newVerifRun("C03", "io/genbank.Build/post/roundtrip-references", src+shapeDom+randDom+"Parse(Build(r)) equals r as given (the copy) in every reference's Index, Range, Authors, Title, Journal, PubMed, Remark, and r after the writes equals the copy in them (class record-altered-by-writing otherwise); non-trivial = at least one reference"),
		newVerifRun("C03", "io/genbank.Build/post/roundtrip-features", src+shapeDom+randDom+"Parse(Build(r)) equals r as given (the deep copy taken before the first write) in feature count, order, keys, locations (text where r has text, structure otherwise) and qualifier maps, and nothing the writer was given is altered: after the writes (one Build, the further Builds of the determinism clause, Write where the case goes through a file) r itself equals the copy in feature keys, location text, the whole SequenceLocation tree and qualifier maps (class record-altered-by-writing otherwise); non-trivial = at least one feature"),
		newVerifRun("C03", "io/genbank.Build/post/layout", src+shapeDom+randDom+"an independent column-strict reader (keyword field columns 1-12, sub-keywords indented 2-3, continuation lines blank in 1-12, FEATURES header, key column 6, location/qualifier column 22, ORIGIN rows '%9d' + six groups of ten, // last) recovers every field of r as given (the copy) from the first Build(r), the location of a feature given without text being compared with the INSDC text of its structure except for the place of a 3' marker (a..>b and a..b> are read as the same partial end: where the writer puts that marker is C02's clause BuildLocationString/post/insdc); every case counts"),
	}
	for _, v := range runs {
		v.Sampled()
	}
	// harness self-check: the location shapes of the partial enumeration are written as they are named
	for si := range c03PartialShapes {
		var ft c03Feat
		c03SetPartialShape(rand.New(rand.NewSource(1)), &ft, &c03PartialShapes[si], 40)
		want := c03PartialShapes[si].name
		for k, r := range ft.Ranges {
			lo, hi := []string{"a", "c"}[k], []string{"b", "d"}[k]
			want = strings.Replace(strings.Replace(want, ".."+hi, ".."+strconv.Itoa(r[1]), 1), "..>"+hi, "..>"+strconv.Itoa(r[1]), 1)
			want = strings.Replace(want, lo+"..", strconv.Itoa(r[0])+"..", 1)
		}
		if got := c03LocText(&ft); got != want {
			t.Fatalf("partial shape %q is written %q, expected %q", c03PartialShapes[si].name, got, want)
		}
	}
	if got := c03MarkerPlace("join(complement(<1..>30),4..>5,7..9)"); got != "join(complement(<1..30>),4..5>,7..9)" {
		t.Fatalf("c03MarkerPlace: %q", got)
	}

	type shape struct {
		n, nq, vs, mode int
		remark          bool
	}
	var shapes []shape
	for _, n := range []int{7, 12, 345, 1234, 12345, 100000} {
		for _, nq := range []int{0, 1, 2, 8} {
			for _, vs := range []int{c03VPlain, c03VSlash, c03VEquals, c03VWrap, c03VEmpty} {
				if nq == 0 && vs != c03VPlain {
					continue
				}
				for mode := 0; mode < 3; mode++ {
					for _, rem := range []bool{false, true} {
						shapes = append(shapes, shape{n, nq, vs, mode, rem})
					}
				}
			}
		}
	}
	c03Parallel(len(shapes), runs, func(i int) []c03Out {
		sh := shapes[i]
		rng := c03Rng(1, i)
		nq := sh.nq
		if nq > 2 {
			nq = 2
		}
		r := c03ShapeRec(rng, sh.n, 2, nq, sh.vs, 1)
		for fi := range r.Feats {
			for k := 2; k < sh.nq; k++ {
				r.Feats[fi].Quals = append(r.Feats[fi].Quals, c03MakeQual(rng, c03QualKeys[k+2], sh.vs, r.Width))
			}
		}
		ref := c03Ref{Authors: []string{c03Text(rng, c03MetaAlpha, 30)}, Title: []string{c03Text(rng, c03MetaAlpha, 40)}, Journal: []string{c03Text(rng, c03MetaAlpha, 30)}, PubMed: c03Word(rng, c03Digits, 6, 8)}
		if sh.remark {
			ref.Remark = []string{c03Text(rng, c03MetaAlpha, 30)}
		}
		r.Refs = []c03Ref{ref}
		extra := []c03KV{{"COMMENT", []string{c03Text(rng, c03MetaAlpha, 40)}, false}, {"DBLINK", []string{"BioProject: PRJNA" + c03Word(rng, c03Digits, 4, 6)}, true}, {"PROJECT", []string{"GenomeProject:" + c03Word(rng, c03Digits, 3, 5)}, true}}
		r.Others = extra[:i%4]
		if i%3 == 0 {
			r.Def = []string{c03Text(rng, c03MetaAlpha, 100+rng.Intn(1900))}
		}
		f := c03File{Recs: []c03Rec{r}, FinalNL: true}
		c03SetMode(&f, sh.mode)
		key := fmt.Sprintf("len=%d qualifiers=%d value=%s source=%s remark=%v other-keys=%d long-definition=%v", sh.n, sh.nq, c03VNames[sh.vs], c03ModeNames[sh.mode], sh.remark, i%4, i%3 == 0)
		return c03Eval(key, &f, "")
	})
	type plain struct {
		n, nameLen int
		mol, topo  string
		mode       int
	}
	var plains []plain
	for _, nl := range c03NameLengths {
		for _, n := range []int{7, 12, 345} {
			for mode := 0; mode < 3; mode++ {
				plains = append(plains, plain{n, nl, "DNA", "linear", mode})
			}
		}
	}
	for _, m := range c03Mols {
		for _, tp := range []string{"linear", "circular", ""} {
			for _, n := range []int{7, 345, 12345} {
				mode := c03ModeCached
				plains = append(plains, plain{n, 8, m, tp, mode})
				if tp != "" {
					plains = append(plains, plain{n, 8, m, tp, c03ModeImage})
				}
			}
		}
	}
	for _, n := range []int{1, 9, 10, 59, 60, 61, 99, 100, 119, 120, 121, 999, 1000, 9999, 10000, 99999} {
		for mode := 0; mode < 3; mode++ {
			plains = append(plains, plain{n, 8, "DNA", "linear", mode})
		}
	}
	c03Parallel(len(plains), runs, func(i int) []c03Out {
		p := plains[i]
		rng := c03Rng(2, i)
		r := c03ShapeRec(rng, p.n, 1, 1, c03VPlain, 1)
		r.Name, r.Mol, r.Topo = c03Name(rng, p.nameLen), p.mol, p.topo
		f := c03File{Recs: []c03Rec{r}, FinalNL: true}
		c03SetMode(&f, p.mode)
		topo := p.topo
		if topo == "" {
			topo = "no-topology"
		}
		return c03Eval(fmt.Sprintf("plain len=%d name-length=%d %s %s source=%s", p.n, p.nameLen, p.mol, topo, c03ModeNames[p.mode]), &f, "")
	})
	// structured records that carry a keyword with no text
	type empty struct {
		what        string
		mode, nref  int
		filledOther bool
	}
	var empties []empty
	for _, what := range c03EmptyKinds {
		for mode := c03ModeCached; mode <= c03ModeUncached; mode++ {
			for nref := 0; nref <= 1; nref++ {
				for _, fo := range []bool{false, true} {
					empties = append(empties, empty{what, mode, nref, fo})
				}
			}
		}
	}
	c03Parallel(len(empties), runs, func(i int) []c03Out {
		e := empties[i]
		rng := c03Rng(4, i)
		r := c03ShapeRec(rng, 345, 1, 1, c03VPlain, 1)
		if e.nref == 1 {
			r.Refs = []c03Ref{{Authors: []string{c03Text(rng, c03MetaAlpha, 30)}, Title: []string{c03Text(rng, c03MetaAlpha, 40)}, Journal: []string{c03Text(rng, c03MetaAlpha, 30)}}}
		}
		if e.filledOther {
			r.Others = append(r.Others, c03KV{"PROJECT", []string{"GenomeProject:" + c03Word(rng, c03Digits, 3, 5)}, true})
		}
		for _, w := range strings.Split(e.what, "+") {
			switch w {
			case "DEFINITION":
				r.Def = nil
			case "ACCESSION":
				r.Acc = nil
			case "VERSION":
				r.Ver = nil
			case "KEYWORDS":
				r.Kw = nil
			case "SOURCE":
				r.Src = nil
			case "ORGANISM":
				r.Org = nil
			default: // an extra keyword block without text
				r.Others = append(r.Others, c03KV{w, nil, w == "DBLINK"})
			}
		}
		f := c03File{Recs: []c03Rec{r}, FinalNL: true}
		c03SetMode(&f, e.mode)
		return c03Eval(fmt.Sprintf("empty-text=%s references=%d filled-extra-keyword=%v source=%s", e.what, e.nref, e.filledOther, c03ModeNames[e.mode]), &f, "")
	})
	// structured records that leave LOCUS columns after the length empty
	type locus struct{ mask, n, mode int }
	var loci []locus
	for mask := 0; mask < 16; mask++ {
		for _, n := range []int{7, 345} {
			for mode := c03ModeCached; mode <= c03ModeUncached; mode++ {
				loci = append(loci, locus{mask, n, mode})
			}
		}
	}
	c03Parallel(len(loci), runs, func(i int) []c03Out {
		l := loci[i]
		rng := c03Rng(5, i)
		r := c03ShapeRec(rng, l.n, 1, 1, c03VPlain, 1)
		if rng.Intn(2) == 0 {
			r.Topo = "circular"
		}
		c03EmptyLocus(&r, l.mask)
		f := c03File{Recs: []c03Rec{r}, FinalNL: true}
		c03SetMode(&f, l.mode)
		return c03Eval(fmt.Sprintf("empty-locus-columns=%s len=%d source=%s", c03LocusMaskName(l.mask), l.n, c03ModeNames[l.mode]), &f, "")
	})
	// a blank-free token longer than the text field of a keyword line
	type token struct {
		place        string
		pos, n, mode int
	}
	var tokens []token
	for _, place := range c03TokenPlaces {
		for pos := range c03TokenPositions {
			for _, n := range []int{69, 100, 300} {
				for mode := 0; mode < 3; mode++ {
					tokens = append(tokens, token{place, pos, n, mode})
				}
			}
		}
	}
	c03Parallel(len(tokens), runs, func(i int) []c03Out {
		k := tokens[i]
		rng := c03Rng(6, i)
		f := c03File{Recs: []c03Rec{c03TokenRec(rng, k.place, k.pos, k.n)}, FinalNL: true}
		c03SetMode(&f, k.mode)
		return c03Eval(fmt.Sprintf("unbreakable-token place=%s position=%s length=%d source=%s", k.place, c03TokenPositions[k.pos], k.n, c03ModeNames[k.mode]), &f, "")
	})
	// joins with complemented operands: a complemented node below the top level
	type opc struct {
		arity, pattern, n, nq, mode int
		outer                       bool
	}
	var opcs []opc
	for arity := 2; arity <= 4; arity++ {
		for pattern := range c03OpComplPatterns {
			for _, outer := range []bool{false, true} {
				for _, n := range []int{12, 345} {
					for mode := 0; mode < 3; mode++ {
						opcs = append(opcs, opc{arity, pattern, n, 1 + len(opcs)%2, mode, outer})
					}
				}
			}
		}
	}
	c03Parallel(len(opcs), runs, func(i int) []c03Out {
		o := opcs[i]
		rng := c03Rng(7, i)
		r := c03ShapeRec(rng, o.n, 2, o.nq, c03VPlain, 1)
		for fi := range r.Feats {
			ft := &r.Feats[fi]
			ft.Ranges, ft.Join, ft.Compl, ft.Partial, ft.Single, ft.BreakAfter = nil, true, o.outer, 0, false, nil
			for k := 0; k < o.arity; k++ {
				ft.Ranges = append(ft.Ranges, c03RandRange(rng, o.n))
			}
			ft.OpCompl = c03OpComplPattern(o.pattern, o.arity)
			c03FitBreaks(ft)
		}
		f := c03File{Recs: []c03Rec{r}, FinalNL: true}
		c03SetMode(&f, o.mode)
		return c03Eval(fmt.Sprintf("complemented-operands=%s join-arity=%d inside-complement=%v len=%d qualifiers=%d source=%s", c03OpComplPatterns[o.pattern], o.arity, o.outer, o.n, o.nq, c03ModeNames[o.mode]), &f, "")
	})
	// references given with any subset of their fields
	type refsub struct {
		mask, place, mode int
	}
	var refsubs []refsub
	for mask := 0; mask < 1<<len(c03RefFields); mask++ {
		for place := range c03RefPlaces {
			for mode := 0; mode < 3; mode++ {
				refsubs = append(refsubs, refsub{mask, place, mode})
			}
		}
	}
	c03Parallel(len(refsubs), runs, func(i int) []c03Out {
		x := refsubs[i]
		rng := c03Rng(10, i)
		r := c03ShapeRec(rng, 345, 1, 1, c03VPlain, 1)
		r.Pubmed3 = i%2 == 1
		switch x.place {
		case 0:
			r.Refs = []c03Ref{c03RefSubset(rng, x.mask)}
		case 1:
			r.Refs = []c03Ref{c03RefSubset(rng, x.mask), c03RefSubset(rng, 31)}
		default:
			r.Refs = []c03Ref{c03RefSubset(rng, 31), c03RefSubset(rng, x.mask)}
		}
		if i%4 >= 2 {
			r.Others = []c03KV{{"COMMENT", []string{c03Text(rng, c03MetaAlpha, 40)}, false}}
		}
		f := c03File{Recs: []c03Rec{r}, FinalNL: true}
		c03SetMode(&f, x.mode)
		return c03Eval(fmt.Sprintf("reference-fields=%s place=%s comment=%v source=%s", c03RefMaskName(x.mask), c03RefPlaces[x.place], i%4 >= 2, c03ModeNames[x.mode]), &f, "")
	})
	// partial markers on complemented spans, on operands of joins and inside complement(join())
	type partial struct {
		shape, n, nq, mode int
	}
	var partials []partial
	for shape := range c03PartialShapes {
		for _, n := range []int{12, 345} {
			for mode := 0; mode < 3; mode++ {
				partials = append(partials, partial{shape, n, 1 + len(partials)%2, mode})
			}
		}
	}
	c03Parallel(len(partials), runs, func(i int) []c03Out {
		x := partials[i]
		rng := c03Rng(11, i)
		r := c03ShapeRec(rng, x.n, 2, x.nq, c03VPlain, 1)
		for fi := range r.Feats {
			c03SetPartialShape(rng, &r.Feats[fi], &c03PartialShapes[x.shape], x.n)
		}
		f := c03File{Recs: []c03Rec{r}, FinalNL: true}
		c03SetMode(&f, x.mode)
		return c03Eval(fmt.Sprintf("partial-location=%s len=%d qualifiers=%d source=%s", c03PartialShapes[x.shape].name, x.n, x.nq, c03ModeNames[x.mode]), &f, "")
	})
	// duplicate features: the same annotation two or three times in one record
	type dupcase struct {
		copies, nq, placement, n, mode int
		direct                         bool
	}
	var dupcases []dupcase
	for copies := 2; copies <= 3; copies++ {
		for nq := 0; nq <= 2; nq++ {
			for placement := range c03DupPlacements {
				for _, n := range []int{12, 345} {
					for mode := 0; mode < 3; mode++ {
						dupcases = append(dupcases, dupcase{copies, nq, placement, n, mode, false})
						if mode != c03ModeImage {
							dupcases = append(dupcases, dupcase{copies, nq, placement, n, mode, true})
						}
					}
				}
			}
		}
	}
	c03Parallel(len(dupcases), runs, func(i int) []c03Out {
		x := dupcases[i]
		rng := c03Rng(12, i)
		r := c03DupRec(rng, x.n, x.nq, x.copies, x.placement)
		r.Direct = x.direct
		f := c03File{Recs: []c03Rec{r}, FinalNL: true}
		c03SetMode(&f, x.mode)
		how := "AddFeature"
		if x.direct {
			how = "append"
		}
		if x.mode == c03ModeImage {
			how = "Parse"
		}
		return c03Eval(fmt.Sprintf("duplicate-feature copies=%d qualifiers=%d placement=%s len=%d source=%s assembled-by=%s", x.copies, x.nq, c03DupPlacements[x.placement], x.n, c03ModeNames[x.mode], how), &f, "")
	})
	c03Parallel(nDupRand, runs, func(i int) []c03Out {
		rng := c03Rng(13, i)
		mode := i % 3
		p := prof
		p.MaxLen = 9999
		p.AllowNoTopo = mode != c03ModeImage
		r := c03RandRec(rng, p)
		c03InjectDups(c03Rng(14, i), &r)
		r.Direct = mode != c03ModeImage && (i/3)%2 == 1
		f := c03File{Recs: []c03Rec{r}, FinalNL: true}
		c03SetMode(&f, mode)
		return c03Eval(fmt.Sprintf("random-with-duplicate-features#%d source=%s assembled-by-append=%v", i, c03ModeNames[mode], r.Direct), &f, "")
	})
	c03Parallel(nRand, runs, func(i int) []c03Out {
		rng := c03Rng(3, i)
		mode := i % 3
		p := prof
		p.AllowNoTopo = mode != c03ModeImage
		p.EmptyTexts = mode != c03ModeImage
		p.EmptyLocus = mode != c03ModeImage
		f := c03File{Recs: []c03Rec{c03RandRec(rng, p)}, FinalNL: true}
		if i%2 == 1 {
			// every other random record: each join gets, with probability 1/2, a
			// random non-empty set of complemented operands (drawn from a stream of
			// its own, so the records themselves are the ones they were)
			orng := c03Rng(8, i)
			for fi := range f.Recs[0].Feats {
				ft := &f.Recs[0].Feats[fi]
				if !ft.Join || orng.Intn(2) == 0 {
					continue
				}
				ft.OpCompl = make([]bool, len(ft.Ranges))
				for k := range ft.OpCompl {
					ft.OpCompl[k] = orng.Intn(2) == 0
				}
				ft.OpCompl[orng.Intn(len(ft.OpCompl))] = true
				c03FitBreaks(ft)
			}
		}
		if (i/3)%2 == 1 {
			// every other triple of random records (so all three sources, with and
			// without the complemented operands above), from a stream of its own:
			// each reference loses each of AUTHORS, TITLE, JOURNAL, PUBMED with
			// probability 1/4; each single span that is not a single base gets,
			// with probability 1/2, markers drawn from {<, >, <>}, each join with
			// probability 1/2 markers on a random non-empty set of its operands
			prng := c03Rng(9, i)
			for ri := range f.Recs[0].Refs {
				x := &f.Recs[0].Refs[ri]
				if prng.Intn(4) == 0 {
					x.Authors = nil
				}
				if prng.Intn(4) == 0 {
					x.Title = nil
				}
				if prng.Intn(4) == 0 {
					x.Journal = nil
				}
				if prng.Intn(4) == 0 {
					x.PubMed = ""
				}
			}
			for fi := range f.Recs[0].Feats {
				ft := &f.Recs[0].Feats[fi]
				if ft.Single || prng.Intn(2) == 0 {
					continue
				}
				if !ft.Join {
					ft.Partial = 1 + prng.Intn(3)
					continue
				}
				ft.OpPartial = make([]int, len(ft.Ranges))
				for k := range ft.OpPartial {
					if prng.Intn(3) == 0 {
						ft.OpPartial[k] = 1 + prng.Intn(3)
					}
				}
				ft.OpPartial[prng.Intn(len(ft.OpPartial))] = 1 + prng.Intn(3)
				c03FitBreaks(ft)
			}
		}
		c03SetMode(&f, mode)
		via := ""
		if i%50 == 7 {
			via = filepath.Join(tmp, "r"+strconv.Itoa(i)+".gbk")
		}
		return c03Eval(fmt.Sprintf("random#%d source=%s", i, c03ModeNames[mode]), &f, via)
	})
	for _, v := range runs {
		v.Done()
	}
}
