package uniprot

// Bounded back end for C20: Uniprot XML streaming.
//
// Clauses executed on the real Parse / Read:
//
//   io/uniprot.Parse/post/entries         a well-formed document with k entries:
//                                         exactly those k entries in order
//                                         (accessions, names, sequence text),
//                                         then both channels closed
//   io/uniprot.Parse/post/damaged-prefix  malformed or truncated stream: the
//                                         entries that precede the damage are
//                                         delivered, at least one error is
//                                         reported, both channels are closed
//   io/uniprot.Parse/terminates           the consumer is never left blocked
//                                         (every case of the other clauses)
//   io/uniprot.Read/post/gzip             the first clause through Read on a
//                                         gzip temp file, single-member and
//                                         multi-member
//
// Among the well-formed documents are documents whose entries carry the
// annotation of the real schema (c20Annot): evidence attributes holding
// xs:list values in every white-space form, mass spectrometry comments with
// xs:float masses, interaction, alternative products, biophysicochemical and
// further comment kinds, positions with a status, citations, precursor and
// fragment attributes (part 8 of TestVerifC20; one class per kind).
//
// ENUMERATED attribute values (part 9, c20Enums). uniprot.xsd restricts many
// attributes to an enumeration: the dataset of an entry (Swiss-Prot, TrEMBL),
// the type of a proteinExistence, gene name, organism name, geneLocation,
// citation, comment, conflict, event, isoform sequence and feature element,
// the resource of a conflict sequence, the direction of a physiological
// reaction, the status of a position, the fragment attribute of the sequence;
// precursor and organismsDiffer are xs:boolean (true, false, 1, 0). A document
// is well formed and valid whichever of these values its entries carry, so
// every entry must be delivered with its accessions, names and sequence text.
// The part goes through EVERY value of every one of these enumerations (and
// through the evidence codes and reference scopes UniProt writes, which the
// schema leaves open), one document per value with one entry carrying it, plus
// documents in which every entry is a TrEMBL one, and documents in which the
// datasets alternate and every entry carries a value drawn at random.
//
// WHITE SPACE in the sequence text (part 10). The property demands "the
// sequence text of each" entry: the character data of the entry's <sequence>
// element as the document has it. Older UniProt dumps and any pretty-printing
// writer put the residues on lines of their own, in blocks of ten, indented:
// the character data then begins and/or ends with white space (blank, tab,
// newline, CR LF, newline plus indentation) and has white space between the
// residues. The part lays such sequence elements out (c20SeqEdges x
// c20SeqWraps x c20SeqEdges; one entry among k, or every entry) and demands the
// text exactly as an independent read of the finished document with the
// standard tokenizer (c20DocSeqTexts: encoding/xml Decoder.Token, character
// data directly inside the entry's own sequence element) reports it: white
// space kept where it is, CR LF handed on as LF as XML 1.0 section 2.11
// prescribes, nothing trimmed, collapsed or joined. For these entries the
// expectation is taken from that read, not from the generator (c20Ent.seqRaw);
// the generator's own model of the text is only cross-checked against it.
// Classes sequence-text-with-edge-whitespace, sequence-text-with-inner-whitespace,
// sequence-whitespace-mixed.
//
// Every call of Parse/Read happens in a child process (this test binary
// re-executed with -test.run=^TestVerifC20Child$) under an address-space limit
// and a per-case deadline, because a parser that spins or blocks cannot be
// stopped from inside its own process. The child only observes (what arrived
// on which channel, what was closed); the parent holds the oracle: the
// description (c20Ent) every document was generated from and the byte offsets
// of its entry elements.

import (
	"bufio"
	"bytes"
	"compress/gzip"
	"encoding/json"
	"encoding/xml"
	"fmt"
	"io"
	"io/ioutil"
	"math/rand"
	"os"
	"os/exec"
	"path/filepath"
	"reflect"
	"sort"
	"strconv"
	"strings"
	"sync"
	"syscall"
	"testing"
	"time"
)

// ---------------------------------------------------------------- documents

type c20Ent struct {
	Acc  []string
	Name []string
	Seq  string
	num  *c20Num   // numbers to lay out in the rich form instead of the drawn ones (nil: draw)
	ann  *c20Annot // further child elements to lay out in the rich form (nil: none)
	// seqRaw, if not empty, is what the layout writes between <sequence ...> and
	// </sequence> instead of Seq: residues with white space before, after and
	// between them (part 10). Seq then is NOT given by the generator but read
	// back from the finished document with the standard tokenizer
	// (c20DocSeqTexts), and seqRes is the number of residue letters (the length
	// attribute of the rich layout).
	seqRaw string
	seqRes int
}

// c20Num gives numeric attributes of one entry in the rich layout. A zero
// field keeps what the layout does by itself.
type c20Num struct {
	Version     int // <entry version="...">
	SeqVersion  int // <sequence version="...">
	FeatureEnd  int // adds a chain feature 1..FeatureEnd and a single-position feature at FeatureEnd
	EvidenceKey int // adds <evidence key="..."> and refers to it from the features
	// xsd:date attributes (YYYY-MM-DD); "" keeps the layout's own date
	Created, Modified, SeqModified string
}

type c20Doc struct {
	text         []byte
	ents         []c20Ent
	start, end   []int // byte offsets of '<' of <entry and just after '>' of </entry>
	rootStartEnd int   // just after '>' of the root start tag
	rootEndStart int   // offset of '<' of </uniprot>
	rootEndEnd   int   // just after '>' of </uniprot>
}

const c20Amino = "ACDEFGHIKLMNPQRSTVWY"
const c20AlNum = "ABCDEFGHIJKLMNOPQRSTUVWXYZ0123456789"

func c20Word(rng *rand.Rand, alpha string, min, max int) string {
	n := min + rng.Intn(max-min+1)
	b := make([]byte, n)
	for i := range b {
		b[i] = alpha[rng.Intn(len(alpha))]
	}
	return string(b)
}

func c20NewEnt(rng *rand.Rand, maxSeq int) c20Ent {
	e := c20Ent{}
	for i, n := 0, 1+rng.Intn(3); i < n; i++ {
		e.Acc = append(e.Acc, c20Word(rng, "OPQ", 1, 1)+c20Word(rng, c20AlNum, 5, 5))
	}
	for i, n := 0, 1+rng.Intn(5)/4; i < n; i++ {
		e.Name = append(e.Name, c20Word(rng, c20AlNum, 2, 5)+"_"+c20Word(rng, c20AlNum[:26], 3, 5))
	}
	e.Seq = c20Word(rng, c20Amino, 1, maxSeq)
	return e
}

// c20Build lays out a Uniprot XML document. rich adds the prolog, attributes
// and further child elements of the real dump (among them nested <name>
// elements that are not the entry's own name).
func c20Build(rng *rand.Rand, ents []c20Ent, rich bool) c20Doc {
	var b bytes.Buffer
	d := c20Doc{ents: ents}
	nl := ""
	if rich {
		nl = "\n"
		b.WriteString("<?xml version=\"1.0\" encoding=\"UTF-8\"?>\n")
		b.WriteString("<uniprot xmlns=\"http://uniprot.org/uniprot\"\n xmlns:xsi=\"http://www.w3.org/2001/XMLSchema-instance\"\n xsi:schemaLocation=\"http://uniprot.org/uniprot http://www.uniprot.org/docs/uniprot.xsd\">")
	} else {
		b.WriteString("<uniprot xmlns=\"http://uniprot.org/uniprot\">")
	}
	d.rootStartEnd = b.Len()
	b.WriteString(nl)
	for _, e := range ents {
		d.start = append(d.start, b.Len())
		if rich {
			version := 1 + rng.Intn(200)
			if e.num != nil && e.num.Version != 0 {
				version = e.num.Version
			}
			created, modified := "2009-05-05", "2020-08-12"
			if e.num != nil && e.num.Created != "" {
				created = e.num.Created
			}
			if e.num != nil && e.num.Modified != "" {
				modified = e.num.Modified
			}
			dataset := "Swiss-Prot"
			if e.ann != nil && e.ann.dataset != "" {
				dataset = e.ann.dataset
			}
			b.WriteString("<entry dataset=\"" + dataset + "\" created=\"" + created + "\" modified=\"" + modified + "\" version=\"" + strconv.Itoa(version) + "\"")
			if rng.Intn(2) == 0 {
				b.WriteString(" xmlns=\"http://uniprot.org/uniprot\"")
			}
			b.WriteString(">\n")
		} else {
			b.WriteString("<entry>")
		}
		ind := ""
		if rich {
			ind = "  "
		}
		for _, a := range e.Acc {
			b.WriteString(ind + "<accession>" + a + "</accession>" + nl)
		}
		for _, n := range e.Name {
			b.WriteString(ind + "<name>" + n + "</name>" + nl)
		}
		if rich {
			if rng.Intn(2) == 0 {
				b.WriteString("  <protein>\n    <recommendedName>\n      <fullName>Protein " + c20Word(rng, c20AlNum, 3, 8) + " &amp; &lt;" + c20Word(rng, c20AlNum, 1, 4) + "&gt;</fullName>\n    </recommendedName>\n  </protein>\n")
			}
			if rng.Intn(2) == 0 {
				b.WriteString("  <gene>\n    <name type=\"primary\">" + c20Word(rng, c20AlNum, 3, 6) + "</name>\n  </gene>\n")
			}
			if e.ann != nil {
				b.WriteString(e.ann.early)
			}
			if e.ann != nil && e.ann.organism != "" {
				b.WriteString(e.ann.organism)
			} else if rng.Intn(2) == 0 {
				b.WriteString("  <organism>\n    <name type=\"scientific\">" + c20Word(rng, c20AlNum[:26], 4, 9) + " virus</name>\n    <dbReference type=\"NCBI Taxonomy\" id=\"" + strconv.Itoa(rng.Intn(99999)) + "\"/>\n  </organism>\n")
			}
			if e.ann != nil {
				b.WriteString(e.ann.pre)
			}
			if rng.Intn(3) == 0 {
				b.WriteString("  <!-- a comment -->\n  <keyword id=\"KW-1185\">Reference proteome</keyword>\n")
			}
			seqVersion, seqModified := 1, "2009-05-05"
			if e.num != nil && e.num.SeqModified != "" {
				seqModified = e.num.SeqModified
			}
			if e.num != nil {
				ev := ""
				if e.num.EvidenceKey != 0 {
					ev = " evidence=\"" + strconv.Itoa(e.num.EvidenceKey) + "\""
				}
				if e.num.FeatureEnd != 0 {
					b.WriteString("  <feature type=\"chain\" description=\"Protein " + c20Word(rng, c20AlNum, 3, 8) + "\" id=\"PRO_" + c20Word(rng, "0123456789", 10, 10) + "\"" + ev + ">\n    <location>\n      <begin position=\"1\"/>\n      <end position=\"" + strconv.Itoa(e.num.FeatureEnd) + "\"/>\n    </location>\n  </feature>\n")
					b.WriteString("  <feature type=\"modified residue\" description=\"Phosphoserine\"" + ev + ">\n    <location>\n      <position position=\"" + strconv.Itoa(e.num.FeatureEnd) + "\"/>\n    </location>\n  </feature>\n")
				}
				if e.num.EvidenceKey != 0 {
					b.WriteString("  <evidence type=\"ECO:0000269\" key=\"" + strconv.Itoa(e.num.EvidenceKey) + "\">\n    <source>\n      <dbReference type=\"PubMed\" id=\"" + c20Word(rng, "123456789", 8, 8) + "\"/>\n    </source>\n  </evidence>\n")
				}
				if e.num.SeqVersion != 0 {
					seqVersion = e.num.SeqVersion
				}
			}
			seqAttrs := ""
			if e.ann != nil {
				b.WriteString(e.ann.post)
				seqAttrs = e.ann.seqAttrs
			}
			seqText, seqLen := e.Seq, len(e.Seq)
			if e.seqRaw != "" {
				seqText, seqLen = e.seqRaw, e.seqRes
			}
			b.WriteString("  <sequence length=\"" + strconv.Itoa(seqLen) + "\" mass=\"" + strconv.Itoa(110*seqLen) + "\" checksum=\"" + c20Word(rng, "0123456789ABCDEF", 16, 16) + "\" modified=\"" + seqModified + "\" version=\"" + strconv.Itoa(seqVersion) + "\"" + seqAttrs + ">" + seqText + "</sequence>\n")
		} else if e.seqRaw != "" {
			b.WriteString("<sequence>" + e.seqRaw + "</sequence>")
		} else {
			b.WriteString("<sequence>" + e.Seq + "</sequence>")
		}
		b.WriteString("</entry>")
		d.end = append(d.end, b.Len())
		b.WriteString(nl)
	}
	if rich && rng.Intn(2) == 0 {
		b.WriteString("<copyright>\nCopyrighted by the UniProt Consortium\n</copyright>\n")
	}
	d.rootEndStart = b.Len()
	b.WriteString("</uniprot>")
	d.rootEndEnd = b.Len()
	b.WriteString("\n")
	d.text = b.Bytes()
	return d
}

// ------------------------------------------- annotations of the real schema

// c20Annot holds further child elements of one entry in the rich layout, laid
// out the way the distributed dump has them (uniprot.xsd order: ... organism,
// reference, comment, dbReference, proteinExistence, keyword, feature,
// evidence, sequence).
type c20Annot struct {
	pre      string // reference, comment, dbReference, proteinExistence elements
	post     string // keyword, feature, evidence elements
	seqAttrs string // further attributes of the entry's sequence element
	dataset  string // value of the entry's dataset attribute ("": Swiss-Prot)
	early    string // gene elements (they come before the organism)
	organism string // the organism element ("": as the layout draws it)
}

// c20ListForms: lexical forms of an xs:list of integers (the evidence
// attribute). XML Schema Part 2, 2.5.1.2 and 4.3.6: the items of a list are
// separated by white space and the whiteSpace facet of a list is "collapse",
// so any run of blank, tab and newline separates two items and white space at
// either end is not part of the value.
var c20ListForms = []struct{ shape, what, lead, sep, trail string }{
	{"evidence-list-several-items", "items separated by single blanks", "", " ", ""},
	{"evidence-list-irregular-whitespace", "items separated by two blanks", "", "  ", ""},
	{"evidence-list-irregular-whitespace", "items separated by a tab", "", "\t", ""},
	{"evidence-list-irregular-whitespace", "items separated by a newline", "", "\n", ""},
	{"evidence-list-irregular-whitespace", "items separated by a newline and six blanks (a wrapped attribute value)", "", "\n      ", ""},
	{"evidence-list-irregular-whitespace", "single blanks between the items and a blank before the first", " ", " ", ""},
	{"evidence-list-irregular-whitespace", "single blanks between the items and a blank after the last", "", " ", " "},
	{"evidence-list-irregular-whitespace", "tabs between the items, a blank before the first and two after the last", " ", "\t", "  "},
}

var c20ListPlaces = []string{"keyword", "feature", "text of a comment", "dbReference", "strain of a reference source", "begin position of a feature"}

func c20EvidenceElements(rng *rand.Rand, keys []int) string {
	var b strings.Builder
	for _, k := range keys {
		switch k % 3 {
		case 0:
			fmt.Fprintf(&b, "  <evidence type=\"ECO:0000269\" key=\"%d\">\n    <source>\n      <dbReference type=\"PubMed\" id=\"%s\"/>\n    </source>\n  </evidence>\n", k, c20Word(rng, "123456789", 8, 8))
		case 1:
			fmt.Fprintf(&b, "  <evidence type=\"ECO:0000250\" key=\"%d\">\n    <source>\n      <dbReference type=\"UniProtKB\" id=\"P%s\"/>\n    </source>\n  </evidence>\n", k, c20Word(rng, "0123456789", 5, 5))
		default:
			fmt.Fprintf(&b, "  <evidence type=\"ECO:0000312\" key=\"%d\">\n    <source>\n      <dbReference type=\"EMBL\" id=\"AAS%s.1\"/>\n    </source>\n    <importedFrom>\n      <dbReference type=\"EMBL\" id=\"AAS%s.1\"/>\n    </importedFrom>\n  </evidence>\n", k, c20Word(rng, "0123456789", 5, 5), c20Word(rng, "0123456789", 5, 5))
		}
	}
	return b.String()
}

// c20EvidenceList gives an entry whose evidence attribute at the given place
// holds 2..4 keys in the given lexical form.
func c20EvidenceList(rng *rand.Rand, form, place, seqLen int) (shape, what string, a c20Annot) {
	f := c20ListForms[form]
	var keys []int
	var items []string
	for k, n := 1+rng.Intn(5), 2+rng.Intn(3); len(keys) < n; k += 1 + rng.Intn(9) {
		keys = append(keys, k)
		items = append(items, strconv.Itoa(k))
	}
	list := f.lead + strings.Join(items, f.sep) + f.trail
	at := " evidence=\"" + list + "\""
	switch place {
	case 0:
		a.post = "  <keyword id=\"KW-0244\"" + at + ">Early protein</keyword>\n"
	case 1:
		a.post = "  <feature type=\"chain\" id=\"PRO_" + c20Word(rng, "0123456789", 10, 10) + "\" description=\"Protein " + c20Word(rng, c20AlNum, 3, 8) + "\"" + at + ">\n    <location>\n      <begin position=\"1\"/>\n      <end position=\"" + strconv.Itoa(seqLen) + "\"/>\n    </location>\n  </feature>\n"
	case 2:
		a.pre = "  <comment type=\"function\">\n    <text" + at + ">Plays a role in " + c20Word(rng, c20AlNum[:26], 4, 9) + " binding.</text>\n  </comment>\n"
	case 3:
		a.pre = "  <dbReference type=\"GO\" id=\"GO:00" + c20Word(rng, "0123456789", 5, 5) + "\"" + at + ">\n    <property type=\"term\" value=\"C:host cell nucleus\"/>\n    <property type=\"evidence\" value=\"ECO:0000501\"/>\n  </dbReference>\n"
	case 4:
		a.pre = "  <reference key=\"1\">\n    <citation type=\"journal article\" date=\"2004\" name=\"Virology\" volume=\"319\" first=\"337\" last=\"342\">\n      <title>Analysis of " + c20Word(rng, c20AlNum[:26], 4, 9) + ".</title>\n      <authorList>\n        <person name=\"Chapman D.A.\"/>\n      </authorList>\n      <dbReference type=\"PubMed\" id=\"14980493\"/>\n    </citation>\n    <scope>NUCLEOTIDE SEQUENCE [LARGE SCALE GENOMIC DNA]</scope>\n    <source>\n      <strain" + at + ">Isolate " + c20Word(rng, c20AlNum, 2, 6) + "</strain>\n    </source>\n  </reference>\n"
	default:
		a.post = "  <feature type=\"signal peptide\">\n    <location>\n      <begin position=\"1\"" + at + "/>\n      <end position=\"" + strconv.Itoa(seqLen) + "\" status=\"uncertain\"/>\n    </location>\n  </feature>\n"
	}
	a.post += c20EvidenceElements(rng, keys)
	return f.shape, fmt.Sprintf("evidence=%s (an xs:list of %d integers, %s) on the %s", strconv.Quote(list), len(keys), f.what, c20ListPlaces[place]), a
}

// c20Masses: the mass attribute of a mass spectrometry comment is an xs:float.
var c20Masses = []struct{ shape, mass, errAttr, method string }{
	{"mass-with-fraction", "5766.4", "", "MALDI"},
	{"mass-with-fraction", "9571.1", "0.5", "Electrospray"},
	{"mass-with-fraction", "66463.04", "1.1", "MALDI"},
	{"mass-with-fraction", "1882.05", "0.02", "FAB"},
	{"mass-with-fraction", "3816030.5", "100", "Electrospray"},
	{"mass-with-fraction", "14913.0", "", "Unknown"},
	{"mass-integral", "14913", "2", "MALDI"},
	{"mass-integral", "3906488", "", "Electrospray"},
	{"mass-in-exponent-notation", "1.2E4", "", "SELDI"},
}

func c20MassComment(rng *rand.Rand, v, seqLen int) (shape, what string, a c20Annot) {
	m := c20Masses[v]
	attrs := " mass=\"" + m.mass + "\" method=\"" + m.method + "\""
	if m.errAttr != "" {
		attrs += " error=\"" + m.errAttr + "\""
	}
	key := 1 + rng.Intn(9)
	a.pre = "  <comment type=\"mass spectrometry\"" + attrs + " evidence=\"" + strconv.Itoa(key) + "\">\n    <location>\n      <begin position=\"1\"/>\n      <end position=\"" + strconv.Itoa(seqLen) + "\"/>\n    </location>\n"
	if v%2 == 1 {
		a.pre += "    <text>The measured mass is that of the mature chain.</text>\n"
	}
	a.pre += "  </comment>\n"
	a.post = c20EvidenceElements(rng, []int{key})
	return m.shape, "<comment type=\"mass spectrometry\"" + attrs + " ...> with a location", a
}

// c20AnnKinds: the other comment kinds and typed attributes of the schema.
var c20AnnKinds = []struct {
	shape    string
	variants int
	gen      func(rng *rand.Rand, v, seqLen int) (string, c20Annot)
}{
	{"interaction-comment", 5, func(rng *rand.Rand, v, seqLen int) (string, c20Annot) {
		n := []int{2, 3, 17, 128, 300}[v]
		differ := []string{"false", "true"}[v%2]
		id := "Q" + c20Word(rng, c20AlNum, 5, 5)
		return fmt.Sprintf("<comment type=\"interaction\"> with <organismsDiffer>%s</organismsDiffer> and <experiments>%d</experiments>", differ, n), c20Annot{pre: "  <comment type=\"interaction\">\n    <interactant intactId=\"EBI-" + c20Word(rng, "123456789", 5, 7) + "\"/>\n    <interactant intactId=\"EBI-" + c20Word(rng, "123456789", 5, 7) + "\">\n      <id>" + id + "</id>\n      <label>" + c20Word(rng, c20AlNum[:26], 3, 6) + "</label>\n    </interactant>\n    <organismsDiffer>" + differ + "</organismsDiffer>\n    <experiments>" + strconv.Itoa(n) + "</experiments>\n  </comment>\n"}
	}},
	{"alternative-products-comment", 2, func(rng *rand.Rand, v, seqLen int) (string, c20Annot) {
		acc := "P" + c20Word(rng, "0123456789", 5, 5)
		ev := ""
		if v == 1 {
			ev = " evidence=\"1\""
		}
		return "<comment type=\"alternative products\"> with two isoforms, each with <id>, <name> and an empty <sequence type=.../> element of its own", c20Annot{pre: "  <comment type=\"alternative products\">\n    <event type=\"alternative splicing\"/>\n    <isoform>\n      <id>" + acc + "-1</id>\n      <name>1</name>\n      <sequence type=\"displayed\"/>\n    </isoform>\n    <isoform>\n      <id>" + acc + "-2</id>\n      <name" + ev + ">Short</name>\n      <sequence type=\"described\" ref=\"VSP_0" + c20Word(rng, "0123456789", 5, 5) + "\"/>\n      <text>Lacks exon 3.</text>\n    </isoform>\n  </comment>\n",
			post: map[bool]string{true: c20EvidenceElements(rng, []int{1})}[v == 1]}
	}},
	{"biophysicochemical-comment", 2, func(rng *rand.Rand, v, seqLen int) (string, c20Annot) {
		s := "  <comment type=\"biophysicochemical properties\">\n    <absorption>\n      <max evidence=\"2\">" + strconv.Itoa(250+rng.Intn(300)) + " nm</max>\n      <text>Shoulder at 335 nm.</text>\n    </absorption>\n    <kinetics>\n      <KM evidence=\"2\">1.5 mM for ATP</KM>\n      <KM>0.03 uM for NADH (at pH 7.5 and 37.5 degrees Celsius)</KM>\n      <Vmax evidence=\"2\">12.7 umol/min/mg enzyme</Vmax>\n      <text>kcat is 1.2E3 sec(-1).</text>\n    </kinetics>\n"
		if v == 1 {
			s += "    <phDependence>\n      <text>Optimum pH is 7.5-8.2.</text>\n    </phDependence>\n    <redoxPotential>\n      <text>E(0) is -448 mV.</text>\n    </redoxPotential>\n    <temperatureDependence>\n      <text evidence=\"2\">Optimum temperature is 37.5 degrees Celsius.</text>\n    </temperatureDependence>\n"
		}
		return "<comment type=\"biophysicochemical properties\"> with absorption, kinetics (KM, Vmax)" + map[bool]string{true: ", pH dependence, redox potential and temperature dependence"}[v == 1], c20Annot{pre: s + "  </comment>\n", post: c20EvidenceElements(rng, []int{2})}
	}},
	{"catalytic-activity-and-cofactor-comments", 2, func(rng *rand.Rand, v, seqLen int) (string, c20Annot) {
		s := "  <comment type=\"catalytic activity\">\n    <reaction evidence=\"3\">\n      <text>ATP + H2O = ADP + phosphate + H(+)</text>\n      <dbReference type=\"Rhea\" id=\"RHEA:13065\"/>\n      <dbReference type=\"EC\" id=\"3.6.4.13\"/>\n    </reaction>\n    <physiologicalReaction direction=\"left-to-right\" evidence=\"3\">\n      <dbReference type=\"Rhea\" id=\"RHEA:13066\"/>\n    </physiologicalReaction>\n  </comment>\n"
		if v == 1 {
			s += "  <comment type=\"cofactor\">\n    <cofactor evidence=\"3\">\n      <name>Mg(2+)</name>\n      <dbReference type=\"ChEBI\" id=\"CHEBI:18420\"/>\n    </cofactor>\n    <text>Binds 2 magnesium ions per subunit.</text>\n  </comment>\n"
		}
		return "<comment type=\"catalytic activity\"> with reaction and physiologicalReaction" + map[bool]string{true: " and <comment type=\"cofactor\"> with a nested <name>"}[v == 1], c20Annot{pre: s, post: c20EvidenceElements(rng, []int{3})}
	}},
	{"subcellular-location-and-disease-comments", 2, func(rng *rand.Rand, v, seqLen int) (string, c20Annot) {
		s := "  <comment type=\"subcellular location\">\n    <molecule>Isoform 1</molecule>\n    <subcellularLocation>\n      <location evidence=\"1\">Host cell membrane</location>\n      <topology evidence=\"1\">Single-pass type I membrane protein</topology>\n      <orientation>Cytoplasmic side</orientation>\n    </subcellularLocation>\n    <text>Found in " + c20Word(rng, c20AlNum[:26], 4, 9) + " bodies.</text>\n  </comment>\n"
		if v == 1 {
			s += "  <comment type=\"disease\">\n    <disease id=\"DI-0" + c20Word(rng, "0123456789", 4, 4) + "\">\n      <name>" + c20Word(rng, c20AlNum[:26], 4, 9) + " syndrome 2</name>\n      <acronym>" + c20Word(rng, c20AlNum[:26], 3, 4) + "2</acronym>\n      <description>A disorder characterized by &lt; 5% activity.</description>\n      <dbReference type=\"MIM\" id=\"" + c20Word(rng, "123456789", 6, 6) + "\"/>\n    </disease>\n    <text>The disease is caused by variants affecting the gene represented in this entry.</text>\n  </comment>\n  <comment type=\"online information\" name=\"Wikipedia\">\n    <link uri=\"https://en.wikipedia.org/wiki/Protein\"/>\n  </comment>\n"
		}
		return "<comment type=\"subcellular location\">" + map[bool]string{true: ", <comment type=\"disease\"> with a nested <name>, <comment type=\"online information\">"}[v == 1], c20Annot{pre: s, post: c20EvidenceElements(rng, []int{1})}
	}},
	{"sequence-caution-comment", 3, func(rng *rand.Rand, v, seqLen int) (string, c20Annot) {
		ver := []int{1, 2, 12}[v]
		typ := []string{"erroneous initiation", "frameshift", "erroneous gene model prediction"}[v]
		return fmt.Sprintf("<comment type=\"sequence caution\"> with <conflict type=%q> holding an empty <sequence resource=\"EMBL-CDS\" ... version=\"%d\"/> element", typ, ver), c20Annot{pre: "  <comment type=\"sequence caution\" evidence=\"4\">\n    <conflict type=\"" + typ + "\">\n      <sequence resource=\"EMBL-CDS\" id=\"AAB" + c20Word(rng, "0123456789", 5, 5) + "\" version=\"" + strconv.Itoa(ver) + "\"/>\n    </conflict>\n    <text>Extended N-terminus.</text>\n  </comment>\n", post: c20EvidenceElements(rng, []int{4})}
	}},
	{"feature-position-status", 3, func(rng *rand.Rand, v, seqLen int) (string, c20Annot) {
		loc := [][2]string{
			{"<begin position=\"1\"/>", "<end position=\"" + strconv.Itoa(seqLen) + "\" status=\"uncertain\"/>"},
			{"<begin status=\"unknown\"/>", "<end position=\"" + strconv.Itoa(seqLen) + "\"/>"},
			{"<begin position=\"1\" status=\"less than\"/>", "<end position=\"" + strconv.Itoa(seqLen) + "\" status=\"greater than\"/>"},
		}[v]
		return "a feature located by " + loc[0] + " " + loc[1] + ", a non-terminal residue feature", c20Annot{post: "  <feature type=\"chain\" id=\"PRO_" + c20Word(rng, "0123456789", 10, 10) + "\" description=\"Protein " + c20Word(rng, c20AlNum, 3, 8) + "\">\n    <location>\n      " + loc[0] + "\n      " + loc[1] + "\n    </location>\n  </feature>\n  <feature type=\"non-terminal residue\">\n    <location>\n      <position position=\"" + strconv.Itoa(seqLen) + "\"/>\n    </location>\n  </feature>\n"}
	}},
	{"variant-features", 2, func(rng *rand.Rand, v, seqLen int) (string, c20Annot) {
		p := 1 + rng.Intn(seqLen)
		s := "  <feature type=\"sequence variant\" id=\"VAR_0" + c20Word(rng, "0123456789", 5, 5) + "\" description=\"in dbSNP:rs" + c20Word(rng, "123456789", 6, 9) + "\" evidence=\"5\">\n    <original>A</original>\n    <variation>T</variation>\n    <location>\n      <position position=\"" + strconv.Itoa(p) + "\"/>\n    </location>\n  </feature>\n"
		if v == 1 {
			s += "  <feature type=\"splice variant\" id=\"VSP_0" + c20Word(rng, "0123456789", 5, 5) + "\" description=\"in isoform 2\">\n    <original>MKV</original>\n    <variation>MR</variation>\n    <variation>MQ</variation>\n    <location sequence=\"P" + c20Word(rng, "0123456789", 5, 5) + "-2\">\n      <begin position=\"1\"/>\n      <end position=\"" + strconv.Itoa(p) + "\"/>\n    </location>\n  </feature>\n"
		}
		return "a sequence variant feature with <original> and <variation>" + map[bool]string{true: " and a splice variant feature located on another isoform"}[v == 1], c20Annot{post: s + c20EvidenceElements(rng, []int{5})}
	}},
	{"reference-citation", 4, func(rng *rand.Rand, v, seqLen int) (string, c20Annot) {
		date := []string{"2003", "2003-05", "2003-05-17", "1987"}[v]
		cit := "<citation type=\"journal article\" date=\"" + date + "\" name=\"J. Virol.\" volume=\"77\" first=\"4588\" last=\"4596\">\n      <title>The " + c20Word(rng, c20AlNum[:26], 4, 9) + " genome.</title>\n      <authorList>\n        <person name=\"Smith J.\"/>\n        <person name=\"M&#252;ller K.\"/>\n        <consortium name=\"The Genome Consortium\"/>\n      </authorList>\n      <dbReference type=\"PubMed\" id=\"12663765\"/>\n      <dbReference type=\"DOI\" id=\"10.1128/jvi.77.8.4588-4596.2003\"/>\n    </citation>"
		if v == 3 {
			cit = "<citation type=\"submission\" date=\"" + date + "-03\" db=\"EMBL/GenBank/DDBJ databases\">\n      <authorList>\n        <person name=\"Smith J.\"/>\n      </authorList>\n    </citation>"
		}
		return "a <reference> with a citation dated " + date + ", author list, scope and source", c20Annot{pre: "  <reference key=\"1\">\n    " + cit + "\n    <scope>NUCLEOTIDE SEQUENCE [LARGE SCALE GENOMIC DNA]</scope>\n    <scope>PROTEIN SEQUENCE OF 1-12</scope>\n    <source>\n      <strain>K12 / MG1655</strain>\n      <plasmid>pUC19</plasmid>\n      <tissue>Liver</tissue>\n    </source>\n  </reference>\n"}
	}},
	{"db-reference-and-protein-existence", 2, func(rng *rand.Rand, v, seqLen int) (string, c20Annot) {
		s := "  <dbReference type=\"EMBL\" id=\"AY" + c20Word(rng, "0123456789", 6, 6) + "\">\n    <property type=\"protein sequence ID\" value=\"AAS" + c20Word(rng, "0123456789", 5, 5) + ".1\"/>\n    <property type=\"molecule type\" value=\"Genomic_DNA\"/>\n  </dbReference>\n"
		if v == 1 {
			s += "  <dbReference type=\"Ensembl\" id=\"ENST00000" + c20Word(rng, "0123456789", 6, 6) + "\">\n    <molecule id=\"P" + c20Word(rng, "0123456789", 5, 5) + "-2\"/>\n    <property type=\"protein sequence ID\" value=\"ENSP00000" + c20Word(rng, "0123456789", 6, 6) + "\"/>\n  </dbReference>\n"
		}
		return "dbReference elements with properties" + map[bool]string{true: " and a molecule"}[v == 1] + ", <proteinExistence>", c20Annot{pre: s + "  <proteinExistence type=\"evidence at protein level\"/>\n"}
	}},
	{"sequence-precursor-fragment-attributes", 4, func(rng *rand.Rand, v, seqLen int) (string, c20Annot) {
		at := []string{" precursor=\"true\"", " fragment=\"single\"", " precursor=\"true\" fragment=\"multiple\"", " precursor=\"false\""}[v]
		return "<sequence ..." + at + "> on the entry's sequence element", c20Annot{seqAttrs: at}
	}},
}

// ------------------------------------------------- enumerated attribute values

// c20Enums: the attributes that uniprot.xsd restricts to an enumeration (and
// the two xs:boolean ones, and two open vocabularies: evidence codes and
// reference scopes), each with ALL its values and a layout of the element that
// carries the attribute, the way the distributed dump has it.
var c20Enums = []struct {
	shape, attr string
	schema      bool // enumerated (or boolean) in the schema; false: open vocabulary, the values UniProt writes
	values      []string
	gen         func(rng *rand.Rand, v string, seqLen int) c20Annot
}{
	{"enumerated-dataset-value", "dataset of <entry>", true, []string{"Swiss-Prot", "TrEMBL"},
		func(rng *rand.Rand, v string, n int) c20Annot { return c20Annot{dataset: v} }},
	{"enumerated-protein-existence-value", "type of <proteinExistence>", true,
		[]string{"evidence at protein level", "evidence at transcript level", "inferred from homology", "predicted", "uncertain"},
		func(rng *rand.Rand, v string, n int) c20Annot {
			return c20Annot{pre: "  <proteinExistence type=\"" + v + "\"/>\n"}
		}},
	{"enumerated-gene-name-type-value", "type of <gene><name>", true, []string{"primary", "synonym", "ordered locus", "ORF"},
		func(rng *rand.Rand, v string, n int) c20Annot {
			s := "  <gene>\n"
			if v != "primary" {
				s += "    <name type=\"primary\">" + c20Word(rng, c20AlNum, 3, 6) + "</name>\n"
			}
			return c20Annot{early: s + "    <name type=\"" + v + "\">" + c20Word(rng, c20AlNum, 3, 8) + "</name>\n  </gene>\n"}
		}},
	{"enumerated-organism-name-type-value", "type of <organism><name>", true, []string{"common", "full", "scientific", "synonym", "abbreviation"},
		func(rng *rand.Rand, v string, n int) c20Annot {
			s := "  <organism>\n"
			if v != "scientific" {
				s += "    <name type=\"scientific\">" + c20Word(rng, c20AlNum[:26], 4, 9) + " virus</name>\n"
			}
			return c20Annot{organism: s + "    <name type=\"" + v + "\">" + c20Word(rng, c20AlNum[:26], 3, 9) + "</name>\n    <dbReference type=\"NCBI Taxonomy\" id=\"" + strconv.Itoa(1+rng.Intn(99999)) + "\"/>\n    <lineage>\n      <taxon>Viruses</taxon>\n      <taxon>Varidnaviria</taxon>\n    </lineage>\n  </organism>\n"}
		}},
	{"enumerated-gene-location-type-value", "type of <geneLocation>", true,
		[]string{"apicoplast", "chloroplast", "organellar chromatophore", "cyanelle", "hydrogenosome", "mitochondrion", "non-photosynthetic plastid", "nucleomorph", "plasmid", "plastid"},
		func(rng *rand.Rand, v string, n int) c20Annot {
			if v == "plasmid" { // a plasmid is named: a nested <name> that is not the entry's
				return c20Annot{pre: "  <geneLocation type=\"plasmid\">\n    <name>p" + c20Word(rng, c20AlNum, 2, 6) + "</name>\n  </geneLocation>\n"}
			}
			return c20Annot{pre: "  <geneLocation type=\"" + v + "\"/>\n"}
		}},
	{"enumerated-citation-type-value", "type of <citation>", true,
		[]string{"book", "journal article", "online journal article", "patent", "submission", "thesis", "unpublished observations"},
		func(rng *rand.Rand, v string, n int) c20Annot {
			at, body := "", "      <authorList>\n        <person name=\"Smith J.\"/>\n      </authorList>\n"
			switch v {
			case "book":
				at, body = " date=\"1994\" name=\"The "+c20Word(rng, c20AlNum[:26], 4, 9)+" handbook\" first=\"11\" last=\"27\" publisher=\"Academic Press\" city=\"New York\"", "      <title>Chapter two.</title>\n      <editorList>\n        <person name=\"Jones A.\"/>\n      </editorList>\n"+body
			case "journal article":
				at, body = " date=\"2004\" name=\"Virology\" volume=\"319\" first=\"337\" last=\"342\"", "      <title>Analysis of "+c20Word(rng, c20AlNum[:26], 4, 9)+".</title>\n"+body+"      <dbReference type=\"PubMed\" id=\"14980493\"/>\n"
			case "online journal article":
				at, body = " date=\"1999\" name=\"Plant Gene Register\" volume=\"PGR99-004\"", "      <title>An online note.</title>\n"+body+"      <locator>https://example.org/pgr99-004</locator>\n"
			case "patent":
				at = " date=\"1990-09-20\" number=\"WO9010703\""
			case "submission":
				at = " date=\"2003-12\" db=\"EMBL/GenBank/DDBJ databases\""
			case "thesis":
				at, body = " date=\"1977\" institute=\"University of Geneva\" country=\"Switzerland\"", "      <title>A thesis.</title>\n"+body
			}
			return c20Annot{pre: "  <reference key=\"1\">\n    <citation type=\"" + v + "\"" + at + ">\n" + body + "    </citation>\n    <scope>NUCLEOTIDE SEQUENCE [GENOMIC DNA]</scope>\n  </reference>\n"}
		}},
	{"enumerated-comment-type-value", "type of <comment>", true,
		[]string{"allergen", "alternative products", "biotechnology", "biophysicochemical properties", "catalytic activity", "caution", "cofactor", "developmental stage", "disease", "domain", "disruption phenotype", "activity regulation", "function", "induction", "miscellaneous", "pathway", "pharmaceutical", "polymorphism", "PTM", "RNA editing", "similarity", "subcellular location", "sequence caution", "subunit", "tissue specificity", "toxic dose", "online information", "mass spectrometry", "interaction"},
		func(rng *rand.Rand, v string, n int) c20Annot {
			switch v {
			case "alternative products":
				return c20Annot{pre: "  <comment type=\"alternative products\">\n    <event type=\"alternative splicing\"/>\n    <isoform>\n      <id>P" + c20Word(rng, "0123456789", 5, 5) + "-1</id>\n      <name>1</name>\n      <sequence type=\"displayed\"/>\n    </isoform>\n  </comment>\n"}
			case "biophysicochemical properties":
				return c20Annot{pre: "  <comment type=\"biophysicochemical properties\">\n    <phDependence>\n      <text>Optimum pH is 7.5.</text>\n    </phDependence>\n  </comment>\n"}
			case "catalytic activity":
				return c20Annot{pre: "  <comment type=\"catalytic activity\">\n    <reaction>\n      <text>ATP + H2O = ADP + phosphate + H(+)</text>\n      <dbReference type=\"EC\" id=\"3.6.4.13\"/>\n    </reaction>\n  </comment>\n"}
			case "cofactor":
				return c20Annot{pre: "  <comment type=\"cofactor\">\n    <cofactor>\n      <name>Mg(2+)</name>\n      <dbReference type=\"ChEBI\" id=\"CHEBI:18420\"/>\n    </cofactor>\n  </comment>\n"}
			case "disease":
				return c20Annot{pre: "  <comment type=\"disease\">\n    <disease id=\"DI-0" + c20Word(rng, "0123456789", 4, 4) + "\">\n      <name>" + c20Word(rng, c20AlNum[:26], 4, 9) + " syndrome</name>\n      <acronym>" + c20Word(rng, c20AlNum[:26], 3, 4) + "</acronym>\n      <description>A disorder.</description>\n      <dbReference type=\"MIM\" id=\"" + c20Word(rng, "123456789", 6, 6) + "\"/>\n    </disease>\n  </comment>\n"}
			case "RNA editing":
				return c20Annot{pre: "  <comment type=\"RNA editing\" locationType=\"Undetermined\">\n    <location>\n      <position position=\"" + strconv.Itoa(1+rng.Intn(n)) + "\"/>\n    </location>\n    <text>Partially edited.</text>\n  </comment>\n"}
			case "subcellular location":
				return c20Annot{pre: "  <comment type=\"subcellular location\">\n    <subcellularLocation>\n      <location>Host nucleus</location>\n    </subcellularLocation>\n  </comment>\n"}
			case "sequence caution":
				return c20Annot{pre: "  <comment type=\"sequence caution\">\n    <conflict type=\"frameshift\">\n      <sequence resource=\"EMBL-CDS\" id=\"AAB" + c20Word(rng, "0123456789", 5, 5) + "\" version=\"1\"/>\n    </conflict>\n  </comment>\n"}
			case "online information":
				return c20Annot{pre: "  <comment type=\"online information\" name=\"Wikipedia\">\n    <link uri=\"https://en.wikipedia.org/wiki/Protein\"/>\n  </comment>\n"}
			case "mass spectrometry":
				return c20Annot{pre: "  <comment type=\"mass spectrometry\" mass=\"5766.4\" method=\"MALDI\">\n    <location>\n      <begin position=\"1\"/>\n      <end position=\"" + strconv.Itoa(n) + "\"/>\n    </location>\n  </comment>\n"}
			case "interaction":
				return c20Annot{pre: "  <comment type=\"interaction\">\n    <interactant intactId=\"EBI-" + c20Word(rng, "123456789", 5, 7) + "\"/>\n    <interactant intactId=\"EBI-" + c20Word(rng, "123456789", 5, 7) + "\">\n      <id>Q" + c20Word(rng, c20AlNum, 5, 5) + "</id>\n    </interactant>\n    <organismsDiffer>false</organismsDiffer>\n    <experiments>3</experiments>\n  </comment>\n"}
			}
			return c20Annot{pre: "  <comment type=\"" + v + "\">\n    <text>About " + c20Word(rng, c20AlNum[:26], 4, 9) + ".</text>\n  </comment>\n"}
		}},
	{"enumerated-conflict-type-value", "type of <conflict> in a sequence caution comment", true,
		[]string{"frameshift", "erroneous initiation", "erroneous termination", "erroneous gene model prediction", "erroneous translation", "miscellaneous discrepancy"},
		func(rng *rand.Rand, v string, n int) c20Annot {
			return c20Annot{pre: "  <comment type=\"sequence caution\">\n    <conflict type=\"" + v + "\">\n      <sequence resource=\"EMBL-CDS\" id=\"AAB" + c20Word(rng, "0123456789", 5, 5) + "\" version=\"1\"/>\n    </conflict>\n  </comment>\n"}
		}},
	{"enumerated-sequence-resource-value", "resource of <conflict><sequence>", true, []string{"EMBL-CDS", "EMBL"},
		func(rng *rand.Rand, v string, n int) c20Annot {
			return c20Annot{pre: "  <comment type=\"sequence caution\">\n    <conflict type=\"erroneous initiation\">\n      <sequence resource=\"" + v + "\" id=\"AAB" + c20Word(rng, "0123456789", 5, 5) + "\" version=\"2\"/>\n    </conflict>\n    <text>Extended N-terminus.</text>\n  </comment>\n"}
		}},
	{"enumerated-event-type-value", "type of <event> in an alternative products comment", true,
		[]string{"alternative splicing", "alternative initiation", "alternative promoter", "ribosomal frameshifting"},
		func(rng *rand.Rand, v string, n int) c20Annot {
			return c20Annot{pre: "  <comment type=\"alternative products\">\n    <event type=\"" + v + "\"/>\n    <isoform>\n      <id>P" + c20Word(rng, "0123456789", 5, 5) + "-1</id>\n      <name>Long</name>\n      <sequence type=\"displayed\"/>\n    </isoform>\n  </comment>\n"}
		}},
	{"enumerated-isoform-sequence-type-value", "type of <isoform><sequence>", true, []string{"not described", "described", "displayed", "external"},
		func(rng *rand.Rand, v string, n int) c20Annot {
			ref := ""
			if v == "described" {
				ref = " ref=\"VSP_0" + c20Word(rng, "0123456789", 5, 5) + "\""
			}
			return c20Annot{pre: "  <comment type=\"alternative products\">\n    <event type=\"alternative splicing\"/>\n    <isoform>\n      <id>P" + c20Word(rng, "0123456789", 5, 5) + "-2</id>\n      <name>2</name>\n      <sequence type=\"" + v + "\"" + ref + "/>\n    </isoform>\n  </comment>\n"}
		}},
	{"enumerated-reaction-direction-value", "direction of <physiologicalReaction>", true, []string{"left-to-right", "right-to-left"},
		func(rng *rand.Rand, v string, n int) c20Annot {
			return c20Annot{pre: "  <comment type=\"catalytic activity\">\n    <reaction>\n      <text>ATP + H2O = ADP + phosphate + H(+)</text>\n      <dbReference type=\"Rhea\" id=\"RHEA:13065\"/>\n    </reaction>\n    <physiologicalReaction direction=\"" + v + "\">\n      <dbReference type=\"Rhea\" id=\"RHEA:13066\"/>\n    </physiologicalReaction>\n  </comment>\n"}
		}},
	{"enumerated-feature-type-value", "type of <feature>", true,
		[]string{"active site", "binding site", "calcium-binding region", "chain", "coiled-coil region", "compositionally biased region", "cross-link", "disulfide bond", "DNA-binding region", "domain", "glycosylation site", "helix", "initiator methionine", "lipid moiety-binding region", "metal ion-binding site", "modified residue", "mutagenesis site", "non-consecutive residues", "non-terminal residue", "nucleotide phosphate-binding region", "peptide", "propeptide", "region of interest", "repeat", "non-standard amino acid", "sequence conflict", "sequence variant", "short sequence motif", "signal peptide", "site", "splice variant", "strand", "topological domain", "transit peptide", "transmembrane region", "turn", "unsure residue", "zinc finger region", "intramembrane region"},
		func(rng *rand.Rand, v string, n int) c20Annot {
			loc := "    <location>\n      <begin position=\"1\"/>\n      <end position=\"" + strconv.Itoa(n) + "\"/>\n    </location>\n"
			if strings.HasSuffix(v, "site") || strings.HasSuffix(v, "residue") || strings.HasSuffix(v, "acid") || v == "initiator methionine" || v == "sequence variant" {
				loc = "    <location>\n      <position position=\"" + strconv.Itoa(1+rng.Intn(n)) + "\"/>\n    </location>\n"
			}
			inner := ""
			if v == "sequence variant" || v == "mutagenesis site" || v == "sequence conflict" || v == "splice variant" {
				inner = "    <original>A</original>\n    <variation>T</variation>\n"
			}
			return c20Annot{post: "  <feature type=\"" + v + "\" description=\"" + c20Word(rng, c20AlNum[:26], 4, 9) + "\">\n" + inner + loc + "  </feature>\n"}
		}},
	{"enumerated-position-status-value", "status of a feature's <begin>", true, []string{"certain", "uncertain", "less than", "greater than", "unknown"},
		func(rng *rand.Rand, v string, n int) c20Annot {
			begin := "<begin position=\"1\" status=\"" + v + "\"/>"
			if v == "unknown" {
				begin = "<begin status=\"unknown\"/>"
			}
			return c20Annot{post: "  <feature type=\"chain\" id=\"PRO_" + c20Word(rng, "0123456789", 10, 10) + "\" description=\"Protein " + c20Word(rng, c20AlNum, 3, 8) + "\">\n    <location>\n      " + begin + "\n      <end position=\"" + strconv.Itoa(n) + "\"/>\n    </location>\n  </feature>\n"}
		}},
	{"enumerated-fragment-value", "fragment of the entry's <sequence>", true, []string{"single", "multiple"},
		func(rng *rand.Rand, v string, n int) c20Annot { return c20Annot{seqAttrs: " fragment=\"" + v + "\""} }},
	{"boolean-precursor-value", "precursor (xs:boolean) of the entry's <sequence>", true, []string{"true", "false", "1", "0"},
		func(rng *rand.Rand, v string, n int) c20Annot { return c20Annot{seqAttrs: " precursor=\"" + v + "\""} }},
	{"boolean-organisms-differ-value", "text of <organismsDiffer> (xs:boolean) in an interaction comment", true, []string{"true", "false", "1", "0"},
		func(rng *rand.Rand, v string, n int) c20Annot {
			return c20Annot{pre: "  <comment type=\"interaction\">\n    <interactant intactId=\"EBI-" + c20Word(rng, "123456789", 5, 7) + "\"/>\n    <interactant intactId=\"EBI-" + c20Word(rng, "123456789", 5, 7) + "\">\n      <id>Q" + c20Word(rng, c20AlNum, 5, 5) + "</id>\n      <label>" + c20Word(rng, c20AlNum[:26], 3, 6) + "</label>\n    </interactant>\n    <organismsDiffer>" + v + "</organismsDiffer>\n    <experiments>4</experiments>\n  </comment>\n"}
		}},
	{"evidence-code-value", "type of <evidence> (an ECO code; open in the schema)", false,
		[]string{"ECO:0000269", "ECO:0000303", "ECO:0000305", "ECO:0000250", "ECO:0000255", "ECO:0000256", "ECO:0000259", "ECO:0000312", "ECO:0000313", "ECO:0000244", "ECO:0000213", "ECO:0000247", "ECO:0000314", "ECO:0007744", "ECO:0007829", "ECO:0007005"},
		func(rng *rand.Rand, v string, n int) c20Annot {
			return c20Annot{post: "  <keyword id=\"KW-0244\" evidence=\"1\">Early protein</keyword>\n  <evidence type=\"" + v + "\" key=\"1\">\n    <source>\n      <dbReference type=\"PubMed\" id=\"" + c20Word(rng, "123456789", 8, 8) + "\"/>\n    </source>\n  </evidence>\n"}
		}},
	{"reference-scope-value", "text of <reference><scope> (open in the schema)", false,
		[]string{"NUCLEOTIDE SEQUENCE [GENOMIC DNA]", "NUCLEOTIDE SEQUENCE [MRNA]", "NUCLEOTIDE SEQUENCE [LARGE SCALE GENOMIC DNA]", "NUCLEOTIDE SEQUENCE [LARGE SCALE MRNA] (ISOFORMS 1 AND 2)", "PROTEIN SEQUENCE OF 1-12", "X-RAY CRYSTALLOGRAPHY (2.0 ANGSTROMS) OF 24-260", "STRUCTURE BY NMR", "FUNCTION", "SUBCELLULAR LOCATION", "TISSUE SPECIFICITY", "INTERACTION WITH TP53", "VARIANT THR-5", "MUTAGENESIS OF LYS-7", "IDENTIFICATION BY MASS SPECTROMETRY [LARGE SCALE ANALYSIS]", "PHOSPHORYLATION [LARGE SCALE ANALYSIS] AT SER-3", "REVIEW"},
		func(rng *rand.Rand, v string, n int) c20Annot {
			return c20Annot{pre: "  <reference key=\"1\">\n    <citation type=\"journal article\" date=\"2004\" name=\"Virology\" volume=\"319\" first=\"337\" last=\"342\">\n      <title>Analysis of " + c20Word(rng, c20AlNum[:26], 4, 9) + ".</title>\n      <authorList>\n        <person name=\"Chapman D.A.\"/>\n      </authorList>\n    </citation>\n    <scope>" + v + "</scope>\n  </reference>\n"}
		}},
}

// c20EnumText lists the enumerations for the domain text.
func c20EnumText() string {
	var parts []string
	for _, e := range c20Enums {
		open := ""
		if !e.schema {
			open = ", not enumerated by the schema: the values UniProt writes"
		}
		parts = append(parts, fmt.Sprintf("%s in {%s} (class %s%s)", e.attr, strings.Join(e.values, ", "), e.shape, open))
	}
	return strings.Join(parts, "; ")
}

// c20WellFormed reads text with the standard tokenizer to its end.
func c20WellFormed(text []byte) error {
	dec := xml.NewDecoder(bytes.NewReader(text))
	for {
		if _, err := dec.Token(); err == io.EOF {
			return nil
		} else if err != nil {
			return err
		}
	}
}

// ------------------------------------------ white space in the sequence text

// c20SeqEdges: what may stand between the start tag of the sequence element
// and the first residue, and between the last residue and the end tag.
var c20SeqEdges = []struct{ ws, what string }{
	{"", "nothing"},
	{" ", "a blank"},
	{"  ", "two blanks"},
	{"\t", "a tab"},
	{"\n", "a newline"},
	{"\r\n", "CR LF"},
	{"\n    ", "a newline and four blanks"},
	{"\r\n\t", "CR LF and a tab"},
}

// c20SeqWraps: how the residues are broken up: blocks of block letters
// separated by blockSep, perLine blocks on a line, lines separated by lineSep
// (block 0: all residues in one piece).
var c20SeqWraps = []struct {
	block    int
	blockSep string
	perLine  int
	lineSep  string
	what     string
}{
	{0, "", 0, "", "the residues in one piece"},
	{10, " ", 1 << 30, "", "the residues in blocks of 10 separated by a blank"},
	{7, "", 1, "\n", "the residues on lines of 7 separated by a newline"},
	{7, "", 1, "\r\n", "the residues on lines of 7 separated by CR LF"},
	{5, "", 1, "\n    ", "the residues on lines of 5, every further line indented by four blanks"},
	{4, "\t", 3, "\n", "the residues in blocks of 4 separated by a tab, three blocks on a line, lines separated by a newline"},
	{10, " ", 6, "\n", "the residues in blocks of 10 separated by a blank, six blocks (60 residues) on a line, lines separated by a newline (the layout of older UniProt dumps)"},
}

// c20SeqLayout writes the residues res with the given white space.
func c20SeqLayout(res string, lead, wrap, trail int) string {
	w := c20SeqWraps[wrap]
	var b strings.Builder
	b.WriteString(c20SeqEdges[lead].ws)
	if w.block == 0 {
		b.WriteString(res)
	} else {
		for i, n := 0, 0; i < len(res); i, n = i+w.block, n+1 {
			if n > 0 && n%w.perLine == 0 {
				b.WriteString(w.lineSep)
			} else if n > 0 {
				b.WriteString(w.blockSep)
			}
			end := i + w.block
			if end > len(res) {
				end = len(res)
			}
			b.WriteString(res[i:end])
		}
	}
	b.WriteString(c20SeqEdges[trail].ws)
	return b.String()
}

// c20DocSeqTexts is the oracle of part (10): an independent read of the
// document with the standard tokenizer (encoding/xml Decoder.Token, no
// unmarshalling) that returns, for every entry element under the root, the
// character data that stands directly inside the entry's own sequence element
// (a direct child of the entry; sequence elements nested deeper, as in isoform
// and conflict elements, are not the entry's sequence). This is "the sequence
// text" of the entry as the document states it: the tokenizer resolves
// references and, as XML 1.0 section 2.11 prescribes for every XML processor,
// hands CR LF and a lone CR on as a single LF; it removes nothing else.
func c20DocSeqTexts(text []byte) ([]string, error) {
	dec := xml.NewDecoder(bytes.NewReader(text))
	var stack []string
	var out []string
	var cur strings.Builder
	own := func() bool {
		return len(stack) == 3 && stack[1] == "entry" && stack[2] == "sequence"
	}
	for {
		tok, err := dec.Token()
		if err == io.EOF {
			return out, nil
		} else if err != nil {
			return nil, err
		}
		switch x := tok.(type) {
		case xml.StartElement:
			stack = append(stack, x.Name.Local)
			if own() {
				cur.Reset()
			}
		case xml.EndElement:
			if own() {
				out = append(out, cur.String())
			}
			stack = stack[:len(stack)-1]
		case xml.CharData:
			if own() {
				cur.Write(x)
			}
		}
	}
}

// c20Prolog: what the small prolog document puts before its root element.
const c20Prolog = "<?xml version=\"1.0\" encoding=\"UTF-8\"?>\n<!-- comment -->\n"

// c20WithProlog puts an XML declaration, a newline, a comment and a newline
// before the root element of d.
func c20WithProlog(d c20Doc) c20Doc {
	n := len(c20Prolog)
	p := c20Doc{ents: d.ents, text: append([]byte(c20Prolog), d.text...)}
	for i := range d.start {
		p.start = append(p.start, d.start[i]+n)
		p.end = append(p.end, d.end[i]+n)
	}
	p.rootStartEnd, p.rootEndStart, p.rootEndEnd = d.rootStartEnd+n, d.rootEndStart+n, d.rootEndEnd+n
	return p
}

// prologShape names where a cut before the root element falls (for messages).
func (d c20Doc) prologShape(off int) string {
	decl := strings.Index(c20Prolog, "?>") + 2
	cmt := strings.Index(c20Prolog, "<!--")
	cmtEnd := strings.Index(c20Prolog, "-->") + 3
	switch {
	case off == 0:
		return "empty input"
	case off < decl:
		return "inside the XML declaration"
	case off == decl:
		return "right after the XML declaration"
	case off <= cmt:
		return "in the white space after the XML declaration"
	case off < cmtEnd:
		return "inside the comment"
	case off == cmtEnd:
		return "right after the comment"
	case off <= len(c20Prolog):
		return "in the white space before the root element"
	case off < d.rootStartEnd:
		return "inside the root start tag"
	}
	return "after the root start tag"
}

func c20RandomDoc(rng *rand.Rand, k int, rich bool, maxSeq int) c20Doc {
	ents := make([]c20Ent, k)
	for i := range ents {
		ents[i] = c20NewEnt(rng, maxSeq)
	}
	return c20Build(rng, ents, rich)
}

// c20Before counts the entries that lie completely before byte offset off.
func (d c20Doc) before(off int) int {
	n := 0
	for _, e := range d.end {
		if e <= off {
			n++
		}
	}
	return n
}

// c20TruncShape names where a cut at off falls.
func (d c20Doc) truncShape(off int) string {
	if off < d.rootStartEnd {
		return "truncated-before-root"
	}
	for i := range d.start {
		if d.start[i] < off && off < d.end[i] {
			return "truncated-inside-entry"
		}
	}
	if off > d.rootEndStart {
		return "truncated-inside-root-end-tag"
	}
	return "truncated-between-entries"
}

func c20Gzip(text []byte) []byte {
	var b bytes.Buffer
	w := gzip.NewWriter(&b)
	_, _ = w.Write(text)
	_ = w.Close()
	return b.Bytes()
}

// c20GzipMembers compresses text as a gzip file of several members (RFC 1952,
// 2.2: "a gzip file consists of a series of members"; what it stands for is the
// concatenation of what the members hold): one gzip.Writer per piece, the
// pieces being text[0:cuts[0]], text[cuts[0]:cuts[1]], ..., and, for
// emptyAt >= 0, a member holding no data in front of piece emptyAt (after the
// last piece when emptyAt == len(cuts)+1).
func c20GzipMembers(text []byte, cuts []int, emptyAt int) []byte {
	var out []byte
	bounds := append(append([]int{0}, cuts...), len(text))
	for i := 0; i+1 < len(bounds); i++ {
		if i == emptyAt {
			out = append(out, c20Gzip(nil)...)
		}
		out = append(out, c20Gzip(text[bounds[i]:bounds[i+1]])...)
	}
	if emptyAt == len(bounds)-1 {
		out = append(out, c20Gzip(nil)...)
	}
	return out
}

// c20Gunzip returns what an independent run of the standard decompressor
// recovers from a (possibly cut) gzip file.
func c20Gunzip(gz []byte) (plain []byte, headerOK bool) {
	r, err := gzip.NewReader(bytes.NewReader(gz))
	if err != nil {
		return nil, false
	}
	var out bytes.Buffer
	_, _ = io.Copy(&out, r)
	return out.Bytes(), true
}

// ------------------------------------------------------- child side (observer)

type c20Case struct {
	ID         int
	Doc        []byte // input of Parse
	Path       string // or: gzip file for Read
	Mode       int    // 0: drain entries, then errors (documented usage); 1: drain both concurrently
	CapE, CapX int    // channel capacities (Parse only; Read fixes its own)
}

type c20Obs struct {
	ID        int
	Entries   []c20Ent
	NErr      int
	FirstErr  string
	OpenErr   string // error returned by Read itself
	EClosed   bool
	XClosed   bool
	Hung      bool
	Panic     string
	ElapsedMs int64
	Lost      bool // set by the parent: the child was killed or died before it could report
}

func c20Observe(c c20Case, deadline time.Duration) c20Obs {
	var mu sync.Mutex
	obs := c20Obs{ID: c.ID}
	var entries chan Entry
	var errs chan error
	t0 := time.Now()
	if c.Path != "" {
		var err error
		entries, errs, err = Read(c.Path)
		if err != nil {
			// "Failing to open the XML dump gives a single error": nothing was started
			obs.OpenErr = err.Error()
			return obs
		}
	} else {
		entries = make(chan Entry, c.CapE)
		errs = make(chan error, c.CapX)
		go func() {
			defer func() {
				if r := recover(); r != nil {
					mu.Lock()
					obs.Panic = fmt.Sprint(r)
					mu.Unlock()
				}
			}()
			Parse(bytes.NewReader(c.Doc), entries, errs)
		}()
	}
	drainE := func() {
		for e := range entries {
			mu.Lock()
			obs.Entries = append(obs.Entries, c20Ent{Acc: e.Accession, Name: e.Name, Seq: e.Sequence.Value})
			mu.Unlock()
		}
		mu.Lock()
		obs.EClosed = true
		mu.Unlock()
	}
	drainX := func() {
		for err := range errs {
			mu.Lock()
			obs.NErr++
			if obs.NErr == 1 && err != nil {
				obs.FirstErr = err.Error()
			}
			mu.Unlock()
		}
		mu.Lock()
		obs.XClosed = true
		mu.Unlock()
	}
	done := make(chan struct{})
	if c.Mode == 0 {
		go func() { drainE(); drainX(); close(done) }()
	} else {
		var wg sync.WaitGroup
		wg.Add(2)
		go func() { defer wg.Done(); drainE() }()
		go func() { defer wg.Done(); drainX() }()
		go func() { wg.Wait(); close(done) }()
	}
	select {
	case <-done:
	case <-time.After(deadline):
		mu.Lock()
		obs.Hung = true
		mu.Unlock()
	}
	mu.Lock()
	defer mu.Unlock()
	out := obs
	out.Entries = append([]c20Ent(nil), obs.Entries...)
	out.ElapsedMs = time.Since(t0).Milliseconds()
	return out
}

// TestVerifC20Child is the re-executed observer; it does nothing unless the
// parent set VERIF_C20_CASES.
func TestVerifC20Child(t *testing.T) {
	path := os.Getenv("VERIF_C20_CASES")
	if path == "" {
		return
	}
	lim := uint64(2) << 30
	_ = syscall.Setrlimit(syscall.RLIMIT_AS, &syscall.Rlimit{Cur: lim, Max: lim})
	start, _ := strconv.Atoi(os.Getenv("VERIF_C20_START"))
	ms, _ := strconv.Atoi(os.Getenv("VERIF_C20_DEADLINE_MS"))
	raw, err := ioutil.ReadFile(path)
	if err != nil {
		fmt.Fprintln(os.Stdout, "C20-ERROR "+err.Error())
		os.Exit(3)
	}
	var cases []c20Case
	if err := json.Unmarshal(raw, &cases); err != nil {
		fmt.Fprintln(os.Stdout, "C20-ERROR "+err.Error())
		os.Exit(3)
	}
	for i := start; i < len(cases); i++ {
		fmt.Fprintln(os.Stdout, "C20-BEGIN "+strconv.Itoa(i))
		obs := c20Observe(cases[i], time.Duration(ms)*time.Millisecond)
		b, _ := json.Marshal(obs)
		fmt.Fprintln(os.Stdout, "C20-END "+strconv.Itoa(i)+" "+string(b))
		if obs.Hung {
			// the stuck parser goroutine cannot be stopped: leave, the parent restarts after this case
			os.Exit(0)
		}
	}
	fmt.Fprintln(os.Stdout, "C20-FINISHED")
	os.Exit(0)
}

// ------------------------------------------------------------- parent side

// c20RunQueue observes all cases of one queue, restarting the child after every
// case that hangs, is killed or crashes.
func c20RunQueue(t *testing.T, dir string, q int, cases []c20Case, deadlineMs int, kill time.Duration, out map[int]c20Obs, outMu *sync.Mutex) {
	if len(cases) == 0 {
		return
	}
	file := filepath.Join(dir, "queue-"+strconv.Itoa(q)+".json")
	raw, _ := json.Marshal(cases)
	if err := ioutil.WriteFile(file, raw, 0644); err != nil {
		t.Error(err)
		return
	}
	put := func(i int, o c20Obs) {
		o.ID = cases[i].ID
		outMu.Lock()
		out[o.ID] = o
		outMu.Unlock()
	}
	next := 0
	for next < len(cases) {
		cmd := exec.Command(os.Args[0], "-test.run=^TestVerifC20Child$", "-test.timeout=0")
		cmd.Env = append(os.Environ(), "VERIF_C20_CASES="+file, "VERIF_C20_START="+strconv.Itoa(next), "VERIF_C20_DEADLINE_MS="+strconv.Itoa(deadlineMs))
		var stderr bytes.Buffer
		cmd.Stderr = &stderr
		stdout, err := cmd.StdoutPipe()
		if err != nil {
			t.Error(err)
			return
		}
		if err := cmd.Start(); err != nil {
			t.Error(err)
			return
		}
		lines := make(chan string, 64)
		go func() {
			sc := bufio.NewScanner(stdout)
			sc.Buffer(make([]byte, 0, 1<<20), 1<<28)
			for sc.Scan() {
				lines <- sc.Text()
			}
			close(lines)
		}()
		current := -1 // case begun and not ended
		launchedAt := next
		killed := false
		timer := time.NewTimer(kill)
	read:
		for {
			select {
			case l, ok := <-lines:
				if !ok {
					break read
				}
				if !timer.Stop() {
					select {
					case <-timer.C:
					default:
					}
				}
				timer.Reset(kill)
				switch {
				case strings.HasPrefix(l, "C20-BEGIN "):
					current, _ = strconv.Atoi(l[len("C20-BEGIN "):])
				case strings.HasPrefix(l, "C20-END "):
					rest := l[len("C20-END "):]
					sp := strings.IndexByte(rest, ' ')
					i, _ := strconv.Atoi(rest[:sp])
					var o c20Obs
					if err := json.Unmarshal([]byte(rest[sp+1:]), &o); err != nil {
						t.Errorf("child result unreadable: %v", err)
					}
					put(i, o)
					next = i + 1
					current = -1
				case strings.HasPrefix(l, "C20-ERROR"):
					t.Error("child: " + l)
				}
			case <-timer.C:
				killed = true
				_ = cmd.Process.Kill()
				break read
			}
		}
		timer.Stop()
		_ = cmd.Process.Kill()
		go func() {
			for range lines {
			}
		}()
		_ = cmd.Wait()
		if current >= 0 {
			// begun, never reported: killed at the deadline, or the process died (panic in a goroutine, out of memory)
			o := c20Obs{Hung: killed, Lost: true}
			if !killed {
				msg := stderr.String()
				if len(msg) > 300 {
					msg = msg[:300]
				}
				o.Panic = "child process died: " + msg
			}
			put(current, o)
			next = current + 1
		} else if next == launchedAt && next < len(cases) {
			// no case was even begun: the harness is broken, do not loop
			t.Errorf("child made no progress (queue %d, case %d, killed %v): %s", q, next, killed, stderr.String())
			return
		}
	}
}

type c20Spec struct {
	c         c20Case
	wellForm  bool
	viaRead   bool
	shape     string   // damage shape (class stem) for damaged inputs
	shapes    []string // well-formed documents of part (8) in which every entry has a shape of its own: one per entry
	want      []c20Ent // well-formed: exactly these; damaged: these must come first
	needError bool
	desc      string
	quoteSeq  bool // part (10): show sequence texts quoted in messages (they hold white space)
}

func c20EntsEqual(a, b c20Ent) bool {
	return reflect.DeepEqual(a.Acc, b.Acc) && reflect.DeepEqual(a.Name, b.Name) && a.Seq == b.Seq
}

func c20ShowEnt(e c20Ent) string {
	return fmt.Sprintf("{acc %v name %v seq %s}", e.Acc, e.Name, e.Seq)
}

// c20ShowEntQ is c20ShowEnt with the sequence text quoted (Go syntax).
func c20ShowEntQ(e c20Ent) string {
	return fmt.Sprintf("{acc %v name %v seq %s}", e.Acc, e.Name, strconv.Quote(e.Seq))
}

func c20Clip(s string, n int) string {
	if len(s) > n {
		return s[:n] + "..."
	}
	return s
}

func TestVerifC20(t *testing.T) {
	if os.Getenv("VERIF_C20_CASES") != "" {
		return // we are a child; only TestVerifC20Child runs there
	}
	thorough := verifThorough()
	seed := verifSeed()
	dir := t.TempDir()
	deadlineMs, kill, workers := 1000, 5*time.Second, 32
	if thorough {
		deadlineMs = 2000
	}
	rng := rand.New(rand.NewSource(seed ^ 0x20))
	var specs []c20Spec
	fileNo := 0
	gzFile := func(gz []byte) string {
		fileNo++
		p := filepath.Join(dir, "f"+strconv.Itoa(fileNo)+".xml.gz")
		if err := ioutil.WriteFile(p, gz, 0644); err != nil {
			t.Fatal(err)
		}
		return p
	}
	caps := func(i int) (int, int) {
		pool := []int{0, 1, 2, 3, 5, 10, 50, 99, 100}
		switch i % 4 {
		case 0:
			return pool[rng.Intn(len(pool))], pool[rng.Intn(len(pool))]
		case 1:
			return rng.Intn(101), rng.Intn(101)
		case 2:
			return 0, rng.Intn(101)
		}
		return rng.Intn(101), 0
	}
	add := func(s c20Spec) {
		s.c.ID = len(specs)
		specs = append(specs, s)
	}
	addParse := func(text []byte, mode int, wellForm bool, shape string, want []c20Ent, needError bool, desc string) {
		ce, cx := caps(len(specs))
		add(c20Spec{c: c20Case{Doc: text, Mode: mode, CapE: ce, CapX: cx}, wellForm: wellForm, shape: shape, want: want, needError: needError,
			desc: fmt.Sprintf("Parse, consumer %s, capacities entries %d errors %d; %s", []string{"entries-then-errors", "concurrent"}[mode], ce, cx, desc)})
	}
	addRead := func(gz []byte, mode int, wellForm bool, shape string, want []c20Ent, needError bool, desc string) {
		add(c20Spec{c: c20Case{Path: gzFile(gz), Mode: mode}, wellForm: wellForm, viaRead: true, shape: shape, want: want, needError: needError,
			desc: fmt.Sprintf("Read on a gzip file, consumer %s; %s", []string{"entries-then-errors", "concurrent"}[mode], desc)})
	}
	docDesc := func(d c20Doc) string {
		s := fmt.Sprintf("document of %d bytes, %d entr(ies)", len(d.text), len(d.ents))
		if len(d.text) <= 330 {
			s += " " + strconv.Quote(string(d.text))
		}
		return s
	}

	// (1) well-formed documents, every k in 0..200
	reps := 1
	if thorough {
		reps = 6
	}
	for rep := 0; rep < reps; rep++ {
		for k := 0; k <= 200; k++ {
			d := c20RandomDoc(rng, k, (k+rep)%3 != 0, 60)
			addParse(d.text, (k+rep)%2, true, "", d.ents, false, docDesc(d))
			if k%8 == rep%8 || k < 4 {
				addRead(c20Gzip(d.text), (k+rep+1)%2, true, "", d.ents, false, docDesc(d))
			}
		}
	}
	// every capacity 0..100 on each channel at least once (thorough: both consumers)
	for cp := 0; cp <= 100; cp++ {
		for mode := 0; mode < 2; mode++ {
			if !thorough && mode != cp%2 {
				continue
			}
			d := c20RandomDoc(rng, []int{0, 1, 2, 5, 101, 150}[rng.Intn(6)], rng.Intn(2) == 0, 30)
			add(c20Spec{c: c20Case{Doc: d.text, Mode: mode, CapE: cp, CapX: rng.Intn(101)}, wellForm: true, want: d.ents, desc: fmt.Sprintf("Parse, consumer mode %d, capacity entries %d; %s", mode, cp, docDesc(d))})
			add(c20Spec{c: c20Case{Doc: d.text, Mode: mode, CapE: rng.Intn(101), CapX: cp}, wellForm: true, want: d.ents, desc: fmt.Sprintf("Parse, consumer mode %d, capacity errors %d; %s", mode, cp, docDesc(d))})
		}
	}

	// (2) small documents cut at EVERY byte offset
	var small []c20Doc
	small = append(small, c20Build(rng, []c20Ent{{Acc: []string{"P1"}, Name: []string{"N1"}, Seq: "MK"}, {Acc: []string{"P2", "Q2"}, Name: []string{"N2"}, Seq: "MV"}}, false))
	if thorough {
		small = append(small, c20RandomDoc(rng, 0, false, 4), c20RandomDoc(rng, 1, true, 8), c20RandomDoc(rng, 3, false, 6))
	}
	for di, d := range small {
		for off := 0; off < len(d.text); off++ {
			modes := []int{(off + di) % 2}
			if thorough {
				modes = []int{0, 1}
			}
			for _, mode := range modes {
				desc := fmt.Sprintf("cut at byte offset %d (prefix ends %s) of %s", off, strconv.Quote(c20Clip(string(d.text[c20Max(0, off-24):off]), 40)), docDesc(d))
				if off >= d.rootEndEnd {
					// only white space after the root element is missing: still a well-formed document
					addParse(d.text[:off], mode, true, "", d.ents, false, desc)
					continue
				}
				addParse(d.text[:off], mode, false, d.truncShape(off), d.ents[:d.before(off)], true, desc)
			}
		}
	}

	// (3) larger documents: random truncation and seeded corruption, plain and gzip
	nBig := 36
	if thorough {
		nBig = 700
	}
	for i := 0; i < nBig; i++ {
		k := 2 + rng.Intn(199)
		if i%3 == 0 {
			k = 2 + rng.Intn(20)
		}
		d := c20RandomDoc(rng, k, i%2 == 0, 40)
		j := rng.Intn(k) // the entry that is damaged
		body := string(d.text[d.start[j]:d.end[j]])
		repl := func(old, new string) []byte {
			p := strings.Index(body, old)
			if p < 0 {
				t.Fatalf("generator: %q not in entry", old)
			}
			return []byte(string(d.text[:d.start[j]]) + body[:p] + new + body[p+len(old):] + string(d.text[d.end[j]:]))
		}
		var text []byte
		var shape string
		want := d.ents[:j]
		switch i % 9 {
		case 0:
			shape, text = "mismatched-end-tag", repl("</name>", "</nome>")
		case 1:
			shape, text = "stray-less-than-in-text", repl(d.ents[j].Seq+"</sequence>", d.ents[j].Seq[:len(d.ents[j].Seq)/2]+"< "+d.ents[j].Seq[len(d.ents[j].Seq)/2:]+"</sequence>")
		case 2:
			shape, text = "illegal-character", repl(d.ents[j].Acc[0], d.ents[j].Acc[0][:2]+"\x01"+d.ents[j].Acc[0][2:])
		case 3:
			shape, text = "bare-ampersand", repl(d.ents[j].Name[0], d.ents[j].Name[0][:1]+"& "+d.ents[j].Name[0][1:])
		case 4:
			shape, text = "missing-entry-end-tag", []byte(string(d.text[:d.end[j]-len("</entry>")])+string(d.text[d.end[j]:]))
		case 5:
			shape, text = "unterminated-start-tag", repl("<accession>", "<accession")
		case 6:
			shape, text = "garbage-between-entries", []byte(string(d.text[:d.start[j]])+"<<"+string(d.text[d.start[j]:]))
		default:
			off := rng.Intn(d.rootEndEnd)
			shape, text, want = d.truncShape(off), d.text[:off], d.ents[:d.before(off)]
		}
		desc := fmt.Sprintf("damage %s at entry %d (entries before it: %d) of a document of %d bytes, %d entries", shape, j+1, len(want), len(d.text), k)
		switch i % 4 {
		case 0, 1:
			addParse(text, i%2, false, shape, want, true, desc)
		case 2:
			addRead(c20Gzip(text), (i/4)%2, false, shape, want, true, desc+", then gzip-compressed")
		case 3:
			// the gzip file itself is cut
			gz := c20Gzip(d.text)
			cut := rng.Intn(len(gz))
			if i%8 == 7 {
				cut = len(gz) - 1 - rng.Intn(8) // inside the trailer
			}
			plain, headerOK := c20Gunzip(gz[:cut])
			w := d.ents[:d.before(len(plain))]
			if !headerOK {
				w = nil
			}
			addRead(gz[:cut], (i/4)%2, false, "gzip-file-truncated", w, true,
				fmt.Sprintf("gzip file of %d bytes cut at %d (the standard decompressor recovers %d bytes = %d whole entries) of a document of %d bytes, %d entries", len(gz), cut, len(plain), len(w), len(d.text), k))
		}
	}

	// (4) both tiers: a second small document (2 entries) that starts with an XML
	// declaration, a newline, a comment and a newline before the root element,
	// cut at EVERY byte offset: cuts inside and after the declaration, inside
	// and after the comment and in the white space before the root included.
	// Added last and with its own stream for the capacities, so that the cases
	// above stay what they were.
	prologDoc := c20WithProlog(c20Build(rng, []c20Ent{{Acc: []string{"P7"}, Name: []string{"N7"}, Seq: "MA"}, {Acc: []string{"P8", "Q8"}, Name: []string{"N8"}, Seq: "ML"}}, false))
	{
		saved := rng
		rng = rand.New(rand.NewSource(seed ^ 0x2020))
		d := prologDoc
		for off := 0; off < len(d.text); off++ {
			modes := []int{off % 2}
			if thorough {
				modes = []int{0, 1}
			}
			for _, mode := range modes {
				desc := fmt.Sprintf("cut at byte offset %d, %s (prefix ends %s) of %s", off, d.prologShape(off), strconv.Quote(c20Clip(string(d.text[c20Max(0, off-24):off]), 40)), docDesc(d))
				if off >= d.rootEndEnd {
					addParse(d.text[:off], mode, true, "", d.ents, false, desc)
					continue
				}
				addParse(d.text[:off], mode, false, d.truncShape(off), d.ents[:d.before(off)], true, desc)
			}
		}
		rng = saved
	}

	// (5) both tiers: well-formed documents in the layout of the real dump in
	// which ONE entry, in first, middle or last position among k, carries a
	// large number in one of its numeric attributes: the revision count of a
	// long-lived entry, the length and mass of a giant protein, feature
	// positions at the end of such a protein, the key of a late evidence
	// element. All k entries must come out as from any other document. Own
	// stream again, added last.
	nLarge := 0
	{
		saved := rng
		rng = rand.New(rand.NewSource(seed ^ 0x202020))
		type large struct {
			shape string
			what  string
			num   c20Num
			seq   int // sequence length of the entry, 0: as drawn
		}
		var larges []large
		for _, v := range c20LargeVersions {
			larges = append(larges, large{"version-attribute-beyond-255", fmt.Sprintf("<entry ... version=%q>", strconv.Itoa(v)), c20Num{Version: v}, 0})
		}
		for _, v := range c20LargeSeqVersions {
			larges = append(larges, large{"sequence-version-attribute-beyond-255", fmt.Sprintf("<sequence ... version=%q>", strconv.Itoa(v)), c20Num{SeqVersion: v}, 0})
		}
		for _, n := range c20LargeSeqLens {
			larges = append(larges, large{"sequence-length-and-mass-large", fmt.Sprintf("<sequence length=%q mass=%q ...> with that many letters", strconv.Itoa(n), strconv.Itoa(110*n)), c20Num{}, n},
				large{"feature-position-large", fmt.Sprintf("features <end position=%q/> and <position position=%q/> on a sequence of that length", strconv.Itoa(n), strconv.Itoa(n)), c20Num{FeatureEnd: n}, n})
		}
		for _, key := range c20LargeEvidenceKeys {
			larges = append(larges, large{"evidence-key-large", fmt.Sprintf("<evidence ... key=%q> referred to by two features", strconv.Itoa(key)), c20Num{EvidenceKey: key, FeatureEnd: 40}, 40})
		}
		for li, l := range larges {
			for _, k := range []int{1, 2, 3, 9} {
				for pos := 0; pos < 3; pos++ {
					j := []int{0, k / 2, k - 1}[pos]
					if pos > 0 && j == []int{0, k / 2, k - 1}[pos-1] {
						continue // k too small for this position to be a new one
					}
					if thorough || l.seq <= 40 || k == 3 {
						ents := make([]c20Ent, k)
						for i := range ents {
							ents[i] = c20NewEnt(rng, 60)
						}
						num := l.num
						ents[j].num = &num
						if l.seq > 0 {
							ents[j].Seq = c20Word(rng, c20Amino, l.seq, l.seq)
						}
						d := c20Build(rng, ents, true)
						where := "middle"
						switch {
						case k == 1:
							where = "only"
						case j == 0:
							where = "first"
						case j == k-1:
							where = "last"
						}
						desc := fmt.Sprintf("entry %d of %d (the %s one) has %s; %s", j+1, k, where, l.what, docDesc(d))
						mode := (li + k + pos) % 2
						addParse(d.text, mode, true, l.shape, d.ents, false, desc)
						if k == 3 {
							addRead(c20Gzip(d.text), 1-mode, true, l.shape, d.ents, false, desc)
						}
						nLarge++
					}
				}
			}
		}
		rng = saved
	}

	// (6) both tiers: well-formed documents compressed as a gzip file of SEVERAL
	// members (what pigz, bgzip or `cat a.gz b.gz` produce): one gzip.Writer per
	// piece of the XML text, the files concatenated, the member boundaries at
	// arbitrary byte positions of the XML and at chosen ones (after the first
	// byte, inside the root start tag, right before and right after an entry,
	// inside an entry, before the last byte), optionally with a member that holds
	// no data. The stream is well formed, so all k entries are demanded. Own
	// stream, added last.
	nMulti := 0
	{
		saved := rng
		rng = rand.New(rand.NewSource(seed ^ 0x20202020))
		ks := []int{1, 2, 3, 9, 40}
		if thorough {
			ks = []int{1, 2, 3, 4, 5, 9, 20, 40, 100, 200}
		}
		for ki, k := range ks {
			for variant := 0; variant < 8; variant++ {
				d := c20RandomDoc(rng, k, (ki+variant)%3 != 0, 60)
				var cuts []int
				var what string
				switch variant {
				case 0:
					cuts, what = []int{1}, "2 members, boundary after the first byte"
				case 1:
					cuts, what = []int{d.rootStartEnd / 2}, "2 members, boundary inside the root start tag"
				case 2:
					j := rng.Intn(k)
					cuts, what = []int{d.start[j]}, fmt.Sprintf("2 members, boundary right before entry %d", j+1)
				case 3:
					cuts, what = []int{d.end[0]}, "2 members, boundary right after entry 1"
				case 4:
					j := rng.Intn(k)
					cuts, what = []int{d.start[j] + 1 + rng.Intn(d.end[j]-d.start[j]-1)}, fmt.Sprintf("2 members, boundary inside entry %d", j+1)
				case 5:
					cuts, what = []int{d.start[0], d.end[k-1], len(d.text) - 1}, "4 members, boundaries before the first entry, after the last entry and before the last byte"
				default:
					m := 2 + rng.Intn(5)
					seen := map[int]bool{}
					for len(cuts) < m-1 && len(cuts) < len(d.text)-1 {
						if c := 1 + rng.Intn(len(d.text)-1); !seen[c] {
							seen[c] = true
							cuts = append(cuts, c)
						}
					}
					sort.Ints(cuts)
					what = fmt.Sprintf("%d members, boundaries at random byte offsets %v", len(cuts)+1, cuts)
				}
				emptyAt := -1
				if variant%4 == 3 || variant == 6 {
					emptyAt = rng.Intn(len(cuts) + 2)
					what += fmt.Sprintf(", plus a member without data as member %d", emptyAt+1)
				}
				gz := c20GzipMembers(d.text, cuts, emptyAt)
				if plain, ok := c20Gunzip(gz); !ok || !bytes.Equal(plain, d.text) {
					t.Fatalf("generator: the standard decompressor does not recover the document from the multi-member file (%s)", what)
				}
				addRead(gz, (ki+variant)%2, true, "multi-member-gzip", d.ents, false, "gzip file of "+what+"; "+docDesc(d))
				nMulti++
			}
		}
		rng = saved
	}

	// (7) both tiers: well-formed documents in the layout of the real dump in
	// which ONE entry carries xsd:date attributes on leap days and calendar
	// edges (created / modified of the entry, modified of its sequence element,
	// or all three). Valid dates all of them; every entry must come out with its
	// accessions, names and sequence text. Own stream, added last.
	nDates := 0
	{
		saved := rng
		rng = rand.New(rand.NewSource(seed ^ 0x2020202020))
		for di, date := range c20Dates {
			shape := "calendar-edge-date"
			if strings.HasSuffix(date, "-02-29") {
				shape = "leap-day-date"
			}
			for pi, place := range []string{"created", "modified", "sequence modified", "all three"} {
				for _, k := range []int{1, 3} {
					if k == 1 && place != "all three" && !thorough {
						continue
					}
					j := (di + pi) % k
					ents := make([]c20Ent, k)
					for i := range ents {
						ents[i] = c20NewEnt(rng, 60)
					}
					num := c20Num{}
					if place == "created" || place == "all three" {
						num.Created = date
					}
					if place == "modified" || place == "all three" {
						num.Modified = date
					}
					if place == "sequence modified" || place == "all three" {
						num.SeqModified = date
					}
					ents[j].num = &num
					d := c20Build(rng, ents, true)
					desc := fmt.Sprintf("entry %d of %d has the date %s as %s; %s", j+1, k, date, place, docDesc(d))
					mode := (di + pi + k) % 2
					addParse(d.text, mode, true, shape, d.ents, false, desc)
					if k == 3 && place == "all three" {
						addRead(c20Gzip(d.text), 1-mode, true, shape, d.ents, false, desc)
					}
					nDates++
				}
			}
		}
		rng = saved
	}

	// (8) both tiers: well-formed documents in the layout of the real dump in
	// which ONE entry (first, middle or last among k; the last one least often,
	// so that the entries AFTER it are demanded too) carries annotation of the
	// kinds the real schema has: evidence attributes that are xs:list values of
	// several integers in every white-space form a list may take, mass
	// spectrometry comments (mass is an xs:float: decimal fractions as usual in
	// Swiss-Prot, integral values, exponent notation), interaction comments
	// (organismsDiffer, experiments), alternative products (isoforms with <name>
	// and <sequence> elements of their own), biophysicochemical properties,
	// catalytic activity, cofactor, subcellular location, disease, sequence
	// caution (a nested <sequence ... version="n"/>), positions with a status
	// and without a number, variant features, references with citations,
	// dbReference properties, precursor / fragment attributes on the sequence
	// element; and documents in which EVERY entry carries one of these. All k
	// entries must come out as from any other document. Every generated
	// document is first read to its end with the standard tokenizer. Own
	// stream, added last.
	nAnnot, nMixed := 0, 0
	{
		saved := rng
		rng = rand.New(rand.NewSource(seed ^ 0x202020202020))
		var gens []func(seqLen int) (string, string, c20Annot)
		for form := range c20ListForms {
			for place := range c20ListPlaces {
				form, place := form, place
				gens = append(gens, func(n int) (string, string, c20Annot) { return c20EvidenceList(rng, form, place, n) })
			}
		}
		for v := range c20Masses {
			v := v
			gens = append(gens, func(n int) (string, string, c20Annot) { return c20MassComment(rng, v, n) })
		}
		for ki := range c20AnnKinds {
			for v := 0; v < c20AnnKinds[ki].variants; v++ {
				kind, v := c20AnnKinds[ki], v
				gens = append(gens, func(n int) (string, string, c20Annot) {
					what, a := kind.gen(rng, v, n)
					return kind.shape, what, a
				})
			}
		}
		build := func(ents []c20Ent) c20Doc {
			d := c20Build(rng, ents, true)
			if err := c20WellFormed(d.text); err != nil {
				t.Fatalf("generator: the standard tokenizer refuses a generated document: %v\n%s", err, d.text)
			}
			return d
		}
		for gi, gen := range gens {
			ks := []int{3}
			if gi%5 == 0 {
				ks = []int{2, 3}
			}
			if thorough {
				ks = []int{1, 2, 3, 9}
			}
			for _, k := range ks {
				positions := []int{[]int{0, 1, 0, 1, 2}[gi%5] % k}
				if thorough {
					positions = []int{0}
					if k > 2 {
						positions = append(positions, k/2)
					}
					if k > 1 {
						positions = append(positions, k-1)
					}
				}
				for _, j := range positions {
					ents := make([]c20Ent, k)
					for i := range ents {
						ents[i] = c20NewEnt(rng, 60)
					}
					shape, what, a := gen(len(ents[j].Seq))
					ents[j].ann = &a
					d := build(ents)
					where := "middle"
					switch {
					case k == 1:
						where = "only"
					case j == 0:
						where = "first"
					case j == k-1:
						where = "last"
					}
					desc := fmt.Sprintf("entry %d of %d (the %s one) has %s; %s; the entry: %s", j+1, k, where, what, docDesc(d), strconv.Quote(c20Clip(string(d.text[d.start[j]:d.end[j]]), 900)))
					mode := (gi + k + j) % 2
					addParse(d.text, mode, true, shape, d.ents, false, desc)
					if gi%3 == 0 && k == 3 {
						addRead(c20Gzip(d.text), 1-mode, true, shape, d.ents, false, desc)
					}
					nAnnot++
				}
			}
		}
		mixed := 12
		if thorough {
			mixed = 300
		}
		for m := 0; m < mixed; m++ {
			k := []int{5, 20, 60}[m%3]
			ents := make([]c20Ent, k)
			shapes := make([]string, k)
			var whats []string
			for i := range ents {
				ents[i] = c20NewEnt(rng, 60)
				shape, what, a := gens[rng.Intn(len(gens))](len(ents[i].Seq))
				ents[i].ann, shapes[i] = &a, shape
				if i < 8 {
					whats = append(whats, fmt.Sprintf("entry %d: %s", i+1, what))
				}
			}
			d := build(ents)
			desc := "every entry carries one annotation of the kinds of this part, drawn at random (" + strings.Join(whats, "; ") + map[bool]string{true: "; ..."}[k > 8] + "); " + docDesc(d)
			addParse(d.text, m%2, true, "annotated-entries-mixed", d.ents, false, desc)
			specs[len(specs)-1].shapes = shapes
			if m%4 == 0 {
				addRead(c20Gzip(d.text), 1-m%2, true, "annotated-entries-mixed", d.ents, false, desc)
				specs[len(specs)-1].shapes = shapes
			}
			nMixed++
		}
		rng = saved
	}

	// (9) both tiers: well-formed documents in the layout of the real dump whose
	// entries carry the values that uniprot.xsd ENUMERATES for an attribute -
	// every value of every enumeration of c20Enums once: one document of k = 3
	// entries (dataset: k in {1, 2, 3, 9}, every position) of which ONE carries
	// the value -, documents in which EVERY entry is a TrEMBL entry, and
	// documents in which the datasets go Swiss-Prot / TrEMBL in turn (a dump
	// that mixes reviewed and unreviewed entries) and every entry carries one
	// further value drawn at random. All k entries must come out as from any
	// other document. Every document is first read to its end with the
	// standard tokenizer. Own stream, added last.
	nEnum, nEnumAll, nEnumMixed := 0, 0, 0
	{
		saved := rng
		rng = rand.New(rand.NewSource(seed ^ 0x20202020202020))
		build := func(ents []c20Ent) c20Doc {
			d := c20Build(rng, ents, true)
			if err := c20WellFormed(d.text); err != nil {
				t.Fatalf("generator: the standard tokenizer refuses a generated document: %v\n%s", err, d.text)
			}
			return d
		}
		newEnts := func(k int) []c20Ent {
			ents := make([]c20Ent, k)
			for i := range ents {
				ents[i] = c20NewEnt(rng, 60)
			}
			return ents
		}
		gi := 0
		for ei, en := range c20Enums {
			for vi, val := range en.values {
				type kj struct{ k, j int }
				places := []kj{{3, []int{0, 1, 0, 1, 2}[gi%5]}}
				if ei == 0 { // the dataset: every position of small documents
					places = []kj{{1, 0}, {2, 0}, {2, 1}, {3, 0}, {3, 1}, {3, 2}, {9, 0}, {9, 4}, {9, 8}}
				} else if thorough {
					places = []kj{{1, 0}, {2, 1}, {3, 0}, {3, 1}, {3, 2}, {9, 4}}
				}
				for _, pl := range places {
					ents := newEnts(pl.k)
					a := en.gen(rng, val, len(ents[pl.j].Seq))
					ents[pl.j].ann = &a
					d := build(ents)
					desc := fmt.Sprintf("entry %d of %d has %s = %q (value %d of the %d the schema lists); %s; the entry: %s", pl.j+1, pl.k, en.attr, val, vi+1, len(en.values), docDesc(d), strconv.Quote(c20Clip(string(d.text[d.start[pl.j]:d.end[pl.j]]), 900)))
					if !en.schema {
						desc = fmt.Sprintf("entry %d of %d has %s = %q; %s; the entry: %s", pl.j+1, pl.k, en.attr, val, docDesc(d), strconv.Quote(c20Clip(string(d.text[d.start[pl.j]:d.end[pl.j]]), 900)))
					}
					mode := (gi + pl.k + pl.j) % 2
					addParse(d.text, mode, true, en.shape, d.ents, false, desc)
					if (gi%3 == 0 || ei == 0) && pl.k == 3 {
						addRead(c20Gzip(d.text), 1-mode, true, en.shape, d.ents, false, desc)
					}
					nEnum++
				}
				gi++
			}
		}
		// every entry a TrEMBL entry (what uniprot_trembl.xml looks like)
		for _, k := range []int{1, 2, 3, 9, 40} {
			ents := newEnts(k)
			for i := range ents {
				ents[i].ann = &c20Annot{dataset: "TrEMBL"}
			}
			d := build(ents)
			desc := fmt.Sprintf("every one of the %d entries has dataset=\"TrEMBL\"; %s", k, docDesc(d))
			addParse(d.text, k%2, true, c20Enums[0].shape, d.ents, false, desc)
			addRead(c20Gzip(d.text), 1-k%2, true, c20Enums[0].shape, d.ents, false, desc)
			nEnumAll++
		}
		// datasets in turn, and one further enumerated value per entry
		mixed := 6
		if thorough {
			mixed = 200
		}
		for m := 0; m < mixed; m++ {
			k := []int{6, 40, 120}[m%3]
			ents := newEnts(k)
			shapes := make([]string, k)
			var whats []string
			for i := range ents {
				en := c20Enums[1+rng.Intn(len(c20Enums)-1)]
				val := en.values[rng.Intn(len(en.values))]
				a := en.gen(rng, val, len(ents[i].Seq))
				a.dataset = c20Enums[0].values[(i+m)%2]
				if m%3 == 2 { // runs of three of a kind
					a.dataset = c20Enums[0].values[(i/3+m)%2]
				}
				ents[i].ann, shapes[i] = &a, en.shape
				if a.dataset == "TrEMBL" {
					// all one-value documents are Swiss-Prot ones: what sets this entry
					// apart from them is its dataset
					shapes[i] = c20Enums[0].shape
				}
				if i < 6 {
					whats = append(whats, fmt.Sprintf("entry %d: dataset %s, %s = %q", i+1, a.dataset, en.attr, val))
				}
			}
			d := build(ents)
			desc := "datasets Swiss-Prot and TrEMBL in turn and every entry with one further enumerated value drawn at random (" + strings.Join(whats, "; ") + map[bool]string{true: "; ..."}[k > 6] + "); " + docDesc(d)
			addParse(d.text, m%2, true, "enumerated-values-mixed", d.ents, false, desc)
			specs[len(specs)-1].shapes = shapes
			if m%2 == 0 {
				addRead(c20Gzip(d.text), 1-m%2, true, "enumerated-values-mixed", d.ents, false, desc)
				specs[len(specs)-1].shapes = shapes
			}
			nEnumMixed++
		}
		rng = saved
	}

	// (10) both tiers: well-formed documents, compact and in the layout of the
	// real dump, in which the character data of an entry's own <sequence>
	// element begins and/or ends with white space or has white space between
	// the residues: blank, two blanks, tab, newline, CR LF, newline or CR LF
	// plus indentation before the first and/or after the last residue
	// (c20SeqEdges); the residues in one piece, in blocks separated by blanks or
	// tabs, on several lines separated by newline, CR LF or newline plus
	// indentation, and in the 6 x 10 layout of older UniProt dumps
	// (c20SeqWraps). ONE entry among k (first, middle or last) has such a
	// sequence element, or EVERY entry has one. The expected sequence text is
	// not the generator's: it is read back from the finished document with the
	// standard tokenizer (c20DocSeqTexts) - the character data as written, CR LF
	// handed on as LF as every XML processor must, nothing trimmed or joined.
	// Own stream, added last.
	nSeqWS, nSeqWSMixed := 0, 0
	{
		saved := rng
		rng = rand.New(rand.NewSource(seed ^ 0x2020202020202020))
		type combo struct{ lead, wrap, trail int }
		nE, nW := len(c20SeqEdges), len(c20SeqWraps)
		randomCombo := func() combo {
			for {
				c := combo{rng.Intn(nE), rng.Intn(nW), rng.Intn(nE)}
				if c != (combo{}) {
					return c
				}
			}
		}
		var combos []combo
		if thorough {
			for l := 0; l < nE; l++ {
				for w := 0; w < nW; w++ {
					for tr := 0; tr < nE; tr++ {
						if c := (combo{l, w, tr}); c != (combo{}) {
							combos = append(combos, c)
						}
					}
				}
			}
		} else {
			for e := 1; e < nE; e++ {
				combos = append(combos, combo{e, 0, 0}, combo{0, 0, e}, combo{e, 0, e})
			}
			for w := 1; w < nW; w++ {
				combos = append(combos, combo{0, w, 0}, combo{1 + (w*3)%(nE-1), w, 1 + (w*5)%(nE-1)})
			}
			combos = append(combos, combo{4, nW - 1, 4}) // older dumps: newline, 6 x 10 residues per line, newline
			for i := 0; i < 8; i++ {
				combos = append(combos, randomCombo())
			}
		}
		classOf := func(c combo) string {
			if c.lead != 0 || c.trail != 0 {
				return "sequence-text-with-edge-whitespace"
			}
			return "sequence-text-with-inner-whitespace"
		}
		whatOf := func(c combo) string {
			return fmt.Sprintf("%s between the start tag and the first residue, %s, %s between the last residue and the end tag", c20SeqEdges[c.lead].what, c20SeqWraps[c.wrap].what, c20SeqEdges[c.trail].what)
		}
		// wsEnt draws an entry and lays its residues out with the white space of c
		// (enough residues for the wrapping to show: more than one block, more than
		// one line)
		wsEnt := func(c combo) c20Ent {
			e := c20NewEnt(rng, 60)
			res := e.Seq
			if w := c20SeqWraps[c.wrap]; w.block > 0 {
				min := w.block + 1
				if w.perLine > 1 && w.perLine < 1<<30 && rng.Intn(3) > 0 {
					min = w.block*w.perLine + 1
				}
				res = c20Word(rng, c20Amino, min, c20Max(150, 2*min))
			}
			e.Seq, e.seqRaw, e.seqRes = "", c20SeqLayout(res, c.lead, c.wrap, c.trail), len(res)
			return e
		}
		// build lays the document out and takes the expected sequence texts from an
		// independent read of it with the standard tokenizer
		build := func(ents []c20Ent, rich bool) c20Doc {
			d := c20Build(rng, ents, rich)
			texts, err := c20DocSeqTexts(d.text)
			if err != nil {
				t.Fatalf("generator: the standard tokenizer refuses a generated document: %v\n%s", err, d.text)
			}
			if len(texts) != len(ents) {
				t.Fatalf("generator: the standard tokenizer finds %d entry sequence elements in a document of %d entries\n%s", len(texts), len(ents), d.text)
			}
			for i := range ents {
				if ents[i].seqRaw == "" {
					if texts[i] != ents[i].Seq {
						t.Fatalf("generator: the standard tokenizer reads sequence text %q where %q was written\n%s", texts[i], ents[i].Seq, d.text)
					}
					continue
				}
				// XML 1.0, 2.11: CR LF and any CR not followed by LF are passed on as one LF; nothing else happens to character data without references
				if model := strings.ReplaceAll(strings.ReplaceAll(ents[i].seqRaw, "\r\n", "\n"), "\r", "\n"); texts[i] != model {
					t.Fatalf("generator: the standard tokenizer reads sequence text %q where %q was written (expected it to report %q)", texts[i], ents[i].seqRaw, model)
				}
				d.ents[i].Seq = texts[i]
			}
			return d
		}
		for ci, c := range combos {
			ks := []int{3}
			if thorough {
				ks = []int{1, 2, 3, 9}
			}
			for _, k := range ks {
				positions := []int{[]int{0, 1, 0, 1, 2}[ci%5] % k}
				if thorough {
					positions = []int{0}
					if k > 2 {
						positions = append(positions, k/2)
					}
					if k > 1 {
						positions = append(positions, k-1)
					}
				}
				for _, j := range positions {
					ents := make([]c20Ent, k)
					for i := range ents {
						ents[i] = c20NewEnt(rng, 60)
					}
					ents[j] = wsEnt(c)
					rich := (ci+k+j)%2 == 0
					d := build(ents, rich)
					where := "middle"
					switch {
					case k == 1:
						where = "only"
					case j == 0:
						where = "first"
					case j == k-1:
						where = "last"
					}
					desc := fmt.Sprintf("entry %d of %d (the %s one) has a sequence element whose character data has %s: written %s, reported by the standard tokenizer as %s; %s", j+1, k, where, whatOf(c), strconv.Quote(c20Clip(ents[j].seqRaw, 160)), strconv.Quote(c20Clip(d.ents[j].Seq, 160)), docDesc(d))
					mode := (ci + k + j) % 2
					addParse(d.text, mode, true, classOf(c), d.ents, false, desc)
					specs[len(specs)-1].quoteSeq = true
					if ci%3 == 0 && k == 3 {
						addRead(c20Gzip(d.text), 1-mode, true, classOf(c), d.ents, false, desc)
						specs[len(specs)-1].quoteSeq = true
					}
					nSeqWS++
				}
			}
		}
		mixed := 6
		if thorough {
			mixed = 200
		}
		for m := 0; m < mixed; m++ {
			k := []int{5, 20, 60}[m%3]
			ents := make([]c20Ent, k)
			shapes := make([]string, k)
			var whats []string
			for i := range ents {
				c := randomCombo()
				ents[i], shapes[i] = wsEnt(c), classOf(c)
				if i < 4 {
					whats = append(whats, fmt.Sprintf("entry %d: %s", i+1, whatOf(c)))
				}
			}
			d := build(ents, m%2 == 0)
			desc := "every entry has a sequence element whose character data holds white space, drawn at random (" + strings.Join(whats, "; ") + "; ...); " + docDesc(d)
			addParse(d.text, m%2, true, "sequence-whitespace-mixed", d.ents, false, desc)
			specs[len(specs)-1].shapes, specs[len(specs)-1].quoteSeq = shapes, true
			if m%2 == 0 {
				addRead(c20Gzip(d.text), 1-m%2, true, "sequence-whitespace-mixed", d.ents, false, desc)
				specs[len(specs)-1].shapes, specs[len(specs)-1].quoteSeq = shapes, true
			}
			nSeqWSMixed++
		}
		rng = saved
	}

	// ------------------------------------------------------------ observe
	queues := make([][]c20Case, workers)
	// damaged cases (which may each cost a full deadline) are spread evenly
	order := make([]int, len(specs))
	for i := range order {
		order[i] = i
	}
	sort.SliceStable(order, func(a, b int) bool { return !specs[order[a]].wellForm && specs[order[b]].wellForm })
	for n, i := range order {
		queues[n%workers] = append(queues[n%workers], specs[i].c)
	}
	obs := map[int]c20Obs{}
	var obsMu sync.Mutex
	var wg sync.WaitGroup
	for q := range queues {
		wg.Add(1)
		go func(q int) {
			defer wg.Done()
			c20RunQueue(t, dir, q, queues[q], deadlineMs, kill, obs, &obsMu)
		}(q)
	}
	wg.Wait()

	// ------------------------------------------------------------ judge
	common := fmt.Sprintf("each call of Parse/Read in a child process (address space limited to 2 GiB), deadline %d ms per case (the largest document parses in a few ms), child killed after %v without progress; consumer either drains entries and then errors (documented usage) or both concurrently; ", deadlineMs, kill)
	vE := newVerifRun("C20", "io/uniprot.Parse/post/entries", common+
		fmt.Sprintf("well-formed documents with every k in 0..200 entries (%d seeded document(s) each; 1..3 accessions, 1..2 names, sequence text 1..60 letters; compact layout or the layout of the real dump with prolog, attributes, nested <name> elements, comments, copyright), channel capacities drawn from 0..100 with every capacity 0..100 used on each channel, plus cuts of small documents that lose only trailing white space; "+
			"plus %d documents in the layout of the real dump with k in {1, 2, 3, 9} entries (large sequences in the quick tier: k = 3 only) of which ONE, in first, middle or last position, carries a large number: entry version in %v (class version-attribute-beyond-255), sequence version in %v (sequence-version-attribute-beyond-255), "+
			"a sequence of %v letters with its length and mass = 110 x length as attributes (sequence-length-and-mass-large), chain and single-position features ending at that length (feature-position-large), an evidence element with key in %v referred to by two features (evidence-key-large); all k entries with accessions, names and sequence text demanded as for any other document; "+
			"plus %d documents in the layout of the real dump with k in {1, 3} entries of which ONE (position rotating) carries a valid xsd:date on a leap day or calendar edge, one of %v, as the created or the modified attribute of the entry, as the modified attribute of its sequence element, or as all three (quick tier: k = 1 only with all three); classes leap-day-date (dates on 29 February) and calendar-edge-date; all k entries demanded as for any other document; "+
			"plus %d documents in the layout of the real dump with k = 3 (every fifth shape also k = 2; thorough tier k in {1, 2, 3, 9}) entries of which ONE (quick tier: first, middle or last in turn, the last one least often; thorough tier: each of them) carries annotation of the kinds the real schema has, every document checked with the standard tokenizer beforehand: "+
			"an evidence attribute holding an xs:list of 2..4 integers on a keyword, a feature, the text of a comment, a dbReference, the strain of a reference source or the begin position of a feature, with its <evidence key=...> elements, in %d lexical forms: items separated by single blanks (class evidence-list-several-items) and, class evidence-list-irregular-whitespace, by two blanks, a tab, a newline, a newline plus indentation, single blanks with a blank before the first item, with a blank after the last item, tabs with blanks at both ends (XML Schema: any run of white space separates list items, white space at the ends is not part of the value); "+
			"<comment type=\"mass spectrometry\" mass=... method=... error=...> with a location and mass in %v (classes mass-with-fraction, mass-integral, mass-in-exponent-notation; mass is an xs:float); "+
			"interaction comments with organismsDiffer true/false and experiments in {2, 3, 17, 128, 300} (interaction-comment); alternative products with two isoforms having <id>, <name> and an empty <sequence> element of their own (alternative-products-comment); biophysicochemical properties with absorption, kinetics, pH, redox and temperature texts (biophysicochemical-comment); catalytic activity with reaction and physiologicalReaction, cofactor (catalytic-activity-and-cofactor-comments); subcellular location, disease, online information (subcellular-location-and-disease-comments); "+
			"sequence caution with a conflict holding <sequence resource=... version=\"1|2|12\"/> (sequence-caution-comment); features located by positions with a status attribute and without a number (feature-position-status); sequence variant and splice variant features with <original>/<variation> (variant-features); references with citation dates 2003, 2003-05, 2003-05-17, 1987-03, author lists, scopes, sources (reference-citation); dbReference elements with properties and molecule, proteinExistence (db-reference-and-protein-existence); precursor and fragment attributes on the entry's sequence element (sequence-precursor-fragment-attributes); "+
			"plus %d documents of k in {5, 20, 60} entries in which EVERY entry carries one of these annotations drawn at random (class: that of the first entry that arrives wrong; annotated-entries-mixed if entries are only missing); all k entries with accessions, names and sequence text demanded as for any other document; "+
			"plus enumerated attribute values: %d documents in the layout of the real dump, each checked with the standard tokenizer beforehand, of k = 3 entries (thorough tier k in {1, 2, 3, 9}; for the dataset k in {1, 2, 3, 9} and every position in both tiers) of which ONE (first, middle or last in turn) carries one value of an attribute that uniprot.xsd restricts to an enumeration or types xs:boolean, EVERY value of every such attribute once: %s; "+
			"plus %d documents of k in {1, 2, 3, 9, 40} entries that are ALL dataset=\"TrEMBL\" entries; plus %d documents of k in {6, 40, 120} entries whose datasets go Swiss-Prot, TrEMBL in turn (every third document: in runs of three) and in which every entry carries one further of these values drawn at random (class enumerated-values-mixed if entries are only missing, else that of the first entry that arrives wrong: its dataset class if it is a TrEMBL entry, else the class of its other value); a valid document whichever values it carries: all k entries with accessions, names and sequence text demanded as for any other document; "+
			"plus white space in the sequence text: %d documents, compact and in the layout of the real dump in turn, of k = 3 entries (thorough tier k in {1, 2, 3, 9}, each of first, middle and last) of which ONE (quick tier: first, middle or last in turn) has a <sequence> element whose character data begins and/or ends with white space or has white space between the residues: before the first residue and after the last one each of %s; %s; "+
			"quick tier: every edge form before the first residue only, after the last residue only and at both ends with the residues in one piece, every wrapping form alone and with edge white space, the older-dump layout between two newlines, 8 combinations drawn at random; thorough tier: EVERY combination of the %d x %d x %d forms; classes sequence-text-with-edge-whitespace (white space at an end, with or without white space inside) and sequence-text-with-inner-whitespace (white space between residues only); "+
			"plus %d documents of k in {5, 20, 60} entries in which EVERY entry has such a sequence element, forms drawn at random (class sequence-whitespace-mixed if entries are only missing, else that of the first entry that arrives wrong); expected sequence text = the character data of the entry's own sequence element as an independent read of the finished document with the standard tokenizer (encoding/xml Decoder.Token) reports it, i.e. the text as written in the document, white space included, CR LF handed on as LF (XML 1.0, 2.11), nothing trimmed or joined; accessions, names and all k entries demanded as for any other document; "+
			"non-trivial = k >= 1",
			reps, nLarge, c20LargeVersions, c20LargeSeqVersions, c20LargeSeqLens, c20LargeEvidenceKeys, nDates, c20Dates, nAnnot, len(c20ListForms), c20MassValues(), nMixed, nEnum, c20EnumText(), nEnumAll, nEnumMixed,
			nSeqWS, c20SeqEdgeText(), c20SeqWrapText(), len(c20SeqEdges), len(c20SeqWraps), len(c20SeqEdges), nSeqWSMixed))
	vD := newVerifRun("C20", "io/uniprot.Parse/post/damaged-prefix", common+
		fmt.Sprintf("%d small document(s) (<= 3 entries; compact, without XML declaration in the quick tier) cut at EVERY byte offset before the end of the root element (exhaustive, %s), and, in both tiers, one small document (2 entries, "+strconv.Itoa(len(prologDoc.text))+" bytes) that starts with an XML declaration, a newline, a comment '<!-- comment -->' and a newline before the <uniprot ...> root, also cut at EVERY byte offset, so that cuts inside and right after the declaration, inside and right after the comment, in the white space before the root and inside the root start tag are all covered (each must report >= 1 error and close both channels; class stem truncated-before-root); %d larger documents (2..200 entries) damaged in or before a chosen entry: mismatched end tag, '< ' or '& ' in text, byte 0x01, missing </entry>, unterminated start tag, '<<' between entries, cut at a random offset; plain through Parse (capacities 0..100), gzip-compressed through Read, and gzip files cut at a random offset (expected entries = those wholly inside what the standard decompressor recovers); demanded: expected entries first and in order, >= 1 error (on the channel, or returned by Read), both channels closed; non-trivial = every case",
			len(small), map[bool]string{true: "both consumers", false: "consumers alternating"}[thorough], nBig))
	vT := newVerifRun("C20", "io/uniprot.Parse/terminates", common+"every case of the clauses entries, damaged-prefix and gzip: the consumer returns (both channels seen closed) before the deadline; non-trivial = every case")
	vG := newVerifRun("C20", "io/uniprot.Read/post/gzip", common+"well-formed documents (k = 0..3 and every 8th k up to 200) gzip-compressed into a temp file and read through Read (capacities fixed by Read at 100/100); same demands as the entries clause; plus every k = 3 document of the large-number part of the entries clause (entry version up to "+strconv.Itoa(c20LargeVersions[len(c20LargeVersions)-1])+", sequence version, sequence length and mass, feature positions, evidence key; same classes) and every k = 3 document with all three dates set of the date part of the entries clause (classes leap-day-date, calendar-edge-date); plus every third k = 3 document of the annotation part of the entries clause (evidence lists in all white-space forms, mass spectrometry and the other comment kinds, typed attributes; same classes) and every fourth document of its mixed part; plus of the enumerated-value part of the entries clause every k = 3 dataset document, every third k = 3 document of the other attributes, every all-TrEMBL document and every second document with the datasets in turn (same classes); plus of the sequence white-space part of the entries clause every third k = 3 document (sequence character data with white space at its ends and/or between the residues; classes sequence-text-with-edge-whitespace, sequence-text-with-inner-whitespace) and every second document of its mixed part (sequence-whitespace-mixed); "+
		fmt.Sprintf("plus %d gzip files made of SEVERAL members (RFC 1952: a gzip file is a series of members and stands for the concatenation of their contents; pigz, bgzip and concatenated .gz parts look like this): well-formed documents of k in %s entries, the XML text split at byte positions and each piece written by its own gzip.Writer, the outputs concatenated: 2 members with the boundary after the first byte, inside the root start tag, right before an entry, right after entry 1, inside an entry; 4 members (before the first entry, after the last entry, before the last byte); 2..6 members at random byte offsets (two files per k); some with an additional member that holds no data at a random place; each file is first checked with the standard decompressor to stand for the document; all k entries demanded in order, both channels closed (class multi-member-gzip); ", nMulti, map[bool]string{true: "{1, 2, 3, 4, 5, 9, 20, 40, 100, 200}", false: "{1, 2, 3, 9, 40}"}[thorough])+
		"non-trivial = k >= 1")
	for _, v := range []*verifRun{vE, vD, vT, vG} {
		v.Sampled()
	}
	for _, s := range specs {
		o, ok := obs[s.c.ID]
		if !ok {
			t.Errorf("no observation for case %d (%s)", s.c.ID, c20Clip(s.desc, 200))
			continue
		}
		v := vE
		switch {
		case !s.wellForm:
			v = vD
		case s.viaRead:
			v = vG
		}
		key := "#" + strconv.Itoa(s.c.ID) + " " + c20Clip(s.desc, 150)
		v.Case(key, !s.wellForm || len(s.want) > 0)
		vT.Case(key, true)
		stem := s.shape
		if s.wellForm && s.shape == "" {
			stem = "well-formed"
		}
		state := fmt.Sprintf("after %d ms: %d entr(ies) received, %d error(s) received (first: %q), entries closed %v, errors closed %v", o.ElapsedMs, len(o.Entries), o.NErr, c20Clip(o.FirstErr, 80), o.EClosed, o.XClosed)
		if o.OpenErr != "" {
			// Read refused the file: the error is reported by the call itself and nothing is left running
			if s.wellForm && s.shape != "" {
				v.Fail(stem+"-read-refused", s.desc, "Read returned error "+o.OpenErr)
			} else if s.wellForm {
				v.Fail("read-refused", s.desc, "Read returned error "+o.OpenErr)
			} else if len(s.want) > 0 {
				v.Fail(stem+"-entries-missing", s.desc, "Read returned error "+o.OpenErr+" but "+strconv.Itoa(len(s.want))+" whole entries precede the damage")
			}
			continue
		}
		if o.Panic != "" {
			v.Fail(stem+"-panic", s.desc, "panic: "+c20Clip(o.Panic, 300))
			continue
		}
		if o.Hung || !o.EClosed || !o.XClosed {
			cl := stem
			if s.wellForm {
				cl = stem + "-not-terminated"
			}
			vT.Fail(cl, s.desc, "consumer still blocked "+state)
			v.Fail(cl, s.desc, "not terminated with both channels closed "+state)
		}
		// entries: exact for well-formed input, leading for damaged input
		bad, badAt := "", -1
		for i, w := range s.want {
			if i >= len(o.Entries) {
				bad = fmt.Sprintf("only %d of the %d expected entries arrived", len(o.Entries), len(s.want))
				break
			}
			if !c20EntsEqual(o.Entries[i], w) {
				show := c20ShowEnt
				if s.quoteSeq {
					show = c20ShowEntQ
				}
				bad, badAt = fmt.Sprintf("entry %d is %s, want %s", i+1, show(o.Entries[i]), show(w)), i
				break
			}
		}
		if bad == "" && s.wellForm && len(o.Entries) != len(s.want) {
			bad = fmt.Sprintf("%d entries arrived, want exactly %d", len(o.Entries), len(s.want))
		}
		if bad != "" && !o.Lost {
			cl := stem + "-entries-missing"
			if s.wellForm {
				cl = "entries-differ"
				if s.shape != "" {
					cl = s.shape // a well-formed document of a named shape (part 5)
				}
				if badAt >= 0 && badAt < len(s.shapes) {
					cl = s.shapes[badAt] // the shape of the first entry that arrived wrong
				}
			}
			v.Fail(cl, s.desc, bad+"; "+state)
		}
		if s.needError && o.NErr == 0 && !o.Hung {
			v.Fail(stem+"-no-error", s.desc, "no error reported; "+state)
		}
	}
	vE.Done()
	vD.Done()
	vT.Done()
	vG.Done()
}

// numbers of the documents of part (5)
var (
	c20LargeVersions     = []int{256, 257, 300, 1000, 32768, 65535, 65536, 100000}
	c20LargeSeqVersions  = []int{256, 300}
	c20LargeSeqLens      = []int{32768, 35213, 65536}
	c20LargeEvidenceKeys = []int{256, 1000, 65536}
	// dates of part (7): leap days (of years divisible by 4, and of 2000, which is divisible by 400), the days around them, month and year ends
	c20Dates = []string{"2000-02-29", "2004-02-29", "1996-02-29", "2012-12-31", "2000-03-01", "1999-12-31", "1988-02-29", "2020-02-29", "2000-02-28", "2000-12-31", "2001-01-01", "1999-02-28", "2010-01-31", "2011-11-30"}
)

// c20SeqEdgeText, c20SeqWrapText: the forms of part (10) for the domain text.
func c20SeqEdgeText() string {
	var parts []string
	for _, e := range c20SeqEdges {
		parts = append(parts, e.what+" "+strconv.Quote(e.ws))
	}
	return "{" + strings.Join(parts, ", ") + "}"
}

func c20SeqWrapText() string {
	var parts []string
	for _, w := range c20SeqWraps {
		parts = append(parts, w.what)
	}
	return "the residues (1..60 letters in one piece, otherwise more than one block or line and up to 150 letters) laid out as one of: " + strings.Join(parts, " / ")
}

func c20MassValues() []string {
	var out []string
	for _, m := range c20Masses {
		out = append(out, m.mass)
	}
	return out
}

func c20Max(a, b int) int {
	if a > b {
		return a
	}
	return b
}
