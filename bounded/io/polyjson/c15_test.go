package polyjson

// Bounded back end for C15: JSON is a lossless interchange form.
//
// Generated annotated sequences are written with Write into a temporary
// directory and read back with Read / Parse; the result is compared field by
// field with the value that went in (the ParentSequence pointer itself is not
// compared), every feature must be
// re-linked so that GetSequence gives what an independent evaluation of its
// location gives on the original sequence, and GenBank / GFF text laid out by
// generators in this file must come out of Build identically whether or not
// the parsed value went through JSON in between.
//
// ABSENT and EMPTY collections. The JSON form itself tells an absent
// collection (nil, written as null) from an empty one (non-nil of length 0,
// written as [] or {}), and with the tags of the code base both shapes survive
// the trip. So a collection given as absent must come back absent and one given
// as empty must come back empty, for Meta.References, Meta.Other,
// Feature.Attributes and Location.SubLocations at every depth (classes
// empty-collection-became-absent, absent-collection-became-empty; they are
// judged only on a value that is otherwise equal in every field). The one
// exception is Sequence.Features: Parse itself moves the features over into a
// fresh list (sequence.Features = []poly.Feature{} followed by AddFeature for
// each, which is how the parent links are restored), so an absent feature list
// comes back empty on the unchanged code base and the two shapes cannot be told
// apart there; for that field nil and empty count as equal. The generators
// draw both shapes for every one of these fields, SubLocations of leaves at
// every depth of the tree.
//
// A part of the records carries the text Name (as JSON key, as string value,
// inside strings) together with integers beyond 2^53, which are not all
// float64 values: every integer must come back exactly.
//
// A further part of the records (c15WrapperRecord) has location trees with the
// kinds of node the other parts never draw: a plain node (neither Join nor
// Complement, no bounds) around a single operand, at the root or below it,
// single operands under flagged nodes, several operands without the Join flag.
// Every node must come back as written (classes wrapper-node-at-root,
// wrapper-node-inside, single-operand-node-with-flags-or-bounds,
// several-operands-without-join-flag).
//
// A further part of the records (c15EscRecord) has, in one to three of its text
// fields or map keys, text made of the characters the JSON form has to escape
// and of text that LOOKS like such an escape: a literal backslash in front of
// u003c, u003e, u0026 (what encoding/json writes for <, >, &), in front of n, t,
// a double quote, another backslash, at the end of the text; the characters <,
// >, & themselves, quotes, tab, newline and the other control characters,
// U+2028 and U+2029. Every text must come back as written (classes
// text-with-backslash-escape-lookalike, text-with-backslash,
// text-with-json-escaped-characters, by what the texts put in contain). The
// same words are put into generated GenBank and GFF text for the two
// conversion clauses.
//
// Besides single round trips on a path there are HISTORIES on one path: three
// different documents are written to the same path one after the other and the
// path is read after every write; each Read must give the document written
// last. The documents of a history are brought to exactly the same byte size
// and the modification time of the file is set to the same whole second after
// every write (os.Chtimes), or only one of the two, or neither.

import (
	"bytes"
	"encoding/json"
	"fmt"
	"io/ioutil"
	"math/rand"
	"os"
	"path/filepath"
	"reflect"
	"regexp"
	"strconv"
	"strings"
	"sync"
	"testing"
	"time"

	"github.com/TimothyStiles/poly"
	"github.com/TimothyStiles/poly/io/genbank"
	"github.com/TimothyStiles/poly/io/gff"
)

// ------------------------------------------------------------ content ----

var c15Words = []string{
	"", "a", "pUC19", "Escherichia coli", "lacZ alpha", "14-OCT-2020", "1.0", "+", "-", ".", "0",
	"gene product with spaces", "tab\there", "two\nlines", "quote\"inside", "back\\slash", "slash/inside", "a=b;c=d",
	"<html> & 'apos'", "caf\u00e9", "Stra\u00dfe", "\u65e5\u672c\u8a9e\u306e\u6ce8\u91c8", "\u03a9 \u03b2-lactamase", "\U0001F9EC dna",
	"e\u0301 combining", "line\u2028separator", "nul\u0000byte", "\u00a0nbsp", " leading and trailing ", "\ufeffbom",
}

func c15Text(rng *rand.Rand) string {
	switch rng.Intn(6) {
	case 0:
		return c15Words[rng.Intn(len(c15Words))] + " " + c15Words[rng.Intn(len(c15Words))]
	case 1: // random code points, valid UTF-8 only (JSON text cannot carry anything else)
		n := rng.Intn(12)
		var b strings.Builder
		for i := 0; i < n; i++ {
			var r rune
			switch rng.Intn(4) {
			case 0:
				r = rune(rng.Intn(0x80))
			case 1:
				r = rune(0x80 + rng.Intn(0x780))
			case 2:
				r = rune(0x800 + rng.Intn(0xD000-0x800))
			default:
				r = rune(0x10000 + rng.Intn(0x10000))
			}
			b.WriteRune(r)
		}
		return b.String()
	default:
		return c15Words[rng.Intn(len(c15Words))]
	}
}

func c15Int(rng *rand.Rand) int {
	switch rng.Intn(5) {
	case 0:
		return 0
	case 1:
		return -rng.Intn(1000)
	case 2:
		return int(rng.Int63())
	default:
		return rng.Intn(100000)
	}
}

func c15DNA(rng *rand.Rand, n int) string {
	b := make([]byte, n)
	for i := range b {
		b[i] = "ACGT"[rng.Intn(4)]
	}
	return string(b)
}

// c15Loc draws a location structure valid for a sequence of length n, nested
// at most depth deep; flags are set on any node, leaves have nil or empty
// SubLocations.
func c15Loc(rng *rand.Rand, n, depth int) poly.Location {
	l := poly.Location{
		Complement:        rng.Intn(3) == 0,
		FivePrimePartial:  rng.Intn(4) == 0,
		ThreePrimePartial: rng.Intn(4) == 0,
	}
	if depth == 0 || rng.Intn(3) == 0 {
		if n > 0 {
			l.Start = rng.Intn(n)
			l.End = l.Start + 1 + rng.Intn(n-l.Start)
		}
		if rng.Intn(2) == 0 {
			l.SubLocations = []poly.Location{}
		}
		return l
	}
	l.Join = true
	k := 2 + rng.Intn(3)
	for i := 0; i < k; i++ {
		l.SubLocations = append(l.SubLocations, c15Loc(rng, n, depth-1))
	}
	return l
}

func c15LocDepth(l poly.Location) int {
	d := 0
	for _, s := range l.SubLocations {
		if x := 1 + c15LocDepth(s); x > d {
			d = x
		}
	}
	return d
}

// c15Kinds says which kinds of node with operands c15LocW may draw besides the
// Join node of 2..4 operands that c15Loc draws.
type c15Kinds struct {
	rootWrapper  bool // at the root: a plain node (neither Join nor Complement, Start == End == 0) around ONE operand
	innerWrapper bool // the same below the root
	single       bool // ONE operand under a node that has the Join flag, the Complement flag or bounds of its own
	multi        bool // 2..3 operands under a node without the Join flag
}

// c15LocW draws a location structure valid for a sequence of length n, nested
// at most depth deep, like c15Loc but with the further kinds of node that
// kinds allows. Whatever its flags and bounds, a node with operands stands for
// the concatenation of its operands (reverse complemented under Complement):
// that is how the code base reads it, and c15EvalLoc likewise. The partial
// flags are drawn on every node.
func c15LocW(rng *rand.Rand, n, depth int, kinds c15Kinds, root bool) poly.Location {
	l := poly.Location{FivePrimePartial: rng.Intn(3) == 0, ThreePrimePartial: rng.Intn(3) == 0}
	if depth == 0 || rng.Intn(4) == 0 {
		l.Complement = rng.Intn(3) == 0
		if n > 0 {
			l.Start = rng.Intn(n)
			l.End = l.Start + 1 + rng.Intn(n-l.Start)
		}
		if rng.Intn(2) == 0 {
			l.SubLocations = []poly.Location{}
		}
		return l
	}
	choices := []int{0}
	if root && kinds.rootWrapper || !root && kinds.innerWrapper {
		choices = append(choices, 1, 1)
	}
	if kinds.single {
		choices = append(choices, 2)
	}
	if kinds.multi {
		choices = append(choices, 3)
	}
	operands := 1
	switch choices[rng.Intn(len(choices))] {
	case 0:
		l.Join, l.Complement, operands = true, rng.Intn(3) == 0, 2+rng.Intn(3)
	case 1: // plain wrapper
	case 2:
		switch rng.Intn(4) {
		case 0:
			l.Join = true
		case 1:
			l.Complement = true
		case 2:
			l.Join, l.Complement = true, true
		default: // bounds of its own, which nothing reads
			l.Start = rng.Intn(n + 1)
			l.End = l.Start + rng.Intn(n-l.Start+1)
			if l.Start == 0 && l.End == 0 {
				l.End = n
			}
		}
	default:
		l.Complement, operands = rng.Intn(3) == 0, 2+rng.Intn(2)
	}
	for i := 0; i < operands; i++ {
		l.SubLocations = append(l.SubLocations, c15LocW(rng, n, depth-1, kinds, false))
	}
	return l
}

// c15LocShape names the kind of node, among those only c15LocW draws, that the
// location trees of a record contain ("" if none): it becomes the class of a
// difference in a location or in a feature's sequence.
func c15LocShape(rec *poly.Sequence) string {
	found := [4]bool{}
	var walk func(l poly.Location, root bool)
	walk = func(l poly.Location, root bool) {
		plain := !l.Join && !l.Complement && l.Start == 0 && l.End == 0
		switch {
		case len(l.SubLocations) == 1 && plain && root:
			found[0] = true
		case len(l.SubLocations) == 1 && plain:
			found[1] = true
		case len(l.SubLocations) == 1:
			found[2] = true
		case len(l.SubLocations) > 1 && !l.Join:
			found[3] = true
		}
		for _, k := range l.SubLocations {
			walk(k, false)
		}
	}
	for _, f := range rec.Features {
		walk(f.SequenceLocation, true)
	}
	for i, class := range []string{"wrapper-node-at-root", "wrapper-node-inside", "single-operand-node-with-flags-or-bounds", "several-operands-without-join-flag"} {
		if found[i] {
			return class
		}
	}
	return ""
}

// c15WrapperRecord gives a small record (0..2 references, 1..3 features,
// sequence length 1..60) whose location trees, at most 4 deep, hold nodes with
// operands other than the Join of 2..4 operands; six variants in turn.
func c15WrapperRecord(rng *rand.Rand, i int) (*poly.Sequence, string) {
	sh := c15Shape{refs: rng.Intn(3), refsNil: rng.Intn(2) == 0, other: rng.Intn(4), features: 1 + rng.Intn(3), attrs: rng.Intn(4), depth: 0, seqLen: 1 + rng.Intn(60)}
	s := c15Record(rng, sh)
	all := c15Kinds{true, true, true, true}
	variant := i % 6
	var text string
	for k := range s.Features {
		depth := 1 + rng.Intn(4)
		var l poly.Location
		switch variant {
		case 0: // one plain wrapper, at the root of the first feature, around a tree of Join nodes and spans
			text = "first feature: plain node (no Join, no Complement, Start = End = 0, partial flags drawn) around one operand, which is a span or a tree of Join nodes; other features spans and Join nodes only"
			l = c15LocW(rng, sh.seqLen, depth-1, c15Kinds{}, false)
			if k == 0 {
				l = poly.Location{FivePrimePartial: rng.Intn(2) == 0, ThreePrimePartial: rng.Intn(2) == 0, SubLocations: []poly.Location{l}}
			}
		case 1: // every feature: plain wrapper at the root around any tree
			text = "every feature: plain node at the root around one operand, which is any tree (plain nodes, single operands under flags, several operands without Join flag)"
			l = poly.Location{FivePrimePartial: rng.Intn(2) == 0, ThreePrimePartial: rng.Intn(2) == 0, SubLocations: []poly.Location{c15LocW(rng, sh.seqLen, depth-1, all, false)}}
		case 2: // plain wrappers below the root only
			text = "plain nodes around one operand below the root only (the root is a span or a Join)"
			for try := 0; try < 50; try++ {
				l = c15LocW(rng, sh.seqLen, 2+rng.Intn(3), c15Kinds{innerWrapper: true}, true)
				if k > 0 || c15LocShape(&poly.Sequence{Features: []poly.Feature{{SequenceLocation: l}}}) != "" {
					break
				}
			}
		case 3: // single operand under a node with flags or bounds
			text = "one operand under a node with the Join flag, the Complement flag, both, or bounds of its own; at the root of the first feature and anywhere else"
			l = c15LocW(rng, sh.seqLen, depth, c15Kinds{single: true}, true)
			if k == 0 {
				l = c15LocW(rng, sh.seqLen, depth-1, c15Kinds{single: true}, false)
				l = poly.Location{Join: rng.Intn(2) == 0, FivePrimePartial: rng.Intn(3) == 0, ThreePrimePartial: rng.Intn(3) == 0, SubLocations: []poly.Location{l}}
				if l.Complement = !l.Join || rng.Intn(2) == 0; rng.Intn(3) == 0 {
					l.Start, l.End = 0, sh.seqLen
				}
			}
		case 4: // several operands without the Join flag
			text = "nodes of 2..3 operands without the Join flag; at the root of the first feature and anywhere else"
			l = c15LocW(rng, sh.seqLen, depth, c15Kinds{multi: true}, true)
			if k == 0 {
				l = poly.Location{Complement: rng.Intn(3) == 0, SubLocations: []poly.Location{c15LocW(rng, sh.seqLen, depth-1, c15Kinds{multi: true}, false), c15LocW(rng, sh.seqLen, depth-1, c15Kinds{multi: true}, false)}}
			}
		default:
			text = "all kinds of node anywhere"
			l = c15LocW(rng, sh.seqLen, depth, all, true)
		}
		s.Features[k].SequenceLocation = l
	}
	depth := 0
	for _, f := range s.Features {
		if d := c15LocDepth(f.SequenceLocation); d > depth {
			depth = d
		}
	}
	first, _ := json.Marshal(s.Features[0].SequenceLocation)
	return s, fmt.Sprintf("wrapper-node record #%d: %d features, sequence length %d, location depth up to %d; %s; location of the first feature (JSON form): %s", i, len(s.Features), len(s.Sequence), depth, text, first)
}

func c15RC(s string) string {
	out := make([]byte, len(s))
	for i := 0; i < len(s); i++ {
		var c byte = '?'
		switch s[i] {
		case 'A':
			c = 'T'
		case 'C':
			c = 'G'
		case 'G':
			c = 'C'
		case 'T':
			c = 'A'
		}
		out[len(s)-1-i] = c
	}
	return string(out)
}

// c15EvalLoc reads a structure in the convention of the code base: a node
// without sub-locations is the stretch Start (0-based) .. End (exclusive), a
// node with sub-locations is their concatenation in order, the Complement flag
// means the reverse complement of the node.
func c15EvalLoc(seq string, l poly.Location) string {
	var s string
	if len(l.SubLocations) == 0 {
		s = seq[l.Start:l.End]
	} else {
		for _, k := range l.SubLocations {
			s += c15EvalLoc(seq, k)
		}
	}
	if l.Complement {
		s = c15RC(s)
	}
	return s
}

func c15Map(rng *rand.Rand, kind int) map[string]string {
	switch kind {
	case 0:
		return nil
	case 1:
		return map[string]string{}
	}
	m := map[string]string{}
	n := 1 + rng.Intn(4)
	if kind == 2 {
		n = 1
	}
	for i := 0; i < n; i++ {
		m[c15Text(rng)] = c15Text(rng)
	}
	return m
}

// shape axes of a generated record
type c15Shape struct {
	refs     int // 0..5; 0 is nil or empty by refsNil
	refsNil  bool
	other    int // 0 nil, 1 empty, 2 one key, 3 several
	features int // -1 nil, 0 empty (nothing added), 1..n
	attrs    int // 0 nil, 1 empty, 2 one, 3 several (first feature; the rest random)
	depth    int // location depth of the first feature, 0..4
	seqLen   int
}

func c15Record(rng *rand.Rand, sh c15Shape) *poly.Sequence {
	s := &poly.Sequence{}
	m := &s.Meta
	m.Name, m.GffVersion, m.Type, m.Date = c15Text(rng), c15Text(rng), c15Text(rng), c15Text(rng)
	m.RegionStart, m.RegionEnd, m.Size = c15Int(rng), c15Int(rng), c15Int(rng)
	m.Definition, m.Accession, m.Version, m.Keywords = c15Text(rng), c15Text(rng), c15Text(rng), c15Text(rng)
	m.Organism, m.Source, m.Origin = c15Text(rng), c15Text(rng), c15Text(rng)
	m.Locus = poly.Locus{Name: c15Text(rng), SequenceLength: c15Text(rng), MoleculeType: c15Text(rng), GenbankDivision: c15Text(rng),
		ModificationDate: c15Text(rng), SequenceCoding: c15Text(rng), Circular: rng.Intn(2) == 0, Linear: rng.Intn(2) == 0}
	if sh.refs == 0 && !sh.refsNil {
		m.References = []poly.Reference{}
	}
	for i := 0; i < sh.refs; i++ {
		m.References = append(m.References, poly.Reference{Index: c15Text(rng), Authors: c15Text(rng), Title: c15Text(rng),
			Journal: c15Text(rng), PubMed: c15Text(rng), Remark: c15Text(rng), Range: c15Text(rng)})
	}
	m.Other = c15Map(rng, sh.other)
	s.Description, s.SequenceHash, s.SequenceHashFunction = c15Text(rng), c15Text(rng), c15Text(rng)
	s.Sequence = c15DNA(rng, sh.seqLen)
	if sh.features == 0 {
		s.Features = []poly.Feature{}
	}
	for i := 0; i < sh.features; i++ {
		attrs, depth := rng.Intn(4), rng.Intn(5)
		if i == 0 {
			attrs, depth = sh.attrs, sh.depth
		}
		f := poly.Feature{Name: c15Text(rng), Source: c15Text(rng), Type: c15Text(rng), Score: c15Text(rng), Strand: c15Text(rng), Phase: c15Text(rng),
			Attributes: c15Map(rng, attrs), GbkLocationString: c15Text(rng), Sequence: c15Text(rng),
			SequenceHash: c15Text(rng), Description: c15Text(rng), SequenceHashFunction: c15Text(rng)}
		for try := 0; ; try++ {
			f.SequenceLocation = c15Loc(rng, sh.seqLen, depth)
			if c15LocDepth(f.SequenceLocation) == depth || try > 20 || i > 0 {
				break
			}
		}
		s.AddFeature(&f)
	}
	return s
}

// c15BigInt draws an integer beyond 2^53 in magnitude; most of them (the odd
// ones, and more the further out) are not float64 values.
func c15BigInt(rng *rand.Rand) int {
	switch rng.Intn(8) {
	case 0:
		return 9007199254740993 // 2^53 + 1
	case 1:
		return 1<<53 + 3
	case 2:
		return 1<<62 + 12345
	case 3:
		return -(1 << 53) - 1
	case 4:
		return int(^uint(0) >> 1) // the largest int
	case 5:
		return -int(^uint(0)>>1) - 1 // the smallest int
	case 6:
		return -(1<<53 + 1 + 2*int(rng.Int63n(1<<52)))
	default:
		return 1<<53 + 1 + 2*int(rng.Int63n(1<<52))
	}
}

// c15NameRecord gives a small record that (a) carries the text Name - as a
// JSON key (attribute key, as the GFF reader produces for "Name=thrL"; key of
// Meta.Other), as a whole string value, or inside a string with or without
// quotes around it - and (b) has integers beyond 2^53 in Meta.RegionStart /
// RegionEnd / Size and in the Start / End of a Join node (which no evaluation
// of the location reads: only its operands are spans of the sequence).
func c15NameRecord(rng *rand.Rand, i int) (*poly.Sequence, string) {
	sh := c15Shape{refs: rng.Intn(3), refsNil: rng.Intn(2) == 0, other: rng.Intn(4), features: 1 + rng.Intn(3), attrs: rng.Intn(4), depth: 1 + rng.Intn(2), seqLen: 1 + rng.Intn(40)}
	s := c15Record(rng, sh)
	var where []string
	for _, k := range [][]int{{0}, {1}, {2}, {3}, {4}, {5}, {0, 2}, {1, 3, 5}}[i%8] {
		switch k {
		case 0:
			f := &s.Features[rng.Intn(len(s.Features))]
			if f.Attributes == nil {
				f.Attributes = map[string]string{}
			}
			f.Attributes["ID"], f.Attributes["Name"] = "gene1", "thrL"
			where = append(where, "attribute key Name (Name=thrL as the GFF reader stores it)")
		case 1:
			if s.Meta.Other == nil {
				s.Meta.Other = map[string]string{}
			}
			s.Meta.Other["Name"] = c15Text(rng)
			where = append(where, "Meta.Other key Name")
		case 2:
			s.Features[0].Type = "Name"
			where = append(where, "Feature.Type is the text Name")
		case 3:
			s.Description = "ID=gene1;Name=thrL;" + c15Text(rng)
			where = append(where, "Description contains Name=thrL")
		case 4:
			s.Meta.Definition = "the key \"Name\" of the old layout"
			where = append(where, "Meta.Definition contains Name in double quotes")
		default:
			s.Features[len(s.Features)-1].Name = "Name"
			where = append(where, "Feature.Name is the text Name")
		}
	}
	var ints []string
	for len(ints) == 0 {
		if rng.Intn(2) == 0 {
			s.Meta.RegionStart = c15BigInt(rng)
			ints = append(ints, "Meta.RegionStart="+strconv.Itoa(s.Meta.RegionStart))
		}
		if rng.Intn(2) == 0 {
			s.Meta.RegionEnd = c15BigInt(rng)
			ints = append(ints, "Meta.RegionEnd="+strconv.Itoa(s.Meta.RegionEnd))
		}
		if rng.Intn(2) == 0 {
			s.Meta.Size = c15BigInt(rng)
			ints = append(ints, "Meta.Size="+strconv.Itoa(s.Meta.Size))
		}
		if l := &s.Features[0].SequenceLocation; len(l.SubLocations) > 0 && rng.Intn(2) == 0 {
			l.Start, l.End = c15BigInt(rng), c15BigInt(rng)
			ints = append(ints, "Join node Start="+strconv.Itoa(l.Start)+" End="+strconv.Itoa(l.End))
		}
	}
	return s, fmt.Sprintf("Name-text record #%d: %d features, sequence length %d; %s; %s", i, len(s.Features), len(s.Sequence), strings.Join(where, ", "), strings.Join(ints, ", "))
}

// ------------------------------------- text that JSON has to escape ----

// literal backslash directly in front of u003c / u003e / u0026: the text of the
// escapes that encoding/json writes for <, > and &
var c15EscLookalike = []string{`\u003c`, `\u003e`, `\u0026`, `\u003C`, `\u003E`, `\\u003c`, `\\\u0026`, `x\u003cy\u003e`, `\u003c\u003e\u0026`, `wrote \u003c for "<" and \u0026 for "&"`}

// literal backslash in front of anything else, and at the end of the text
var c15EscBackslash = []string{`\`, `\\`, `\\\`, `\n`, `\t`, `\r`, `\"`, `\\"`, `\/`, `\b`, `\f`, `\u`, `\u00`, `\u0000`, `\u2028`, `\u003`, `\u003d`, `\x3c`, `\U0000003C`, `C:\dir\file`, `\'`, `end\`}

// the characters that the JSON form escapes, and markup made of them
var c15EscChars = []string{"<", ">", "&", "<1..>206", "&amp;", "&lt;b&gt;", "<b>&</b>", "</script>", `"`, `""`, `'`, "say \"hi\"", "\t", "\n", "\r\n", "\x00", "\x01", "\x08", "\x0c", "\x1b", "\x1f", "\x7f", "\u0085", "\u2028", "\u2029"}

// neighbours that need no escape (among them the escape texts without their backslash)
var c15EscPlain = []string{"lacZ", "gene", "", " ", "u003c", "u0026", "003e", "n", "\u03b2", "caf\u00e9"}

var c15EscLookalikeRe = regexp.MustCompile(`(?i)\\u00(3c|3e|26)`)

// c15EscClass names the shape of a set of texts: the first of the three kinds
// that any of them contains.
func c15EscClass(texts []string) string {
	class := "text-with-json-escaped-characters"
	for _, s := range texts {
		if c15EscLookalikeRe.MatchString(s) {
			return "text-with-backslash-escape-lookalike"
		}
		if strings.Contains(s, `\`) {
			class = "text-with-backslash"
		}
	}
	return class
}

// c15EscText draws a text of 1..4 pieces in random order, joined with nothing
// or one blank. variant 0: one piece with a backslash in front of u003c / u003e
// / u0026 and up to three pieces of any kind; 1: one piece with a backslash in
// front of something else and up to three pieces without the first kind; 2: one
// piece of characters that JSON escapes and up to three pieces without any
// backslash; 3: 1..4 pieces of any kind.
func c15EscText(rng *rand.Rand, variant int) string {
	pick := func(pools ...[]string) string {
		p := pools[rng.Intn(len(pools))]
		return p[rng.Intn(len(p))]
	}
	var pieces []string
	extra := rng.Intn(4)
	switch variant {
	case 0:
		pieces = append(pieces, pick(c15EscLookalike))
		for k := 0; k < extra; k++ {
			pieces = append(pieces, pick(c15EscLookalike, c15EscBackslash, c15EscChars, c15EscPlain))
		}
	case 1:
		pieces = append(pieces, pick(c15EscBackslash))
		for k := 0; k < extra; k++ {
			pieces = append(pieces, pick(c15EscBackslash, c15EscChars, c15EscPlain))
		}
	case 2:
		pieces = append(pieces, pick(c15EscChars))
		for k := 0; k < extra; k++ {
			pieces = append(pieces, pick(c15EscChars, c15EscPlain))
		}
	default:
		for k := 0; k <= extra; k++ {
			pieces = append(pieces, pick(c15EscLookalike, c15EscBackslash, c15EscChars, c15EscPlain))
		}
	}
	rng.Shuffle(len(pieces), func(a, b int) { pieces[a], pieces[b] = pieces[b], pieces[a] })
	var b strings.Builder
	for k, p := range pieces {
		if k > 0 && rng.Intn(2) == 0 {
			b.WriteString(" ")
		}
		b.WriteString(p)
	}
	return b.String()
}

// the places of a record that c15EscRecord puts a text into; those whose name
// starts with Feature go into the first feature
var c15EscPlaces = []struct {
	name string
	set  func(s *poly.Sequence, text string)
}{
	{"Meta.Definition", func(s *poly.Sequence, x string) { s.Meta.Definition = x }},
	{"Feature.Attributes value under key note", func(s *poly.Sequence, x string) {
		if s.Features[0].Attributes == nil {
			s.Features[0].Attributes = map[string]string{}
		}
		s.Features[0].Attributes["note"] = x
	}},
	{"Sequence.Description", func(s *poly.Sequence, x string) { s.Description = x }},
	{"Meta.Other value under key COMMENT", func(s *poly.Sequence, x string) {
		if s.Meta.Other == nil {
			s.Meta.Other = map[string]string{}
		}
		s.Meta.Other["COMMENT"] = x
	}},
	{"Feature.Description", func(s *poly.Sequence, x string) { s.Features[0].Description = x }},
	{"Meta.Name", func(s *poly.Sequence, x string) { s.Meta.Name = x }},
	{"Feature.Attributes key (value v)", func(s *poly.Sequence, x string) {
		if s.Features[0].Attributes == nil {
			s.Features[0].Attributes = map[string]string{}
		}
		s.Features[0].Attributes[x] = "v"
	}},
	{"Meta.Other key (value v)", func(s *poly.Sequence, x string) {
		if s.Meta.Other == nil {
			s.Meta.Other = map[string]string{}
		}
		s.Meta.Other[x] = "v"
	}},
	{"Meta.Locus.Name", func(s *poly.Sequence, x string) { s.Meta.Locus.Name = x }},
	{"Meta.Organism", func(s *poly.Sequence, x string) { s.Meta.Organism = x }},
	{"Reference.Title of the first reference", func(s *poly.Sequence, x string) {
		if len(s.Meta.References) == 0 {
			s.Meta.References = append(s.Meta.References, poly.Reference{Index: "1"})
		}
		s.Meta.References[0].Title = x
	}},
	{"Reference.Authors of the first reference", func(s *poly.Sequence, x string) {
		if len(s.Meta.References) == 0 {
			s.Meta.References = append(s.Meta.References, poly.Reference{Index: "1"})
		}
		s.Meta.References[0].Authors = x
	}},
	{"Feature.Name", func(s *poly.Sequence, x string) { s.Features[0].Name = x }},
	{"Feature.Type", func(s *poly.Sequence, x string) { s.Features[0].Type = x }},
	{"Feature.GbkLocationString", func(s *poly.Sequence, x string) { s.Features[0].GbkLocationString = x }},
	{"Sequence.SequenceHash", func(s *poly.Sequence, x string) { s.SequenceHash = x }},
}

// c15EscBare is the number of leading records of the escape-text part that are
// bare: nothing but a four-letter sequence, one span feature when the place is
// in a feature, and the ONE text.
const c15EscBare = 4 * 16 * 2

// c15EscRecord gives a record with text that JSON has to escape, or that looks
// like an escape, in one to three places (the first place goes round with i,
// the others are drawn; the four variants of c15EscText go round with i as
// well). The first c15EscBare records are bare, the others small generated
// records (0..2 references, 1..2 features, location depth 0..1, sequence length
// 1..30). class is c15EscClass of the texts put in.
func c15EscRecord(rng *rand.Rand, i int) (rec *poly.Sequence, what, class string) {
	variant := i % 4
	first := (i / 4) % len(c15EscPlaces)
	places := []int{first}
	if i < c15EscBare {
		rec = &poly.Sequence{Sequence: "ACGT"}
		if strings.HasPrefix(c15EscPlaces[first].name, "Feature") {
			rec.AddFeature(&poly.Feature{Type: "misc_feature", SequenceLocation: poly.Location{Start: 0, End: 4}})
		}
		what = "bare record (sequence ACGT"
		if len(rec.Features) > 0 {
			what += ", one feature spanning it"
		}
		what += ", every other field zero)"
	} else {
		sh := c15Shape{refs: rng.Intn(3), refsNil: rng.Intn(2) == 0, other: rng.Intn(4), features: 1 + rng.Intn(2), attrs: rng.Intn(4), depth: rng.Intn(2), seqLen: 1 + rng.Intn(30)}
		rec = c15Record(rng, sh)
		for _, p := range rng.Perm(len(c15EscPlaces))[:rng.Intn(3)] { // 0..2 further places, all different
			if p != first {
				places = append(places, p)
			}
		}
		what = fmt.Sprintf("generated record with %d references, %d features, sequence length %d", len(rec.Meta.References), len(rec.Features), len(rec.Sequence))
	}
	var texts, said []string
	for k, p := range places {
		v := variant
		if k > 0 {
			v = rng.Intn(4)
		}
		x := c15EscText(rng, v)
		c15EscPlaces[p].set(rec, x)
		texts = append(texts, x)
		said = append(said, c15EscPlaces[p].name+" = "+strconv.Quote(x))
	}
	return rec, fmt.Sprintf("escape-text record #%d: %s; texts put in (shown as Go string literals): %s", i, what, strings.Join(said, ", ")), c15EscClass(texts)
}

// words for the generated GenBank and GFF text: like c15EscLookalike,
// c15EscBackslash and c15EscChars, but without blanks and control characters
// (the layout of both formats), double quotes (GenBank quoting) and ; = ,
// (GFF attribute syntax)
var c15EscWords = []string{`\u003c`, `\u003e`, `\u0026`, `a\u003cb`, `\\u0026amp`, `5'\u003e3'`, `\n`, `\\`, `C:\dir\file`, `end\`, "<", ">", "&", "<b>&</b>", "&amp", "a<b>c&d"}

// c15Diff gives the path of the first difference between two values, "" when
// equal. nil and empty slices/maps are equal here (c15ShapeDiff is the second
// pass that tells them apart); ParentSequence is not compared.
func c15Diff(path string, a, b reflect.Value) string {
	if a.Type() != b.Type() {
		return path + ": types differ"
	}
	switch a.Kind() {
	case reflect.Struct:
		for i := 0; i < a.NumField(); i++ {
			name := a.Type().Field(i).Name
			if name == "ParentSequence" {
				continue
			}
			if d := c15Diff(path+"."+name, a.Field(i), b.Field(i)); d != "" {
				return d
			}
		}
	case reflect.Slice:
		if a.Len() != b.Len() {
			return fmt.Sprintf("%s: length %d written, %d read", path, a.Len(), b.Len())
		}
		for i := 0; i < a.Len(); i++ {
			if d := c15Diff(path+"[]", a.Index(i), b.Index(i)); d != "" {
				return d
			}
		}
	case reflect.Map:
		if a.Len() != b.Len() {
			return fmt.Sprintf("%s: %d keys written, %d read", path, a.Len(), b.Len())
		}
		for _, k := range a.MapKeys() {
			bv := b.MapIndex(k)
			if !bv.IsValid() {
				return fmt.Sprintf("%s: key %q lost", path, k.String())
			}
			if d := c15Diff(path+"{}", a.MapIndex(k), bv); d != "" {
				return d
			}
		}
	case reflect.String:
		if a.String() != b.String() {
			return fmt.Sprintf("%s: %q written, %q read", path, a.String(), b.String())
		}
	case reflect.Int:
		if a.Int() != b.Int() {
			return fmt.Sprintf("%s: %d written, %d read", path, a.Int(), b.Int())
		}
	case reflect.Bool:
		if a.Bool() != b.Bool() {
			return fmt.Sprintf("%s: %v written, %v read", path, a.Bool(), b.Bool())
		}
	default:
		return path + ": field kind " + a.Kind().String() + " not handled by the comparison"
	}
	return ""
}

// c15NilEmptyEqual lists the collection fields in which the code base itself
// builds the collection anew and cannot keep absent apart from empty: Parse
// sets sequence.Features = []poly.Feature{} and re-adds every feature, so an
// absent feature list comes back empty on the unchanged tree.
var c15NilEmptyEqual = map[string]bool{"Sequence.Features": true}

// c15ShapeDiff is the second pass over two values that c15Diff found equal: it
// gives the first collection (slice or map) of length 0 that was written absent
// (nil) and read empty (non-nil) or the other way round, with the class of that
// difference; "", "" when there is none. Fields in c15NilEmptyEqual are left out.
func c15ShapeDiff(path string, a, b reflect.Value) (class, detail string) {
	switch a.Kind() {
	case reflect.Struct:
		for i := 0; i < a.NumField(); i++ {
			name := a.Type().Field(i).Name
			if name == "ParentSequence" {
				continue
			}
			if class, detail = c15ShapeDiff(path+"."+name, a.Field(i), b.Field(i)); class != "" {
				return
			}
		}
	case reflect.Slice, reflect.Map:
		if a.IsNil() != b.IsNil() && !c15NilEmptyEqual[strings.NewReplacer("[]", "", "{}", "").Replace(path)] {
			if a.IsNil() {
				return "absent-collection-became-empty", path + ": written absent (nil, null in the file), read empty (non-nil, length 0)"
			}
			return "empty-collection-became-absent", path + ": written empty (non-nil, length 0), read absent (nil)"
		}
		if a.Kind() == reflect.Slice {
			for i := 0; i < a.Len() && i < b.Len(); i++ {
				if class, detail = c15ShapeDiff(path+"[]", a.Index(i), b.Index(i)); class != "" {
					return
				}
			}
		} else if a.Type().Elem().Kind() != reflect.String { // map[string]string has nothing below it
			for _, k := range a.MapKeys() {
				if bv := b.MapIndex(k); bv.IsValid() {
					if class, detail = c15ShapeDiff(path+"{}", a.MapIndex(k), bv); class != "" {
						return
					}
				}
			}
		}
	}
	return "", ""
}

// c15BigIntDiff recognises the difference text of an Int field whose written
// value lies beyond 2^53 in magnitude (not every such integer is a float64).
var c15BigIntDiff = regexp.MustCompile(`^[A-Za-z.\[\]{}]+: (-?[0-9]+) written, -?[0-9]+ read$`)

func c15ClassOf(diff string) string {
	if m := c15BigIntDiff.FindStringSubmatch(diff); m != nil {
		if n, err := strconv.ParseInt(m[1], 10, 64); err == nil && (n > 1<<53 || n < -(1<<53)) {
			return "integer-beyond-2-53"
		}
	}
	p := diff
	if i := strings.Index(p, ":"); i >= 0 {
		p = p[:i]
	}
	p = strings.NewReplacer("[]", "", "{}", "").Replace(p)
	return "field" + strings.ToLower(strings.Replace(strings.TrimPrefix(p, "Sequence"), ".", "-", -1))
}

func c15Clip(s string) string {
	if len(s) > 300 {
		return s[:300] + "..."
	}
	return s
}

func c15Try(f func()) (msg string) {
	defer func() {
		if r := recover(); r != nil {
			msg = fmt.Sprintf("panic: %v", r)
		}
	}()
	f()
	return ""
}

func c15LongestLine(raw []byte) int {
	longest := 0
	for _, line := range bytes.Split(raw, []byte("\n")) {
		if len(line) > longest {
			longest = len(line)
		}
	}
	return longest
}

func c15Describe(sh c15Shape, seed int64, i int) string {
	return fmt.Sprintf("generated record #%d (VERIF_SEED %d): %d references (nil=%v), Other kind %d, %d features, attributes kind %d, location depth %d, sequence length %d",
		i, seed, sh.refs, sh.refsNil, sh.other, sh.features, sh.attrs, sh.depth, sh.seqLen)
}

// c15CheckRecord runs the roundtrip and relink clauses on one record.
func c15CheckRecord(vr, vl *verifRun, dir string, w int, sh c15Shape, rng *rand.Rand, seed int64, i int) {
	c15RoundTrip(vr, vl, c15Record(rng, sh), filepath.Join(dir, "c15-"+strconv.Itoa(w)+".json"), c15Describe(sh, seed, i), "", nil)
}

// c15RoundTrip writes rec to path, reads the path back and judges both
// clauses. afterWrite (may be nil) runs between Write and Read. historyClass,
// when not empty, names the shape that sets the case apart from a plain round
// trip - the path held another document before (see c15CheckHistory), or the
// record has text that JSON must escape in places named in what (see
// c15EscRecord): it becomes the class of any failure.
func c15RoundTrip(vr, vl *verifRun, rec *poly.Sequence, path, what, historyClass string, afterWrite func()) {
	var want []string // independent evaluation of every feature on the original
	for _, f := range rec.Features {
		want = append(want, c15EvalLoc(rec.Sequence, f.SequenceLocation))
	}

	vr.Case(what, len(rec.Features) > 0 || len(rec.Meta.References) > 0 || len(rec.Meta.Other) > 0 || historyClass != "")
	var got poly.Sequence
	if p := c15Try(func() {
		Write(*rec, path)
		if afterWrite != nil {
			afterWrite()
		}
		got = Read(path)
	}); p != "" {
		vr.Fail("panic", what, p)
		return
	}
	raw, err := ioutil.ReadFile(path)
	// the shape that sets a long record apart: Write puts the whole sequence on
	// one line, which for ~65.5 kb or more is a line of the file beyond 64 KiB
	cls := func(class string) string { return class }
	if err == nil && c15LongestLine(raw) > 64*1024 {
		cls = func(string) string { return "sequence-beyond-64k" }
	}
	if historyClass != "" {
		cls = func(string) string { return historyClass }
	}
	// a record with kinds of location node that only c15LocW draws: a difference
	// in a location, or in what a feature reports, is classed by that kind
	shape := c15LocShape(rec)
	if historyClass != "" {
		shape = ""
	}
	if d := c15Diff("Sequence", reflect.ValueOf(*rec), reflect.ValueOf(got)); d != "" {
		class := cls(c15ClassOf(d))
		if shape != "" && strings.Contains(d, ".SequenceLocation") {
			class = shape
		}
		vr.Fail(class, what, c15Clip(d))
	} else if class, detail := c15ShapeDiff("Sequence", reflect.ValueOf(*rec), reflect.ValueOf(got)); class != "" {
		// equal in every field but for an absent collection read as an empty one or
		// the reverse: a class of its own, whatever part the record belongs to
		vr.Fail(class, what, c15Clip(detail)+" (every field equal otherwise)")
	}

	lcls := cls
	if shape != "" {
		lcls = func(string) string { return shape }
	}
	// relink, through Parse on the bytes of the file
	vl.Case(what, len(rec.Features) > 0)
	if err != nil {
		vl.Fail("file-unreadable", what, err.Error())
		return
	}
	for pass, parsed := range []func() poly.Sequence{func() poly.Sequence { return got }, func() poly.Sequence { return Parse(raw) }} {
		var back poly.Sequence
		if p := c15Try(func() { back = parsed() }); p != "" {
			vl.Fail("panic", what, p)
			return
		}
		name := []string{"Read", "Parse"}[pass]
		if len(back.Features) != len(want) {
			vl.Fail(cls("feature-count"), what, fmt.Sprintf("%s returns %d features, %d written", name, len(back.Features), len(want)))
			continue
		}
		for k, f := range back.Features {
			if f.ParentSequence == nil {
				vl.Fail(cls("parent-nil"), what, fmt.Sprintf("%s: feature %d has no parent", name, k))
				break
			}
			if f.ParentSequence.Sequence != back.Sequence {
				vl.Fail(cls("parent-other-sequence"), what, fmt.Sprintf("%s: feature %d points at a parent holding %s, the record holds %s", name, k, c15Clip(f.ParentSequence.Sequence), c15Clip(back.Sequence)))
				break
			}
			var s string
			if p := c15Try(func() { s = f.GetSequence() }); p != "" {
				vl.Fail(lcls("getsequence-panic"), what, fmt.Sprintf("%s: feature %d: %s", name, k, p))
				break
			}
			before := rec.Features[k].GetSequence()
			if s != want[k] || s != before {
				vl.Fail(lcls("feature-sequence-differs"), what, fmt.Sprintf("%s: feature %d gives %s, before serialisation %s, independent evaluation %s", name, k, c15Clip(s), c15Clip(before), c15Clip(want[k])))
				break
			}
		}
	}
}

// ------------------------------------------- histories on one path ----

// c15Stamp is the modification time given to the file after every write of a
// history with a pinned time (a whole second: every file system stores it).
var c15Stamp = time.Date(2020, 1, 2, 3, 4, 5, 0, time.UTC)

// history variants: which of byte size and modification time the successive
// documents on the path share
var c15HistoryVariants = []struct {
	size                int // 0 as it comes, 1 the same for all three documents, 2 different from one write to the next
	pinTime, sameRecord bool
	class, text         string
}{
	{1, true, false, "path-reused-same-size-and-mtime", "three unrelated records, same byte size, same modification time"},
	{1, false, false, "path-reused-same-size", "three unrelated records, same byte size, modification time left to the file system"},
	{2, true, false, "path-reused-same-mtime", "three unrelated records, byte size different from one write to the next, same modification time"},
	{1, true, true, "path-reused-same-size-and-mtime", "a record, the same record with every base of its sequence replaced, the first record again; same byte size, same modification time"},
	{0, false, false, "path-reused", "three unrelated records, byte size and modification time as they come"},
}

func c15FileSize(t *testing.T, path string) int64 {
	info, err := os.Stat(path)
	if err != nil {
		t.Errorf("harness: %v", err)
		return -1
	}
	return info.Size()
}

// c15CheckHistory writes three different documents to ONE path, one after the
// other, and reads the path after every write: every Read must give the
// document written last (both clauses, judged as for a single round trip).
// For the same-size variants the three documents are brought to the same byte
// size beforehand: each is written to a second path that is never read
// through the package, the sizes are taken with os.Stat and the shorter ones
// get that many ASCII letters appended to Description (one byte each in the
// file). For the pinned variants os.Chtimes sets the same modification time
// after every write. The sizes and times the file really had are taken with
// os.Stat before each Read; a step counts for its variant only if they are as
// the variant says.
func c15CheckHistory(t *testing.T, vr, vl *verifRun, dir string, w int, rng *rand.Rand, seed int64, i int) {
	variant := c15HistoryVariants[i%len(c15HistoryVariants)]
	path := filepath.Join(dir, "c15-history-"+strconv.Itoa(w)+".json")
	scratch := filepath.Join(dir, "c15-history-size-"+strconv.Itoa(w)+".json")
	defer os.Remove(path) // the next history starts on a path that does not exist

	var recs []*poly.Sequence
	draw := func() c15Shape {
		return c15Shape{refs: rng.Intn(4), refsNil: rng.Intn(2) == 0, other: rng.Intn(4), features: rng.Intn(6) - 1, attrs: rng.Intn(4), depth: rng.Intn(5), seqLen: 1 + rng.Intn(300)}
	}
	if variant.sameRecord {
		sh := draw()
		if sh.features < 1 {
			sh.features = 1
		}
		s := rng.Int63()
		for k := 0; k < 3; k++ {
			rec := c15Record(rand.New(rand.NewSource(s)), sh) // the same record each time
			if k == 1 {
				rec.Sequence = strings.NewReplacer("A", "C", "C", "G", "G", "T", "T", "A").Replace(rec.Sequence)
			}
			recs = append(recs, rec)
		}
	} else {
		for k := 0; k < 3; k++ {
			recs = append(recs, c15Record(rng, draw()))
		}
	}
	if variant.size != 0 && !variant.sameRecord {
		sizes, most := make([]int64, len(recs)), int64(0)
		for k, rec := range recs {
			if p := c15Try(func() { Write(*rec, scratch) }); p != "" {
				return // Write's own trouble shows in the single round trips
			}
			if sizes[k] = c15FileSize(t, scratch); sizes[k] > most {
				most = sizes[k]
			}
		}
		os.Remove(scratch)
		for k, rec := range recs {
			switch {
			case variant.size == 1:
				rec.Description += strings.Repeat("x", int(most-sizes[k]))
			case k > 0 && sizes[k] == sizes[k-1]:
				rec.Description += "x"
				sizes[k]++
			}
		}
	}

	var prevSize int64
	var prevTime time.Time
	for k, rec := range recs {
		what := fmt.Sprintf("history #%d (VERIF_SEED %d) on one path, %s; step %d of 3: Write then Read of a record with %d references, %d features, sequence length %d, description of %d bytes",
			i, seed, variant.text, k+1, len(rec.Meta.References), len(rec.Features), len(rec.Sequence), len(rec.Description))
		class := ""
		if k > 0 {
			class = variant.class
		}
		asStated := true
		c15RoundTrip(vr, vl, rec, path, what, class, func() {
			if variant.pinTime {
				if err := os.Chtimes(path, c15Stamp, c15Stamp); err != nil {
					t.Errorf("harness: %v", err)
				}
			}
			info, err := os.Stat(path)
			if err != nil {
				t.Errorf("harness: %v", err)
				return
			}
			if k > 0 && (variant.size == 1 && info.Size() != prevSize || variant.size == 2 && info.Size() == prevSize || variant.pinTime && !info.ModTime().Equal(prevTime)) {
				asStated = false
			}
			prevSize, prevTime = info.Size(), info.ModTime()
		})
		if !asStated {
			t.Errorf("harness: %s: the file does not have the size / modification time the variant states", what)
		}
	}
}

// ------------------------------------------------------- GenBank text ----

var c15Plain = []string{"alpha", "beta-lactamase", "ori", "lacZ", "hypothetical protein", "T7 promoter", "rep_origin", "Saccharomyces cerevisiae",
	"synthetic construct", "cloning vector", "5' UTR", "note with, comma; semicolon", "100%", "caf\u00e9 au lait", "\u03b2-galactosidase", "x"}

func c15PhraseOf(rng *rand.Rand, pool []string, words int) string {
	var parts []string
	for i := 0; i < words; i++ {
		parts = append(parts, pool[rng.Intn(len(pool))])
	}
	return strings.Join(parts, " ")
}

// c15GbLocation gives INSDC location text of the kinds the GenBank reader of
// the pinned tree takes without trouble (its handling of other kinds is C02's
// subject): span, complement(span), join of spans, join of two complements,
// complement(join of spans); optional partial markers at the outer ends.
func c15GbLocation(rng *rand.Rand, n int) string {
	span := func() (int, int) {
		a := 1 + rng.Intn(n)
		b := a + rng.Intn(n-a+1)
		return a, b
	}
	text := func(lt, gt bool) string {
		a, b := span()
		s := ""
		if lt {
			s = "<"
		}
		s += strconv.Itoa(a) + ".."
		if gt {
			s += ">"
		}
		return s + strconv.Itoa(b)
	}
	lt, gt := rng.Intn(5) == 0, rng.Intn(5) == 0
	switch rng.Intn(5) {
	case 0:
		return text(lt, gt)
	case 1:
		return "complement(" + text(lt, gt) + ")"
	case 2:
		k := 2 + rng.Intn(4)
		var ops []string
		for i := 0; i < k; i++ {
			ops = append(ops, text(lt && i == 0, gt && i == k-1))
		}
		return "join(" + strings.Join(ops, ",") + ")"
	case 3:
		return "join(complement(" + text(false, gt) + "),complement(" + text(lt, false) + "))"
	default:
		k := 2 + rng.Intn(3)
		var ops []string
		for i := 0; i < k; i++ {
			ops = append(ops, text(lt && i == 0, gt && i == k-1))
		}
		return "complement(join(" + strings.Join(ops, ",") + "))"
	}
}

func c15Pad(s string, n int) string {
	for len(s) < n {
		s += " "
	}
	return s
}

// c15GenBank lays out one GenBank record: every header keyword, 0..3
// references, at most one extra keyword block (COMMENT), 0..6 features with
// exactly one qualifier each (Build walks maps in an order of its own on the
// pinned tree, which is C03's subject), values on one or several lines,
// locations on one or two lines, origin lines of 60.
func c15GenBank(rng *rand.Rand) string { return c15GenBankOf(rng, c15Plain) }

// c15GenBankOf is c15GenBank with the words of every free text (definition,
// keywords, source, organism, authors, titles, comment, qualifier values) taken
// from pool.
func c15GenBankOf(rng *rand.Rand, pool []string) string {
	c15Phrase := func(rng *rand.Rand, words int) string { return c15PhraseOf(rng, pool, words) }
	n := 1 + rng.Intn(400)
	seq := strings.ToLower(c15DNA(rng, n))
	var b strings.Builder
	shape := []string{"circular", "linear", ""}[rng.Intn(3)]
	mol := []string{"DNA", "mRNA", "genomic DNA", "other RNA"}[rng.Intn(4)]
	div := []string{"SYN", "BCT", "PLN", "PHG"}[rng.Intn(4)]
	fmt.Fprintf(&b, "LOCUS       %s %d bp    %s     %s %s %s\n", c15Pad("REC"+strconv.Itoa(rng.Intn(100000)), 12+rng.Intn(6)), n, mol, shape, div, "14-OCT-2020")
	wrap := func(key, val string, cont int) {
		words := strings.Split(val, " ")
		line := c15Pad(key, 12)
		first := true
		for i, w := range words {
			if !first && rng.Intn(cont) == 0 && i > 0 {
				b.WriteString(line + "\n")
				line = c15Pad("", 12) + w
				continue
			}
			if first {
				line += w
				first = false
			} else {
				line += " " + w
			}
		}
		b.WriteString(line + "\n")
	}
	wrap("DEFINITION", c15Phrase(rng, 1+rng.Intn(8))+".", 4)
	wrap("ACCESSION", "AB"+strconv.Itoa(100000+rng.Intn(900000)), 99)
	wrap("VERSION", "AB123456."+strconv.Itoa(1+rng.Intn(9)), 99)
	wrap("KEYWORDS", []string{".", "vector; synthetic.", c15Phrase(rng, 2)}[rng.Intn(3)], 99)
	wrap("SOURCE", c15Phrase(rng, 1+rng.Intn(2)), 99)
	wrap("  ORGANISM", c15Phrase(rng, 1+rng.Intn(2)), 99)
	if rng.Intn(2) == 0 {
		b.WriteString(c15Pad("", 12) + "Bacteria; Proteobacteria; " + c15Phrase(rng, 1) + ".\n")
	}
	for r, refs := 0, rng.Intn(4); r < refs; r++ {
		fmt.Fprintf(&b, "REFERENCE   %d  (bases 1 to %d)\n", r+1, n)
		wrap("  AUTHORS", "Smith,J. and "+c15Phrase(rng, 1), 3)
		if rng.Intn(4) > 0 {
			wrap("  TITLE", c15Phrase(rng, 1+rng.Intn(9)), 4)
		}
		wrap("  JOURNAL", "J. Synth. Biol. "+strconv.Itoa(rng.Intn(90))+" (2020)", 99)
		if rng.Intn(2) == 0 {
			wrap("   PUBMED", strconv.Itoa(1000000+rng.Intn(9000000)), 99)
		}
	}
	if rng.Intn(2) == 0 {
		wrap("COMMENT", c15Phrase(rng, 1+rng.Intn(10)), 4)
	}
	b.WriteString("FEATURES             Location/Qualifiers\n")
	types := []string{"source", "gene", "CDS", "misc_feature", "rep_origin", "promoter"}
	keys := []string{"gene", "note", "product", "label", "organism", "translation"}
	for f, feats := 0, rng.Intn(7); f < feats; f++ {
		loc := c15GbLocation(rng, n)
		head := "     " + c15Pad(types[rng.Intn(len(types))], 16)
		if i := strings.LastIndex(loc, ","); i > 0 && rng.Intn(3) == 0 {
			b.WriteString(head + loc[:i+1] + "\n" + c15Pad("", 21) + loc[i+1:] + "\n")
		} else {
			b.WriteString(head + loc + "\n")
		}
		key := keys[rng.Intn(len(keys))]
		val := c15Phrase(rng, 1+rng.Intn(6))
		if key == "translation" {
			val = strings.Replace(c15DNA(rng, 20+rng.Intn(80)), "T", "M", -1)
		}
		words := strings.Split(val, " ")
		line := c15Pad("", 21) + "/" + key + "=\"" + words[0]
		for _, w := range words[1:] {
			if rng.Intn(3) == 0 {
				b.WriteString(line + "\n")
				line = c15Pad("", 21) + w
			} else {
				line += " " + w
			}
		}
		b.WriteString(line + "\"\n")
	}
	b.WriteString("ORIGIN\n")
	for i := 0; i < n; i += 60 {
		fmt.Fprintf(&b, "%9d", i+1)
		for j := i; j < i+60 && j < n; j += 10 {
			e := j + 10
			if e > n {
				e = n
			}
			b.WriteString(" " + seq[j:e])
		}
		b.WriteString("\n")
	}
	b.WriteString("//\n")
	return b.String()
}

// c15GFF lays out one GFF3 file: version and region pragmas, 0..8 feature
// lines of nine tab-separated columns with 1..4 attributes, optional ###,
// FASTA section in lines of 50..80 letters (no line of a single letter: that is
// C14's subject).
func c15GFF(rng *rand.Rand) string { return c15GFFOf(rng, c15Plain) }

// c15GFFOf is c15GFF with the words of the attribute values and of the FASTA
// header taken from pool.
func c15GFFOf(rng *rand.Rand, pool []string) string {
	c15Phrase := func(rng *rand.Rand, words int) string { return c15PhraseOf(rng, pool, words) }
	n := 2 + rng.Intn(500)
	width := 50 + rng.Intn(31)
	if n%width == 1 {
		n++
	}
	seq := c15DNA(rng, n)
	name := "chr" + strconv.Itoa(rng.Intn(30))
	var b strings.Builder
	b.WriteString("##gff-version " + []string{"3", "3.2.1", "3.1.26"}[rng.Intn(3)] + "\n")
	start := 1
	if rng.Intn(3) == 0 {
		start = 1 + rng.Intn(50)
	}
	fmt.Fprintf(&b, "##sequence-region %s %d %d\n", name, start, start+n-1)
	types := []string{"gene", "mRNA", "exon", "CDS", "region", "five_prime_UTR"}
	keys := []string{"ID", "Name", "Parent", "Note", "Dbxref", "product"}
	for f, feats := 0, rng.Intn(9); f < feats; f++ {
		a := 1 + rng.Intn(n)
		e := a + rng.Intn(n-a+1)
		var attrs []string
		perm := rng.Perm(len(keys))
		for k := 0; k < 1+rng.Intn(4); k++ {
			val := strings.NewReplacer(";", "%3B", "=", "%3D", ",", "%2C").Replace(c15Phrase(rng, 1+rng.Intn(3)))
			attrs = append(attrs, keys[perm[k]]+"="+val)
		}
		fmt.Fprintf(&b, "%s\t%s\t%s\t%d\t%d\t%s\t%s\t%s\t%s\n", name, []string{"RefSeq", "feature", "."}[rng.Intn(3)], types[rng.Intn(len(types))],
			a, e, []string{".", "0.5", "1e-10"}[rng.Intn(3)], []string{"+", "-", ".", "?"}[rng.Intn(4)], []string{".", "0", "1", "2"}[rng.Intn(4)], strings.Join(attrs, ";"))
		if rng.Intn(6) == 0 {
			b.WriteString("\n")
		}
	}
	if rng.Intn(2) == 0 {
		b.WriteString("###\n")
	}
	b.WriteString("##FASTA\n>" + name)
	if rng.Intn(2) == 0 {
		b.WriteString(" " + c15Phrase(rng, 2))
	}
	b.WriteString("\n")
	for i := 0; i < n; i += width {
		e := i + width
		if e > n {
			e = n
		}
		b.WriteString(seq[i:e] + "\n")
	}
	return b.String()
}

// c15FarRegion moves the ##sequence-region pragma of a generated GFF3 file to
// coordinates beyond 2^53 (the region keeps its length; feature lines and the
// sequence stay what they were).
func c15FarRegion(rng *rand.Rand, text string) string {
	lines := strings.SplitN(text, "\n", 3)
	f := strings.Fields(lines[1])
	a, _ := strconv.Atoi(f[2])
	e, _ := strconv.Atoi(f[3])
	start := 1<<53 + 1 + 2*int(rng.Int63n(1<<52))
	lines[1] = fmt.Sprintf("##sequence-region %s %d %d", f[1], start, start+e-a)
	return strings.Join(lines, "\n")
}

func c15FirstDiffLine(a, b []byte) string {
	la, lb := strings.Split(string(a), "\n"), strings.Split(string(b), "\n")
	for i := 0; i < len(la) || i < len(lb); i++ {
		x, y := "<end>", "<end>"
		if i < len(la) {
			x = la[i]
		}
		if i < len(lb) {
			y = lb[i]
		}
		if x != y {
			return fmt.Sprintf("line %d: direct %q, through JSON %q", i+1, x, y)
		}
	}
	return "equal"
}

func c15LineClass(detail string) string {
	// class = the kind of the first differing line in the directly built text
	i := strings.Index(detail, "direct \"")
	if i < 0 {
		return "text-differs"
	}
	line := detail[i+8:]
	switch {
	case strings.Contains(line, "\\t"):
		return "line-gff-feature"
	case strings.HasPrefix(line, "##") || strings.HasPrefix(line, ">"):
		return "line-gff-pragma-or-header"
	case strings.HasPrefix(line, "                     "):
		return "line-qualifier"
	case strings.HasPrefix(line, "     "):
		return "line-feature"
	}
	f := strings.Fields(line)
	if len(f) == 0 {
		return "text-differs"
	}
	w := strings.ToLower(strings.Trim(f[0], "\"/"))
	for _, k := range []string{"locus", "definition", "accession", "version", "keywords", "source", "organism", "reference", "authors", "title", "journal", "pubmed", "comment", "features", "origin"} {
		if w == k {
			return "line-" + k
		}
	}
	return "line-sequence-or-other"
}

// c15Convert checks format -> JSON -> format against format -> format.
// class, when not empty, names the shape of the generated text and becomes the
// class of a difference.
func c15Convert(v *verifRun, dir string, w int, text, class string, parse func([]byte) poly.Sequence, build func(poly.Sequence) []byte, nontrivial func(poly.Sequence) bool) (parserPanicked bool) {
	var parsed poly.Sequence
	if p := c15Try(func() { parsed = parse([]byte(text)) }); p != "" {
		return true // not a parser output; the reader's own trouble belongs to C01/C02/C14
	}
	v.Case(text, nontrivial(parsed))
	var direct, via []byte
	if p := c15Try(func() { direct = build(parsed) }); p != "" {
		return true
	}
	path := filepath.Join(dir, "c15-conv-"+strconv.Itoa(w)+".json")
	if p := c15Try(func() {
		Write(parsed, path)
		raw, err := ioutil.ReadFile(path)
		if err != nil {
			panic(err)
		}
		via = build(Parse(raw))
	}); p != "" {
		v.Fail("panic", c15Clip(text), p)
		return false
	}
	if !bytes.Equal(direct, via) {
		d := c15FirstDiffLine(direct, via)
		if class == "" {
			class = c15LineClass(d)
		}
		v.Fail(class, c15Clip(text), c15Clip(d))
	}
	return false
}

// -------------------------------------------------------------- entry ----

func TestVerifC15(t *testing.T) {
	nRandom, nGb, nGff := 15000, 10000, 10000
	longLens, longPer := []int{70000, 200000}, 4
	nHistory, nName := 400, 800
	nWrap := 1800
	nEsc, nGbEsc, nGffEsc := 1600, 500, 500
	if verifThorough() {
		nEsc, nGbEsc, nGffEsc = 80000, 25000, 25000
		nWrap = 90000
		nName = 40000
		nRandom, nGb, nGff = 600000, 400000, 400000
		nHistory = 20000
		longLens, longPer = []int{65000, 65536, 66000, 70000, 100000, 200000, 1000000}, 12
	}
	dir, err := ioutil.TempDir("", "verif-c15-")
	if err != nil {
		t.Fatal(err)
	}
	defer os.RemoveAll(dir)
	seed := verifSeed()

	content := "every Meta, Locus, Reference, Feature and Sequence field filled from a pool of ASCII, punctuation (quotes, backslash, <, &, tab, newline, NUL, U+2028; backslashes in front of escape letters and the other control characters in the escape-text part) and non-ASCII text (Latin-1, CJK, Greek, 4-byte code points, combining marks; valid UTF-8 only, JSON text cannot carry anything else), ints incl. 0, negative and 63-bit; " +
		"location structures valid for the sequence, Join nodes of 2..4 operands nested to depth 4 (other kinds of node with operands in the wrapper-node part), Complement and both partial flags on any node, SubLocations of every leaf, at every depth 0..4 of the tree, absent (nil) or empty (non-nil, length 0) with equal chance; sequences over ACGT"
	nilEmpty := "absent and empty collections: a collection given as ABSENT (nil; null in the file) must come back absent and one given as EMPTY (non-nil, length 0; [] or {} in the file) must come back empty - the JSON form tells the two apart and with the tags of the code base both survive - for Meta.References, Meta.Other, Feature.Attributes of every feature and Location.SubLocations at every depth; " +
		"judged on a value that is equal in every field otherwise, classes empty-collection-became-absent and absent-collection-became-empty in every part of the domain; " +
		"EXCEPTION Sequence.Features, where nil and empty count as equal: Parse itself moves the features into a fresh list (sequence.Features = []poly.Feature{}, then AddFeature for each, which is what restores the parent links), so on the unchanged code base an absent feature list comes back empty and the distinction cannot be kept there (checked by experiment: every other collection field keeps both shapes through Write/Read and Parse at depths 0..4); " +
		"every part draws both shapes for each of these fields: references {absent, empty}, Other {absent, empty}, Features {absent, empty}, attributes {absent, empty} per feature, leaf SubLocations {absent, empty} per leaf"
	axes := "systematic part: every combination of references {absent, empty, 1, 5} x Other {absent, empty, 1 key, several} x Features {absent, empty, 1, 3} x attributes {absent, empty, 1, several} x location depth {0..4} (1280 shapes, content random); " +
		"random part: " + strconv.Itoa(nRandom) + " seeded records, 0..5 references, 0..6 features, sequence length 0..300; " +
		"long part: " + strconv.Itoa(longPer) + " records for each sequence length in " + fmt.Sprint(longLens) + " (0..2 references, 1..3 features or none, location depth 0..2; Write puts the sequence on ONE line of the file, beyond 64 KiB from about 65.5 kb on; a failure on a file with such a line is classed sequence-beyond-64k); " +
		"Name-text part: " + strconv.Itoa(nName) + " seeded records (0..2 references, 1..3 features, first location a Join of depth 1..2, sequence length 1..40) that carry the text Name - as an attribute key with value thrL (what the GFF reader stores for Name=thrL), as a key of Meta.Other, as the whole value of Feature.Type or Feature.Name, inside Description as Name=thrL, or inside Meta.Definition between double quotes; the eight combinations {each alone, attribute key + Type, Other key + Description + Feature.Name} in turn - " +
		"and at least one integer beyond 2^53 in magnitude (2^53+1 = 9007199254740993, 2^53+3, 2^62+12345, -(2^53+1), the largest and smallest int, random odd values up to 2^54 of either sign) in Meta.RegionStart, RegionEnd, Size or the Start/End of a Join node (which no evaluation of a location reads); every integer must come back exactly; a difference in an integer field whose written value is beyond 2^53 is classed integer-beyond-2-53 in every part; " +
		"wrapper-node part: " + strconv.Itoa(nWrap) + " seeded records (0..2 references, 1..3 features, sequence length 1..60, location trees to depth 4) with the kinds of node with operands that the other parts never draw: a plain node (neither Join nor Complement, Start = End = 0, partial flags drawn) around ONE operand at the root or below it, chains of such nodes, ONE operand under a node carrying the Join flag, the Complement flag, both or bounds of its own, and 2..3 operands under a node without the Join flag; " +
		"six variants in turn: (1) a plain node at the root of the first feature around a span or a tree of Join nodes, (2) a plain node at the root of every feature around any tree, (3) plain nodes below the root only, (4) single operands under flagged or bounded nodes, (5) several operands without Join flag, (6) all kinds anywhere; every node must come back with its flags, bounds and operands, and the feature must report the concatenation of its operands as before; " +
		"a difference inside a location or in a feature's sequence is classed by the first of these kinds the record contains: wrapper-node-at-root, wrapper-node-inside, single-operand-node-with-flags-or-bounds, several-operands-without-join-flag; " +
		"escape-text part: " + strconv.Itoa(nEsc) + " seeded records with text that the JSON form has to escape, or that LOOKS like an escape, put into one to three places: the first place goes round Meta.Definition, an attribute value, Sequence.Description, a Meta.Other value, Feature.Description, Meta.Name, an attribute KEY, a Meta.Other KEY, Locus.Name, Organism, Title and Authors of the first reference, Feature.Name, Feature.Type, GbkLocationString, SequenceHash, up to two further places are drawn; " +
		"the first " + strconv.Itoa(c15EscBare) + " records are bare (sequence ACGT, one span feature if the place is in a feature, the one text, every other field zero), the others generated (0..2 references, 1..2 features, location depth 0..1, sequence length 1..30); " +
		"a text is 1..4 pieces in random order joined by nothing or one blank, the pieces being (i) a literal backslash directly in front of u003c, u003e or u0026 in either letter case - the text of the escapes encoding/json itself writes for <, > and & - also behind a second and third backslash, several in one piece, inside a sentence with double quotes, " +
		"(ii) a backslash in front of n, t, r, b, f, /, a double quote, an apostrophe, u, u00, u0000, u2028, u003, u003d, x3c, U0000003C, one to three backslashes alone and a backslash at the end of the text, a Windows path, " +
		"(iii) the characters JSON escapes: <, >, &, markup made of them (<1..>206, &amp;, <b>&</b>, </script>), double quotes, apostrophe, tab, newline, CR LF, NUL, U+0001, backspace, form feed, escape, U+001F, DEL, U+0085, U+2028, U+2029, (iv) neighbours that need no escape (words, the empty text, a blank, u003c / u0026 / 003e without backslash, non-ASCII letters); " +
		"four variants in turn for the first place: at least one piece of (i); at least one of (ii) and none of (i); at least one of (iii) and no backslash; any pieces; every text must come back equal and every feature re-linked; any failure of such a record is classed by the texts put in: text-with-backslash-escape-lookalike if one of them has a backslash directly in front of u003c / u003e / u0026, else text-with-backslash if one has a backslash, else text-with-json-escaped-characters; " +
		"history part: " + strconv.Itoa(nHistory) + " seeded histories on ONE path (fresh at the start of each history): three different documents (0..3 references, 0..4 features or none, sequence length 1..300) are written to it one after the other and the path is read after every write, every Read must give the document written last; " +
		"five variants in turn: (a) unrelated records brought to exactly the same byte size (ASCII letters appended to Description) with the modification time set to the same whole second by os.Chtimes after every write, (b) same byte size, time left to the file system, (c) byte size different from one write to the next, time pinned, " +
		"(d) a record, then the same record with every base of its sequence replaced, then the first record again, same size, time pinned, (e) size and time as they come; size and time are confirmed with os.Stat before each Read; a failure at the 2nd or 3rd step is classed path-reused-same-size-and-mtime (a, d), path-reused-same-size (b), path-reused-same-mtime (c), path-reused (e); " +
		"apart from the histories every round trip uses one path per worker over and over, each write with its own size and time"
	vr := newVerifRun("C15", "io/polyjson.Write-Read/post/roundtrip",
		"Write to a file in a temporary directory, Read back, compare every field by reflection (ParentSequence pointer not compared); "+nilEmpty+"; "+content+"; "+axes+"; non-trivial = has a feature, a reference or an Other entry, or is the 2nd or 3rd step of a history")
	vl := newVerifRun("C15", "io/polyjson.Parse/post/relink",
		"same records; after Read and after Parse on the file's bytes every feature has a parent holding the returned record's sequence and GetSequence equals both its value before serialisation and an independent evaluation of the location on the original sequence; non-trivial = has a feature; "+axes)
	vg := newVerifRun("C15", "io/polyjson/post/convert-genbank",
		strconv.Itoa(nGb)+" seeded GenBank records laid out by a generator in the test (length 1..400, every header keyword, continuation lines, 0..3 references, at most one COMMENT block, 0..6 features with exactly one qualifier each so that Build's map walks cannot reorder anything, one- and two-line locations of the kinds span / complement / join of spans / join of two complements / complement(join), partial markers, some non-ASCII words): "+
			"plus "+strconv.Itoa(nGbEsc)+" further seeded records from the same generator whose words (definition, keywords, source, organism, authors, titles, comment, qualifier values) come from the same pool extended by "+strconv.Itoa(len(c15EscWords))+" words with a literal backslash in front of u003c / u003e / u0026 / n / another backslash / letters, a backslash at the end, and the characters <, >, & ("+strings.Join(c15EscWords, " ")+"; no blanks, control characters or double quotes: they belong to the layout), a difference on a file that has a backslash directly in front of u003c / u003e / u0026 is classed text-with-backslash-escape-lookalike: "+
			"genbank.Build(polyjson.Parse(file written by polyjson.Write(genbank.Parse(x)))) equals genbank.Build(genbank.Parse(x)) byte for byte; non-trivial = parser output has a feature")
	vf := newVerifRun("C15", "io/polyjson/post/convert-gff",
		strconv.Itoa(nGff)+" seeded GFF3 files laid out by a generator in the test (length 2..501, region start 1 or offset, 0..8 features with 1..4 attributes, blank lines, optional ###, FASTA lines of 50..80 letters and never a 1-letter line; attribute keys from ID, Name, Parent, Note, Dbxref, product; every 25th file has its ##sequence-region moved to start at a random odd coordinate in 2^53+1..2^54 keeping its length, a difference there is classed integer-beyond-2-53): "+
			"plus "+strconv.Itoa(nGffEsc)+" further seeded files from the same generator whose attribute values and FASTA header words come from the same pool extended by the "+strconv.Itoa(len(c15EscWords))+" words with backslashes and <, >, & listed for the GenBank clause, a difference on a file that has a backslash directly in front of u003c / u003e / u0026 is classed text-with-backslash-escape-lookalike: "+
			"gff.Build(polyjson.Parse(file written by polyjson.Write(gff.Parse(x)))) equals gff.Build(gff.Parse(x)) byte for byte; non-trivial = parser output has a feature")
	for _, v := range []*verifRun{vr, vl, vg, vf} {
		v.Sampled()
	}

	// systematic shapes
	var shapes []c15Shape
	for _, refs := range []int{-1, 0, 1, 5} {
		for other := 0; other < 4; other++ {
			for _, feats := range []int{-1, 0, 1, 3} {
				for attrs := 0; attrs < 4; attrs++ {
					for depth := 0; depth <= 4; depth++ {
						sh := c15Shape{refs: refs, other: other, features: feats, attrs: attrs, depth: depth, seqLen: 40}
						if refs < 0 {
							sh.refs, sh.refsNil = 0, true
						}
						shapes = append(shapes, sh)
					}
				}
			}
		}
	}
	// long records: the sequence (one line of the written file) beyond 64 KiB
	var longShapes []c15Shape
	for li, n := range longLens {
		for k := 0; k < longPer; k++ {
			sh := c15Shape{refs: k % 3, refsNil: k%2 == 0, other: (k + li) % 4, features: 1 + k%3, attrs: (k + 2) % 4, depth: k % 3, seqLen: n}
			if k == 3 {
				sh.features = -1 // no feature at all: only metadata and the sequence
			}
			longShapes = append(longShapes, sh)
		}
	}
	escPool := append(append([]string{}, c15Plain...), c15EscWords...)
	escFileClass := func(text string) string {
		if c15EscLookalikeRe.MatchString(text) {
			return "text-with-backslash-escape-lookalike"
		}
		return ""
	}
	const workers = 16
	var wg sync.WaitGroup
	var mu sync.Mutex
	skippedGb, skippedGff := 0, 0
	skippedGbEsc, skippedGffEsc := 0, 0
	for w := 0; w < workers; w++ {
		wg.Add(1)
		go func(w int) {
			defer wg.Done()
			rng := rand.New(rand.NewSource(seed*7919 + int64(w)))
			for i := w; i < len(shapes); i += workers {
				c15CheckRecord(vr, vl, dir, w, shapes[i], rng, seed, i)
			}
			rngLong := rand.New(rand.NewSource(seed*7919 + 1000 + int64(w))) // own stream: the other parts stay what they were
			for i := w; i < len(longShapes); i += workers {
				c15CheckRecord(vr, vl, dir, w, longShapes[i], rngLong, seed, len(shapes)+nRandom+i)
			}
			rngHist := rand.New(rand.NewSource(seed*7919 + 2000 + int64(w))) // own stream as well
			for i := w; i < nHistory; i += workers {
				c15CheckHistory(t, vr, vl, dir, w, rngHist, seed, i)
			}
			rngWrap := rand.New(rand.NewSource(seed*7919 + 4000 + int64(w))) // own stream as well
			for i := w; i < nWrap; i += workers {
				rec, what := c15WrapperRecord(rngWrap, i)
				c15RoundTrip(vr, vl, rec, filepath.Join(dir, "c15-"+strconv.Itoa(w)+".json"), fmt.Sprintf("%s (VERIF_SEED %d)", what, seed), "", nil)
			}
			rngEsc := rand.New(rand.NewSource(seed*7919 + 5000 + int64(w))) // own stream as well
			for i := w; i < nEsc; i += workers {
				rec, what, class := c15EscRecord(rngEsc, i)
				c15RoundTrip(vr, vl, rec, filepath.Join(dir, "c15-"+strconv.Itoa(w)+".json"), fmt.Sprintf("%s (VERIF_SEED %d)", what, seed), class, nil)
			}
			sge, sfe := 0, 0
			for i := w; i < nGbEsc; i += workers {
				text := c15GenBankOf(rngEsc, escPool)
				if c15Convert(vg, dir, w, text, escFileClass(text), genbank.Parse, genbank.Build, func(s poly.Sequence) bool { return len(s.Features) > 0 }) {
					sge++
				}
			}
			for i := w; i < nGffEsc; i += workers {
				text := c15GFFOf(rngEsc, escPool)
				if c15Convert(vf, dir, w, text, escFileClass(text), gff.Parse, gff.Build, func(s poly.Sequence) bool { return len(s.Features) > 0 }) {
					sfe++
				}
			}
			rngName := rand.New(rand.NewSource(seed*7919 + 3000 + int64(w))) // own stream as well
			for i := w; i < nName; i += workers {
				rec, what := c15NameRecord(rngName, i)
				c15RoundTrip(vr, vl, rec, filepath.Join(dir, "c15-"+strconv.Itoa(w)+".json"), fmt.Sprintf("%s (VERIF_SEED %d)", what, seed), "", nil)
			}
			for i := w; i < nRandom; i += workers {
				sh := c15Shape{refs: rng.Intn(6), refsNil: rng.Intn(2) == 0, other: rng.Intn(4), features: rng.Intn(8) - 1, attrs: rng.Intn(4), depth: rng.Intn(5), seqLen: rng.Intn(301)}
				if i%50 == 0 {
					sh.seqLen = 0
				}
				c15CheckRecord(vr, vl, dir, w, sh, rng, seed, len(shapes)+i)
			}
			sg, sf := 0, 0
			for i := w; i < nGb; i += workers {
				if c15Convert(vg, dir, w, c15GenBank(rng), "", genbank.Parse, genbank.Build, func(s poly.Sequence) bool { return len(s.Features) > 0 }) {
					sg++
				}
			}
			for i := w; i < nGff; i += workers {
				text, class := c15GFF(rng), ""
				if i%25 == 7 {
					text, class = c15FarRegion(rngName, text), "integer-beyond-2-53"
				}
				if c15Convert(vf, dir, w, text, class, gff.Parse, gff.Build, func(s poly.Sequence) bool { return len(s.Features) > 0 }) {
					sf++
				}
			}
			mu.Lock()
			skippedGb += sg
			skippedGff += sf
			skippedGbEsc += sge
			skippedGffEsc += sfe
			mu.Unlock()
		}(w)
	}
	wg.Wait()
	if skippedGb*10 > nGb || skippedGff*10 > nGff {
		t.Fatalf("harness: the readers refused %d of %d GenBank and %d of %d GFF generated files; the generators are outside what the readers take", skippedGb, nGb, skippedGff, nGff)
	}
	if skippedGbEsc*10 > nGbEsc || skippedGffEsc*10 > nGffEsc {
		t.Fatalf("harness: the readers refused %d of %d GenBank and %d of %d GFF generated files with backslash and markup words; the generators are outside what the readers take", skippedGbEsc, nGbEsc, skippedGffEsc, nGffEsc)
	}
	if skippedGb+skippedGff+skippedGbEsc+skippedGffEsc > 0 {
		t.Logf("generated files on which the format reader or writer panicked (not parser outputs, left to C01/C02/C14): genbank %d, gff %d; with backslash and markup words: genbank %d, gff %d", skippedGb, skippedGff, skippedGbEsc, skippedGffEsc)
	}
	vr.Done()
	vl.Done()
	vg.Done()
	vf.Done()
}
