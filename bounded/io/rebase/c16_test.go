package rebase

// Bounded back end for C16: REBASE format-31 parsing, supplier decoding and
// JSON export.
//
// Clauses executed on the real Parse / Read / Export:
//
//   io/rebase.Parse/post/records          one entry per <1>..<8> record, keyed by
//                                         enzyme name, fields exactly as written
//   io/rebase.Parse/post/suppliers        every <7> letter decoded to the name the
//                                         file's own supplier table gives it;
//                                         an empty <7> field gives no supplier,
//                                         whatever the records before it have
//   io/rebase.Export/post/json-roundtrip  json.Unmarshal(Export(m)) == m, an
//                                         absent list coming back absent and an
//                                         empty one empty; also when other maps
//                                         are exported before the bytes are parsed
//
// HISTORIES of exports (c16ExportHistory). What Export returns for a map must
// still describe that map after further calls of Export: a := Export(A), then
// Export of one to three other maps (one whose JSON text has exactly the
// length of A's, smaller ones, larger ones), then json.Unmarshal(a) must give A,
// and the bytes of each later export must give its map. One history repeats
// this 50 times with the same maps (a buffer that Export might keep between
// calls is handed out per processor, and grows), and the histories are run
// from one goroutine and from eight goroutines at once (classes
// earlier-export-overwritten, export-overwritten-under-concurrent-exports; a
// failure is classed so only if a copy of the bytes taken right after the
// export does parse back to the map).
//
// ABSENT and EMPTY lists in the export. The JSON form tells an absent list (nil,
// written as null) from an empty one (non-nil of length 0, written as []), and
// with the tags of Enzyme both shapes survive Export and json.Unmarshal, for
// Isoschizomers and for CommercialAvailability alike: there is no exception
// (checked by experiment on the unchanged code base). So the round trip must
// keep the shape (classes empty-collection-became-absent,
// absent-collection-became-empty, judged on an entry that is equal otherwise).
// Parse itself gives, on the unchanged code base, an absent
// CommercialAvailability for an empty <7> field and the one-element list [""]
// for an empty <2> field, never an empty non-nil list; the maps built by the
// oracle therefore have the list of an empty field empty non-nil or absent by
// record (c16ExpectedShapes), all four combinations for the two fields.
// The records and suppliers clauses speak of what Parse reads, not of the JSON
// form, and go on taking nil and empty as the same there.
//
// SPECIAL CHARACTERS in fields (c16Special). The fields of a listing are free
// text: whatever stands between the tag and the end of the line is the field.
// Text that JSON writes in a way of its own must come back from the export as
// it went in: C0 control characters (ESC, vertical tab, NUL, backspace, ...;
// all but LF and CR, which end a line of the listing), DEL and the C1 controls,
// the Unicode line and paragraph separators U+2028 / U+2029, runes above U+FFFF
// that are not printable (tags, private use, noncharacters, U+10FFFF) next to
// printable ones, and text that looks like an escape (backslash, quote, \n,
// \u0041, \x41 spelled out). All of them are valid UTF-8 and, by experiment
// on the unchanged code base, all of them round-trip; bytes that are NOT valid
// UTF-8 do not (JSON text cannot carry them: encoding/json writes U+FFFD) and
// stay outside the domain. Every token is put once into every field of a
// one-record listing (exhaustive), and seeded listings carry tokens of one
// kind, or of all kinds, sprinkled over their fields; the listings go through
// Parse (records and suppliers clauses as for any listing) and the result and
// the described map through Export. A failure that only the tokens of one kind
// bring about is classed control-character-in-field,
// unicode-line-separator-in-field, nonprintable-rune-above-FFFF-in-field or
// escape-look-alike-in-field (special-characters-in-field if it takes several
// kinds).
//
// Inputs come from an independent format-31 writer (c16Write) that follows the
// format description quoted at the top of rebase.go and the distributed sample:
// header prose, the title line of the supplier table, a blank line, one line
// per supplier (indent, code letter, eight blanks, name), a blank line, then
// the records. The oracle is the description (c16Doc) the text was made from.
// The distributed sample data/rebase_test.txt is checked as well, against a
// small independent reader of the same layout.
//
// Besides single reads there are HISTORIES on one path (c16History): three
// listings are written to the same path one after the other - of the same byte
// length and with the same modification time (os.Chtimes), or only one of the
// two, or neither - and the path is read through Read after every write; each
// Read must return the records of the listing in the file now (classes
// path-reused-same-size-and-mtime, path-reused-same-size,
// path-reused-same-mtime, path-reused).

import (
	"encoding/json"
	"fmt"
	"io/ioutil"
	"math/rand"
	"os"
	"path/filepath"
	"reflect"
	"regexp"
	"sort"
	"strconv"
	"strings"
	"sync"
	"testing"
	"time"
)

const c16Title = "REBASE codes for commercial sources of enzymes"

type c16Supplier struct {
	code byte
	name string
}

type c16Rec struct {
	name, iso, site, meth, org, source, letters string
	refs                                        []string // first one goes on the <8> line
}

type c16Doc struct {
	header    []string
	indent    string
	suppliers []c16Supplier
	recs      []c16Rec
	noFinalNL bool // the file ends with its last non-empty line, without a line terminator
	// pathClass, when not empty, says that the listing is read through Read from
	// a path that held another listing before (a history on one path) and names
	// that shape; pathText describes the history
	pathClass, pathText string
	// special, when not nil, says that special-character tokens were put into the
	// fields of the listing, and how to make the variants of it (c16Special)
	special *c16SpecialPlan
}

func c16Word(rng *rand.Rand, alpha string, min, max int) string {
	n := min + rng.Intn(max-min+1)
	b := make([]byte, n)
	for i := range b {
		b[i] = alpha[rng.Intn(len(alpha))]
	}
	return string(b)
}

const c16Lower = "abcdefghijklmnopqrstuvwxyz"
const c16Upper = "ABCDEFGHIJKLMNOPQRSTUVWXYZ"

// c16Prose draws free text without newline and without anything that looks like
// a record tag.
func c16Prose(rng *rand.Rand, maxWords int) string {
	n := 1 + rng.Intn(maxWords)
	ws := make([]string, n)
	for i := range ws {
		switch rng.Intn(12) {
		case 0:
			ws[i] = "(" + strconv.Itoa(1950+rng.Intn(75)) + ")"
		case 1:
			ws[i] = c16Word(rng, c16Upper, 1, 1) + ".,"
		case 2:
			ws[i] = "vol. " + strconv.Itoa(1+rng.Intn(300)) + ","
		case 3:
			ws[i] = []string{"é", "ü", "Å", "http://rebase.neb.com", "5'", "3'", "=-=-=-=", "<ENZYME NAME>", "<REFERENCES>only", "a&b", "\"q\""}[rng.Intn(11)]
		default:
			ws[i] = c16Word(rng, c16Upper, 0, 1) + c16Word(rng, c16Lower, 1, 9)
		}
	}
	return strings.Join(ws, " ")
}

func c16Site(rng *rand.Rand) string {
	core := c16Word(rng, "ACGTNRYKMSWBDHV", 1, 12)
	switch rng.Intn(5) {
	case 0:
		return core
	case 1:
		p := rng.Intn(len(core) + 1)
		return core[:p] + "^" + core[p:]
	case 2:
		return core + "(" + strconv.Itoa(rng.Intn(30)-5) + "/" + strconv.Itoa(rng.Intn(30)-5) + ")"
	case 3:
		return "(" + strconv.Itoa(rng.Intn(15)) + "/" + strconv.Itoa(rng.Intn(15)) + ")" + core + "(" + strconv.Itoa(rng.Intn(15)) + "/" + strconv.Itoa(rng.Intn(15)) + ")"
	}
	return ""
}

func c16Meth(rng *rand.Rand) string {
	switch rng.Intn(4) {
	case 0:
		return strconv.Itoa(1+rng.Intn(6)) + "(" + []string{"4", "5", "6"}[rng.Intn(3)] + ")"
	case 1:
		return strconv.Itoa(1+rng.Intn(6)) + "(5),-" + strconv.Itoa(1+rng.Intn(6)) + "(5)"
	}
	return ""
}

func c16EnzymeName(rng *rand.Rand, i int) string {
	// unique by construction: the running number is part of the name
	pre := []string{"", "", "", "I-", "M.", "Nt.", "M1."}[rng.Intn(7)]
	return pre + c16Word(rng, c16Upper, 1, 1) + c16Word(rng, c16Lower, 2, 2) + strconv.Itoa(i) + []string{"I", "II", "III", "IV"}[rng.Intn(4)]
}

type c16Shape struct {
	nRecs     int
	indent    string
	nSupp     int
	maxLett   int
	maxIso    int
	emptyBias int // percent chance that any optional field is empty
	headerN   int
	noFinalNL bool
	lastRefs  int // 0: as drawn; 1: the last record has only its <8> line; 2: the last record has at least one reference continuation line
	// pattern, when not empty, fixes which of the first records have supplier
	// letters: 'L' = a non-empty <7> field, '-' = an empty one, any other letter = as drawn
	pattern string
}

func c16NewDoc(rng *rand.Rand, sh c16Shape) c16Doc {
	d := c16Doc{indent: sh.indent}
	for i := 0; i < sh.headerN; i++ {
		switch rng.Intn(8) {
		case 0:
			d.header = append(d.header, "")
		case 1:
			d.header = append(d.header, " ")
		case 2: // the real header shows example supplier lines in its prose
			d.header = append(d.header, "                "+c16Word(rng, c16Upper, 1, 1)+"        "+c16Prose(rng, 3)+" (1/98)")
		case 3:
			d.header = append(d.header, "    "+c16Prose(rng, 8))
		default:
			d.header = append(d.header, c16Prose(rng, 10))
		}
	}
	codes := rng.Perm(26)[:sh.nSupp]
	sort.Ints(codes)
	for _, c := range codes {
		d.suppliers = append(d.suppliers, c16Supplier{byte('A' + c), c16Prose(rng, 4) + " (" + strconv.Itoa(1+rng.Intn(12)) + "/" + strconv.Itoa(10+rng.Intn(12)) + ")"})
	}
	opt := func(s string) string {
		if rng.Intn(100) < sh.emptyBias {
			return ""
		}
		return s
	}
	for i := 0; i < sh.nRecs; i++ {
		r := c16Rec{name: c16EnzymeName(rng, i)}
		nIso := rng.Intn(1 + sh.maxIso)
		var iso []string
		for k := 0; k < nIso; k++ {
			iso = append(iso, c16EnzymeName(rng, 1000+rng.Intn(9000)))
		}
		r.iso = opt(strings.Join(iso, ","))
		r.site = opt(c16Site(rng))
		r.meth = opt(c16Meth(rng))
		r.org = opt(c16Prose(rng, 4))
		r.source = opt(c16Prose(rng, 3))
		nl := 0
		if sh.nSupp > 0 && sh.maxLett > 0 && rng.Intn(100) >= sh.emptyBias {
			nl = 1 + rng.Intn(sh.maxLett)
			if nl > sh.nSupp {
				nl = sh.nSupp
			}
		}
		pick := rng.Perm(sh.nSupp)[:nl]
		sort.Ints(pick)
		for _, p := range pick {
			r.letters += string(d.suppliers[p].code)
		}
		nRef := 1 + rng.Intn(4)
		for k := 0; k < nRef; k++ {
			r.refs = append(r.refs, c16Prose(rng, 12)+".")
		}
		if rng.Intn(100) < sh.emptyBias {
			r.refs = []string{""}
		}
		d.recs = append(d.recs, r)
	}
	for i := 0; i < len(sh.pattern) && i < len(d.recs) && sh.nSupp > 0; i++ {
		switch r := &d.recs[i]; {
		case sh.pattern[i] == '-':
			r.letters = ""
		case sh.pattern[i] == 'L' && r.letters == "":
			nl := 1 + rng.Intn(sh.maxLett)
			if nl > sh.nSupp {
				nl = sh.nSupp
			}
			pick := rng.Perm(sh.nSupp)[:nl]
			sort.Ints(pick)
			for _, p := range pick {
				r.letters += string(d.suppliers[p].code)
			}
		}
	}
	d.noFinalNL = sh.noFinalNL
	if n := len(d.recs); n > 0 {
		last := &d.recs[n-1]
		switch {
		case sh.lastRefs == 1:
			last.refs = last.refs[:1]
		case sh.lastRefs == 2 && len(last.refs) < 2:
			last.refs = append(last.refs, c16Prose(rng, 12)+".")
		}
	}
	return d
}

// c16Write is the independent format-31 writer.
func c16Write(d c16Doc) []byte {
	var b strings.Builder
	for _, h := range d.header {
		b.WriteString(h + "\n")
	}
	b.WriteString(c16Title + "\n")
	b.WriteString("\n")
	for _, s := range d.suppliers {
		b.WriteString(d.indent + string(s.code) + "        " + s.name + "\n")
	}
	b.WriteString("\n")
	for _, r := range d.recs {
		b.WriteString("<1>" + r.name + "\n")
		b.WriteString("<2>" + r.iso + "\n")
		b.WriteString("<3>" + r.site + "\n")
		b.WriteString("<4>" + r.meth + "\n")
		b.WriteString("<5>" + r.org + "\n")
		b.WriteString("<6>" + r.source + "\n")
		b.WriteString("<7>" + r.letters + "\n")
		b.WriteString("<8>" + r.refs[0] + "\n")
		for _, x := range r.refs[1:] {
			b.WriteString(x + "\n")
		}
		b.WriteString("\n")
	}
	if d.noFinalNL {
		// the file stops right after its last non-empty line: the last record's
		// <8> line or reference continuation line (with no record: the last
		// supplier line, the title or the last header line)
		return []byte(strings.TrimRight(b.String(), "\n"))
	}
	return []byte(b.String())
}

func c16IndentName(indent string) string {
	if indent == "" {
		return "no indentation"
	}
	if indent[0] == '\t' {
		return strconv.Itoa(len(indent)) + " tab(s)"
	}
	return strconv.Itoa(len(indent)) + " space(s)"
}

func c16Describe(d c16Doc, r *c16Rec) string {
	s := fmt.Sprintf("%d header line(s), supplier table of %d line(s) indented with %s", len(d.header), len(d.suppliers), c16IndentName(d.indent))
	if len(d.suppliers) > 0 {
		s += " (first: " + string(d.suppliers[0].code) + " = " + strconv.QuoteToASCII(d.suppliers[0].name) + ")"
	}
	s += fmt.Sprintf(", %d record(s)", len(d.recs))
	if d.noFinalNL {
		s += ", no final newline (last line: " + c16LastLine(d) + ")"
	}
	if d.pathText != "" {
		s += ", " + d.pathText
	}
	if d.special != nil {
		s += ", " + d.special.text
	}
	if r != nil && d.special != nil { // fields in Go quoting: the tokens are not all visible as they are
		s += fmt.Sprintf("; record <1>%+q <2>%+q <3>%+q <4>%+q <5>%+q <6>%+q <7>%s <8>%+q", r.name, c16Clip(r.iso), r.site, r.meth, r.org, r.source, r.letters, c16Clip(r.refs[0]))
	} else if r != nil {
		s += fmt.Sprintf("; record <1>%s <2>%s <3>%s <4>%s <5>%s <6>%s <7>%s <8>%s", r.name, c16Clip(r.iso), r.site, r.meth, r.org, r.source, r.letters, c16Clip(r.refs[0]))
	}
	return s
}

// c16LastLine names the kind of the last line of a listing without final newline.
func c16LastLine(d c16Doc) string {
	switch n := len(d.recs); {
	case n > 0 && len(d.recs[n-1].refs) > 1:
		return "reference continuation line"
	case n > 0:
		return "<8> line"
	case len(d.suppliers) > 0:
		return "supplier line"
	}
	return "title or header line"
}

func c16Clip(s string) string {
	if len(s) > 60 {
		return s[:60] + "..."
	}
	return s
}

// c16CheckDoc evaluates the records and suppliers clauses on one document.
func c16CheckDoc(rec, sup *verifRun, d c16Doc, text []byte, parse func([]byte) map[string]Enzyme, tag string) map[string]Enzyme {
	key := fmt.Sprintf("%s recs=%d supp=%d indent=%q header=%d", tag, len(d.recs), len(d.suppliers), d.indent, len(d.header))
	if d.noFinalNL {
		key += " no-final-newline last-line=" + c16LastLine(d)
	}
	rec.Case(key, len(d.recs) > 0)
	anyLetters := false
	for _, r := range d.recs {
		if r.letters != "" {
			anyLetters = true
		}
	}
	sup.Case(key, anyLetters)
	var got map[string]Enzyme
	// nlOnly (decided once, on demand): does the listing with its final newline
	// put back satisfy both clauses? Then the missing line terminator is what
	// makes the listing fail.
	nlState := 0
	nlOnly := func() bool {
		if nlState == 0 {
			nlState = 2
			withNL := d
			withNL.noFinalNL = false
			func() {
				defer func() { _ = recover() }()
				if reflect.DeepEqual(c16Normal(Parse(c16Write(withNL))), c16Normal(c16Expected(withNL))) {
					nlState = 1
				}
			}()
		}
		return nlState == 1
	}
	// pathOnly (decided once, on demand): does Parse on the very bytes that are
	// in the file satisfy both clauses? Then what makes the listing fail is that
	// it is read from a path that held another listing before.
	pathState := 0
	pathOnly := func() bool {
		if pathState == 0 {
			pathState = 2
			func() {
				defer func() { _ = recover() }()
				if reflect.DeepEqual(c16Normal(Parse(text)), c16Normal(c16Expected(d))) {
					pathState = 1
				}
			}()
		}
		return pathState == 1
	}
	panicClass := "panic"
	if d.noFinalNL {
		panicClass = "panic-without-final-newline"
	}
	if !rec.Guard(panicClass, c16Describe(d, nil), func() { got = parse(text) }) {
		return nil
	}
	// Shape of a failing listing for the records clause: a listing without final
	// newline whose failure goes away when the line terminator is added.
	recClass := func(class string) string {
		if d.pathClass != "" && pathOnly() {
			return d.pathClass
		}
		if d.special != nil {
			return d.special.classify(class, "parse", c16ParseFails)
		}
		if d.noFinalNL && nlOnly() {
			return "no-final-newline"
		}
		return class
	}
	if len(got) != len(d.recs) {
		rec.Fail(recClass("entry-count-differs"), c16Describe(d, nil), fmt.Sprintf("%d entries, want %d", len(got), len(d.recs)))
	}
	table := map[byte]string{}
	for _, s := range d.suppliers {
		table[s.code] = s.name
	}
	// Shape of a failing listing for the suppliers clause, decided once per
	// listing by re-parsing variants of it: does the failure go away (for some
	// letter) when the table is indented with a tab instead of blanks, or when
	// another supplier line is put in front of the first one?
	var supClasses []string
	if w0 := c16Wrong(d, got); len(w0) > 0 && d.pathClass != "" && pathOnly() {
		supClasses = []string{d.pathClass}
	} else if len(w0) > 0 && d.noFinalNL && nlOnly() {
		supClasses = []string{"no-final-newline"}
	} else if cl := ""; len(w0) > 0 && d.special != nil && func() bool { cl = d.special.classify("", "parse", c16ParseFails); return cl != "" }() {
		supClasses = []string{cl}
	} else if len(w0) > 0 {
		tabbed, shifted, both := d, d, d
		tabbed.indent = "\t"
		dummy := c16Supplier{c16UnusedCode(d), "Placeholder Supplier (1/00)"}
		shifted.suppliers = append([]c16Supplier{dummy}, d.suppliers...)
		both.indent, both.suppliers = "\t", shifted.suppliers
		w1, w2, w3 := c16WrongIn(tabbed), c16WrongIn(shifted), c16WrongIn(both)
		if strings.HasPrefix(d.indent, " ") && (c16Fewer(w1, w0) || c16Fewer(w3, w2)) {
			supClasses = append(supClasses, "space-indented-table")
		}
		if c16Fewer(w2, w0) || c16Fewer(w3, w1) {
			supClasses = append(supClasses, "first-supplier-of-table")
		}
		if len(supClasses) == 0 {
			supClasses = []string{"supplier-differs"}
		}
	}
	lettersBefore := false // an earlier record of the listing has supplier letters
	for i := range d.recs {
		r := &d.recs[i]
		emptyClass := "empty-supplier-field"
		if lettersBefore {
			emptyClass = "empty-supplier-field-after-suppliers"
		}
		lettersBefore = lettersBefore || r.letters != ""
		g, ok := got[r.name]
		if !ok {
			rec.Fail(recClass("entry-missing"), c16Describe(d, r), "no entry under key "+strconv.Quote(r.name))
			continue
		}
		var diffs []string
		cmp := func(what, a, b string) {
			if a != b {
				diffs = append(diffs, fmt.Sprintf("%s %q want %q", what, a, b))
			}
		}
		cmp("name", g.Name, r.name)
		cmp("recognition sequence", g.RecognitionSequence, r.site)
		cmp("methylation site", g.MethylationSite, r.meth)
		cmp("organism", g.MicroOrganism, r.org)
		cmp("source", g.Source, r.source)
		cmp("first reference", g.References, r.refs[0])
		// the list as written: its elements joined by ',' give back the field;
		// for a non-empty field the elements are the comma-separated names
		if r.iso != "" && !reflect.DeepEqual(g.Isoschizomers, strings.Split(r.iso, ",")) || strings.Join(g.Isoschizomers, ",") != r.iso {
			diffs = append(diffs, fmt.Sprintf("isoschizomers %q want %q", g.Isoschizomers, r.iso))
		}
		if len(diffs) > 0 {
			rec.Fail(recClass("field-differs"), c16Describe(d, r), strings.Join(diffs, "; "))
		}
		// suppliers
		var want []string
		for k := 0; k < len(r.letters); k++ {
			want = append(want, table[r.letters[k]])
		}
		if len(want) == 0 && len(g.CommercialAvailability) == 0 {
			continue
		}
		if len(want) == 0 {
			// an empty <7> field: the record has no commercial source. Shape: does
			// the record come after one that has supplier letters?
			if d.noFinalNL && nlOnly() {
				emptyClass = "no-final-newline"
			}
			if d.pathClass != "" && pathOnly() {
				emptyClass = d.pathClass
			}
			sup.Fail(emptyClass, c16Describe(d, r)+fmt.Sprintf(" (record %d of the listing)", i+1), fmt.Sprintf("empty <7> field decoded to %q, want no supplier", g.CommercialAvailability))
			continue
		}
		if !reflect.DeepEqual(g.CommercialAvailability, want) {
			for _, cl := range supClasses {
				sup.Fail(cl, c16Describe(d, r), fmt.Sprintf("<7>%s decoded to %q, want %q", r.letters, g.CommercialAvailability, want))
			}
		}
	}
	return got
}

// c16Wrong returns the code letters of d that got decodes wrongly somewhere.
func c16Wrong(d c16Doc, got map[string]Enzyme) map[byte]bool {
	table := map[byte]string{}
	for _, s := range d.suppliers {
		table[s.code] = s.name
	}
	wrong := map[byte]bool{}
	for _, r := range d.recs {
		g := got[r.name].CommercialAvailability
		for k := 0; k < len(r.letters); k++ {
			if len(g) != len(r.letters) || g[k] != table[r.letters[k]] {
				wrong[r.letters[k]] = true
			}
		}
	}
	return wrong
}

// c16WrongIn parses a variant of a listing and returns its wrong letters (all
// of them if Parse panics).
func c16WrongIn(d c16Doc) (wrong map[byte]bool) {
	defer func() {
		if recover() != nil {
			wrong = c16Wrong(d, map[string]Enzyme{})
		}
	}()
	return c16Wrong(d, Parse(c16Write(d)))
}

// c16Fewer reports whether a is a proper subset of b.
func c16Fewer(a, b map[byte]bool) bool {
	for k := range a {
		if !b[k] {
			return false
		}
	}
	return len(a) < len(b)
}

func c16UnusedCode(d c16Doc) byte {
	used := map[byte]bool{}
	for _, s := range d.suppliers {
		used[s.code] = true
	}
	for c := byte('A'); c <= 'Z'; c++ {
		if !used[c] {
			return c
		}
	}
	return '0'
}

func c16SameEnzyme(a, b Enzyme) bool {
	eq := func(x, y []string) bool {
		if len(x) == 0 && len(y) == 0 {
			return true
		}
		return reflect.DeepEqual(x, y)
	}
	return a.Name == b.Name && a.RecognitionSequence == b.RecognitionSequence && a.MethylationSite == b.MethylationSite &&
		a.MicroOrganism == b.MicroOrganism && a.Source == b.Source && a.References == b.References &&
		eq(a.Isoschizomers, b.Isoschizomers) && eq(a.CommercialAvailability, b.CommercialAvailability)
}

// c16ListShape is the second look at two entries that c16SameEnzyme found
// equal: it gives the class and the text of the first list of length 0 that
// went in absent (nil) and came back empty (non-nil) or the other way round;
// "", "" when both lists kept their shape.
func c16ListShape(a, b Enzyme) (class, detail string) {
	for _, f := range []struct {
		name string
		x, y []string
	}{{"Isoschizomers", a.Isoschizomers, b.Isoschizomers}, {"CommercialAvailability", a.CommercialAvailability, b.CommercialAvailability}} {
		switch {
		case len(f.x) > 0 || (f.x == nil) == (f.y == nil):
		case f.x == nil:
			return "absent-collection-became-empty", f.name + ": absent (nil) in the map exported, empty (non-nil, length 0) after the round trip"
		default:
			return "empty-collection-became-absent", f.name + ": empty (non-nil, length 0) in the map exported, absent (nil) after the round trip"
		}
	}
	return "", ""
}

func c16CheckExport(ex *verifRun, m map[string]Enzyme, what string) {
	c16CheckExportAs(ex, m, what, nil)
}

// c16CheckExportAs is c16CheckExport for a map made from a listing with
// special-character tokens: the class of a failure is then the kind of token
// that brings it about (sp.classify), if one does.
func c16CheckExportAs(ex *verifRun, m map[string]Enzyme, what string, sp *c16SpecialPlan) {
	ex.Case(fmt.Sprintf("%s entries=%d", what, len(m)), len(m) > 0)
	cl := func(class string) string {
		if sp != nil {
			return sp.classify(class, "export", c16ExportFails)
		}
		return class
	}
	var out []byte
	if !func() (ok bool) {
		defer func() {
			if r := recover(); r != nil {
				ex.Fail(cl("panic"), what, fmt.Sprintf("panic: %v", r))
				ok = false
			}
		}()
		out = Export(m)
		return true
	}() {
		return
	}
	var back map[string]Enzyme
	if err := json.Unmarshal(out, &back); err != nil {
		ex.Fail(cl("not-json"), what, "Export output does not parse: "+err.Error()+": "+c16Clip(string(out)))
		return
	}
	if len(back) != len(m) {
		ex.Fail(cl("entry-count-differs"), what, fmt.Sprintf("%d entries after the round trip, want %d", len(back), len(m)))
	}
	for k, e := range m {
		b, ok := back[k]
		if !ok {
			ex.Fail(cl("entry-missing"), what, "key "+strconv.QuoteToASCII(k)+" lost")
		} else if !c16SameEnzyme(e, b) {
			ex.Fail(cl("entry-differs"), what, fmt.Sprintf("key %+q: %+q came back as %+q", k, e, b))
		} else if class, detail := c16ListShape(e, b); class != "" {
			if c16Recorded(ex, class) < 3 { // the text is costly to make and only the first three of a class are kept
				detail = fmt.Sprintf("key %q: %s (every field equal otherwise); exported %#v, came back as %#v; JSON: %s", k, detail, e, b, c16Clip(c16EntryJSON(out, k)))
			}
			ex.Fail(class, what, detail)
		}
	}
	// the map itself: an empty map is exported as {} and comes back non-nil
	if m != nil && len(m) == 0 && len(back) == 0 && back == nil {
		ex.Fail("empty-collection-became-absent", what, "the empty map came back as an absent one (nil): Export wrote "+c16Clip(string(out)))
	}
}

// c16MapDiff compares the map that went into Export with what json.Unmarshal
// makes of the bytes, as c16CheckExport does: entry count, every entry field
// by field, absent and empty lists told apart. "" when they agree.
func c16MapDiff(m, back map[string]Enzyme) string {
	if len(back) != len(m) {
		return fmt.Sprintf("%d entries, want %d", len(back), len(m))
	}
	keys := make([]string, 0, len(m))
	for k := range m {
		keys = append(keys, k)
	}
	sort.Strings(keys)
	for _, k := range keys {
		e := m[k]
		b, ok := back[k]
		if !ok {
			return "key " + strconv.Quote(k) + " lost"
		}
		if !c16SameEnzyme(e, b) {
			return fmt.Sprintf("key %q: %+v came back as %+v", k, e, b)
		}
		if _, detail := c16ListShape(e, b); detail != "" {
			return fmt.Sprintf("key %q: %s", k, detail)
		}
	}
	if m != nil && len(m) == 0 && back == nil {
		return "the empty map came back as an absent one (nil)"
	}
	return ""
}

// c16ParsesTo says what is wrong with exported bytes as a description of m
// ("" if nothing): they do not parse, or parse to another map.
func c16ParsesTo(out []byte, m map[string]Enzyme) string {
	var back map[string]Enzyme
	if err := json.Unmarshal(out, &back); err != nil {
		return "the bytes do not parse: " + err.Error() + ": " + c16Clip(string(out))
	}
	if d := c16MapDiff(m, back); d != "" {
		return "the bytes parse to another map: " + d
	}
	return ""
}

// the variants of an export history: which maps are exported after the first
// one (A) and before A's bytes are parsed
var c16ExportVariants = []struct{ others, text string }{
	{"=", "one other map whose JSON text has exactly the length of A's (A with the letters of every recognition sequence exchanged A>C>G>T>A)"},
	{"<", "one smaller map"},
	{">", "one larger map"},
	{"<=", "a smaller map, then the map of A's length"},
	{"><", "a larger map, then a smaller one"},
	{"=<>", "the map of A's length, a smaller map, a larger map"},
	{"0", "the empty map"},
	{"A", "A itself once more (every byte the same)"},
}

const c16ExportRounds = 50

// c16ExportHistory runs one history of exports, c16ExportRounds times over
// with the same maps: a := Export(A); then Export of the other maps of the
// variant, in order; then the bytes a, which nobody but Export has touched,
// must still parse back to A, and the bytes of every later export to its map.
// A is the map a generated listing describes (built by the oracle, not by
// Parse), with 1..12 records, every fourth history up to maxRecs, in the first
// history of each variant (h < 8) a single record; a smaller map
// has 0..|A|-1 records and a larger one |A|+1..2|A|+5, from other listings. A
// copy of the bytes is taken right after each export: a failure is put down to
// the history (class given by the caller) only if that copy parses back to the
// map; otherwise the plain round trip is what fails, and that has its classes
// in c16CheckExport.
func c16ExportHistory(ex *verifRun, seed int64, h, maxRecs int, class, how string) {
	variant := c16ExportVariants[h%len(c16ExportVariants)]
	rng := rand.New(rand.NewSource(seed*1000003 + 5000000 + int64(h)))
	doc := func(n int) c16Doc {
		return c16NewDoc(rng, c16Shape{nRecs: n, indent: "\t", nSupp: 1 + rng.Intn(26), maxLett: 15, maxIso: 4, emptyBias: []int{0, 10, 50}[rng.Intn(3)], headerN: 0})
	}
	nA := 1 + rng.Intn(12)
	if h%4 == 3 {
		nA = 1 + rng.Intn(maxRecs)
	}
	if h < len(c16ExportVariants) { // the first history of every variant is the smallest: one record
		nA = 1
	}
	dA := doc(nA)
	if dA.recs[0].site == "" { // at least one recognition sequence to exchange
		dA.recs[0].site = "GG^CC"
	}
	mA := c16ExpectedShapes(dA, h%4)
	type step struct {
		m    map[string]Enzyme
		name string
	}
	steps := []step{{mA, fmt.Sprintf("A (%d entries)", len(mA))}}
	for _, o := range variant.others {
		var m map[string]Enzyme
		switch o {
		case '=':
			d := dA
			d.recs = append([]c16Rec(nil), dA.recs...)
			for i := range d.recs {
				d.recs[i].site = strings.NewReplacer("A", "C", "C", "G", "G", "T", "T", "A").Replace(d.recs[i].site)
			}
			m = c16ExpectedShapes(d, h%4)
		case '<':
			m = c16ExpectedShapes(doc(rng.Intn(nA)), h%4)
		case '>':
			m = c16ExpectedShapes(doc(nA+1+rng.Intn(nA+5)), h%4)
		case '0':
			m = map[string]Enzyme{}
		default:
			m = mA
		}
		steps = append(steps, step{m, fmt.Sprintf("%c (%d entries)", o, len(m))})
	}
	var names []string
	for _, s := range steps {
		names = append(names, s.name)
	}
	what := fmt.Sprintf("export history #%d (VERIF_SEED %d), %s: a := Export(A), then Export of %s, then a is parsed; maps in order: %s; repeated %d times", h, seed, how, variant.text, strings.Join(names, ", "), c16ExportRounds)
	ex.Case(what, true)
	outs, copies := make([][]byte, len(steps)), make([]string, len(steps))
	for round := 0; round < c16ExportRounds; round++ {
		for k, s := range steps {
			if !ex.Guard("panic", what, func() { outs[k] = Export(s.m) }) {
				return
			}
			copies[k] = string(outs[k])
		}
		for k, s := range steps {
			// what the slice holds NOW, taken off in one go: should another goroutine's
			// Export be writing into the same memory, the decoder must not be the
			// one to walk over bytes that change under it (it panics when they do)
			now := []byte(string(outs[k]))
			wrong := c16ParsesTo(now, s.m)
			if wrong == "" {
				continue
			}
			if c16ParsesTo([]byte(copies[k]), s.m) != "" {
				continue // the export is wrong from the start: c16CheckExport's subject
			}
			later := "no later call of Export in this goroutine"
			for j := k + 1; j < len(steps); j++ {
				if j == k+1 {
					later = "the later calls of Export in this goroutine, returning"
				}
				later += fmt.Sprintf(" %d bytes for map %s,", len(copies[j]), steps[j].name)
			}
			ex.Fail(class, what, fmt.Sprintf("round %d: Export of map %s returned %d bytes that parsed back to the map right after the call; after %s: %s; the slice now starts %s, right after the call it started %s",
				round+1, s.name, len(copies[k]), strings.TrimSuffix(later, ","), wrong, strconv.Quote(c16Clip(string(now))), strconv.Quote(c16Clip(copies[k]))))
			return
		}
	}
}

// c16Recorded says how many failures of a class a run has counted so far.
func c16Recorded(v *verifRun, class string) int {
	v.mu.Lock()
	defer v.mu.Unlock()
	return v.perClass[v.Clause+"|"+class]
}

// c16EntryJSON cuts the value stored under key k out of an exported map ("" if
// the text cannot be taken apart), for the detail of a failure.
func c16EntryJSON(out []byte, k string) string {
	var raw map[string]json.RawMessage
	if json.Unmarshal(out, &raw) != nil {
		return ""
	}
	return string(raw[k])
}

// c16Normal maps nil, [] and [""] lists to nil so that two results can be compared.
func c16Normal(m map[string]Enzyme) map[string]Enzyme {
	out := map[string]Enzyme{}
	for k, e := range m {
		if len(e.Isoschizomers) == 0 || len(e.Isoschizomers) == 1 && e.Isoschizomers[0] == "" {
			e.Isoschizomers = nil
		}
		if len(e.CommercialAvailability) == 0 {
			e.CommercialAvailability = nil
		}
		out[k] = e
	}
	return out
}

// c16Expected builds the map the property describes from the description alone.
func c16Expected(d c16Doc) map[string]Enzyme {
	table := map[byte]string{}
	for _, s := range d.suppliers {
		table[s.code] = s.name
	}
	m := map[string]Enzyme{}
	for _, r := range d.recs {
		e := Enzyme{Name: r.name, RecognitionSequence: r.site, MethylationSite: r.meth, MicroOrganism: r.org, Source: r.source, References: r.refs[0]}
		if r.iso != "" {
			e.Isoschizomers = strings.Split(r.iso, ",")
		}
		for k := 0; k < len(r.letters); k++ {
			e.CommercialAvailability = append(e.CommercialAvailability, table[r.letters[k]])
		}
		m[r.name] = e
	}
	return m
}

// c16ExpectedShapes is c16Expected with the lists of EMPTY <2> and <7> fields
// in both shapes: in c16Expected they are all absent (nil); here, with
// n = phase + the number of the record in the listing (from 0), the list of an
// empty <2> field is empty non-nil when n is even and absent when n is odd, and
// the list of an empty <7> field is empty non-nil when n/2 is even and absent
// when it is odd - so over four records in a row: both lists empty, the
// supplier list only, the isoschizomer list only, both absent.
func c16ExpectedShapes(d c16Doc, phase int) map[string]Enzyme {
	m := c16Expected(d)
	for i, r := range d.recs {
		e, n := m[r.name], phase+i
		if r.iso == "" && n%2 == 0 {
			e.Isoschizomers = []string{}
		}
		if r.letters == "" && (n/2)%2 == 0 {
			e.CommercialAvailability = []string{}
		}
		m[r.name] = e
	}
	return m
}

var c16SupplierLine = regexp.MustCompile(`^[ \t]+([A-Za-z0-9])        (\S.*)$`)
var c16TagLine = regexp.MustCompile(`^<([1-8])>(.*)$`)

// c16ReadSample is a small independent reader of the distributed layout.
func c16ReadSample(text string) c16Doc {
	var d c16Doc
	lines := strings.Split(text, "\n")
	i := 0
	for ; i < len(lines) && lines[i] != c16Title; i++ {
		d.header = append(d.header, lines[i])
	}
	for i++; i < len(lines) && !strings.HasPrefix(lines[i], "<1>"); i++ {
		if m := c16SupplierLine.FindStringSubmatch(lines[i]); m != nil {
			d.suppliers = append(d.suppliers, c16Supplier{m[1][0], m[2]})
			d.indent = lines[i][:strings.Index(lines[i], m[1])]
		}
	}
	var cur *c16Rec
	for ; i < len(lines); i++ {
		m := c16TagLine.FindStringSubmatch(lines[i])
		if m == nil {
			continue
		}
		switch m[1] {
		case "1":
			d.recs = append(d.recs, c16Rec{name: m[2]})
			cur = &d.recs[len(d.recs)-1]
		case "2":
			cur.iso = m[2]
		case "3":
			cur.site = m[2]
		case "4":
			cur.meth = m[2]
		case "5":
			cur.org = m[2]
		case "6":
			cur.source = m[2]
		case "7":
			cur.letters = m[2]
		case "8":
			cur.refs = []string{m[2]}
		}
	}
	return d
}

// c16Stamp is the modification time given to the file after every write of a
// history with a pinned time (a whole second: every file system stores it).
var c16Stamp = time.Date(2021, 4, 25, 12, 0, 0, 0, time.UTC)

// history variants: which of byte length and modification time the successive
// listings on the path share
var c16HistoryVariants = []struct {
	size                 int // 0 as it comes, 1 the same for all three listings, 2 different from one write to the next
	pinTime, sameRecords bool
	class, text          string
}{
	{1, true, false, "path-reused-same-size-and-mtime", "three unrelated listings of the same byte length, same modification time"},
	{1, false, false, "path-reused-same-size", "three unrelated listings of the same byte length, modification time left to the file system"},
	{1, true, true, "path-reused-same-size-and-mtime", "a listing, the same listing with the letters of every recognition sequence exchanged (A>C>G>T>A), the first listing again; same byte length, same modification time"},
	{2, true, false, "path-reused-same-mtime", "three unrelated listings, byte length different from one write to the next, same modification time"},
	{1, false, true, "path-reused-same-size", "a listing, the same listing with the letters of every recognition sequence exchanged, the first listing again; same byte length, modification time left to the file system"},
	{0, false, false, "path-reused", "three unrelated listings, byte length and modification time as they come"},
}

// c16History writes three listings to ONE path, one after the other, and reads
// the path through Read after every write: each Read must return one entry per
// record of the listing that is in the file NOW (records and suppliers clauses,
// judged as for any other listing). For the same-length variants the shorter
// listings get letters appended to their first header line (header prose is
// free text). For the pinned variants os.Chtimes sets the same modification
// time after every write. Even histories overwrite the file in place, odd ones
// write a new file next to it and rename it over the path. Length and time of
// the file are confirmed with os.Stat before each Read.
func c16History(t *testing.T, rec, sup *verifRun, dir string, seed int64, h, maxRecs int) {
	variant := c16HistoryVariants[h%len(c16HistoryVariants)]
	rng := rand.New(rand.NewSource(seed*1000003 + 3000000 + int64(h)))
	path := filepath.Join(dir, "history-"+strconv.Itoa(h)+".txt")
	indents := []string{"                ", "\t"}
	draw := func() c16Shape {
		n := rng.Intn(maxRecs + 1)
		if h%5 != 0 { // mostly small
			n = rng.Intn(9)
		}
		return c16Shape{nRecs: n, indent: indents[rng.Intn(2)], nSupp: 1 + rng.Intn(26), maxLett: 15, maxIso: 4, emptyBias: []int{0, 10}[rng.Intn(2)], headerN: 1 + rng.Intn(6)}
	}
	var docs []c16Doc
	if variant.sameRecords {
		sh := draw()
		if sh.nRecs == 0 {
			sh.nRecs = 1
		}
		first := c16NewDoc(rng, sh)
		if first.recs[0].site == "" { // at least one recognition sequence to exchange
			first.recs[0].site = "GG^CC"
		}
		second := first
		second.recs = append([]c16Rec(nil), first.recs...)
		for i := range second.recs {
			second.recs[i].site = strings.NewReplacer("A", "C", "C", "G", "G", "T", "T", "A").Replace(second.recs[i].site)
		}
		docs = []c16Doc{first, second, first}
	} else {
		for k := 0; k < 3; k++ {
			docs = append(docs, c16NewDoc(rng, draw()))
		}
	}
	most := 0
	for _, d := range docs {
		if n := len(c16Write(d)); n > most {
			most = n
		}
	}
	for k := range docs {
		d := &docs[k]
		d.header = append([]string(nil), d.header...)
		switch n := len(c16Write(*d)); {
		case variant.size == 1:
			d.header[0] += strings.Repeat("x", most-n)
		case variant.size == 2 && k > 0 && n == len(c16Write(docs[k-1])):
			d.header[0] += "x"
		}
	}
	var prevSize int64
	var prevTime time.Time
	for k, d := range docs {
		text := c16Write(d)
		if h%2 == 0 {
			if err := ioutil.WriteFile(path, text, 0644); err != nil {
				t.Fatal(err)
			}
		} else {
			if err := ioutil.WriteFile(path+".new", text, 0644); err != nil {
				t.Fatal(err)
			}
			if err := os.Rename(path+".new", path); err != nil {
				t.Fatal(err)
			}
		}
		if variant.pinTime {
			if err := os.Chtimes(path, c16Stamp, c16Stamp); err != nil {
				t.Fatal(err)
			}
		}
		info, err := os.Stat(path)
		if err != nil {
			t.Fatal(err)
		}
		if k > 0 && (variant.size == 1 && info.Size() != prevSize || variant.size == 2 && info.Size() == prevSize || variant.pinTime && !info.ModTime().Equal(prevTime)) {
			t.Errorf("harness: history %d step %d: the file does not have the length / modification time the variant states", h, k+1)
		}
		prevSize, prevTime = info.Size(), info.ModTime()
		d.pathText = fmt.Sprintf("history on one path (%s; %s), step %d of 3, file of %d bytes", variant.text, []string{"file overwritten in place", "new file renamed over the path"}[h%2], k+1, len(text))
		if k > 0 {
			d.pathClass = variant.class
		}
		c16CheckDoc(rec, sup, d, text, func([]byte) map[string]Enzyme {
			m, err := Read(path)
			if err != nil {
				t.Fatal(err)
			}
			return m
		}, fmt.Sprintf("Read history=%d step=%d %s", h, k+1, variant.class))
	}
}

// ---- special characters in fields ----

type c16SpecialKind struct {
	class, text string
	tokens      []string
}

// c16SpecialKinds: the tokens put into fields, by kind. All of them are valid
// UTF-8 and none contains LF or CR (which end a line of the listing), a comma
// or a '<'.
var c16SpecialKinds = func() []c16SpecialKind {
	runes := func(rs ...rune) (out []string) {
		for _, r := range rs {
			out = append(out, string(r))
		}
		return out
	}
	var ctl []rune
	for r := rune(0); r <= 0x9f; r++ {
		if r != 0x0a && r != 0x0d && (r < 0x20 || r >= 0x7f) {
			ctl = append(ctl, r)
		}
	}
	bs := string(rune(0x5c)) // one backslash
	return []c16SpecialKind{
		{"control-character-in-field", "control characters: every C0 control U+0000..U+001F but LF and CR (so NUL, BEL, backspace, TAB, vertical tab, form feed, ESC, ...), DEL U+007F, every C1 control U+0080..U+009F", runes(ctl...)},
		{"unicode-line-separator-in-field", "the Unicode line separator U+2028 and paragraph separator U+2029", runes(0x2028, 0x2029)},
		{"nonprintable-bmp-rune-in-field", "runes of the basic plane that are not printable: soft hyphen U+00AD, Arabic letter mark U+061C, zero width space U+200B, private use U+E000, byte order mark U+FEFF, replacement character U+FFFD, noncharacters U+FFFE U+FFFF", runes(0xad, 0x61c, 0x200b, 0xe000, 0xfeff, 0xfffd, 0xfffe, 0xffff)},
		{"supplementary-plane-rune-in-field", "runes above U+FFFF: not printable (noncharacters U+1FFFE U+1FFFF, language tag U+E0001, cancel tag U+E007F, private use U+F0000 U+10FFFD, the last code point U+10FFFF) and printable (U+10000, U+1F9EC, U+20000)", runes(0x1fffe, 0x1ffff, 0xe0001, 0xe007f, 0xf0000, 0x10fffd, 0x10ffff, 0x10000, 0x1f9ec, 0x20000)},
		{"escape-look-alike-in-field", "text that looks like an escape, spelled out in plain characters: a backslash, two backslashes, a quote, backslash+quote, backslash+n, backslash+t, backslash+u0041, backslash+u001b, backslash+x41, backslash+U0001F9EC, backslash+slash, an apostrophe, &amp;",
			[]string{bs, bs + bs, "\"", bs + "\"", bs + "n", bs + "t", bs + "u0041", bs + "u001b", bs + "x41", bs + "U0001F9EC", bs + "/", "'", "&amp;"}},
	}
}()

// c16Ins is one token put into one field: field counts through c16Fields, pos
// is the rune offset in the field as it was before any token was put in.
type c16Ins struct {
	field, pos, kind int
	tok              string
}

// c16SpecialPlan is a listing with special-character tokens in its fields, kept
// as the listing without tokens plus the list of insertions, so that variants
// with the tokens of one kind only can be made when a clause fails.
type c16SpecialPlan struct {
	base    c16Doc
	ins     []c16Ins
	phase   int // of c16ExpectedShapes
	text    string
	classes map[string]string
}

// c16Fields lists the free-text fields of a listing in a fixed order: header
// lines, supplier names, then per record <1> <2> <3> <4> <5> <6> and every
// reference line. (The <7> field is a string of code letters, not free text.)
func c16Fields(d *c16Doc) (fs []*string, names map[int]bool, label []string) {
	names = map[int]bool{}
	add := func(p *string, l string) { fs, label = append(fs, p), append(label, l) }
	for i := range d.header {
		add(&d.header[i], "header line "+strconv.Itoa(i+1))
	}
	for i := range d.suppliers {
		add(&d.suppliers[i].name, "name of supplier "+string(d.suppliers[i].code))
	}
	for i := range d.recs {
		r, n := &d.recs[i], " of record "+strconv.Itoa(i+1)
		names[len(fs)] = true
		add(&r.name, "<1>"+n)
		add(&r.iso, "<2>"+n)
		add(&r.site, "<3>"+n)
		add(&r.meth, "<4>"+n)
		add(&r.org, "<5>"+n)
		add(&r.source, "<6>"+n)
		for k := range r.refs {
			if k == 0 {
				add(&r.refs[k], "<8>"+n)
			} else {
				add(&r.refs[k], "reference continuation line "+strconv.Itoa(k)+n)
			}
		}
	}
	return fs, names, label
}

func c16CloneDoc(d c16Doc) c16Doc {
	c := d
	c.header = append([]string(nil), d.header...)
	c.suppliers = append([]c16Supplier(nil), d.suppliers...)
	c.recs = make([]c16Rec, len(d.recs))
	for i, r := range d.recs {
		r.refs = append([]string(nil), r.refs...)
		c.recs[i] = r
	}
	return c
}

// variant makes the listing with the tokens of the kinds that keep admits.
func (p *c16SpecialPlan) variant(keep func(kind int) bool) c16Doc {
	d := c16CloneDoc(p.base)
	fs, _, _ := c16Fields(&d)
	byField := map[int][]c16Ins{}
	for _, in := range p.ins {
		if keep(in.kind) {
			byField[in.field] = append(byField[in.field], in)
		}
	}
	for f, list := range byField {
		sort.SliceStable(list, func(a, b int) bool { return list[a].pos < list[b].pos })
		rs := []rune(*fs[f])
		var b strings.Builder
		at := 0
		for _, in := range list {
			b.WriteString(string(rs[at:in.pos]))
			b.WriteString(in.tok)
			at = in.pos
		}
		b.WriteString(string(rs[at:]))
		*fs[f] = b.String()
	}
	return d
}

func c16NamesDistinct(d c16Doc) bool {
	seen := map[string]bool{}
	for _, r := range d.recs {
		if seen[r.name] {
			return false
		}
		seen[r.name] = true
	}
	return true
}

// c16WithSpecial finishes a plan and returns the listing with all its tokens.
// Enzyme names must stay distinct (they are the keys), in the listing and in
// its one-kind variants: should tokens ever make two names equal, the names
// get no tokens.
func c16WithSpecial(p *c16SpecialPlan, what string) c16Doc {
	all := func(int) bool { return true }
	distinct := c16NamesDistinct(p.variant(all))
	for k := range c16SpecialKinds {
		k := k
		distinct = distinct && c16NamesDistinct(p.variant(func(kind int) bool { return kind == k }))
	}
	_, names, label := c16Fields(&p.base)
	if !distinct {
		var kept []c16Ins
		for _, in := range p.ins {
			if !names[in.field] {
				kept = append(kept, in)
			}
		}
		p.ins = kept
	}
	p.text = what + ": " + strconv.Itoa(len(p.ins)) + " token(s) in the fields"
	if len(p.ins) > 0 {
		in := p.ins[0]
		p.text += fmt.Sprintf(", the first %+q at rune offset %d of %s", in.tok, in.pos, label[in.field])
	}
	p.classes = map[string]string{}
	d := p.variant(all)
	d.special = p
	return d
}

// classify gives the class of a failure on a listing with tokens: fails says
// whether a listing fails the clause in question. If the listing without any
// token fails too, or the listing with all tokens does not fail by this
// measure, the tokens are not what it is about and the class stays; otherwise
// the class is that of the first kind whose tokens alone make the listing
// fail, special-characters-in-field if no kind does so alone.
func (p *c16SpecialPlan) classify(class, which string, fails func(d c16Doc, phase int) bool) string {
	if c, ok := p.classes[which]; ok {
		if c == "" {
			return class
		}
		return c
	}
	c := ""
	bad := func(keep func(int) bool) bool { return fails(p.variant(keep), p.phase) }
	if !bad(func(int) bool { return false }) && bad(func(int) bool { return true }) {
		c = "special-characters-in-field"
		for k := range c16SpecialKinds {
			k := k
			if bad(func(kind int) bool { return kind == k }) {
				c = c16SpecialKinds[k].class
				break
			}
		}
	}
	p.classes[which] = c
	if c == "" {
		return class
	}
	return c
}

// c16ExportFails: does the export of the map the listing describes fail to
// parse back to it (or panic)?
func c16ExportFails(d c16Doc, phase int) (fails bool) {
	defer func() {
		if recover() != nil {
			fails = true
		}
	}()
	m := c16ExpectedShapes(d, phase)
	return c16ParsesTo(Export(m), m) != ""
}

// c16ParseFails: does Parse on the listing give something else than the map
// the listing describes (or panic)?
func c16ParseFails(d c16Doc, phase int) (fails bool) {
	defer func() {
		if recover() != nil {
			fails = true
		}
	}()
	return !reflect.DeepEqual(c16Normal(Parse(c16Write(d))), c16Normal(c16Expected(d)))
}

// c16Sprinkle makes a plan for a listing: every free-text field gets 1..3
// tokens with probability density %, drawn from the given kinds, at random
// rune offsets (start and end of the field included); a listing with records
// gets at least one token in a record field.
func c16Sprinkle(rng *rand.Rand, base c16Doc, kinds []int, density, phase int) *c16SpecialPlan {
	p := &c16SpecialPlan{base: c16CloneDoc(base), phase: phase}
	fs, _, _ := c16Fields(&p.base)
	first := len(p.base.header) + len(p.base.suppliers)
	put := func(f int) {
		kind := kinds[rng.Intn(len(kinds))]
		toks := c16SpecialKinds[kind].tokens
		p.ins = append(p.ins, c16Ins{field: f, pos: rng.Intn(len([]rune(*fs[f])) + 1), kind: kind, tok: toks[rng.Intn(len(toks))]})
	}
	inRecord := false
	for f := range fs {
		if rng.Intn(100) >= density {
			continue
		}
		for n := 1 + rng.Intn(3); n > 0; n-- {
			put(f)
		}
		inRecord = inRecord || f >= first
	}
	if !inRecord && len(fs) > first {
		put(first + rng.Intn(len(fs)-first))
	}
	return p
}

// c16SpecialBase is the one-record listing of the exhaustive part: a record of
// the distributed sample with one supplier and one reference continuation line.
func c16SpecialBase(indent string) c16Doc {
	return c16Doc{
		header:    []string{"REBASE version 104, header prose"},
		indent:    indent,
		suppliers: []c16Supplier{{'N', "New England Biolabs (3/21)"}},
		recs: []c16Rec{{name: "AatII", iso: "ZraI,Ssp5230I", site: "GACGT^C", meth: "5(5)", org: "Acetobacter aceti", source: "IFO 3281", letters: "N",
			refs: []string{"Sugisaki, H., Maekawa, Y., Kanazawa, S., Takanami, M., (1982) Nucleic Acids Res., vol. 10, pp. 5747-5752.", "Unpublished observations."}}},
	}
}

func TestVerifC16(t *testing.T) {
	thorough := verifThorough()
	seed := verifSeed()
	dir := t.TempDir()
	nRandom := 150
	nHist, histMaxRecs := 120, 60
	nExpHist, expMaxRecs := 48, 40
	specialSizes, nSpecial, specialMax := []int{1, 2, 3, 5, 12}, 4, 60
	if thorough {
		nSpecial, specialMax = 150, 300
		nRandom = 6000
		nHist, histMaxRecs = 3000, 300
		nExpHist, expMaxRecs = 1600, 300
	}
	var kindTexts []string
	for _, k := range c16SpecialKinds {
		kindTexts = append(kindTexts, k.text)
	}
	specialText := strings.Join(kindTexts, "; ")
	patterns := []string{"L-", "L--", "L---", "L-----", "L-L", "L-L-", "L--L--", "-L-", "--L--", "LL-", "LLL---", "L-xxxx-", "xL-x-x-L--"}
	indents := []string{"                ", "                ", "\t", "\t\t", " ", "    ", "\t\t\t\t", "        "}
	dom := "listings from an independent format-31 writer: every record count 0..300 once plus " + strconv.Itoa(nRandom) + " seeded listings with 0..300 records; 0..40 lines of header prose (blank and one-blank lines, indented lines, example supplier lines as in the real header, <ENZYME NAME>-style words, non-ASCII); " +
		"supplier table of 0..26 lines (distinct code letters A..Z in alphabetical order, name of 1..4 words plus a date) indented with 16 spaces (distributed layout), 1, 4 or 8 spaces, or 1, 2 or 4 tabs; 0..15 distinct letters per <7> field, all from the table; " +
		"any of <2>..<8> empty with probability 0/10/50 % per listing; " +
		"empty <7> fields after supplier letters: besides what the 10 % and 50 % listings contain, 78 small listings (2..10 records, table of 1, 3 or 15 suppliers, 16 spaces or a tab) whose records follow the patterns " + strings.Join(patterns, " ") + " (L = <7> field with 1..15 letters, - = empty <7> field, x = either), i.e. an empty field directly after a record with letters and with 1..4 further empty-field records in between, before and after further records with letters; 1..4 reference lines per record (only the first is tagged); every 9th listing read through Read on a temp file; " +
		"final newline: all of the above end with a blank line, and in addition listings that end WITHOUT a final newline right after the last record's <8> line or after its last reference continuation line (with no record: after the last supplier, title or header line): the small shapes (0..3 records, so single-record listings too, x 0..3 suppliers x spaces/tab) in both endings, every record count 0..300 once in each ending, and " + strconv.Itoa(nRandom/3) + " further seeded listings; plus the distributed sample data/rebase_test.txt against an independent reader; " +
		"special characters in fields: tokens of five kinds, all valid UTF-8, none with LF, CR, comma or '<' - " + specialText + " - put into the free-text fields (header lines, supplier names, <1> <2> <3> <4> <5> <6> <8> and reference continuation lines; a field must come back exactly as written, token included): " +
		"exhaustively every token once in every one of the 10 fields of a one-record listing (one supplier, 16 spaces or a tab, one header line, one continuation line), in the middle, at the start or at the end of the field in turn, and per kind and for all kinds mixed " + strconv.Itoa(len(specialSizes)) + " seeded listings of " + strings.Trim(fmt.Sprint(specialSizes), "[]") + " records plus " + strconv.Itoa(nSpecial) + " of 0.." + strconv.Itoa(specialMax) + " records (0..6 header lines) in which every field gets 1..3 tokens with probability 15, 40 or 100 % per listing, at least one in a record field; bytes that are not valid UTF-8 are outside the domain (JSON text cannot carry them, so the export clause could not hold); " +
		"a failure that goes away without the tokens is classed by the first kind whose tokens alone bring it about (control-character-in-field, unicode-line-separator-in-field, nonprintable-bmp-rune-in-field, supplementary-plane-rune-in-field, escape-look-alike-in-field), special-characters-in-field if no kind does alone; " +
		"histories on one path: " + strconv.Itoa(nHist) + " seeded histories in which three listings (0..8 records, every fifth history 0.." + strconv.Itoa(histMaxRecs) + "; table of 1..26 suppliers; 1..6 header lines) are written to the SAME path one after the other and the path is read through Read after every write: each Read must give one entry per record of the listing in the file NOW, with its fields and suppliers; " +
		"six variants in turn: (a) unrelated listings brought to exactly the same byte length (letters appended to the first header line) with the modification time set to the same whole second by os.Chtimes after every write, (b) same length, time left to the file system, (c) a listing, the same listing with the letters of every recognition sequence exchanged, the first listing again, same length, time pinned, (d) different lengths, time pinned, (e) as (c) with the time left to the file system, (f) length and time as they come; " +
		"even histories overwrite the file in place, odd ones rename a new file over the path; length and time are confirmed with os.Stat before each Read; a failure at the 2nd or 3rd step that Parse on the file's bytes does not show is classed path-reused-same-size-and-mtime (a, c), path-reused-same-size (b, e), path-reused-same-mtime (d), path-reused (f)"
	rec := newVerifRun("C16", "io/rebase.Parse/post/records", dom+"; compared per record: key, name, isoschizomer list (an empty <2> field may come back as nil, [] or [\"\"]), recognition sequence, methylation site, organism, source, first reference; entry count; non-trivial = at least one record")
	sup := newVerifRun("C16", "io/rebase.Parse/post/suppliers", dom+"; compared per record: CommercialAvailability == names of the <7> letters, in order, from the file's own table (nil and empty equal), so a record with an empty <7> field has no supplier whatever the records before it have (a supplier reported for an empty field is classed empty-supplier-field-after-suppliers when an earlier record of the listing has letters, else empty-supplier-field); non-trivial = at least one record with a supplier letter")
	ex := newVerifRun("C16", "io/rebase.Export/post/json-roundtrip", "json.Unmarshal(Export(m)) == m, entry by entry and field by field, for m = the result of Parse on each listing above (those with special-character tokens in their fields included: the control characters, separators, non-printable and supplementary-plane runes and escape look-alikes listed there must come back rune for rune, in names - which are the keys too -, isoschizomers, sites, organisms, sources, supplier names and references), m = the map the listing describes built directly (suppliers decoded by the oracle), and the empty map; "+
		"absent and empty lists: a list that is ABSENT in m (nil; null in the JSON text) must come back absent and one that is EMPTY (non-nil, length 0; [] in the text) must come back empty, for Isoschizomers and for CommercialAvailability - the JSON form tells the two apart and with the tags of Enzyme both shapes survive Export and json.Unmarshal; no exception: the experiment on the unchanged code base shows nil -> null -> nil and [] -> [] -> [] for both fields, and {} -> non-nil for the empty map; "+
		"judged on an entry that is equal in every field otherwise, classes empty-collection-became-absent and absent-collection-became-empty; "+
		"both shapes are supplied: Parse on the unchanged code base gives an absent CommercialAvailability for an empty <7> field and the one-element list [\"\"] for an empty <2> field (never an empty non-nil list), and in the described map the list of an empty <2> field is empty non-nil when n is even and absent when n is odd, the list of an empty <7> field empty non-nil when n/2 is even and absent when it is odd, n = number of the record in the listing from 0 + a phase 0..3 that goes round with the listings (four records in a row: both lists empty, supplier list only, isoschizomer list only, both absent; one-record listings get all four in turn); the empty map must come back as a non-nil map; "+
		"histories of exports: what Export returned for a map must still parse back to that map after further calls of Export - "+strconv.Itoa(2*nExpHist)+" seeded histories, each: a := Export(A), then Export of one to three other maps, then json.Unmarshal(a) must give A and the bytes of every later export its own map, the whole repeated "+strconv.Itoa(c16ExportRounds)+" times with the same maps (a buffer kept between calls would be handed out per processor and grow with use); "+
		"A = the described map of a generated listing with 1..12 records (every fourth history 1.."+strconv.Itoa(expMaxRecs)+", the first eight histories a single record), lists of empty fields in both shapes as above; the other maps, eight variants in turn: a map whose JSON text has exactly A's length (A with the letters of every recognition sequence exchanged), a smaller map (0..|A|-1 records of another listing), a larger map (|A|+1..2|A|+5 records), smaller then equal, larger then smaller, equal then smaller then larger, the empty map, A itself again; "+
		"histories 0.."+strconv.Itoa(nExpHist-1)+" run one after the other in the test's goroutine (class earlier-export-overwritten), histories "+strconv.Itoa(nExpHist)+".."+strconv.Itoa(2*nExpHist-1)+" in eight goroutines at once, each goroutine with histories of its own (class export-overwritten-under-concurrent-exports); a failure is given these classes only if a copy of the bytes taken right after the export parses back to the map, otherwise it is a failure of the plain round trip above; "+
		"non-trivial = non-empty map, every history")
	rec.Sampled()
	sup.Sampled()
	ex.Sampled()

	var runDoc func(idx int, d c16Doc, tagMore string)
	run := func(idx int, sh c16Shape) {
		rng := rand.New(rand.NewSource(seed*1000003 + int64(idx)))
		runDoc(idx, c16NewDoc(rng, sh), "")
	}
	runDoc = func(idx int, d c16Doc, tagMore string) {
		text := c16Write(d)
		parse, tag := Parse, "Parse"+tagMore
		if idx%9 == 4 {
			p := filepath.Join(dir, "l"+strconv.Itoa(idx)+".txt")
			if err := ioutil.WriteFile(p, text, 0644); err != nil {
				t.Fatal(err)
			}
			tag = "Read" + tagMore
			parse = func([]byte) map[string]Enzyme {
				m, err := Read(p)
				if err != nil {
					t.Fatal(err)
				}
				return m
			}
		}
		got := c16CheckDoc(rec, sup, d, text, parse, tag)
		if got != nil {
			c16CheckExportAs(ex, got, "Parse result of "+c16Describe(d, nil), d.special)
		}
		c16CheckExportAs(ex, c16ExpectedShapes(d, idx%4), "described map (lists of empty <2> and <7> fields empty non-nil or absent by record, phase "+strconv.Itoa(idx%4)+") of "+c16Describe(d, nil), d.special)
	}
	shape := func(rng *rand.Rand, n int) c16Shape {
		sh := c16Shape{nRecs: n, indent: indents[rng.Intn(len(indents))], nSupp: rng.Intn(27), maxLett: 15, maxIso: 12, emptyBias: []int{0, 10, 50}[rng.Intn(3)], headerN: rng.Intn(41)}
		if rng.Intn(3) == 0 {
			sh.nSupp = 15 + rng.Intn(12)
		}
		return sh
	}
	// the distributed sample (first, so that it is among the recorded examples;
	// one failure per class is carried over with the number of records affected)
	raw, err := ioutil.ReadFile("data/rebase_test.txt")
	if err != nil {
		t.Fatal(err)
	}
	sd := c16ReadSample(string(raw))
	if len(sd.recs) != 92 || len(sd.suppliers) != 15 || sd.suppliers[0] != (c16Supplier{'B', "Life Technologies (3/21)"}) {
		t.Fatalf("independent reader misreads the sample: %d records, %d suppliers", len(sd.recs), len(sd.suppliers))
	}
	sd.header = sd.header[:0] // only its length is shown in messages
	tmpRec, tmpSup := newVerifRun("C16", rec.Clause, ""), newVerifRun("C16", sup.Clause, "")
	sampleGot := c16CheckDoc(tmpRec, tmpSup, sd, raw, Parse, "distributed-sample")
	carry := func(from, to *verifRun) {
		to.Case("distributed sample data/rebase_test.txt", true)
		done := map[string]bool{}
		for _, f := range from.Failures {
			if !done[f.Class] {
				done[f.Class] = true
				to.Fail(f.Class, "distributed sample data/rebase_test.txt: "+f.Input, fmt.Sprintf("%s (%d record(s) of the sample fail in this class)", f.Detail, from.perClass[f.Clause+"|"+f.Class]))
			}
		}
	}
	carry(tmpRec, rec)
	carry(tmpSup, sup)
	if sampleGot != nil {
		// spot value read off the file by eye: record AbaSI has <7>N, the table says N = New England Biolabs (3/21)
		if e := sampleGot["AbaSI"]; !reflect.DeepEqual(e.CommercialAvailability, []string{"New England Biolabs (3/21)"}) && len(tmpSup.Failures) == 0 {
			sup.Fail("supplier-differs", "distributed sample data/rebase_test.txt, record AbaSI <7>N", fmt.Sprintf("decoded to %q, want [\"New England Biolabs (3/21)\"]", e.CommercialAvailability))
		}
		c16CheckExport(ex, sampleGot, "Parse result of the distributed sample")
	}

	srng := rand.New(rand.NewSource(seed ^ 0x16))
	srngSpecial := rand.New(rand.NewSource(seed ^ 0x161616))
	idx := 0
	// listings without final newline: their own index range and shape stream,
	// so that the listings with final newline stay what they were
	nrng := rand.New(rand.NewSource(seed ^ 0x1616))
	nidx := 1000000
	runNoNL := func(sh c16Shape, lastRefs int) {
		sh.noFinalNL, sh.lastRefs = true, lastRefs
		run(nidx, sh)
		nidx++
	}
	// smallest shapes first so that the recorded examples are small
	for _, in := range []string{"                ", "\t"} {
		for n := 0; n <= 3; n++ {
			for ns := 0; ns <= 3; ns++ {
				run(idx, c16Shape{nRecs: n, indent: in, nSupp: ns, maxLett: 2, maxIso: 2, emptyBias: 0, headerN: n % 2})
				idx++
			}
		}
	}
	// records with an EMPTY <7> field after records that have supplier letters,
	// directly and with further empty-<7> records in between (own index range)
	pidx := 2000000
	for _, in := range []string{"                ", "\t"} {
		for _, pat := range patterns {
			for _, ns := range []int{1, 3, 15} {
				run(pidx, c16Shape{nRecs: len(pat), indent: in, nSupp: ns, maxLett: ns, maxIso: 2, emptyBias: 0, headerN: len(pat) % 2, pattern: pat})
				pidx++
			}
		}
	}
	for _, in := range []string{"                ", "\t"} {
		for n := 0; n <= 3; n++ {
			for ns := 0; ns <= 3; ns++ {
				for lastRefs := 1; lastRefs <= 2; lastRefs++ {
					if n == 0 && lastRefs == 2 {
						continue
					}
					for _, eb := range []int{0, 50} { // with all fields filled, and with empty <7>/<8> fields likely
						runNoNL(c16Shape{nRecs: n, indent: in, nSupp: ns, maxLett: 2, maxIso: 2, emptyBias: eb, headerN: n % 2}, lastRefs)
					}
				}
			}
		}
	}
	// special characters in fields (own index range and streams). First every
	// token once in every free-text field of the one-record listing, in the
	// middle of the field, at its start or at its end in turn; then seeded
	// listings with tokens of one kind, or of all kinds, sprinkled over them
	sidx := 3000000
	allKinds := make([]int, len(c16SpecialKinds))
	for k := range allKinds {
		allKinds[k] = k
	}
	for k, kind := range c16SpecialKinds {
		for ti, tok := range kind.tokens {
			base := c16SpecialBase(indents[(k+ti)%2*2]) // 16 spaces or a tab
			fs, _, label := c16Fields(&base)
			for f := range fs {
				n := len([]rune(*fs[f]))
				p := &c16SpecialPlan{base: c16CloneDoc(base), phase: sidx % 4, ins: []c16Ins{{field: f, pos: []int{n / 2, 0, n}[(ti+f)%3], kind: k, tok: tok}}}
				runDoc(sidx, c16WithSpecial(p, "one token, kind "+kind.class), fmt.Sprintf(" special=%s token=%+q in %s", kind.class, tok, label[f]))
				sidx++
			}
		}
	}
	sprinkled := func(n, which int) {
		rng := rand.New(rand.NewSource(seed*1000003 + int64(sidx)))
		kinds, what := allKinds, "tokens of all kinds"
		if which < len(c16SpecialKinds) {
			kinds, what = []int{which}, "tokens of kind "+c16SpecialKinds[which].class
		}
		sh := shape(rng, n)
		if sh.headerN > 6 {
			sh.headerN = rng.Intn(7)
		}
		p := c16Sprinkle(rng, c16NewDoc(rng, sh), kinds, []int{15, 40, 100}[rng.Intn(3)], sidx%4)
		runDoc(sidx, c16WithSpecial(p, what), " special="+what)
		sidx++
	}
	for which := 0; which <= len(c16SpecialKinds); which++ {
		for _, n := range specialSizes {
			sprinkled(n, which)
		}
		for i := 0; i < nSpecial; i++ {
			sprinkled(srngSpecial.Intn(specialMax+1), which)
		}
	}
	for n := 0; n <= 300; n++ {
		run(idx, shape(srng, n))
		idx++
	}
	for n := 0; n <= 300; n++ {
		for lastRefs := 1; lastRefs <= 2; lastRefs++ {
			if n == 0 && lastRefs == 2 {
				continue
			}
			runNoNL(shape(nrng, n), lastRefs)
		}
	}
	for i := 0; i < nRandom; i++ {
		n := srng.Intn(301)
		if !thorough && i%4 != 0 {
			n = srng.Intn(30)
		}
		run(idx, shape(srng, n))
		idx++
	}
	for i := 0; i < nRandom/3; i++ {
		n := nrng.Intn(301)
		if !thorough && i%4 != 0 {
			n = nrng.Intn(30)
		}
		runNoNL(shape(nrng, n), 0)
	}
	// histories on one path (own index range and streams: everything above stays what it was)
	for h := 0; h < nHist; h++ {
		c16History(t, rec, sup, dir, seed, h, histMaxRecs)
	}
	c16CheckExport(ex, map[string]Enzyme{}, "empty map")
	// histories of exports (own streams): first from this goroutine alone, then
	// from eight goroutines at once
	for h := 0; h < nExpHist; h++ {
		c16ExportHistory(ex, seed, h, expMaxRecs, "earlier-export-overwritten", "one goroutine")
	}
	var wg sync.WaitGroup
	for g := 0; g < 8; g++ {
		wg.Add(1)
		go func(g int) {
			defer wg.Done()
			for h := nExpHist + g; h < 2*nExpHist; h += 8 {
				c16ExportHistory(ex, seed, h, expMaxRecs, "export-overwritten-under-concurrent-exports", "eight goroutines exporting at once")
			}
		}(g)
	}
	wg.Wait()

	rec.Done()
	sup.Done()
	ex.Done()
}
