package main

// Contract files: `//@` comment lines in /repo/<pkg>/verif_contracts.go
// (build tag verif, comment-only) and in /verif/stdlib_contracts/*.spec
// (assumed contracts on dependencies). Line-oriented; a line that does
// not start with a keyword continues the previous clause.

import (
	"fmt"
	"os"
	"regexp"
	"strings"
)

type Clause struct {
	Label string
	E     CExpr
	Src   string
	Line  int
}

type SpecFunc struct {
	Name    string
	Params  []CVar
	Result  string
	Def     CExpr
	Axioms  []Clause
	Table   string // name of a Go package-level map/func-local literal this function is generated from
	TableIn string // function holding the literal ("" = package init)
	Default CExpr
	File    string
	Pkg     string
}

type LoopSpec struct {
	N           int
	Fingerprint string
	Invariants  []Clause
	Decreases   CExpr
	DecSrc      string
}

type FuncContract struct {
	Pkg        string // import path ("" for stdlib spec files: taken from name)
	Key        string // pkgpath.Recv.Name or pkgpath.Name
	Params     []string
	Results    []string
	Requires   []Clause
	Ensures    []Clause
	Bounded    []Clause // ensures-bounded: checked only by the bounded back end, assumed at call sites
	Loops      map[int]*LoopSpec
	Trusted    bool // assumed contract (no body verified)
	Notes      []string
	File       string
	Terminates bool  // every loop must carry a decreases clause
	Decreases  CExpr // measure for (self-)recursive calls
	DecSrc     string
	Locals     []string // named local variables (incl. parameters) in declaration order when the contract was written
}

type LemmaStep struct {
	Kind string // assert | use
	E    CExpr
	Src  string
}

type Lemma struct {
	Name       string
	Params     []CVar
	Requires   []Clause
	Ensures    []Clause
	Steps      []LemmaStep
	File       string
	Pkg        string
	ReplayPkg  string // package directory (below the module root) in which ReplayExpr is evaluated
	ReplayExpr string // Go boolean expression over the lemma's variables that must hold on the real code
}

type OpaqueDecl struct {
	GoType, Sort string
	OnDemand     bool
}

type ContractSet struct {
	Specs    map[string]*SpecFunc
	SpecOrd  []string
	Funcs    map[string]*FuncContract
	Lemmas   map[string]*Lemma
	LemmaOrd []string
	Axioms   []Clause // global axioms (assumptions)
	Opaque   []OpaqueDecl
	Files    []string
}

func NewContractSet() *ContractSet {
	return &ContractSet{Specs: map[string]*SpecFunc{}, Funcs: map[string]*FuncContract{}, Lemmas: map[string]*Lemma{}}
}

var kwRe = regexp.MustCompile(`^(pure|func|lemma|requires|ensures-bounded|ensures|opaque|replay|locals|loop|invariant|decreases|axiom|assume|def|use|assert|table|literal|note|terminates)\b`)
var labelRe = regexp.MustCompile(`^@([A-Za-z0-9_\-/.]+):\s*`)

type rawLine struct {
	kw   string
	rest string
	line int
}

// LoadContractFile reads one file. pkgPath is the import path of the Go
// package the file sits in ("" for stdlib spec files). trusted marks all
// func contracts in the file as assumed.
func (cs *ContractSet) LoadContractFile(path, pkgPath string, trusted bool) error {
	data, err := os.ReadFile(path)
	if err != nil {
		return err
	}
	cs.Files = append(cs.Files, path)
	var raws []rawLine
	for i, ln := range strings.Split(string(data), "\n") {
		t := strings.TrimSpace(ln)
		if !strings.HasPrefix(t, "//@") {
			continue
		}
		t = strings.TrimSpace(strings.TrimPrefix(t, "//@"))
		// strip trailing comment
		if k := strings.Index(t, " //"); k >= 0 && !strings.Contains(t[:k], "\"") {
			t = strings.TrimSpace(t[:k])
		}
		if t == "" {
			continue
		}
		if m := kwRe.FindString(t); m != "" {
			raws = append(raws, rawLine{m, strings.TrimSpace(t[len(m):]), i + 1})
		} else if len(raws) > 0 {
			raws[len(raws)-1].rest += " " + t
		} else {
			return fmt.Errorf("%s:%d: continuation without clause", path, i+1)
		}
	}
	var curSpec *SpecFunc
	var curFunc *FuncContract
	var curLemma *Lemma
	var curLoop *LoopSpec
	mkClause := func(r rawLine) (Clause, error) {
		src := r.rest
		label := ""
		if m := labelRe.FindStringSubmatch(src); m != nil {
			label = m[1]
			src = src[len(m[0]):]
		}
		e, err := ParseCExpr(src)
		if err != nil {
			return Clause{}, fmt.Errorf("%s:%d: %v", path, r.line, err)
		}
		return Clause{label, e, src, r.line}, nil
	}
	for _, r := range raws {
		switch r.kw {
		case "pure":
			rest := strings.TrimSpace(strings.TrimPrefix(r.rest, "func"))
			name, params, result, err := parseSpecSig(rest)
			if err != nil {
				return fmt.Errorf("%s:%d: %v", path, r.line, err)
			}
			curSpec = &SpecFunc{Name: name, Params: params, Result: result, File: path, Pkg: pkgPath}
			curFunc, curLemma, curLoop = nil, nil, nil
			if _, dup := cs.Specs[name]; dup {
				return fmt.Errorf("%s:%d: duplicate spec function %s", path, r.line, name)
			}
			cs.Specs[name] = curSpec
			cs.SpecOrd = append(cs.SpecOrd, name)
		case "table":
			if curSpec == nil {
				return fmt.Errorf("%s:%d: table outside pure func", path, r.line)
			}
			// table <var> [in <func>] default <expr>
			f := strings.Fields(r.rest)
			if len(f) < 1 {
				return fmt.Errorf("%s:%d: bad table clause", path, r.line)
			}
			curSpec.Table = f[0]
			rest := strings.TrimSpace(r.rest[len(f[0]):])
			if strings.HasPrefix(rest, "in ") {
				g := strings.Fields(rest)
				curSpec.TableIn = g[1]
				rest = strings.TrimSpace(rest[len("in "+g[1]):])
			}
			if strings.HasPrefix(rest, "default ") {
				e, err := ParseCExpr(strings.TrimPrefix(rest, "default "))
				if err != nil {
					return fmt.Errorf("%s:%d: %v", path, r.line, err)
				}
				curSpec.Default = e
			}
		case "literal":
			// literal <var> in <func>: the string constant a local variable is initialised from
			if curSpec == nil {
				return fmt.Errorf("%s:%d: literal outside pure func", path, r.line)
			}
			f := strings.Fields(r.rest)
			if len(f) != 3 || f[1] != "in" {
				return fmt.Errorf("%s:%d: literal <var> in <func>", path, r.line)
			}
			curSpec.Table = "literal:" + f[0]
			curSpec.TableIn = f[2]
		case "opaque":
			f := strings.Fields(r.rest)
			if len(f) != 2 && !(len(f) == 3 && f[2] == "on-demand") {
				return fmt.Errorf("%s:%d: opaque <pkg.Type> <Sort> [on-demand]", path, r.line)
			}
			cs.Opaque = append(cs.Opaque, OpaqueDecl{GoType: f[0], Sort: f[1], OnDemand: len(f) == 3})
		case "replay":
			// replay <pkgdir>: <Go expression over the lemma variables>
			if curLemma == nil {
				return fmt.Errorf("%s:%d: replay outside lemma", path, r.line)
			}
			i := strings.Index(r.rest, ":")
			if i < 0 {
				return fmt.Errorf("%s:%d: replay <pkgdir>: <expr>", path, r.line)
			}
			curLemma.ReplayPkg = strings.TrimSpace(r.rest[:i])
			curLemma.ReplayExpr = strings.TrimSpace(r.rest[i+1:])
		case "def":
			if curSpec == nil {
				return fmt.Errorf("%s:%d: def outside pure func", path, r.line)
			}
			e, err := ParseCExpr(r.rest)
			if err != nil {
				return fmt.Errorf("%s:%d: %v", path, r.line, err)
			}
			curSpec.Def = e
		case "assume":
			// assume <expr>: a global axiom of the contract library, wherever it stands
			c, err := mkClause(r)
			if err != nil {
				return err
			}
			cs.Axioms = append(cs.Axioms, c)
		case "axiom":
			c, err := mkClause(r)
			if err != nil {
				return err
			}
			if curSpec != nil {
				curSpec.Axioms = append(curSpec.Axioms, c)
			} else {
				cs.Axioms = append(cs.Axioms, c)
			}
		case "func":
			key, params, results, err := parseFuncSig(r.rest, pkgPath)
			if err != nil {
				return fmt.Errorf("%s:%d: %v", path, r.line, err)
			}
			curFunc = &FuncContract{Pkg: pkgPath, Key: key, Params: params, Results: results, Loops: map[int]*LoopSpec{}, Trusted: trusted, File: path}
			curSpec, curLemma, curLoop = nil, nil, nil
			if _, dup := cs.Funcs[key]; dup {
				return fmt.Errorf("%s:%d: duplicate contract for %s", path, r.line, key)
			}
			cs.Funcs[key] = curFunc
		case "lemma":
			name, params, _, err := parseSpecSig(r.rest + " bool")
			if err != nil {
				return fmt.Errorf("%s:%d: %v", path, r.line, err)
			}
			curLemma = &Lemma{Name: name, Params: params, File: path, Pkg: pkgPath}
			curSpec, curFunc, curLoop = nil, nil, nil
			if _, dup := cs.Lemmas[name]; dup {
				return fmt.Errorf("%s:%d: duplicate lemma %s", path, r.line, name)
			}
			cs.Lemmas[name] = curLemma
			cs.LemmaOrd = append(cs.LemmaOrd, name)
		case "ensures-bounded":
			c, err := mkClause(r)
			if err != nil {
				return err
			}
			if curFunc == nil {
				return fmt.Errorf("%s:%d: ensures-bounded outside func", path, r.line)
			}
			curFunc.Bounded = append(curFunc.Bounded, c)
		case "requires", "ensures":
			c, err := mkClause(r)
			if err != nil {
				return err
			}
			switch {
			case curFunc != nil:
				if r.kw == "requires" {
					curFunc.Requires = append(curFunc.Requires, c)
				} else {
					curFunc.Ensures = append(curFunc.Ensures, c)
				}
				curLoop = nil
			case curLemma != nil:
				if r.kw == "requires" {
					curLemma.Requires = append(curLemma.Requires, c)
				} else {
					curLemma.Ensures = append(curLemma.Ensures, c)
				}
			default:
				return fmt.Errorf("%s:%d: %s outside func/lemma", path, r.line, r.kw)
			}
		case "locals":
			if curFunc == nil {
				return fmt.Errorf("%s:%d: locals outside func", path, r.line)
			}
			curFunc.Locals = strings.Fields(r.rest)
		case "terminates":
			if curFunc == nil {
				return fmt.Errorf("%s:%d: terminates outside func", path, r.line)
			}
			curFunc.Terminates = true
		case "note":
			if curFunc != nil {
				curFunc.Notes = append(curFunc.Notes, r.rest)
			}
		case "loop":
			if curFunc == nil {
				return fmt.Errorf("%s:%d: loop outside func", path, r.line)
			}
			var n int
			var fp string
			rest := r.rest
			if _, err := fmt.Sscanf(rest, "%d", &n); err != nil {
				return fmt.Errorf("%s:%d: loop needs an ordinal", path, r.line)
			}
			if i := strings.Index(rest, "\""); i >= 0 {
				j := strings.LastIndex(rest, "\"")
				if j > i {
					fp = rest[i+1 : j]
				}
			}
			curLoop = &LoopSpec{N: n, Fingerprint: fp}
			curFunc.Loops[n] = curLoop
		case "invariant":
			if curLoop == nil {
				return fmt.Errorf("%s:%d: invariant outside loop", path, r.line)
			}
			c, err := mkClause(r)
			if err != nil {
				return err
			}
			curLoop.Invariants = append(curLoop.Invariants, c)
		case "decreases":
			if curLoop == nil && curFunc != nil {
				e, err := ParseCExpr(r.rest)
				if err != nil {
					return fmt.Errorf("%s:%d: %v", path, r.line, err)
				}
				curFunc.Decreases = e
				curFunc.DecSrc = r.rest
				continue
			}
			if curLoop == nil {
				return fmt.Errorf("%s:%d: decreases outside loop", path, r.line)
			}
			e, err := ParseCExpr(r.rest)
			if err != nil {
				return fmt.Errorf("%s:%d: %v", path, r.line, err)
			}
			curLoop.Decreases = e
			curLoop.DecSrc = r.rest
		case "use", "assert":
			if curLemma == nil {
				return fmt.Errorf("%s:%d: %s outside lemma", path, r.line, r.kw)
			}
			e, err := ParseCExpr(r.rest)
			if err != nil {
				return fmt.Errorf("%s:%d: %v", path, r.line, err)
			}
			curLemma.Steps = append(curLemma.Steps, LemmaStep{r.kw, e, r.rest})
		}
	}
	return nil
}

var sigRe = regexp.MustCompile(`^([A-Za-z_][A-Za-z0-9_.]*)\s*\(([^)]*)\)\s*(.*)$`)

func parseSpecSig(s string) (string, []CVar, string, error) {
	m := sigRe.FindStringSubmatch(strings.TrimSpace(s))
	if m == nil {
		return "", nil, "", fmt.Errorf("bad signature %q", s)
	}
	var params []CVar
	if strings.TrimSpace(m[2]) != "" {
		for _, p := range strings.Split(m[2], ",") {
			f := strings.Fields(p)
			if len(f) != 2 {
				return "", nil, "", fmt.Errorf("bad parameter %q (need name type)", p)
			}
			params = append(params, CVar{f[0], f[1]})
		}
	}
	res := strings.TrimSpace(m[3])
	if res == "" {
		res = "bool"
	}
	return m[1], params, res, nil
}

var fsigRe = regexp.MustCompile(`^([A-Za-z_][A-Za-z0-9_./*]*)\s*\(([^)]*)\)\s*(?:\(([^)]*)\))?\s*$`)

// parseFuncSig: `Name(a, b) (r, err)` or `Recv.Name(self, a) (r)`; for
// stdlib spec files the name is fully qualified: `strings.ToUpper(s) (r)`.
// Types after names are allowed and ignored (`s string`).
func parseFuncSig(s, pkgPath string) (string, []string, []string, error) {
	m := fsigRe.FindStringSubmatch(strings.TrimSpace(s))
	if m == nil {
		return "", nil, nil, fmt.Errorf("bad func signature %q", s)
	}
	names := func(x string) []string {
		var out []string
		for _, p := range strings.Split(x, ",") {
			f := strings.Fields(p)
			if len(f) > 0 {
				out = append(out, f[0])
			}
		}
		return out
	}
	key := m[1]
	if pkgPath != "" {
		key = pkgPath + "." + key
	}
	return key, names(m[2]), names(m[3]), nil
}
