package main

import (
	"fmt"
	"go/types"
	"sort"
	"strings"

	"golang.org/x/tools/go/ssa"
)

// ---- symbolic values (Go side); SMT terms are strings ----

type Value interface{}

type Sc struct{ T, S string } // scalar term with sort

type SliceV struct {
	Ref, Off, Len, Cap string
	Elem               types.Type
	Str                string // when the slice was created from a string: that string (content at creation)
}

type StructV struct {
	F []Value
	T types.Type
}

type TupleV []Value

// ColV: one scalar column of a slice (a row of one heap plus an offset); what a
// spec-function parameter of type []int / []string / []real / []bool binds to.
type ColV struct {
	Row, Off, Len string
	Sort          string
}

type IfaceV struct {
	Nil string // Bool term
	Dyn Value  // dynamic value when known
	DT  types.Type
	Tag string // Int term identifying the error value (for err.Error() style contracts)
}

// PtrV: address of a cell (local alloc or ghost), optionally into a field
// path, or of a heap slice element.
type PtrV struct {
	Cell  interface{} // cellKey (any comparable): *ssa.Alloc, ssa.Instruction (iterators), string (params)
	Path  []int
	Heap  bool // element of a slice heap
	Ref   string
	Idx   string
	Elem  types.Type
	IsNil string
	OSeq  *OSeqV // element of a slice-typed field of an opaque value
}

type FuncV struct {
	Fn   *ssa.Function
	Bind []Value
}

type IterV struct {
	Key  interface{}
	Over Value
	Kind string // string | map
}

type MapV struct {
	Global *ssa.Global // package-level map initialised in init only
	ID     string      // local map identity (cell-less: maps are reference values, state lives in State.maps)
	KT, VT types.Type
}

type ChanV struct{ ID string }

type OpaqueV struct{ Why string }

// ---- state ----

type mapState struct {
	Dom string // (Array K Bool)
	Val string // (Array K V) for scalar V; "" when unsupported
	KS  string
	VS  string
	// struct-valued maps: one (Array K leafSort) per flattened scalar field
	Leaves []leaf
	LVals  []string
	VT     types.Type
}

// mapLoadStruct assembles the struct value stored under key k.
func (e *Engine) mapLoadStruct(st *State, ms *mapState, k string) Value {
	v := e.zeroShape(st, ms.VT)
	for i := 0; i < len(ms.Leaves); i++ {
		l := ms.Leaves[i]
		if l.sub == "" {
			v = setPath(v, l.path, Sc{app("select", ms.LVals[i], k), l.sort})
			continue
		}
		get := func(j int) string { return app("select", ms.LVals[i+j], k) }
		v = setPath(v, l.path, SliceV{Ref: get(0), Off: get(1), Len: get(2), Cap: get(3), Elem: l.elem})
		i += 3
	}
	return v
}

func (ms *mapState) storeStruct(k string, v Value) bool {
	for i := 0; i < len(ms.Leaves); i++ {
		l := ms.Leaves[i]
		x := getPath(v, l.path)
		if l.sub == "" {
			sc, ok := x.(Sc)
			if !ok {
				return false
			}
			ms.LVals[i] = app("store", ms.LVals[i], k, sc.T)
			continue
		}
		sl, ok := x.(SliceV)
		if !ok {
			return false
		}
		ms.LVals[i] = app("store", ms.LVals[i], k, sl.Ref)
		ms.LVals[i+1] = app("store", ms.LVals[i+1], k, sl.Off)
		ms.LVals[i+2] = app("store", ms.LVals[i+2], k, sl.Len)
		ms.LVals[i+3] = app("store", ms.LVals[i+3], k, sl.Cap)
		i += 3
	}
	return true
}

type chanState struct {
	Sent   []Value
	NSent  string // Int term: number of sends so far (symbolic across loops)
	Closed string // Bool term
}

type loopFrame struct {
	L       *Loop
	VarAt0  string // value of the variant at the head
	HasVar  bool
	AutoVar bool // variant supplied by the engine (map iteration)
}

type State struct {
	cells     map[interface{}]Value
	named     map[string]interface{} // source name -> latest cell
	regs      map[ssa.Value]Value
	heaps     map[string]string // elem sort -> (Array Int (Array Int E)) term
	maps      map[string]*mapState
	chans     map[string]*chanState
	ghost     map[string]Value // ghost variables (e.g. remaining tokens)
	facts     []string
	decls     []string
	allocBase string
	allocOff  int
	entryBase string
	loops     []loopFrame
	prev      *ssa.BasicBlock
	trace     []string
	defers    []*ssa.Defer
	oldHeaps  map[string]string        // heaps at function entry
	entryVals map[string]Value         // entry values of parameters by name
	known     map[string]bool          // atoms asserted on this path (syntactic pruning of branches)
	loopPre   map[int]map[string]Value // per loop ordinal: the named variables' values when the loop was entered
	stops     []stopFrame              // join points at which this path hands itself over for merging
	pcond     []string                 // branch conditions taken since the function entry (for merging)
	skipPhi   *ssa.BasicBlock          // phis of this block were resolved before a merge
}

func (s *State) clone() *State {
	n := &State{
		cells: make(map[interface{}]Value, len(s.cells)), named: make(map[string]interface{}, len(s.named)),
		regs: make(map[ssa.Value]Value, len(s.regs)), heaps: make(map[string]string, len(s.heaps)),
		maps: make(map[string]*mapState, len(s.maps)), chans: make(map[string]*chanState, len(s.chans)),
		ghost:     make(map[string]Value, len(s.ghost)),
		allocBase: s.allocBase, allocOff: s.allocOff, entryBase: s.entryBase, prev: s.prev,
		oldHeaps: s.oldHeaps, entryVals: s.entryVals,
	}
	for k, v := range s.cells {
		n.cells[k] = v
	}
	for k, v := range s.named {
		n.named[k] = v
	}
	for k, v := range s.regs {
		n.regs[k] = v
	}
	for k, v := range s.heaps {
		n.heaps[k] = v
	}
	for k, v := range s.maps {
		c := *v
		c.LVals = append([]string(nil), v.LVals...)
		n.maps[k] = &c
	}
	for k, v := range s.chans {
		c := *v
		c.Sent = append([]Value(nil), v.Sent...)
		n.chans[k] = &c
	}
	for k, v := range s.ghost {
		n.ghost[k] = v
	}
	n.loopPre = make(map[int]map[string]Value, len(s.loopPre))
	for k, m := range s.loopPre {
		n.loopPre[k] = m
	}
	n.known = make(map[string]bool, len(s.known))
	for k, b := range s.known {
		n.known[k] = b
	}
	n.stops = append([]stopFrame(nil), s.stops...)
	n.pcond = append([]string(nil), s.pcond...)
	n.skipPhi = s.skipPhi
	n.facts = append([]string(nil), s.facts...)
	n.decls = append([]string(nil), s.decls...)
	n.loops = append([]loopFrame(nil), s.loops...)
	n.trace = append([]string(nil), s.trace...)
	n.defers = append([]*ssa.Defer(nil), s.defers...)
	return n
}

var freshCounter int

func (s *State) freshConst(hint, sortName string) string {
	freshCounter++
	name := fmt.Sprintf("%s_%d", sanitizeIdent(hint), freshCounter)
	s.decls = append(s.decls, fmt.Sprintf("(declare-const %s %s)", name, sortName))
	return name
}

func sanitizeIdent(s string) string {
	var b strings.Builder
	for _, c := range s {
		if (c >= 'a' && c <= 'z') || (c >= 'A' && c <= 'Z') || (c >= '0' && c <= '9') || c == '_' {
			b.WriteRune(c)
		}
	}
	if b.Len() == 0 {
		return "v"
	}
	r := b.String()
	if r[0] >= '0' && r[0] <= '9' {
		r = "v" + r
	}
	return r
}

func (s *State) assume(f string) {
	if f == "true" || f == "" {
		return
	}
	s.facts = append(s.facts, f)
	s.learn(f, true)
}

func (s *State) learn(f string, pol bool) {
	if s.known == nil {
		s.known = map[string]bool{}
	}
	if strings.HasPrefix(f, "(not ") && balanced(f[5:len(f)-1]) {
		s.learn(f[5:len(f)-1], !pol)
		return
	}
	if pol && strings.HasPrefix(f, "(and ") {
		for _, c := range splitTop(f[5 : len(f)-1]) {
			s.learn(c, true)
		}
		return
	}
	if !pol && strings.HasPrefix(f, "(or ") {
		for _, c := range splitTop(f[4 : len(f)-1]) {
			s.learn(c, false)
		}
		return
	}
	s.known[f] = pol
}

// splitTop splits a space-separated list of S-expressions at top level.
func splitTop(s string) []string {
	var out []string
	d, start := 0, 0
	for i := 0; i < len(s); i++ {
		switch s[i] {
		case '(':
			d++
		case ')':
			d--
		case ' ':
			if d == 0 {
				if i > start {
					out = append(out, s[start:i])
				}
				start = i + 1
			}
		}
	}
	if start < len(s) {
		out = append(out, s[start:])
	}
	return out
}

// ---- sorts for Go types ----

func scalarSort(t types.Type) (string, bool) {
	if _, isStruct := t.Underlying().(*types.Struct); isStruct {
		if ot := lookupOpaque(t); ot != nil {
			return ot.Sort, true
		}
		return "", false
	}
	switch u := t.Underlying().(type) {
	case *types.Basic:
		switch {
		case u.Info()&types.IsBoolean != 0:
			return SBool, true
		case u.Info()&types.IsInteger != 0:
			return SInt, true
		case u.Info()&types.IsFloat != 0:
			return SReal, true
		case u.Info()&types.IsString != 0:
			return SStr, true
		case u.Kind() == types.UntypedNil:
			return "", false
		}
	}
	return "", false
}

func intRange(t types.Type) (lo, hi string, ok bool) {
	b, isB := t.Underlying().(*types.Basic)
	if !isB {
		return "", "", false
	}
	switch b.Kind() {
	case types.Uint8:
		return "0", "255", true
	case types.Int8:
		return "(- 128)", "127", true
	case types.Uint16:
		return "0", "65535", true
	case types.Int16:
		return "(- 32768)", "32767", true
	case types.Int32:
		return "(- 2147483648)", "2147483647", true
	case types.Uint32:
		return "0", "4294967295", true
	case types.Uint, types.Uint64, types.Uintptr:
		return "0", "", true
	}
	return "", "", false
}

func (s *State) rangeFact(term string, t types.Type) {
	lo, hi, ok := intRange(t)
	if !ok {
		return
	}
	if lo != "" {
		s.assume(app("<=", lo, term))
	}
	if hi != "" {
		s.assume(app("<=", term, hi))
	}
}

func heapSort(elemSort string) string {
	return fmt.Sprintf("(Array Int (Array Int %s))", elemSort)
}

func zeroOfSort(sortName string) string {
	switch sortName {
	case SInt:
		return "0"
	case SBool:
		return "false"
	case SReal:
		return "0.0"
	case SStr:
		return "gs.empty"
	}
	return "0"
}

// fresh symbolic value of a Go type, with its type invariants assumed.
var freshDepth int

func (e *Engine) fresh(s *State, t types.Type, hint string) Value {
	freshDepth++
	defer func() { freshDepth-- }()
	if freshDepth > 6 {
		// recursive or very deep types: stop unfolding
		return OpaqueV{"deeply nested value of type " + t.String()}
	}
	if isTextBuffer(t) {
		return Sc{s.freshConst(hint+"_text", SStr), SStr}
	}
	if ss, ok := scalarSort(t); ok {
		c := s.freshConst(hint, ss)
		if ss == SInt {
			s.rangeFact(c, t)
		}
		return Sc{c, ss}
	}
	switch u := t.Underlying().(type) {
	case *types.Slice:
		ref := s.freshConst(hint+"_ref", SInt)
		off := s.freshConst(hint+"_off", SInt)
		ln := s.freshConst(hint+"_len", SInt)
		cp := s.freshConst(hint+"_cap", SInt)
		s.assume(app("<=", "0", off))
		s.assume(app("<=", "0", ln))
		s.assume(app("<=", ln, cp))
		s.assume(app("<", ref, s.entryBase)) // pre-existing storage
		s.assume(app("<=", "0", ref))
		return SliceV{Ref: ref, Off: off, Len: ln, Cap: cp, Elem: u.Elem()}
	case *types.Struct:
		sv := StructV{T: t}
		for i := 0; i < u.NumFields(); i++ {
			sv.F = append(sv.F, e.fresh(s, u.Field(i).Type(), hint+"_"+u.Field(i).Name()))
		}
		return sv
	case *types.Interface:
		return IfaceV{Nil: s.freshConst(hint+"_isnil", SBool), Tag: s.freshConst(hint+"_tag", SInt)}
	case *types.Pointer:
		key := "ptr:" + hint + fmt.Sprint(freshCounter)
		freshCounter++
		s.cells[key] = e.fresh(s, u.Elem(), hint+"_pt")
		return PtrV{Cell: key, IsNil: "false"}
	case *types.Tuple:
		var tv TupleV
		for i := 0; i < u.Len(); i++ {
			tv = append(tv, e.fresh(s, u.At(i).Type(), fmt.Sprintf("%s_%d", hint, i)))
		}
		return tv
	case *types.Map:
		return e.freshMap(s, u, hint)
	case *types.Chan:
		id := fmt.Sprintf("chan:%s:%d", hint, freshCounter)
		freshCounter++
		s.chans[id] = &chanState{NSent: "0", Closed: s.freshConst(hint+"_closed", SBool)}
		return ChanV{id}
	case *types.Signature:
		return OpaqueV{"func value " + hint}
	case *types.Array:
		return OpaqueV{"array " + hint}
	}
	return OpaqueV{"type " + t.String()}
}

func (e *Engine) freshMap(s *State, mt *types.Map, hint string) Value {
	ks, kok := scalarSort(mt.Key())
	if !kok {
		return OpaqueV{"map with non-scalar key"}
	}
	id := fmt.Sprintf("map:%s:%d", hint, freshCounter)
	freshCounter++
	ms := &mapState{KS: ks}
	ms.Dom = s.freshConst(hint+"_dom", fmt.Sprintf("(Array %s Bool)", ks))
	if vs, vok := scalarSort(mt.Elem()); vok {
		ms.VS = vs
		ms.Val = s.freshConst(hint+"_val", fmt.Sprintf("(Array %s %s)", ks, vs))
	} else if isStructOrSlice(mt.Elem()) {
		ms.VT = mt.Elem()
		ms.Leaves, _ = leavesOf(mt.Elem())
		for _, l := range ms.Leaves {
			ms.LVals = append(ms.LVals, s.freshConst(hint+"_"+sanitizeIdent(l.key), fmt.Sprintf("(Array %s %s)", ks, l.sort)))
		}
	}
	s.maps[id] = ms
	return MapV{ID: id, KT: mt.Key(), VT: mt.Elem()}
}

// zero value of a Go type.
func (e *Engine) zero(s *State, t types.Type) Value {
	if ss, ok := scalarSort(t); ok {
		if ot := opaqueSort(ss); ot != nil {
			return e.zeroOpaque(s, ot)
		}
		return Sc{zeroOfSort(ss), ss}
	}
	switch u := t.Underlying().(type) {
	case *types.Slice:
		return SliceV{Ref: "0", Off: "0", Len: "0", Cap: "0", Elem: u.Elem()}
	case *types.Struct:
		if isTextBuffer(t) {
			return Sc{"gs.empty", SStr}
		}
		sv := StructV{T: t}
		for i := 0; i < u.NumFields(); i++ {
			sv.F = append(sv.F, e.zero(s, u.Field(i).Type()))
		}
		return sv
	case *types.Interface:
		return IfaceV{Nil: "true", Tag: "0"}
	case *types.Pointer:
		return PtrV{IsNil: "true"}
	case *types.Map:
		return MapV{ID: "nilmap", KT: u.Key(), VT: u.Elem()}
	case *types.Signature:
		return OpaqueV{"nil func"}
	case *types.Chan:
		return ChanV{"nilchan"}
	}
	return OpaqueV{"zero of " + t.String()}
}

// strings.Builder and bytes.Buffer are modelled as a ghost string (their content).
func isTextBuffer(t types.Type) bool {
	n, ok := t.(*types.Named)
	if !ok {
		return false
	}
	if n.Obj().Pkg() == nil {
		return false
	}
	q := n.Obj().Pkg().Path() + "." + n.Obj().Name()
	return q == "strings.Builder" || q == "bytes.Buffer"
}

func isWaitGroup(t types.Type) bool {
	n, ok := t.(*types.Named)
	return ok && n.Obj().Pkg() != nil && n.Obj().Pkg().Path() == "sync" && n.Obj().Name() == "WaitGroup"
}

func sortedKeys(m map[string]string) []string {
	var ks []string
	for k := range m {
		ks = append(ks, k)
	}
	sort.Strings(ks)
	return ks
}

// zeroOpaque: the zero value of an opaque struct type.
func (e *Engine) zeroOpaque(s *State, ot *OpaqueType) Value {
	n := s.freshConst(strings.ToLower(ot.Sort)+"0", ot.Sort)
	st := ot.T.Underlying().(*types.Struct)
	for i := 0; i < st.NumFields(); i++ {
		f := st.Field(i)
		if ss, ok := scalarSort(f.Type()); ok {
			if opaqueSort(ss) == nil {
				s.assume(app("=", app(accName(ot.Sort, f.Name()), n), zeroOfSort(ss)))
			}
			continue
		}
		if _, ok := f.Type().Underlying().(*types.Slice); ok {
			s.assume(app("=", app(accName(ot.Sort, f.Name())+".len", n), "0"))
		}
	}
	return Sc{n, ot.Sort}
}

// isStructOrSlice: map value types kept leaf by leaf (a slice value is its four header leaves).
func isStructOrSlice(t types.Type) bool {
	switch t.Underlying().(type) {
	case *types.Struct:
		return true
	case *types.Slice:
		ls, complete := leavesOf(t)
		return complete && len(ls) > 0
	}
	return false
}
