package main

import (
	"fmt"
	"go/constant"
	"go/token"
	"go/types"
	"math/big"
	"strconv"
	"strings"

	"golang.org/x/tools/go/ssa"
)

// run executes block b in state st (which it owns) until the path ends.
func (fc *funcCtx) run(b *ssa.BasicBlock, st *State) {
	for {
		fc.covered[b] = true
		var next *ssa.BasicBlock
		for _, ins := range b.Instrs {
			switch x := ins.(type) {
			case *ssa.If:
				c := fc.scalar(st, x.Cond)
				if pol, ok := st.decided(c.T); ok {
					if pol {
						c.T = "true"
					} else {
						c.T = "false"
					}
				}
				if c.T == "true" || c.T == "false" {
					i := 0
					if c.T == "false" {
						i = 1
					}
					next = b.Succs[i]
					continue
				}
				fc.paths++
				if fc.paths > fc.maxPath {
					fc.abort("more than %d paths between cut points", fc.maxPath)
				}
				if D := fc.ipdom[b]; fc.mergeable(b, D, st) {
					// run both sides to the join point D and merge what arrives there
					var arrived []*State
					fr := stopFrame{D: D, Collector: &arrived, FactsAt: len(st.facts), DeclsAt: len(st.decls)}
					base := st.clone()
					for i, pol := range []bool{true, false} {
						s := st.clone()
						s.stops = append(s.stops, fr)
						cnd := c.T
						if !pol {
							cnd = not(c.T)
						}
						s.assume(cnd)
						s.pcond = append(s.pcond, cnd)
						s.trace = append(s.trace, fmt.Sprintf("b%d:%v", b.Index, pol))
						if b.Succs[i] == D {
							fc.arrive(b, D, s)
						} else {
							fc.goTo(b, b.Succs[i], s)
						}
					}
					if len(arrived) == 0 {
						return
					}
					for _, s := range arrived {
						s.stops = s.stops[:len(s.stops)-1]
					}
					if merged, ok := fc.mergeStates(base, fr.FactsAt, fr.DeclsAt, arrived); ok {
						*st = *merged
						st.skipPhi = D
						next = nil
						b = D
						goto continueAtJoin
					}
					// not mergeable after all: continue every path on its own
					for _, s := range arrived {
						s.skipPhi = D
						fc.run(D, s)
					}
					return
				}
				st2 := st.clone()
				st2.assume(not(c.T))
				st2.pcond = append(st2.pcond, not(c.T))
				st2.trace = append(st2.trace, fmt.Sprintf("b%d:F", b.Index))
				st.assume(c.T)
				st.pcond = append(st.pcond, c.T)
				st.trace = append(st.trace, fmt.Sprintf("b%d:T", b.Index))
				fc.goTo(b, b.Succs[1], st2)
				next = b.Succs[0]
			case *ssa.Jump:
				next = b.Succs[0]
			case *ssa.Return:
				fc.doReturn(st, x)
				return
			case *ssa.Panic:
				fc.oblige(st, "no-panic", fc.site(x.Pos(), "call"), "false", "explicit panic is unreachable")
				return
			default:
				if stop := fc.exec(st, ins); stop {
					return
				}
			}
		}
		if st.skipPhi == b {
			st.skipPhi = nil
		}
		if next == nil {
			return
		}
		if n := len(st.stops); n > 0 && st.stops[n-1].D == next {
			fc.arrive(b, next, st)
			return
		}
		{
			nb, cont := fc.transfer(b, next, st)
			if !cont {
				return
			}
			b = nb
		}
		continue
	continueAtJoin:
	}
}

// arrive: the path has reached the join point it is to be merged at. The phis of
// the join block are resolved with this path's predecessor before merging.
func (fc *funcCtx) arrive(from, D *ssa.BasicBlock, st *State) {
	st.prev = from
	for _, ins := range D.Instrs {
		phi, ok := ins.(*ssa.Phi)
		if !ok {
			break
		}
		for i, p := range D.Preds {
			if p == from {
				st.regs[phi] = fc.val(st, phi.Edges[i])
			}
		}
	}
	fr := st.stops[len(st.stops)-1]
	*fr.Collector = append(*fr.Collector, st)
}

// decided: is the truth of atom c already fixed by the facts of this path (syntactically)?
func (s *State) decided(c string) (bool, bool) {
	if strings.HasPrefix(c, "(not ") && balanced(c[5:len(c)-1]) {
		p, ok := s.decided(c[5 : len(c)-1])
		return !p, ok
	}
	if p, ok := s.known[c]; ok {
		return p, true
	}
	if strings.HasPrefix(c, "(and ") {
		all := true
		for _, x := range splitTop(c[5 : len(c)-1]) {
			p, ok := s.decided(x)
			if ok && !p {
				return false, true
			}
			if !ok {
				all = false
			}
		}
		if all {
			return true, true
		}
	}
	if strings.HasPrefix(c, "(or ") {
		allF := true
		for _, x := range splitTop(c[4 : len(c)-1]) {
			p, ok := s.decided(x)
			if ok && p {
				return true, true
			}
			if !ok {
				allF = false
			}
		}
		if allF {
			return false, true
		}
	}
	return false, false
}

func (fc *funcCtx) goTo(from, to *ssa.BasicBlock, st *State) {
	nb, cont := fc.transfer(from, to, st)
	if cont {
		fc.run(nb, st)
	}
}

// transfer handles loop entry / back edges / loop exit on the edge from->to.
func (fc *funcCtx) transfer(from, to *ssa.BasicBlock, st *State) (*ssa.BasicBlock, bool) {
	st.prev = from
	// leaving loops
	for len(st.loops) > 0 && !st.loops[len(st.loops)-1].L.Blocks[to] {
		st.loops = st.loops[:len(st.loops)-1]
	}
	l := fc.loops[to]
	if l == nil {
		return to, true
	}
	spec := fc.con.Loops[l.Ordinal]
	if len(st.loops) > 0 && st.loops[len(st.loops)-1].L == l {
		// back edge: invariant preserved, variant decreases
		fr := st.loops[len(st.loops)-1]
		env := fc.localEnv(st, l)
		for i, inv := range spec.Invariants {
			g := fc.e.cevalBool(inv.E, env)
			fc.oblige(st, "inv-keep", fmt.Sprintf("loop%d/%s", l.Ordinal, clauseLabel(inv, i)), g, "invariant preserved: "+inv.Src)
		}
		if fr.HasVar && fr.AutoVar {
			if v, ok := st.cells[l.KCell].(Sc); ok {
				fc.oblige(st, "decreases", fmt.Sprintf("loop%d", l.Ordinal), and(app("<", v.T, fr.VarAt0), app("<=", "0", fr.VarAt0)), "a range over a map visits each of its finitely many keys once")
			}
		} else if fr.HasVar {
			v := fc.e.cevalScalar(spec.Decreases, env)
			fc.oblige(st, "decreases", fmt.Sprintf("loop%d", l.Ordinal), and(app("<", v.T, fr.VarAt0), app("<=", "0", fr.VarAt0)), "variant decreases and is bounded below: "+spec.DecSrc)
		} else if fc.con.Terminates {
			fc.oblige(st, "decreases", fmt.Sprintf("loop%d", l.Ordinal), "false", "loop has no variant (termination not shown)")
		}
		return nil, false
	}
	// entering the loop
	env := fc.localEnv(st, l)
	{
		snap := map[string]Value{}
		for k, val := range env.vars {
			snap[k] = val
		}
		if st.loopPre == nil {
			st.loopPre = map[int]map[string]Value{}
		}
		st.loopPre[l.Ordinal] = snap
	}
	for i, inv := range spec.Invariants {
		g := fc.e.cevalBool(inv.E, env)
		fc.oblige(st, "inv-init", fmt.Sprintf("loop%d/%s", l.Ordinal, clauseLabel(inv, i)), g, "invariant holds on entry: "+inv.Src)
	}
	fc.havoc(st, l)
	fc.rangeBoundFact(st, l)
	fc.ownSliceFacts(st, l)
	env = fc.localEnv(st, l)
	for _, inv := range spec.Invariants {
		st.assume(fc.e.cevalBool(inv.E, env))
	}
	fr := loopFrame{L: l}
	if spec.Decreases != nil {
		fr.HasVar = true
		fr.VarAt0 = fc.e.cevalScalar(spec.Decreases, env).T
	} else if l.MapIter {
		if v, ok := st.cells[l.KCell].(Sc); ok {
			fr.HasVar = true
			fr.AutoVar = true
			fr.VarAt0 = v.T
			st.assume(app("<=", "0", v.T))
		}
	}
	st.loops = append(st.loops, fr)
	st.trace = append(st.trace, fmt.Sprintf("L%d", l.Ordinal))
	return to, true
}

func clauseLabel(c Clause, i int) string {
	if c.Label != "" {
		return c.Label
	}
	return fmt.Sprintf("%d", i+1)
}

// havoc forgets everything the loop may modify.
func (fc *funcCtx) havoc(st *State, l *Loop) {
	// rows that exist when the loop is entered and that no write in the loop can reach keep their contents
	entryBound := plus(st.allocBase, smtInt(int64(st.allocOff)))
	excluded := map[string][]string{}
	framable := map[string]bool{}
	for k := range l.HeapSorts {
		if l.Unknown[k] || l.AllHeaps {
			continue
		}
		ok := true
		for _, al := range l.Writers[k] {
			if !selfContained(l, al) {
				ok = false
				break
			}
			if sv, have := st.cells[al].(SliceV); have {
				// a slice without capacity cannot be written in place
				excluded[k] = append(excluded[k], and(app("=", "r", sv.Ref), app(">", sv.Cap, "0")))
			}
		}
		framable[k] = ok
	}
	// allocation counter moves on; every slice value alive at the head points below it
	nb0 := st.freshConst("allocbase", SInt)
	st.assume(app("<=", app("+", st.allocBase, smtInt(int64(st.allocOff))), nb0))
	st.allocBase, st.allocOff = nb0, 0
	for c := range l.Cells {
		old, ok := st.cells[c]
		if !ok {
			continue
		}
		st.cells[c] = fc.havocValue(st, old, cellHint(c))
	}
	if l.AllHeaps || l.HasCall && false {
		for k := range st.heaps {
			st.heaps[k] = st.freshConst("heap", heapSort(sortOfHeapKey(k)))
		}
	} else {
		for k := range l.HeapSorts {
			old := fc.heap(st, k)
			nh := st.freshConst("heap", heapSort(sortOfHeapKey(k)))
			// frame: storage that the loop does not write through is unchanged. We keep
			// the contents of every reference that is not the base of a written slice
			// variable at loop entry and was allocated before the loop.
			st.heaps[k] = nh
			if strings.HasSuffix(k, "_ref") && sortOfHeapKey(k) == SInt {
				// every slice header in storage was created before now
				st.assume(fmt.Sprintf("(forall ((r Int) (i Int)) (! (and (<= 0 (select (select %s r) i)) (< (select (select %s r) i) %s)) :pattern ((select (select %s r) i))))", nh, nh, st.allocBase, nh))
			}
			if framable[k] {
				conds := []string{app("<", "r", entryBound)}
				for _, x := range excluded[k] {
					conds = append(conds, not(x))
				}
				st.assume(fmt.Sprintf("(forall ((r Int)) (! (=> %s (= (select %s r) (select %s r))) :pattern ((select %s r))))", and(conds...), nh, old, nh))
			}
			if fc.frameChecked() {
				// storage that existed when the function was entered is never written
				// (that is what the `frame` obligations establish), so it still has its entry contents
				if h0, ok := st.oldHeaps[k]; ok {
					st.assume(fmt.Sprintf("(forall ((r Int)) (! (=> (< r %s) (= (select %s r) (select %s r))) :pattern ((select %s r))))", st.entryBase, nh, h0, nh))
				}
			}
		}
	}
	if l.Maps {
		for id, ms := range st.maps {
			ms.Dom = st.freshConst("dom", fmt.Sprintf("(Array %s Bool)", ms.KS))
			if ms.VS != "" {
				ms.Val = st.freshConst("val", fmt.Sprintf("(Array %s %s)", ms.KS, ms.VS))
			}
			for i, l := range ms.Leaves {
				ms.LVals[i] = st.freshConst("mval", fmt.Sprintf("(Array %s %s)", ms.KS, l.sort))
			}
			_ = id
		}
	}
	if l.Chans || l.HasCall {
		for _, cs := range st.chans {
			cs.Sent = nil
			n := st.freshConst("nsent", SInt)
			st.assume(app("<=", cs.NSent, n))
			cs.NSent = n
			c := st.freshConst("closed", SBool)
			cs.Closed = c
		}
	}
	if l.HasCall {
		for k, g := range st.ghost {
			st.ghost[k] = fc.havocValue(st, g, k)
		}
	}
}

func cellHint(c interface{}) string {
	switch x := c.(type) {
	case *ssa.Alloc:
		if x.Comment != "" {
			return x.Comment
		}
		return x.Name()
	case *ssa.FreeVar:
		return x.Name()
	case string:
		return x
	}
	return "it"
}

func (fc *funcCtx) havocValue(st *State, old Value, hint string) Value {
	switch o := old.(type) {
	case Sc:
		c := st.freshConst(hint, o.S)
		return Sc{c, o.S}
	case SliceV:
		ref := st.freshConst(hint+"_ref", SInt)
		off := st.freshConst(hint+"_off", SInt)
		ln := st.freshConst(hint+"_len", SInt)
		cp := st.freshConst(hint+"_cap", SInt)
		st.assume(app("<=", "0", off))
		st.assume(app("<=", "0", ln))
		st.assume(app("<=", ln, cp))
		st.assume(app("<=", "0", ref))
		st.assume(app("<", ref, st.allocBase))
		return SliceV{Ref: ref, Off: off, Len: ln, Cap: cp, Elem: o.Elem}
	case StructV:
		n := StructV{T: o.T}
		for i, f := range o.F {
			n.F = append(n.F, fc.havocValue(st, f, fmt.Sprintf("%s_f%d", hint, i)))
		}
		return n
	case IfaceV:
		return IfaceV{Nil: st.freshConst(hint+"_isnil", SBool), Tag: st.freshConst(hint+"_tag", SInt)}
	case TupleV:
		var n TupleV
		for i, f := range o {
			n = append(n, fc.havocValue(st, f, fmt.Sprintf("%s_%d", hint, i)))
		}
		return n
	}
	return old
}

func (fc *funcCtx) heap(st *State, key string) string {
	if h, ok := st.heaps[key]; ok {
		if len(h) > 600 {
			// a store writes the old heap term twice: name long terms, or n stores cost 2^n characters
			c := st.freshConst("heapv", heapSort(sortOfHeapKey(key)))
			st.assume(app("=", c, h))
			st.heaps[key] = c
			return c
		}
		return h
	}
	h := st.freshConst("heap0_"+key, heapSort(sortOfHeapKey(key)))
	st.heaps[key] = h
	if st.oldHeaps != nil {
		st.oldHeaps[key] = h
	}
	if strings.HasSuffix(key, "_ref") && sortOfHeapKey(key) == SInt && st.entryBase != "" {
		// slice headers stored in storage that predates the call point to storage that predates it
		st.assume(fmt.Sprintf("(forall ((r Int) (i Int)) (! (=> (< r %s) (and (<= 0 (select (select %s r) i)) (< (select (select %s r) i) %s))) :pattern ((select (select %s r) i))))", st.entryBase, h, h, st.entryBase, h))
	}
	return h
}

// ---- operand evaluation ----

func (fc *funcCtx) val(st *State, v ssa.Value) Value {
	switch x := v.(type) {
	case *ssa.Const:
		return fc.constant(st, x)
	case *ssa.Global:
		return PtrV{Cell: x, IsNil: "false"}
	case *ssa.Function:
		return FuncV{Fn: x}
	case *ssa.Builtin:
		return OpaqueV{"builtin " + x.Name()}
	}
	if r, ok := st.regs[v]; ok {
		return r
	}
	fc.abort("value %s (%T) used before definition on this path", v.Name(), v)
	return nil
}

func (fc *funcCtx) scalar(st *State, v ssa.Value) Sc {
	x := fc.val(st, v)
	if s, ok := x.(Sc); ok {
		return s
	}
	if o, ok := x.(OpaqueV); ok {
		if ss, ok2 := scalarSort(v.Type()); ok2 {
			fc.e.note("unmodelled value treated as arbitrary: " + o.Why)
			return Sc{st.freshConst("opaque", ss), ss}
		}
	}
	fc.abort("expected scalar for %s : %s, got %T", v.Name(), v.Type(), x)
	return Sc{}
}

func ratTerm(v constant.Value) string {
	// float64 constants: the exact rational value of the float64 the compiler emits
	if f, _ := constant.Float64Val(v); true {
		if r := new(big.Rat).SetFloat64(f); r != nil {
			v = constant.Make(r)
		}
	}
	n, d := constant.Num(v), constant.Denom(v)
	ns, ds := n.ExactString(), d.ExactString()
	neg := strings.HasPrefix(ns, "-")
	if neg {
		ns = ns[1:]
	}
	t := ns + ".0"
	if ds != "1" {
		t = "(/ " + ns + ".0 " + ds + ".0)"
	}
	if neg {
		t = "(- " + t + ")"
	}
	return t
}

func (fc *funcCtx) constant(st *State, c *ssa.Const) Value {
	t := c.Type()
	if c.Value == nil {
		return fc.e.zero(st, t)
	}
	ss, ok := scalarSort(t)
	if !ok {
		fc.abort("constant of unsupported type %s", t)
	}
	switch ss {
	case SBool:
		if constant.BoolVal(c.Value) {
			return Sc{"true", SBool}
		}
		return Sc{"false", SBool}
	case SInt:
		if i, exact := constant.Int64Val(constant.ToInt(c.Value)); exact {
			return Sc{smtInt(i), SInt}
		}
		bi, _ := new(big.Int).SetString(constant.ToInt(c.Value).ExactString(), 10)
		if bi.Sign() < 0 {
			return Sc{"(- " + new(big.Int).Neg(bi).String() + ")", SInt}
		}
		return Sc{bi.String(), SInt}
	case SReal:
		return Sc{ratTerm(constant.ToFloat(c.Value)), SReal}
	case SStr:
		return Sc{fc.e.literal(constant.StringVal(c.Value)), SStr}
	}
	return nil
}

func (e *Engine) note(s string) {
	e.mu.Lock()
	e.notes[s] = true
	e.mu.Unlock()
}

// ---- cells, loads and stores ----

func (fc *funcCtx) load(st *State, p PtrV, pos token.Pos) Value {
	if p.OSeq != nil {
		return fc.walkPath(p.OSeq.at(p.Idx), p.Path)
	}
	if p.Heap {
		return fc.walkPath(fc.heapLoad(st, p.Elem, p.Ref, p.Idx), p.Path)
	}
	if p.IsNil != "false" && p.IsNil != "" {
		fc.oblige(st, "nil", fc.site(pos, "call"), not(p.IsNil), "pointer is not nil")
	}
	if g, ok := p.Cell.(*ssa.Global); ok {
		if _, have := st.cells[g]; !have {
			st.cells[g] = fc.globalValue(st, g)
		}
	}
	v, ok := st.cells[p.Cell]
	if !ok {
		fc.abort("load from unknown cell %v", p.Cell)
	}
	return fc.walkPath(v, p.Path)
}

func (fc *funcCtx) walkPath(v Value, path []int) Value {
	for _, f := range path {
		switch sv := v.(type) {
		case StructV:
			v = sv.F[f]
		case Sc:
			ot := opaqueSort(sv.S)
			if ot == nil {
				fc.abort("field path into scalar")
			}
			nv, ok := opaqueField(ot, sv.T, opaqueFieldIndex(ot, f))
			if !ok {
				fc.abort("unknown field of opaque value")
			}
			v = nv
		default:
			fc.abort("field path into non-struct %T", v)
		}
	}
	return v
}

func (fc *funcCtx) globalValue(st *State, g *ssa.Global) Value {
	t := deref(g.Type())
	if mt, ok := t.Underlying().(*types.Map); ok {
		if fc.e.globalMapIsConst(g) {
			return MapV{Global: g, KT: mt.Key(), VT: mt.Elem()}
		}
	}
	if _, ok := t.Underlying().(*types.Struct); ok {
		if sv, ok := fc.e.globalStructConst(st, g); ok {
			return sv
		}
	}
	if _, isIface := t.Underlying().(*types.Interface); isIface {
		if fc.e.globalIsConstError(g) {
			return IfaceV{Nil: "false", Tag: st.freshConst("errtag", SInt)}
		}
	}
	fc.e.note("package-level variable " + g.Name() + " read as arbitrary value")
	return fc.e.fresh(st, t, g.Name())
}

func setPathSt(st *State, v Value, path []int, nv Value) Value {
	if len(path) == 0 {
		return nv
	}
	if sc, ok := v.(Sc); ok {
		if ot := opaqueSort(sc.S); ot != nil && len(path) == 1 {
			return Sc{opaqueUpdate(st, ot, sc.T, opaqueFieldIndex(ot, path[0]), nv), sc.S}
		}
		panic(engineAbort{"nested store into opaque value"})
	}
	sv := v.(StructV)
	n := StructV{T: sv.T, F: append([]Value(nil), sv.F...)}
	n.F[path[0]] = setPathSt(st, sv.F[path[0]], path[1:], nv)
	return n
}

func setPath(v Value, path []int, nv Value) Value {
	if len(path) == 0 {
		return nv
	}
	sv := v.(StructV)
	n := StructV{T: sv.T, F: append([]Value(nil), sv.F...)}
	n.F[path[0]] = setPath(sv.F[path[0]], path[1:], nv)
	return n
}

func (fc *funcCtx) store(st *State, p PtrV, v Value, pos token.Pos) {
	if p.Heap {
		if len(p.Path) > 0 {
			if _, isStruct := p.Elem.Underlying().(*types.Struct); isStruct && lookupOpaque(p.Elem) == nil {
				fc.heapStorePath(st, p.Elem, p.Ref, p.Idx, p.Path, v)
			} else {
				whole := fc.heapLoad(st, p.Elem, p.Ref, p.Idx)
				fc.heapStore(st, p.Elem, p.Ref, p.Idx, setPathSt(st, whole, p.Path, v))
			}
		} else {
			fc.heapStore(st, p.Elem, p.Ref, p.Idx, v)
		}
		if len(fc.con.Ensures) >= 0 && fc.frameChecked() {
			fc.oblige(st, "frame", fc.site(pos, "index"), app(">=", p.Ref, st.entryBase), "writes only storage allocated by this call")
		}
		return
	}
	if _, ok := p.Cell.(*ssa.Global); ok {
		fc.abort("store to package-level variable")
	}
	old, ok := st.cells[p.Cell]
	if !ok && len(p.Path) > 0 {
		fc.abort("store into unknown cell")
	}
	st.cells[p.Cell] = setPathSt(st, old, p.Path, v)
}

// frameChecked: functions without slice-typed parameters cannot reach caller storage
// other than through globals (which abort); for the others every heap store carries
// a frame obligation unless the contract says `note modifies-args`.
func (fc *funcCtx) frameChecked() bool {
	for _, n := range fc.con.Notes {
		if strings.HasPrefix(n, "modifies-args") {
			return false
		}
	}
	return true
}

// ---- instruction semantics ----

func (fc *funcCtx) exec(st *State, ins ssa.Instruction) (stop bool) {
	switch x := ins.(type) {
	case *ssa.DebugRef:
	case *ssa.Alloc:
		t := deref(x.Type())
		if isWaitGroup(t) {
			st.ghost["wg"] = Sc{"0", SInt}
		}
		if at, ok := t.Underlying().(*types.Array); ok {
			n := smtInt(at.Len())
			st.cells[x] = fc.alloc(st, at.Elem(), n, n, true)
		} else {
			st.cells[x] = fc.e.zero(st, t)
		}
		if x.Comment != "" {
			st.named[x.Comment] = x
			// a shadowed variable stays reachable as name$N (N-th declaration of that name, parameters first)
			if n := fc.declOrdinal(x); n > 0 {
				st.named[fmt.Sprintf("%s$%d", x.Comment, n)] = x
			}
		}
		st.regs[x] = PtrV{Cell: x, IsNil: "false"}
	case *ssa.Store:
		p, ok := fc.val(st, x.Addr).(PtrV)
		if !ok {
			fc.abort("store through non-pointer")
		}
		fc.store(st, p, fc.val(st, x.Val), x.Pos())
	case *ssa.UnOp:
		fc.unop(st, x)
	case *ssa.BinOp:
		st.regs[x] = fc.binop(st, x)
	case *ssa.Phi:
		if st.skipPhi == x.Block() {
			if _, done := st.regs[x]; done {
				return
			}
		}
		for i, p := range x.Block().Preds {
			if p == st.prev {
				st.regs[x] = fc.val(st, x.Edges[i])
				return
			}
		}
		fc.abort("phi without matching predecessor")
	case *ssa.Call:
		r, halt := fc.call(st, x, x.Common(), false)
		if halt {
			return true
		}
		st.regs[x] = r
	case *ssa.Go:
		fc.call(st, x, x.Common(), true)
	case *ssa.Defer:
		st.defers = append(st.defers, x)
	case *ssa.RunDefers:
		for i := len(st.defers) - 1; i >= 0; i-- {
			d := st.defers[i]
			fc.call(st, d, d.Common(), false)
		}
		st.defers = nil
	case *ssa.ChangeType:
		st.regs[x] = fc.val(st, x.X)
	case *ssa.Convert:
		st.regs[x] = fc.convert(st, x)
	case *ssa.ChangeInterface:
		st.regs[x] = fc.val(st, x.X)
	case *ssa.MakeInterface:
		st.regs[x] = IfaceV{Nil: "false", Dyn: fc.val(st, x.X), DT: x.X.Type(), Tag: "0"}
	case *ssa.Extract:
		tv, ok := fc.val(st, x.Tuple).(TupleV)
		if !ok {
			fc.abort("extract from non-tuple")
		}
		st.regs[x] = tv[x.Index]
	case *ssa.Field:
		st.regs[x] = fc.walkPath(fc.val(st, x.X), []int{x.Field})
	case *ssa.FieldAddr:
		p, ok := fc.val(st, x.X).(PtrV)
		if !ok {
			fc.abort("field address of unsupported pointer")
		}
		np := p
		np.Path = append(append([]int(nil), p.Path...), x.Field)
		st.regs[x] = np
	case *ssa.IndexAddr:
		fc.indexAddr(st, x)
	case *ssa.Index:
		b, ok := fc.val(st, x.X).(Sc)
		if !ok || b.S != SStr {
			fc.abort("array value indexing not supported")
		}
		idx := fc.scalar(st, x.Index)
		fc.oblige(st, "bounds", fc.site(x.Pos(), "index"), and(app("<=", "0", idx.T), app("<", idx.T, app("gs.len", b.T))), "string index in range")
		st.regs[x] = Sc{app("gs.at", b.T, idx.T), SInt}
	case *ssa.Lookup:
		fc.lookup(st, x)
	case *ssa.Slice:
		fc.slice(st, x)
	case *ssa.MakeSlice:
		ln := fc.scalar(st, x.Len)
		cp := fc.scalar(st, x.Cap)
		fc.oblige(st, "bounds", "make/"+fc.site(x.Pos(), "call"), and(app("<=", "0", ln.T), app("<=", ln.T, cp.T)), "make: 0 <= len <= cap")
		et := x.Type().Underlying().(*types.Slice).Elem()
		st.regs[x] = fc.alloc(st, et, ln.T, cp.T, true)
	case *ssa.MakeMap:
		mt := x.Type().Underlying().(*types.Map)
		v := fc.e.freshMap(st, mt, "m")
		if mv, ok := v.(MapV); ok {
			ms := st.maps[mv.ID]
			st.assume(fmt.Sprintf("(= %s ((as const (Array %s Bool)) false))", ms.Dom, ms.KS))
		}
		st.regs[x] = v
	case *ssa.MapUpdate:
		fc.mapUpdate(st, x)
	case *ssa.MakeClosure:
		var bind []Value
		for _, b := range x.Bindings {
			bind = append(bind, fc.val(st, b))
		}
		st.regs[x] = FuncV{Fn: x.Fn.(*ssa.Function), Bind: bind}
	case *ssa.MakeChan:
		id := fmt.Sprintf("chan:%d", freshCounter)
		freshCounter++
		st.chans[id] = &chanState{NSent: "0", Closed: "false"}
		st.regs[x] = ChanV{id}
	case *ssa.Send:
		fc.send(st, x)
	case *ssa.Range:
		key := ssa.Instruction(x)
		over := fc.val(st, x.X)
		st.cells[key] = Sc{"0", SInt}
		kind := "string"
		if _, ok := x.X.Type().Underlying().(*types.Map); ok {
			kind = "map"
			// a map has finitely many keys: the iterator cell counts those not yet visited
			rem := st.freshConst("mapremaining", SInt)
			st.assume(app("<=", "0", rem))
			st.cells[key] = Sc{rem, SInt}
		}
		st.regs[x] = IterV{Key: key, Over: over, Kind: kind}
	case *ssa.Next:
		fc.next(st, x)
	case *ssa.TypeAssert:
		fc.typeAssert(st, x)
	default:
		fc.abort("unsupported instruction %T: %s", ins, ins)
	}
	return false
}

func (fc *funcCtx) alloc(st *State, et types.Type, ln, cp string, zero bool) SliceV {
	ref := app("+", st.allocBase, smtInt(int64(st.allocOff)))
	if st.allocOff == 0 {
		ref = st.allocBase
	}
	st.allocOff++
	if zero {
		ls, _ := leavesOf(et)
		for _, l := range ls {
			h := fc.heap(st, l.key)
			st.heaps[l.key] = app("store", h, ref, fmt.Sprintf("((as const (Array Int %s)) %s)", l.sort, zeroOfSort(l.sort)))
		}
	}
	return SliceV{Ref: ref, Off: "0", Len: ln, Cap: cp, Elem: et}
}

func (fc *funcCtx) unop(st *State, x *ssa.UnOp) {
	switch x.Op {
	case token.MUL:
		p, ok := fc.val(st, x.X).(PtrV)
		if !ok {
			fc.abort("load through non-pointer %T", fc.val(st, x.X))
		}
		st.regs[x] = fc.load(st, p, x.Pos())
	case token.NOT:
		st.regs[x] = Sc{not(fc.scalar(st, x.X).T), SBool}
	case token.SUB:
		v := fc.scalar(st, x.X)
		st.regs[x] = Sc{app("-", v.T), v.S}
	case token.ARROW:
		fc.recv(st, x)
	default:
		fc.abort("unsupported unary operator %s", x.Op)
	}
}

func (fc *funcCtx) binop(st *State, x *ssa.BinOp) Value {
	a, b := fc.val(st, x.X), fc.val(st, x.Y)
	// interface / pointer comparisons with nil
	if ia, ok := a.(IfaceV); ok {
		ib, ok2 := b.(IfaceV)
		if !ok2 {
			fc.abort("interface compared with %T", b)
		}
		var eq string
		switch {
		case ib.Nil == "true":
			eq = ia.Nil
		case ia.Nil == "true":
			eq = ib.Nil
		default:
			eq = st.freshConst("ifaceeq", SBool)
		}
		if x.Op == token.NEQ {
			return Sc{not(eq), SBool}
		}
		return Sc{eq, SBool}
	}
	if pa, ok := a.(PtrV); ok {
		pb, _ := b.(PtrV)
		eq := "false"
		if pb.IsNil == "true" {
			eq = pa.IsNil
		} else if pa.IsNil == "true" {
			eq = pb.IsNil
		} else {
			eq = st.freshConst("ptreq", SBool)
		}
		if x.Op == token.NEQ {
			return Sc{not(eq), SBool}
		}
		return Sc{eq, SBool}
	}
	if sa, ok := a.(SliceV); ok { // slice == nil
		if _, ok2 := b.(SliceV); ok2 {
			eq := and(app("=", sa.Len, "0"), app("=", sa.Cap, "0"), app("=", sa.Ref, "0"))
			if x.Op == token.NEQ {
				return Sc{not(eq), SBool}
			}
			return Sc{eq, SBool}
		}
	}
	sa, ok1 := a.(Sc)
	sb, ok2 := b.(Sc)
	if !ok1 || !ok2 {
		if o, ok := a.(OpaqueV); ok {
			fc.e.note("comparison on unmodelled value: " + o.Why)
			ss, _ := scalarSort(x.Type())
			return Sc{st.freshConst("opq", ss), ss}
		}
		fc.abort("binary %s on %T, %T", x.Op, a, b)
	}
	return fc.binTerm(st, x.Op, sa, sb, x.X.Type(), x.Pos())
}

func (fc *funcCtx) binTerm(st *State, op token.Token, a, b Sc, t types.Type, pos token.Pos) Sc {
	switch op {
	case token.ADD:
		if a.S == SStr {
			return Sc{catTerm(a.T, b.T), SStr}
		}
		return fc.wrap(st, Sc{app("+", a.T, b.T), a.S}, t)
	case token.SUB:
		return fc.wrap(st, Sc{app("-", a.T, b.T), a.S}, t)
	case token.MUL:
		return fc.wrap(st, Sc{app("*", a.T, b.T), a.S}, t)
	case token.QUO:
		if a.S == SReal {
			return Sc{app("/", a.T, b.T), SReal}
		}
		fc.oblige(st, "div", fc.site(pos, "binary"), not(app("=", b.T, "0")), "divisor is not zero")
		return Sc{app("go.div", a.T, b.T), SInt}
	case token.REM:
		fc.oblige(st, "div", fc.site(pos, "binary"), not(app("=", b.T, "0")), "divisor is not zero")
		return Sc{app("go.mod", a.T, b.T), SInt}
	case token.EQL, token.NEQ:
		var eq string
		if a.S == SStr {
			eq = app("gs.eq", a.T, b.T)
		} else {
			eq = app("=", a.T, b.T)
		}
		if op == token.NEQ {
			return Sc{not(eq), SBool}
		}
		return Sc{eq, SBool}
	case token.LSS, token.LEQ, token.GTR, token.GEQ:
		if a.S == SStr {
			switch op {
			case token.LSS:
				return Sc{app("gs.lt", a.T, b.T), SBool}
			case token.LEQ:
				return Sc{not(app("gs.lt", b.T, a.T)), SBool}
			case token.GTR:
				return Sc{app("gs.lt", b.T, a.T), SBool}
			default:
				return Sc{not(app("gs.lt", a.T, b.T)), SBool}
			}
		}
		return Sc{app(map[token.Token]string{token.LSS: "<", token.LEQ: "<=", token.GTR: ">", token.GEQ: ">="}[op], a.T, b.T), SBool}
	case token.LAND, token.AND:
		if a.S == SBool {
			return Sc{and(a.T, b.T), SBool}
		}
	case token.LOR, token.OR:
		if a.S == SBool {
			return Sc{or(a.T, b.T), SBool}
		}
	}
	if a.S == SInt && b.S == SInt {
		switch op {
		case token.AND, token.OR, token.XOR, token.AND_NOT, token.SHL, token.SHR:
			return fc.bitOp(st, op, a, b, t)
		}
	}
	fc.abort("unsupported binary operator %s on %s", op, a.S)
	return Sc{}
}

// bitOp: bitwise operators. Exact for an unsigned (or byte) operand combined with a
// non-negative constant below 2^20 — written out bit by bit in integer arithmetic — and for
// shifts of unsigned values by constants; anything else is an arbitrary value of the type
// (sound, imprecise; noted in the evidence).
func (fc *funcCtx) bitOp(st *State, op token.Token, a, b Sc, t types.Type) Sc {
	unsigned := false
	if bt, ok := t.Underlying().(*types.Basic); ok && bt.Info()&types.IsUnsigned != 0 {
		unsigned = true
	}
	lit := func(x Sc) (int64, bool) {
		v, err := strconv.ParseInt(x.T, 10, 64)
		return v, err == nil && v >= 0
	}
	bit := func(x string, k uint) string { return app("mod", app("div", x, smtInt(int64(1)<<k)), "2") }
	if unsigned {
		if op == token.SHL || op == token.SHR {
			if k, ok := lit(b); ok && k < 62 {
				if op == token.SHL {
					return fc.wrap(st, Sc{app("*", a.T, smtInt(int64(1)<<uint(k))), SInt}, t)
				}
				return Sc{app("div", a.T, smtInt(int64(1)<<uint(k))), SInt}
			}
		} else {
			x, c, ok := a, int64(0), false
			if v, isLit := lit(b); isLit {
				c, ok = v, true
			} else if v, isLit := lit(a); isLit && op != token.AND_NOT {
				x, c, ok = b, v, true
			}
			if ok && c < 1<<20 {
				// x op c, bit by bit over the set bits of c
				var andTerms, clearTerms []string
				for k := uint(0); k < 20; k++ {
					if c&(1<<k) != 0 {
						andTerms = append(andTerms, app("*", bit(x.T, k), smtInt(int64(1)<<k)))
						clearTerms = append(clearTerms, app("*", app("-", "1", bit(x.T, k)), smtInt(int64(1)<<k)))
					}
				}
				sum := func(ts []string) string {
					if len(ts) == 0 {
						return "0"
					}
					if len(ts) == 1 {
						return ts[0]
					}
					return app("+", ts...)
				}
				switch op {
				case token.AND:
					return Sc{sum(andTerms), SInt}
				case token.AND_NOT:
					return Sc{app("-", x.T, sum(andTerms)), SInt}
				case token.OR:
					return Sc{app("+", x.T, sum(clearTerms)), SInt}
				case token.XOR:
					return Sc{app("-", app("+", x.T, sum(clearTerms)), sum(andTerms)), SInt}
				}
			}
		}
	}
	fc.e.note("bitwise " + op.String() + " outside the exact cases (unsigned operand with a small constant): result is an arbitrary value in " + shortKey(fc.key))
	r := st.freshConst("bits", SInt)
	if unsigned {
		st.assume(app("<=", "0", r))
	}
	return fc.wrap(st, Sc{r, SInt}, t)
}

// wrap models fixed-width unsigned arithmetic for small types (byte): results
// are reduced modulo 2^n. Plain int is mathematical (assumption listed).
func (fc *funcCtx) wrap(st *State, v Sc, t types.Type) Sc {
	if v.S != SInt {
		return v
	}
	if b, ok := t.Underlying().(*types.Basic); ok {
		switch b.Kind() {
		case types.Uint8:
			return Sc{app("mod", v.T, "256"), SInt}
		case types.Uint16:
			return Sc{app("mod", v.T, "65536"), SInt}
		}
	}
	return v
}

func (fc *funcCtx) convert(st *State, x *ssa.Convert) Value {
	from, to := x.X.Type().Underlying(), x.Type().Underlying()
	v := fc.val(st, x.X)
	fs, fok := scalarSort(from)
	ts, tok := scalarSort(to)
	switch {
	case fok && tok && fs == SInt && ts == SInt:
		s := v.(Sc)
		lo, hi, ranged := intRange(to)
		if !ranged {
			return s
		}
		// conversion must not change the value (narrowing that wraps is reported)
		var conds []string
		if lo != "" {
			conds = append(conds, app("<=", lo, s.T))
		}
		if hi != "" {
			conds = append(conds, app("<=", s.T, hi))
		}
		fc.oblige(st, "conv", fc.site(x.Pos(), "call"), and(conds...), "integer conversion keeps the value in range of "+to.String())
		return s
	case fok && tok && fs == SInt && ts == SReal:
		return Sc{app("to_real", v.(Sc).T), SReal}
	case fok && tok && fs == SReal && ts == SInt:
		// truncation toward zero
		r := v.(Sc).T
		return Sc{fmt.Sprintf("(ite (>= %s 0.0) (to_int %s) (- (to_int (- %s))))", r, r, r), SInt}
	case fok && tok && fs == SReal && ts == SReal:
		return v
	case fok && tok && fs == SInt && ts == SStr:
		// string(rune): one byte for ASCII
		s := v.(Sc)
		fc.oblige(st, "ascii", "string/"+fc.site(x.Pos(), "call"), and(app("<=", "0", s.T), app("<", s.T, "128")), "string(rune) is modelled for ASCII only")
		return Sc{app("gs.chr", s.T), SStr}
	case fok && tok && fs == SStr && ts == SStr:
		return v
	}
	// string <-> []byte / []rune
	if fok && fs == SStr {
		if sl, ok := to.(*types.Slice); ok {
			s := v.(Sc)
			eb, _ := sl.Elem().Underlying().(*types.Basic)
			if eb != nil && eb.Kind() == types.Int32 {
				fc.oblige(st, "ascii", "[]rune/"+fc.site(x.Pos(), "call"), app("gs.ascii", s.T), "[]rune(string) is modelled for ASCII only")
			}
			res := fc.alloc(st, sl.Elem(), app("gs.len", s.T), app("gs.len", s.T), false)
			h := fc.heap(st, SInt)
			nh := st.freshConst("heap", heapSort(SInt))
			st.assume(fmt.Sprintf("(forall ((r Int)) (! (=> (not (= r %s)) (= (select %s r) (select %s r))) :pattern ((select %s r))))", res.Ref, nh, h, nh))
			st.assume(fmt.Sprintf("(forall ((i Int)) (! (=> (and (<= 0 i) (< i (gs.len %s))) (= (select (select %s %s) i) (gs.at %s i))) :pattern ((select (select %s %s) i))))", s.T, nh, res.Ref, s.T, nh, res.Ref))
			st.heaps[SInt] = nh
			res.Str = s.T
			return res
		}
	}
	if tok && ts == SStr {
		if sl, ok := from.(*types.Slice); ok {
			sv := v.(SliceV)
			eb, _ := sl.Elem().Underlying().(*types.Basic)
			h := fc.heap(st, SInt)
			if eb != nil && eb.Kind() == types.Int32 {
				fc.oblige(st, "ascii", "string/"+fc.site(x.Pos(), "call"),
					fmt.Sprintf("(forall ((i Int)) (=> (and (<= 0 i) (< i %s)) (and (<= 0 (select (select %s %s) %s)) (< (select (select %s %s) %s) 128))))", sv.Len, h, sv.Ref, elemIx(sv.Off, "i"), h, sv.Ref, elemIx(sv.Off, "i")),
					"string([]rune) is modelled for ASCII only")
			}
			return fc.stringOfSlice(st, sv)
		}
	}
	fc.abort("unsupported conversion %s -> %s", from, to)
	return nil
}

func (fc *funcCtx) indexAddr(st *State, x *ssa.IndexAddr) {
	base := fc.val(st, x.X)
	idx := fc.scalar(st, x.Index)
	switch b := base.(type) {
	case SliceV:
		fc.oblige(st, "bounds", fc.site(x.Pos(), "index"), and(app("<=", "0", idx.T), app("<", idx.T, b.Len)), "index in range")
		st.regs[x] = PtrV{Heap: true, Ref: b.Ref, Idx: elemIx(b.Off, idx.T), Elem: b.Elem}
	case OSeqV:
		fc.oblige(st, "bounds", fc.site(x.Pos(), "index"), and(app("<=", "0", idx.T), app("<", idx.T, b.lenTerm())), "index in range")
		q := b
		st.regs[x] = PtrV{OSeq: &q, Idx: idx.T, IsNil: "false"}
	case PtrV:
		// pointer to an array-typed local: the array lives in a heap row
		if av, ok := st.cells[b.Cell].(SliceV); ok && !b.Heap && len(b.Path) == 0 {
			fc.oblige(st, "bounds", fc.site(x.Pos(), "index"), and(app("<=", "0", idx.T), app("<", idx.T, av.Len)), "index in range")
			st.regs[x] = PtrV{Heap: true, Ref: av.Ref, Idx: elemIx(av.Off, idx.T), Elem: av.Elem}
			return
		}
		fc.abort("index address through unsupported pointer")
	default:
		fc.abort("index address of %T not supported", base)
	}
}

func (fc *funcCtx) lookup(st *State, x *ssa.Lookup) {
	base := fc.val(st, x.X)
	switch b := base.(type) {
	case Sc: // string index
		idx := fc.scalar(st, x.Index)
		fc.oblige(st, "bounds", fc.site(x.Pos(), "index"), and(app("<=", "0", idx.T), app("<", idx.T, app("gs.len", b.T))), "string index in range")
		st.regs[x] = Sc{app("gs.at", b.T, idx.T), SInt}
	case MapV:
		key := fc.scalar(st, x.Index)
		var val Value
		var found string
		if b.Global != nil {
			val, found = fc.e.tableLookup(st, fc, b.Global, key)
		} else {
			ms := st.maps[b.ID]
			if ms == nil {
				fc.abort("lookup in unknown map")
			}
			found = app("select", ms.Dom, key.T)
			if ms.VS != "" {
				val = Sc{fmt.Sprintf("(ite %s (select %s %s) %s)", found, ms.Val, key.T, zeroOfSort(ms.VS)), ms.VS}
			} else if ms.VT != nil {
				// present: the stored struct; absent: the zero value
				stored := fc.e.mapLoadStruct(st, ms, key.T)
				if mv, ok := mergeValue(found, stored, fc.e.zero(st, ms.VT)); ok {
					val = mv
				} else {
					val = stored
				}
			} else {
				val = fc.e.fresh(st, b.VT, "mapval")
			}
		}
		if x.CommaOk {
			st.regs[x] = TupleV{val, Sc{found, SBool}}
		} else {
			st.regs[x] = val
		}
	default:
		fc.abort("lookup on %T", base)
	}
}

func (fc *funcCtx) mapUpdate(st *State, x *ssa.MapUpdate) {
	mv, ok := fc.val(st, x.Map).(MapV)
	if !ok || mv.Global != nil {
		fc.abort("map update on unsupported map")
	}
	if mv.ID == "nilmap" {
		fc.oblige(st, "nil", fc.site(x.Pos(), "index"), "false", "assignment to entry in nil map")
		return
	}
	ms := st.maps[mv.ID]
	key := fc.scalar(st, x.Key)
	ms.Dom = app("store", ms.Dom, key.T, "true")
	if ms.VS != "" {
		v := fc.scalar(st, x.Value)
		ms.Val = app("store", ms.Val, key.T, v.T)
	} else if ms.VT != nil {
		if !ms.storeStruct(key.T, fc.val(st, x.Value)) {
			fc.abort("map update with a struct value that has unsupported components")
		}
	}
}

func (fc *funcCtx) slice(st *State, x *ssa.Slice) {
	base := fc.val(st, x.X)
	switch b := base.(type) {
	case Sc: // string
		lo := "0"
		hi := app("gs.len", b.T)
		if x.Low != nil {
			lo = fc.scalar(st, x.Low).T
		}
		if x.High != nil {
			hi = fc.scalar(st, x.High).T
		}
		fc.oblige(st, "bounds", fc.site(x.Pos(), "slice"), and(app("<=", "0", lo), app("<=", lo, hi), app("<=", hi, app("gs.len", b.T))), "slice bounds in range")
		st.regs[x] = Sc{app("gs.sub", b.T, lo, hi), SStr}
	case SliceV:
		lo := "0"
		hi := b.Len
		if x.Low != nil {
			lo = fc.scalar(st, x.Low).T
		}
		if x.High != nil {
			hi = fc.scalar(st, x.High).T
		}
		fc.oblige(st, "bounds", fc.site(x.Pos(), "slice"), and(app("<=", "0", lo), app("<=", lo, hi), app("<=", hi, b.Cap)), "slice bounds in range")
		st.regs[x] = SliceV{Ref: b.Ref, Off: plus(b.Off, lo), Len: minus(hi, lo), Cap: minus(b.Cap, lo), Elem: b.Elem}
	case PtrV:
		if sv, ok := st.cells[b.Cell].(Sc); ok && sv.S == SStr && !b.Heap && x.Low == nil && x.High == nil {
			// byte array whose content is known as a string (e.g. a digest): view it as bytes
			res := fc.alloc(st, types.Typ[types.Uint8], app("gs.len", sv.T), app("gs.len", sv.T), false)
			res.Str = sv.T
			st.regs[x] = res
			return
		}
		av, ok := st.cells[b.Cell].(SliceV)
		if !ok || b.Heap || len(b.Path) != 0 {
			fc.abort("slice of unsupported pointer")
		}
		lo := "0"
		hi := av.Len
		if x.Low != nil {
			lo = fc.scalar(st, x.Low).T
		}
		if x.High != nil {
			hi = fc.scalar(st, x.High).T
		}
		if lo != "0" || hi != av.Len {
			fc.oblige(st, "bounds", fc.site(x.Pos(), "slice"), and(app("<=", "0", lo), app("<=", lo, hi), app("<=", hi, av.Cap)), "slice bounds in range")
		}
		st.regs[x] = SliceV{Ref: av.Ref, Off: plus(av.Off, lo), Len: minus(hi, lo), Cap: minus(av.Cap, lo), Elem: av.Elem}
	default:
		fc.abort("slice of %T not supported", base)
	}
}

func (fc *funcCtx) next(st *State, x *ssa.Next) {
	it, ok := fc.val(st, x.Iter).(IterV)
	if !ok {
		fc.abort("next on non-iterator")
	}
	if it.Kind == "string" {
		s := it.Over.(Sc)
		pos := st.cells[it.Key].(Sc)
		okT := app("<", pos.T, app("gs.len", s.T))
		// range over string decodes UTF-8; modelled for ASCII bytes only
		st2facts := implies(okT, app("<", app("gs.at", s.T, pos.T), "128"))
		fc.oblige(st, "ascii", "range/"+fc.loopNameFor(x.Block()), st2facts, "range over string is modelled for ASCII only")
		st.cells[it.Key] = Sc{fmt.Sprintf("(ite %s (+ %s 1) %s)", okT, pos.T, pos.T), SInt}
		st.regs[x] = TupleV{Sc{okT, SBool}, pos, Sc{app("gs.at", s.T, pos.T), SInt}}
		return
	}
	// map iteration: an arbitrary not-yet-visited key; order is not modelled
	mv, ok := it.Over.(MapV)
	if !ok {
		fc.abort("range over unsupported map")
	}
	okc := st.freshConst("more", SBool)
	if rem, ok := st.cells[it.Key].(Sc); ok {
		st.assume(implies(okc, app(">", rem.T, "0")))
		st.cells[it.Key] = Sc{fmt.Sprintf("(ite %s (- %s 1) %s)", okc, rem.T, rem.T), SInt}
	}
	ks, _ := scalarSort(mv.KT)
	k := st.freshConst("key", ks)
	var v Value
	if mv.Global == nil && st.maps[mv.ID] != nil {
		ms := st.maps[mv.ID]
		st.assume(implies(okc, app("select", ms.Dom, k)))
		if ms.VS != "" {
			v = Sc{app("select", ms.Val, k), ms.VS}
		}
	}
	if v == nil {
		v = fc.e.fresh(st, mv.VT, "mapval")
	}
	st.regs[x] = TupleV{Sc{okc, SBool}, Sc{k, ks}, v}
}

func (fc *funcCtx) loopNameFor(b *ssa.BasicBlock) string {
	if l := fc.loops[b]; l != nil {
		return fmt.Sprintf("loop%d", l.Ordinal)
	}
	return fmt.Sprintf("b%d", b.Index)
}

func (fc *funcCtx) typeAssert(st *State, x *ssa.TypeAssert) {
	iv, ok := fc.val(st, x.X).(IfaceV)
	if !ok {
		fc.abort("type assertion on %T", fc.val(st, x.X))
	}
	var res Value
	okT := "true"
	if iv.Dyn != nil && iv.DT != nil && types.Identical(iv.DT, x.AssertedType) {
		res = iv.Dyn
	} else {
		res = fc.e.fresh(st, x.AssertedType, "asserted")
		okT = st.freshConst("assertok", SBool)
		if !x.CommaOk {
			fc.oblige(st, "assert", fc.site(x.Pos(), "assert"), okT, "type assertion cannot fail")
		}
	}
	if x.CommaOk {
		st.regs[x] = TupleV{res, Sc{okT, SBool}}
	} else {
		st.regs[x] = res
	}
}

// ---- return ----

func (fc *funcCtx) doReturn(st *State, x *ssa.Return) {
	var results []Value
	for _, r := range x.Results {
		results = append(results, fc.val(st, r))
	}
	if fc.collector != nil {
		// inlined callee: the path continues in the caller
		*fc.collector = append(*fc.collector, inlineRet{st, results})
		return
	}
	env := fc.entryEnv(st)
	for i, n := range fc.con.Results {
		env.vars[n] = results[i]
	}
	for i, en := range fc.con.Ensures {
		g := fc.e.cevalBool(en.E, env)
		fc.oblige(st, "post", clauseLabel(en, i), g, "postcondition: "+en.Src)
	}
	fc.returnGhostChecks(st)
}

// stringOfSlice: the text of a byte/rune slice as a string value. Conversions of
// the same slice in the same heap share one constant, so that spec functions
// applied to them agree.
func (fc *funcCtx) stringOfSlice(st *State, sv SliceV) Sc {
	h := fc.heap(st, SInt)
	key := "strof:" + sv.Ref + "|" + sv.Off + "|" + sv.Len + "|" + h
	if v, ok := st.ghost[key].(Sc); ok {
		return v
	}
	r := st.freshConst("str", SStr)
	st.assume(app("=", app("gs.len", r), sv.Len))
	st.assume(fmt.Sprintf("(forall ((i Int)) (! (=> (and (<= 0 i) (< i %s)) (= (gs.at %s i) (select (select %s %s) %s))) :pattern ((gs.at %s i))))", sv.Len, r, h, sv.Ref, elemIx(sv.Off, "i"), r))
	st.ghost[key] = Sc{r, SStr}
	return Sc{r, SStr}
}

// declOrdinal: which declaration of its name an Alloc is, counting a parameter of that name
// first and then the locals in declaration order; 0 if the name is declared only once.
func (fc *funcCtx) declOrdinal(a *ssa.Alloc) int {
	if fc.declOrd == nil {
		fc.declOrd = map[*ssa.Alloc]int{}
		count := map[string]int{}
		spill := map[*ssa.Alloc]bool{}
		for _, p := range fc.fn.Params {
			count[p.Name()] = 1
			if refs := p.Referrers(); refs != nil {
				for _, r := range *refs {
					if st, ok := r.(*ssa.Store); ok && st.Val == ssa.Value(p) {
						if al, ok := st.Addr.(*ssa.Alloc); ok && al.Comment == p.Name() {
							spill[al] = true
						}
					}
				}
			}
		}
		total := map[string]int{}
		for k, v := range count {
			total[k] = v
		}
		for _, l := range fc.fn.Locals {
			if l.Comment == "" {
				continue
			}
			if spill[l] {
				fc.declOrd[l] = 1
				continue
			}
			total[l.Comment]++
			fc.declOrd[l] = total[l.Comment]
		}
		for l, n := range fc.declOrd {
			if total[l.Comment] <= 1 {
				_ = n
				fc.declOrd[l] = 0
			}
		}
	}
	return fc.declOrd[a]
}

// rangeBoundFact: a range over a slice, array or integer keeps its position in a compiler-generated
// cell that only the loop head writes (-1 before the loop, +1 per iteration, the body entered only
// while position+1 < n with n computed once before the loop). So -1 <= position and position+1 <= n
// hold at the head on every arrival; this is the language's semantics of range, not an invariant the
// contract has to state.
func (fc *funcCtx) rangeBoundFact(st *State, l *Loop) {
	al, ok := l.KCell.(*ssa.Alloc)
	if !ok || al.Comment != "rangeindex" || len(l.Head.Instrs) == 0 {
		return
	}
	iff, ok := l.Head.Instrs[len(l.Head.Instrs)-1].(*ssa.If)
	if !ok {
		return
	}
	cmp, ok := iff.Cond.(*ssa.BinOp)
	if !ok || cmp.Op != token.LSS {
		return
	}
	inc, ok := cmp.X.(*ssa.BinOp)
	if !ok || inc.Op != token.ADD {
		return
	}
	if ld, ok := inc.X.(*ssa.UnOp); !ok || ld.Op != token.MUL || ld.X != ssa.Value(al) {
		return
	}
	if c, ok := inc.Y.(*ssa.Const); !ok || c.Value == nil || c.Value.ExactString() != "1" {
		return
	}
	if ins, ok := cmp.Y.(ssa.Instruction); ok && l.Blocks[ins.Block()] {
		return // the bound is recomputed inside the loop: not the range form
	}
	// the cell is written only by the head's own store
	for b := range l.Blocks {
		for _, ins := range b.Instrs {
			if s, ok := ins.(*ssa.Store); ok && s.Addr == ssa.Value(al) && (b != l.Head || s.Val != ssa.Value(inc)) {
				return
			}
		}
	}
	pos, ok := st.cells[al].(Sc)
	if !ok {
		return
	}
	n, ok := fc.val(st, cmp.Y).(Sc)
	if !ok {
		return
	}
	st.assume(and(app("<=", "(- 1)", pos.T), app("<=", plus(pos.T, "1"), n.T)))
}

// ownGrownSlices: local slice variables whose every assignment is nil, make, a composite literal, a
// re-slice of the variable itself, or append to the variable itself, and whose address goes nowhere
// else. Whatever such a variable holds was allocated by this call (or it has no capacity): true
// initially (zero value), kept by each of those assignments. The fact is the language's, not the
// loop's, so a loop that appends to such a variable needs no "fresh" invariant for it.
func (fc *funcCtx) ownGrownSlices() map[*ssa.Alloc]bool {
	if fc.ownSlicesOK {
		return fc.ownSlices
	}
	fc.ownSlicesOK = true
	fc.ownSlices = map[*ssa.Alloc]bool{}
	loadOf := func(v ssa.Value, al *ssa.Alloc) bool {
		u, ok := v.(*ssa.UnOp)
		return ok && u.Op == token.MUL && u.X == ssa.Value(al)
	}
	var freshOrSelf func(v ssa.Value, al *ssa.Alloc) bool
	freshOrSelf = func(v ssa.Value, al *ssa.Alloc) bool {
		switch x := v.(type) {
		case *ssa.Const:
			return x.Value == nil
		case *ssa.MakeSlice:
			return true
		case *ssa.Slice:
			if a2, ok := x.X.(*ssa.Alloc); ok && a2.Heap && (a2.Comment == "slicelit" || a2.Comment == "makeslice" || a2.Comment == "varargs") {
				return true
			}
			return loadOf(x.X, al)
		case *ssa.Call:
			if bi, ok := x.Call.Value.(*ssa.Builtin); ok && bi.Name() == "append" && len(x.Call.Args) > 0 {
				a0 := x.Call.Args[0]
				return loadOf(a0, al) || freshOrSelf(a0, al)
			}
		}
		return false
	}
	for _, b := range fc.fn.Blocks {
		for _, ins := range b.Instrs {
			al, ok := ins.(*ssa.Alloc)
			if !ok {
				continue
			}
			pt, ok := al.Type().Underlying().(*types.Pointer)
			if !ok {
				continue
			}
			if _, isSlice := pt.Elem().Underlying().(*types.Slice); !isSlice {
				continue
			}
			good := true
			refs := al.Referrers()
			if refs == nil {
				continue
			}
			for _, r := range *refs {
				switch x := r.(type) {
				case *ssa.Store:
					if x.Addr != ssa.Value(al) || !freshOrSelf(x.Val, al) {
						good = false
					}
				case *ssa.UnOp:
					if x.Op != token.MUL {
						good = false
					}
				case *ssa.DebugRef:
				default:
					good = false
				}
			}
			if good {
				fc.ownSlices[al] = true
			}
		}
	}
	return fc.ownSlices
}

func (fc *funcCtx) ownSliceFacts(st *State, l *Loop) {
	for al := range fc.ownGrownSlices() {
		if !l.Cells[al] {
			continue
		}
		if sv, ok := st.cells[al].(SliceV); ok {
			st.assume(or(app("=", sv.Cap, "0"), app(">=", sv.Ref, st.entryBase)))
		}
	}
}
