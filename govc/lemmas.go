package main

import (
	"fmt"
	"strings"
)

func fmtSscanf(s, f string, a ...interface{}) (int, error) { return fmt.Sscanf(s, f, a...) }

// VerifyLemma: requires |- ensures over spec functions only. `assert e`
// steps are proved in order and then available; `use L(args)` instantiates a
// lemma (which is itself proved separately).
func (e *Engine) VerifyLemma(name string) {
	lm := e.cs.Lemmas[name]
	oname := "lemma/" + name
	if lm == nil {
		e.failObligation(oname, "lemma", "", "lemma exists", "no lemma "+name)
		return
	}
	defer func() {
		if r := recover(); r != nil {
			if ce, ok := r.(cevalErr); ok {
				e.failObligation(oname, "contract", "", "lemma is well-formed", ce.msg) // a name the lemma mentions is gone: drift, not a refutation
				return
			}
			panic(r)
		}
	}()
	st := &State{cells: map[interface{}]Value{}, named: map[string]interface{}{}, heaps: map[string]string{}, maps: map[string]*mapState{}, chans: map[string]*chanState{}, ghost: map[string]Value{}}
	env := &Env{vars: map[string]Value{}, st: st}
	inputs := map[string]Value{}
	for _, p := range lm.Params {
		c := st.freshConst(p.Name, typeSort(p.Type))
		env.vars[p.Name] = Sc{c, typeSort(p.Type)}
		inputs[p.Name] = env.vars[p.Name]
		switch p.Type {
		case "byte", "uint8":
			st.assume(and(app("<=", "0", c), app("<", c, "256")))
		case "uint":
			st.assume(app("<=", "0", c))
		}
	}
	for _, r := range lm.Requires {
		st.assume(e.cevalBool(r.E, env))
	}
	e.addQuery(oname+"/cover", "cover", "", "lemma hypotheses are satisfiable", &Query{Script: e.buildScript(st.decls, st.facts, "true", false), Expect: "sat", Path: "requires"})
	for i, s := range lm.Steps {
		switch s.Kind {
		case "assert":
			g := e.cevalBool(s.E, env)
			e.addQuery(fmt.Sprintf("%s/assert%d", oname, i+1), "lemma", "", "proof step: "+s.Src, &Query{Script: e.buildScript(st.decls, st.facts, g, true), Path: "step", Inputs: inputs})
			st.assume(g)
		case "use":
			call, ok := s.E.(*CCall)
			if !ok {
				cfail("use needs a lemma application")
			}
			other := e.cs.Lemmas[call.Fn]
			if other == nil {
				cfail("use of unknown lemma %s", call.Fn)
			}
			if len(other.Params) != len(call.Args) {
				cfail("lemma %s takes %d arguments", call.Fn, len(other.Params))
			}
			env2 := &Env{vars: map[string]Value{}, st: st}
			for j, p := range other.Params {
				env2.vars[p.Name] = e.cevalScalar(call.Args[j], env)
			}
			var hyp, con []string
			for _, r := range other.Requires {
				hyp = append(hyp, e.cevalBool(r.E, env2))
			}
			for _, r := range other.Ensures {
				con = append(con, e.cevalBool(r.E, env2))
			}
			st.assume(implies(and(hyp...), and(con...)))
			e.mu.Lock()
			e.used["lemma "+name+" uses lemma "+call.Fn+" (proved separately)"] = true
			e.mu.Unlock()
		}
	}
	for i, en := range lm.Ensures {
		g := e.cevalBool(en.E, env)
		e.addQuery(oname+"/"+clauseLabel(en, i), "lemma", "", "lemma conclusion: "+en.Src, &Query{Script: e.buildScript(st.decls, st.facts, g, true), Path: "ensures", Inputs: inputs})
	}
}

func joinNonEmpty(xs []string, sep string) string {
	var ys []string
	for _, x := range xs {
		if x != "" {
			ys = append(ys, x)
		}
	}
	return strings.Join(ys, sep)
}
