package main

// State merging at the join point of branch regions (if/else chains, switches
// without loops): both sides are executed to the region's immediate
// post-dominator and the resulting states are merged into one whose values are
// ite-terms over the branch conditions. This keeps the number of paths between
// cut points from multiplying with every independent `if`.

import (
	"fmt"
	"strings"

	"golang.org/x/tools/go/ssa"
)

type stopFrame struct {
	D         *ssa.BasicBlock
	Collector *[]*State
	FactsAt   int // len(facts) at the fork
	DeclsAt   int
}

// ipdoms computes immediate post-dominators (nil = the virtual exit).
func ipdoms(fn *ssa.Function) map[*ssa.BasicBlock]*ssa.BasicBlock {
	n := len(fn.Blocks)
	// pdom sets as bitsets over block indices; index n = virtual exit
	full := make([]bool, n+1)
	for i := range full {
		full[i] = true
	}
	sets := make([][]bool, n+1)
	for i := 0; i < n; i++ {
		sets[i] = append([]bool(nil), full...)
	}
	sets[n] = make([]bool, n+1)
	sets[n][n] = true
	succs := func(i int) []int {
		b := fn.Blocks[i]
		if len(b.Succs) == 0 {
			return []int{n}
		}
		var out []int
		for _, s := range b.Succs {
			out = append(out, s.Index)
		}
		return out
	}
	changed := true
	for changed {
		changed = false
		for i := n - 1; i >= 0; i-- {
			nw := append([]bool(nil), full...)
			for _, s := range succs(i) {
				for k := range nw {
					nw[k] = nw[k] && sets[s][k]
				}
			}
			nw[i] = true
			for k := range nw {
				if nw[k] != sets[i][k] {
					changed = true
				}
			}
			sets[i] = nw
		}
	}
	res := map[*ssa.BasicBlock]*ssa.BasicBlock{}
	for i := 0; i < n; i++ {
		// immediate post-dominator: the strict post-dominator that is post-dominated by all other strict ones
		var cand []int
		for k := 0; k <= n; k++ {
			if k != i && sets[i][k] {
				cand = append(cand, k)
			}
		}
		best := -1
		for _, c := range cand {
			ok := true
			for _, d := range cand {
				if d != c && !sets[c][d] {
					ok = false
					break
				}
			}
			if ok {
				best = c
				break
			}
		}
		if best >= 0 && best < n {
			res[fn.Blocks[i]] = fn.Blocks[best]
		}
	}
	return res
}

// mergeable: the region between b's successors and D is small, loop-free,
// has no exits, and stays inside the loop (if any) that contains b.
func (fc *funcCtx) mergeable(b, D *ssa.BasicBlock, st *State) bool {
	// opt-in per function (`note merge-branches`): merged states carry ite-terms that can slow
	// the solver down on functions that do not need them
	on := false
	for _, n := range fc.con.Notes {
		if strings.HasPrefix(n, "merge-branches") {
			on = true
		}
	}
	if !on || D == nil || fc.loops[D] != nil {
		return false
	}
	var cur *Loop
	if len(st.loops) > 0 {
		cur = st.loops[len(st.loops)-1].L
	}
	if cur != nil && !cur.Blocks[D] {
		return false
	}
	seen := map[*ssa.BasicBlock]bool{}
	stack := append([]*ssa.BasicBlock(nil), b.Succs...)
	for len(stack) > 0 {
		x := stack[len(stack)-1]
		stack = stack[:len(stack)-1]
		if x == D || seen[x] {
			continue
		}
		seen[x] = true
		if len(seen) > 24 || fc.loops[x] != nil || x == b {
			return false
		}
		if cur != nil && !cur.Blocks[x] {
			return false
		}
		if len(x.Instrs) == 0 {
			return false
		}
		switch x.Instrs[len(x.Instrs)-1].(type) {
		case *ssa.If, *ssa.Jump:
		default:
			return false
		}
		for _, ins := range x.Instrs {
			switch ins.(type) {
			case *ssa.Go, *ssa.Defer, *ssa.RunDefers, *ssa.Send, *ssa.Select, *ssa.MakeClosure:
				return false
			}
		}
		stack = append(stack, x.Succs...)
	}
	return true
}

func valueKey(v Value) string {
	switch x := v.(type) {
	case Sc:
		return "S|" + x.S + "|" + x.T
	case SliceV:
		return "L|" + x.Ref + "|" + x.Off + "|" + x.Len + "|" + x.Cap + "|" + x.Str
	case StructV:
		var b strings.Builder
		b.WriteString("T{")
		for _, f := range x.F {
			b.WriteString(valueKey(f))
			b.WriteString(";")
		}
		b.WriteString("}")
		return b.String()
	case TupleV:
		var b strings.Builder
		b.WriteString("U{")
		for _, f := range x {
			b.WriteString(valueKey(f))
			b.WriteString(";")
		}
		b.WriteString("}")
		return b.String()
	case IfaceV:
		return "I|" + x.Nil + "|" + x.Tag
	case PtrV:
		return fmt.Sprintf("P|%v|%v|%v|%s|%s|%s|%v", x.Cell, x.Path, x.Heap, x.Ref, x.Idx, x.IsNil, x.OSeq)
	case MapV:
		return fmt.Sprintf("M|%v|%s", x.Global, x.ID)
	case ChanV:
		return "C|" + x.ID
	case FuncV:
		return fmt.Sprintf("F|%p|%d", x.Fn, len(x.Bind))
	case IterV:
		return fmt.Sprintf("R|%v", x.Key)
	case OSeqV:
		return "Q|" + x.Owner + "|" + x.Field
	case OpaqueV:
		return "O|" + x.Why
	case nil:
		return "nil"
	}
	return fmt.Sprintf("?%T", v)
}

// mergeValue builds ite(c, a, b); ok=false when the two values cannot be merged.
func mergeValue(c string, a, b Value) (Value, bool) {
	if valueKey(a) == valueKey(b) {
		return a, true
	}
	ite := func(x, y string) string {
		if x == y {
			return x
		}
		return fmt.Sprintf("(ite %s %s %s)", c, x, y)
	}
	switch x := a.(type) {
	case Sc:
		y, ok := b.(Sc)
		if !ok || x.S != y.S {
			return nil, false
		}
		return Sc{ite(x.T, y.T), x.S}, true
	case SliceV:
		y, ok := b.(SliceV)
		if !ok {
			return nil, false
		}
		r := SliceV{Ref: ite(x.Ref, y.Ref), Off: ite(x.Off, y.Off), Len: ite(x.Len, y.Len), Cap: ite(x.Cap, y.Cap), Elem: x.Elem}
		if x.Str == y.Str {
			r.Str = x.Str
		}
		return r, true
	case StructV:
		y, ok := b.(StructV)
		if !ok || len(x.F) != len(y.F) {
			return nil, false
		}
		n := StructV{T: x.T}
		for i := range x.F {
			m, ok := mergeValue(c, x.F[i], y.F[i])
			if !ok {
				return nil, false
			}
			n.F = append(n.F, m)
		}
		return n, true
	case TupleV:
		y, ok := b.(TupleV)
		if !ok || len(x) != len(y) {
			return nil, false
		}
		var n TupleV
		for i := range x {
			m, ok := mergeValue(c, x[i], y[i])
			if !ok {
				return nil, false
			}
			n = append(n, m)
		}
		return n, true
	case IfaceV:
		y, ok := b.(IfaceV)
		if !ok {
			return nil, false
		}
		tx, ty := x.Tag, y.Tag
		if tx == "" {
			tx = "0"
		}
		if ty == "" {
			ty = "0"
		}
		return IfaceV{Nil: ite(x.Nil, y.Nil), Tag: ite(tx, ty)}, true
	case PtrV:
		y, ok := b.(PtrV)
		if !ok {
			return nil, false
		}
		if x.Heap && y.Heap && x.OSeq == nil && y.OSeq == nil && fmt.Sprint(x.Path) == fmt.Sprint(y.Path) {
			return PtrV{Heap: true, Ref: ite(x.Ref, y.Ref), Idx: ite(x.Idx, y.Idx), Elem: x.Elem, Path: x.Path, IsNil: ite(x.IsNil, y.IsNil)}, true
		}
		return nil, false
	case OSeqV:
		y, ok := b.(OSeqV)
		if !ok || x.Field != y.Field || x.Sort != y.Sort {
			return nil, false
		}
		return OSeqV{Owner: ite(x.Owner, y.Owner), Sort: x.Sort, Field: x.Field, Elem: x.Elem}, true
	case OpaqueV:
		if _, ok := b.(OpaqueV); ok {
			return x, true
		}
	}
	return nil, false
}

// mergeStates merges the states that reached the join point. conds[i] is the
// conjunction of the branch conditions taken by state i since the fork.
func (fc *funcCtx) mergeStates(base *State, factsAt, declsAt int, states []*State) (*State, bool) {
	if len(states) == 1 {
		return states[0], true
	}
	// structural agreement
	first := states[0]
	for _, s := range states[1:] {
		if len(s.loops) != len(first.loops) || len(s.defers) != len(first.defers) || len(s.stops) != len(first.stops) {
			return nil, false
		}
		for i := range s.loops {
			if s.loops[i].L != first.loops[i].L || s.loops[i].VarAt0 != first.loops[i].VarAt0 {
				return nil, false
			}
		}
	}
	conds := make([]string, len(states))
	for i, s := range states {
		conds[i] = and(s.pcond[len(base.pcond):]...)
	}
	m := first.clone()
	m.facts = append([]string(nil), first.facts[:factsAt]...)
	m.decls = nil
	seenDecl := map[string]bool{}
	for _, s := range states {
		for _, d := range s.decls {
			if !seenDecl[d] {
				seenDecl[d] = true
				m.decls = append(m.decls, d)
			}
		}
	}
	m.known = map[string]bool{}
	for k, v := range first.known {
		all := true
		for _, s := range states[1:] {
			if w, ok := s.known[k]; !ok || w != v {
				all = false
				break
			}
		}
		if all {
			m.known[k] = v
		}
	}
	for i, s := range states {
		for _, f := range s.facts[factsAt:] {
			m.facts = append(m.facts, implies(conds[i], f))
		}
	}
	m.facts = append(m.facts, or(conds...))
	m.pcond = append([]string(nil), base.pcond...)
	// fold a family of per-state values into one ite chain
	fold := func(get func(s *State) (Value, bool)) (Value, bool, bool) {
		var acc Value
		have := false
		for i := len(states) - 1; i >= 0; i-- {
			v, ok := get(states[i])
			if !ok {
				return nil, false, true // absent in some state: drop the key
			}
			if !have {
				acc, have = v, true
				continue
			}
			nv, ok := mergeValue(conds[i], v, acc)
			if !ok {
				return nil, false, false
			}
			acc = nv
		}
		return acc, true, true
	}
	m.cells = map[interface{}]Value{}
	for k := range first.cells {
		k := k
		v, present, ok := fold(func(s *State) (Value, bool) { x, h := s.cells[k]; return x, h })
		if !ok {
			return nil, false
		}
		if present {
			if sc, isSc := v.(Sc); isSc && len(sc.T) > 1500 {
				// an ite over two long texts repeats what they share: name it, or n joins cost 2^n characters
				c := m.freshConst("mrg", sc.S)
				m.facts = append(m.facts, app("=", c, sc.T))
				v = Sc{c, sc.S}
			}
			m.cells[k] = v
		}
	}
	m.regs = map[ssa.Value]Value{}
	for k := range first.regs {
		k := k
		v, present, ok := fold(func(s *State) (Value, bool) { x, h := s.regs[k]; return x, h })
		if !ok {
			// a register that differs irreconcilably and is dead after the join does no harm; drop it
			continue
		}
		if present {
			m.regs[k] = v
		}
	}
	m.named = map[string]interface{}{}
	for k, c := range first.named {
		same := true
		for _, s := range states[1:] {
			if s.named[k] != c {
				same = false
			}
		}
		if same {
			m.named[k] = c
		}
	}
	m.heaps = map[string]string{}
	keys := map[string]bool{}
	for _, s := range states {
		for k := range s.heaps {
			keys[k] = true
		}
	}
	for k := range keys {
		// a heap first touched inside one branch gets its entry symbol in the others
		for _, s := range states {
			if _, ok := s.heaps[k]; !ok {
				s.heaps[k] = fc.heap(m, k)
			}
		}
		acc := states[len(states)-1].heaps[k]
		for i := len(states) - 2; i >= 0; i-- {
			if states[i].heaps[k] != acc {
				acc = fmt.Sprintf("(ite %s %s %s)", conds[i], states[i].heaps[k], acc)
			}
		}
		m.heaps[k] = acc
	}
	// the lazily created entry heaps must be declared
	for _, d := range m.decls {
		seenDecl[d] = true
	}
	m.ghost = map[string]Value{}
	for k := range first.ghost {
		k := k
		v, present, ok := fold(func(s *State) (Value, bool) { x, h := s.ghost[k]; return x, h })
		if !ok {
			return nil, false
		}
		if present {
			m.ghost[k] = v
		}
	}
	// maps and channels: only identical states are merged
	for id, ms := range first.maps {
		for _, s := range states[1:] {
			o := s.maps[id]
			if o == nil || o.Dom != ms.Dom || o.Val != ms.Val {
				return nil, false
			}
		}
	}
	for _, s := range states[1:] {
		if len(s.maps) != len(first.maps) || len(s.chans) != len(first.chans) {
			return nil, false
		}
	}
	for id, cs := range first.chans {
		for _, s := range states[1:] {
			o := s.chans[id]
			if o == nil || o.Closed != cs.Closed || o.NSent != cs.NSent {
				return nil, false
			}
		}
	}
	// allocation counter: at least every branch's
	nb := m.freshConst("allocbase", SInt)
	for i, s := range states {
		m.facts = append(m.facts, implies(conds[i], app("<=", plus(s.allocBase, smtInt(int64(s.allocOff))), nb)))
	}
	m.allocBase, m.allocOff = nb, 0
	m.trace = append(append([]string(nil), base.trace...), fmt.Sprintf("M%d", len(states)))
	m.stops = base.stops
	m.prev = nil
	return m, true
}
