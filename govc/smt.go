package main

import (
	"bytes"
	"context"
	"fmt"
	"os"
	"os/exec"
	"path/filepath"
	"strings"
	"sync"
	"time"
)

// Scalar SMT sorts used by the engine.
const (
	SInt  = "Int"
	SBool = "Bool"
	SReal = "Real"
	SStr  = "Str"
)

const preludeStr = `; --- govc prelude: strings as an abstract sort with length/at, Go integer division ---
(declare-sort Str 0)
(declare-fun gs.len (Str) Int)
(declare-fun gs.at (Str Int) Int)
(declare-fun gs.cat (Str Str) Str)
(declare-fun gs.sub (Str Int Int) Str)
(declare-fun gs.chr (Int) Str)
(declare-const gs.empty Str)
(assert (= (gs.len gs.empty) 0))
(assert (forall ((a Str)) (! (>= (gs.len a) 0) :pattern ((gs.len a)))))
(assert (forall ((a Str) (i Int)) (! (and (<= 0 (gs.at a i)) (< (gs.at a i) 256)) :pattern ((gs.at a i)))))
(assert (forall ((a Str) (b Str)) (! (= (gs.len (gs.cat a b)) (+ (gs.len a) (gs.len b))) :pattern ((gs.cat a b)))))
(assert (forall ((a Str) (b Str) (i Int)) (! (=> (and (<= 0 i) (< i (gs.len a))) (= (gs.at (gs.cat a b) i) (gs.at a i))) :pattern ((gs.at (gs.cat a b) i)))))
(assert (forall ((a Str) (b Str) (i Int)) (! (=> (and (<= (gs.len a) i) (< i (+ (gs.len a) (gs.len b)))) (= (gs.at (gs.cat a b) i) (gs.at b (- i (gs.len a))))) :pattern ((gs.at (gs.cat a b) i)))))
(assert (forall ((a Str) (lo Int) (hi Int)) (! (=> (and (<= 0 lo) (<= lo hi) (<= hi (gs.len a))) (= (gs.len (gs.sub a lo hi)) (- hi lo))) :pattern ((gs.sub a lo hi)))))
(assert (forall ((a Str) (lo Int) (hi Int) (i Int)) (! (=> (and (<= 0 lo) (<= lo hi) (<= hi (gs.len a)) (<= 0 i) (< i (- hi lo))) (= (gs.at (gs.sub a lo hi) i) (gs.at a (+ lo i)))) :pattern ((gs.at (gs.sub a lo hi) i)))))
(assert (forall ((c Int)) (! (= (gs.len (gs.chr c)) 1) :pattern ((gs.chr c)))))
(assert (forall ((c Int)) (! (=> (and (<= 0 c) (< c 256)) (= (gs.at (gs.chr c) 0) c)) :pattern ((gs.chr c)))))
(assert (forall ((a Str) (lo Int) (k Int)) (! (=> (and (<= 0 lo) (<= lo k) (< k (gs.len a))) (= (gs.cat (gs.sub a lo k) (gs.chr (gs.at a k))) (gs.sub a lo (+ k 1)))) :pattern ((gs.cat (gs.sub a lo k) (gs.chr (gs.at a k)))))))
(define-fun gs.same ((a Str) (b Str)) Bool (and (= (gs.len a) (gs.len b)) (forall ((i Int)) (! (=> (and (<= 0 i) (< i (gs.len a))) (= (gs.at a i) (gs.at b i))) :pattern ((gs.at a i)) :pattern ((gs.at b i))))))
(declare-fun gs.eq (Str Str) Bool)
(assert (forall ((a Str) (b Str)) (! (and (= (gs.eq a b) (= a b)) (= (gs.eq a b) (gs.same a b))) :pattern ((gs.eq a b)))))
(declare-fun gs.lt (Str Str) Bool)
(assert (forall ((a Str)) (! (not (gs.lt a a)) :pattern ((gs.lt a a)))))
(assert (forall ((a Str) (b Str)) (! (or (gs.lt a b) (gs.lt b a) (= a b)) :pattern ((gs.lt a b)))))
(assert (forall ((a Str) (b Str)) (! (not (and (gs.lt a b) (gs.lt b a))) :pattern ((gs.lt a b)))))
(declare-fun err.msg (Int) Str)
(define-fun gs.ascii ((a Str)) Bool (forall ((i Int)) (! (=> (and (<= 0 i) (< i (gs.len a))) (< (gs.at a i) 128)) :pattern ((gs.at a i)))))
`

// element positions inside a backing row; only in scripts that mention them, so that scripts
// over tables and integers stay quantifier-free (and fail with a model)
const preludeIx = `; --- govc prelude: element positions ---
(declare-fun gs.ix (Int Int) Int)
(declare-fun gs.ixinv (Int Int) Int)
(assert (forall ((o Int) (i Int)) (! (= (gs.ixinv o (gs.ix o i)) i) :pattern ((gs.ix o i)))))
(declare-fun gs.pos (Int) Int)
(assert (forall ((o Int) (i Int)) (! (= (gs.pos (gs.ix o i)) (+ o i)) :pattern ((gs.ix o i)))))
(assert (forall ((i Int)) (! (= (gs.ix 0 i) i) :pattern ((gs.ix 0 i)))))
`

const preludeArith = `; --- govc prelude: Go integer division ---
(define-fun go.div ((a Int) (b Int)) Int (ite (>= a 0) (ite (> b 0) (div a b) (- (div a (- b)))) (ite (> b 0) (- (div (- a) b)) (div (- a) (- b)))))
(define-fun go.mod ((a Int) (b Int)) Int (- a (* b (go.div a b))))
(define-fun go.max ((a Int) (b Int)) Int (ite (>= a b) a b))
(define-fun go.min ((a Int) (b Int)) Int (ite (<= a b) a b))
`

type SolveResult struct {
	Status string  // unsat | sat | unknown | timeout | error
	Solver string  // which back end gave the definitive answer
	Secs   float64 // wall time of the winning solver
	Output string  // raw output (first lines) of the winning / last solver
	Model  string
}

type solverSpec struct {
	name string
	args func(file string, secs int) []string
	prep func(script string) string
}

func dialectZ3(s string) string { return s }

// cvc5 needs a logic and produce-models before it; (- 1) literals are already emitted that way.
func dialectCVC5(s string) string {
	return "(set-option :produce-models true)\n(set-logic ALL)\n" + s
}

var solvers = []solverSpec{
	{"z3-new-5.1.0", func(f string, t int) []string { return []string{"z3-new", fmt.Sprintf("-T:%d", t), f} }, dialectZ3},
	{"z3-4.8.12", func(f string, t int) []string { return []string{"z3", fmt.Sprintf("-T:%d", t), f} }, dialectZ3},
	{"cvc5-1.0", func(f string, t int) []string {
		return []string{"cvc5", fmt.Sprintf("--tlimit=%d", t*1000), f}
	}, dialectCVC5},
}

func seeded(n int) func(string) string {
	return func(s string) string {
		return fmt.Sprintf("(set-option :smt.random_seed %d)\n(set-option :sat.random_seed %d)\n", n, n) + s
	}
}

// extra configurations raced only when the first round gave no answer: the same
// solvers with other random seeds (unstable quantifier instantiation is the usual
// reason for a time-out on a provable goal)
var moreSolvers = []solverSpec{
	{"z3-new-5.1.0", func(f string, t int) []string { return []string{"z3-new", fmt.Sprintf("-T:%d", t), f} }, seeded(7)},
	{"z3-new-5.1.0", func(f string, t int) []string { return []string{"z3-new", fmt.Sprintf("-T:%d", t), f} }, seeded(23)},
	{"z3-new-5.1.0", func(f string, t int) []string { return []string{"z3-new", fmt.Sprintf("-T:%d", t), f} }, seeded(101)},
	{"z3-4.8.12", func(f string, t int) []string { return []string{"z3", fmt.Sprintf("-T:%d", t), f} }, seeded(11)},
	{"z3-4.8.12", func(f string, t int) []string { return []string{"z3", fmt.Sprintf("-T:%d", t), f} }, seeded(37)},
}

var smtFileCounter int
var smtFileMu sync.Mutex

// raceSolvers writes the script once per dialect and races all installed solvers.
func raceSolvers(workdir, tag, script string, secs int, wantModel bool) SolveResult {
	return raceWith(solvers, workdir, tag, script, secs, wantModel)
}

func raceWith(solvers []solverSpec, workdir, tag, script string, secs int, wantModel bool) SolveResult {
	smtFileMu.Lock()
	smtFileCounter++
	n := smtFileCounter
	smtFileMu.Unlock()
	base := filepath.Join(workdir, fmt.Sprintf("q%05d_%s", n, sanitize(tag)))
	ctx, cancel := context.WithTimeout(context.Background(), time.Duration(secs+2)*time.Second)
	defer cancel()
	type res struct {
		r SolveResult
	}
	ch := make(chan SolveResult, len(solvers))
	for si, sv := range solvers {
		sv := sv
		si := si
		go func() {
			file := base + "." + strings.SplitN(sv.name, "-", 2)[0] + sv.name[len(sv.name)-1:] + ".smt2"
			if si >= 3 || len(solvers) != 3 {
				file = fmt.Sprintf("%s.c%d.smt2", base, si)
			}
			body := sv.prep(script + "(check-sat)\n")
			if err := os.WriteFile(file, []byte(body), 0644); err != nil {
				ch <- SolveResult{Status: "error", Solver: sv.name, Output: err.Error()}
				return
			}
			a := sv.args(file, secs)
			t0 := time.Now()
			cmd := exec.CommandContext(ctx, a[0], a[1:]...)
			var out bytes.Buffer
			cmd.Stdout = &out
			cmd.Stderr = &out
			_ = cmd.Run()
			el := time.Since(t0).Seconds()
			first := strings.TrimSpace(strings.SplitN(out.String(), "\n", 2)[0])
			st := "unknown"
			switch {
			case first == "unsat":
				st = "unsat"
			case first == "sat":
				st = "sat"
			case strings.Contains(first, "timeout") || ctx.Err() != nil:
				st = "timeout"
			case strings.HasPrefix(first, "(error") || strings.Contains(out.String(), "(error"):
				st = "error"
			}
			o := out.String()
			if len(o) > 2000 {
				o = o[:2000]
			}
			r := SolveResult{Status: st, Solver: sv.name, Secs: el, Output: o}
			if st == "sat" && wantModel {
				mfile := file + ".model.smt2"
				_ = os.WriteFile(mfile, []byte(sv.prep("(set-option :produce-models true)\n"+script+"(check-sat)\n(get-model)\n")), 0644)
				if sv.name == "cvc5-1.0" {
					_ = os.WriteFile(mfile, []byte(sv.prep(script+"(check-sat)\n(get-model)\n")), 0644)
				}
				a2 := sv.args(mfile, secs)
				c2 := exec.Command(a2[0], a2[1:]...)
				var o2 bytes.Buffer
				c2.Stdout = &o2
				_ = c2.Run()
				r.Model = o2.String()
			}
			ch <- r
		}()
	}
	var last SolveResult
	var errs []string
	got := 0
	for got < len(solvers) {
		r := <-ch
		got++
		if r.Status == "unsat" || r.Status == "sat" {
			cancel()
			return r
		}
		if r.Status == "error" {
			errs = append(errs, r.Solver+": "+firstLine(r.Output))
		}
		if last.Status == "" || r.Status == "timeout" || (last.Status == "error" && r.Status != "error") {
			last = r
		}
	}
	if len(errs) == len(solvers) {
		last.Status = "error"
		last.Output = strings.Join(errs, " | ")
	}
	return last
}

func firstLine(s string) string { return strings.TrimSpace(strings.SplitN(s, "\n", 2)[0]) }

func sanitize(s string) string {
	var b strings.Builder
	for _, c := range s {
		if (c >= 'a' && c <= 'z') || (c >= 'A' && c <= 'Z') || (c >= '0' && c <= '9') || c == '_' || c == '-' || c == '.' {
			b.WriteRune(c)
		} else {
			b.WriteByte('_')
		}
	}
	s = b.String()
	if len(s) > 80 {
		s = s[:80]
	}
	return s
}

// ---- term helpers ----

func smtInt(n int64) string {
	if n < 0 {
		return fmt.Sprintf("(- %d)", -n)
	}
	return fmt.Sprintf("%d", n)
}

func and(xs ...string) string {
	var ys []string
	for _, x := range xs {
		if x == "true" || x == "" {
			continue
		}
		ys = append(ys, x)
	}
	switch len(ys) {
	case 0:
		return "true"
	case 1:
		return ys[0]
	}
	return "(and " + strings.Join(ys, " ") + ")"
}
func or(xs ...string) string {
	switch len(xs) {
	case 0:
		return "false"
	case 1:
		return xs[0]
	}
	return "(or " + strings.Join(xs, " ") + ")"
}
func not(x string) string {
	if x == "true" {
		return "false"
	}
	if x == "false" {
		return "true"
	}
	if strings.HasPrefix(x, "(not ") && balanced(x[5:len(x)-1]) {
		return x[5 : len(x)-1]
	}
	return "(not " + x + ")"
}
func balanced(s string) bool {
	d := 0
	for _, c := range s {
		if c == '(' {
			d++
		} else if c == ')' {
			d--
			if d < 0 {
				return false
			}
		}
	}
	return d == 0
}
func implies(a, b string) string {
	if a == "true" {
		return b
	}
	return "(=> " + a + " " + b + ")"
}
func app(f string, args ...string) string { return "(" + f + " " + strings.Join(args, " ") + ")" }

func plus(a, b string) string {
	if a == "0" {
		return b
	}
	if b == "0" {
		return a
	}
	return "(+ " + a + " " + b + ")"
}

func minus(a, b string) string {
	if b == "0" {
		return a
	}
	return "(- " + a + " " + b + ")"
}

// elemIx: index of element i of a slice with offset off in its row. For a
// symbolic offset the sum is wrapped in an uninterpreted function so that
// quantifier patterns over slice elements match modulo arithmetic rewriting.
func elemIx(off, i string) string {
	if off == "0" {
		return i
	}
	return "(gs.ix " + off + " " + i + ")"
}

// catTerm builds a concatenation in left-nested normal form: a + (b + c) is written
// (a + b) + c. Concatenation is associative for strings, the solver is not told so (the
// axiom destabilises proofs), and code that writes "x" and then " " must denote the same
// text as code that writes "x"+" " at once.
func catTerm(a, b string) string {
	if strings.HasPrefix(b, "(gs.cat ") {
		if b1, b2, ok := splitTwoArgs(b[len("(gs.cat ") : len(b)-1]); ok {
			return catTerm(catTerm(a, b1), b2)
		}
	}
	return app("gs.cat", a, b)
}

// splitTwoArgs splits "<sexp> <sexp>" into its two s-expressions.
func splitTwoArgs(s string) (string, string, bool) {
	depth := 0
	for i := 0; i < len(s); i++ {
		switch s[i] {
		case '(':
			depth++
		case ')':
			depth--
		case ' ':
			if depth == 0 {
				a, b := s[:i], strings.TrimSpace(s[i+1:])
				// the rest must be exactly one s-expression
				d := 0
				for j := 0; j < len(b); j++ {
					switch b[j] {
					case '(':
						d++
					case ')':
						d--
					case ' ':
						if d == 0 {
							return "", "", false
						}
					}
				}
				return a, b, a != "" && b != ""
			}
		}
	}
	return "", "", false
}
